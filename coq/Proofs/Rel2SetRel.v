(** * Rel2SetRel: work package B of the relation tier, SetRelations.

    [w_set_relations e rels] moves the entity to the table of its archetype whose targets are the
    old ones with the named relation components re-targeted; the row is copied column by column
    ([copy_all]), the old row swap-removed, the new targets registered.

    FINDING (repaired since; see the regression examples at the end). The first version of this file
    refuted the unconditional statement of Rel2Plan (B_set_relations_spec): if the relation list
    computed by getExchangeTargets equalled the table's own although "changed" was reported, GetTable
    returned the entity's own table and the row was "moved" into the same table, which left the entity
    index pointing beyond the table's length (entity lost, [WF] broken). Two ways to get there: naming
    a NON-relation component with a non-zero target, or naming a relation component twice so that the
    last assignment restored the current target. Both were confirmed on the Go code and repaired
    (getExchangeTargets rejects duplicates and non-relation columns; mirrored in [exchange_targets]).
    With the repair these are failure causes, and the theorem [r2b_set_relations_spec_noobs] needs no
    validity assumption beyond "the targets are proper handles" (zero, stored, or recognisably dead; a
    dead target is a failure cause too, through createTable's check). Observers on the two relation
    events are assumed absent ([_noobs]): with observers the call can fail inside a callback after
    the table was created or after the row was moved. *)
From Ark Require Import Model.Base Model.Mask Model.Pool Model.Util Model.World Model.Run.
From Ark Require Import Proofs.TableProofs Proofs.MaskProofs Proofs.WF Proofs.StorageA Proofs.StorageBDefs
  Proofs.StorageB_sb2 Proofs.StorageB_sb3 Proofs.RelProofs Proofs.BatchProofs Proofs.Rel2Defs Proofs.Rel2Struct
  Proofs.Rel2Remove.
From Ark Require Properties.Common Proofs.Rel2Check.
From RecordUpdate Require Import RecordSet.
Import RecordSetNotations.
From Coq Require Import Lia Permutation.

(* ================================================================================================ *)
(** * Part 1: the move of one row between two tables of one archetype (copy_all) *)

Definition r2b_cbody (src dst row nidx : nat) (i : nat) : MW unit :=
  st <- getT src ;; dt <- getT dst ;;
  match nth_error (t_cols st) i, nth_error (t_kinds dt) i with
  | Some sc, Some k => modT dst (fun t => t <| t_cols ::= updf i (fun dc => col_set k dc nidx sc row) |>)
  | _, _ => fail EIndex
  end.

Lemma r2b_copy_all_eq : forall src dst row nidx,
  copy_all src dst row nidx = (st <- getT src ;; forM_ (seq 0 (length (t_cols st))) (r2b_cbody src dst row nidx)).
Proof. reflexivity. Qed.

Lemma r2b_copy_loop : forall otid ntid row nidx ot l s nt,
  otid <> ntid -> nth_error (w_tables s) otid = Some ot -> nth_error (w_tables s) ntid = Some nt ->
  tbl_ok nt -> nidx < t_len nt -> NoDup l ->
  (forall i, In i l -> exists src k v, nth_error (t_cols ot) i = Some src /\ nth_error (t_kinds nt) i = Some k /\
     nth_error src row = Some v /\ (ck_zs k = true -> forall r, nth r src 0%Z = 0%Z)) ->
  exists nt', forM_ l (r2b_cbody otid ntid row nidx) s = Ok tt (sb2_setT s (upd ntid nt' (w_tables s))) /\
    tbl_ok nt' /\ sb2_meta nt nt' /\ t_len nt' = t_len nt /\ t_ents nt' = t_ents nt /\
    (forall ci r, r <> nidx -> cell nt' ci r = cell nt ci r) /\
    (forall i, cell nt' i nidx = if memb i l then cell ot i row else cell nt i nidx).
Proof.
  intros otid ntid row nidx ot l. induction l as [|i l IH]; intros s nt Hne Hot Hnt Hok Hn Hnd Hpre.
  - exists nt. split.
    + cbn [forM_]. unfold ret. rewrite (sb2_upd_same _ _ _ _ Hnt), sb2_setT_id. reflexivity.
    + split; [assumption|]. split; [apply sb2_meta_refl|]. repeat split; auto.
  - inversion Hnd as [|? ? Hnin Hnd']; subst. cbn [forM_].
    destruct (Hpre i (or_introl eq_refl)) as (src & k & v & Esrc & Ek & Ev & Hz).
    set (nt1 := nt <| t_cols ::= updf i (fun dst => col_set k dst nidx src row) |>).
    assert (Hbody : r2b_cbody otid ntid row nidx i s = Ok tt (sb2_setT s (upd ntid nt1 (w_tables s)))).
    { unfold r2b_cbody.
      erewrite sb2_bind_ok by (apply sb2_getT; eassumption).
      erewrite sb2_bind_ok by (apply sb2_getT; eassumption).
      rewrite Esrc, Ek. erewrite sb2_modT by eassumption. reflexivity. }
    erewrite sb2_bind_ok by exact Hbody.
    assert (Hz' : ck_zs k = true -> v = 0%Z).
    { intros Hzs. rewrite <- (Hz Hzs row). symmetry. apply nth_error_nth. exact Ev. }
    destruct (sb2_col_set_cell nt i k nidx src row v Hok Hn Ek Ev Hz') as (Hc1 & Hc2).
    fold nt1 in Hc1, Hc2.
    assert (Hok1 : tbl_ok nt1) by (apply col_set_ok; auto).
    assert (Hot1 : nth_error (w_tables (sb2_setT s (upd ntid nt1 (w_tables s)))) otid = Some ot).
    { cbn. rewrite sb2_nth_error_upd_ne by auto. exact Hot. }
    assert (Hnt1 : nth_error (w_tables (sb2_setT s (upd ntid nt1 (w_tables s)))) ntid = Some nt1).
    { cbn. eapply sb2_nth_error_upd_eq; eauto. }
    destruct (IH _ nt1 Hne Hot1 Hnt1 Hok1 Hn Hnd') as (nt' & Hrun & Hok' & Hmeta & Hlen & Hents & Hcell & Hcopy).
    { intros i' Hin. destruct (Hpre i' (or_intror Hin)) as (src' & k' & v' & P1 & P2 & P3 & P4).
      exists src', k', v'. repeat split; auto. }
    exists nt'. split.
    { rewrite Hrun. rewrite sb2_setT_setT.
      change (w_tables (sb2_setT s (upd ntid nt1 (w_tables s)))) with (upd ntid nt1 (w_tables s)).
      rewrite sb2_upd_upd. reflexivity. }
    split; [assumption|].
    split; [eapply sb2_meta_trans; [|exact Hmeta]; repeat split|].
    split; [rewrite Hlen; reflexivity|]. split; [rewrite Hents; reflexivity|].
    split.
    { intros ci r Hr. rewrite Hcell by assumption. apply Hc1. right. assumption. }
    intros i'. rewrite (Hcopy i'). rewrite sb2_memb_cons. destruct (Nat.eqb_spec i i') as [<-|Hii].
    * cbn [orb]. assert (Hml : memb i l = false) by (apply sb2_memb_false; assumption). rewrite Hml, Hc2.
      rewrite (cell_some _ _ _ _ Esrc). symmetry. apply nth_error_nth. exact Ev.
    * cbn [orb]. destruct (memb i' l); [reflexivity|]. apply Hc1. left. intros ->. apply Hii. reflexivity.
Qed.

(** what the move does to the destination table *)
Definition r2b_nt_facts (ot nt nt3 : table) (row : nat) (e : ent) : Prop :=
  tbl_ok nt3 /\ t_len nt3 = S (t_len nt) /\ sb2_meta nt nt3 /\ row_ent nt3 (t_len nt) = e /\
  (forall r, r < t_len nt -> row_ent nt3 r = row_ent nt r /\ forall ci, cell nt3 ci r = cell nt ci r) /\
  (forall ci, ci < length (t_ids nt) -> cell nt3 ci (t_len nt) = cell ot ci row).

Lemma r2b_mv_exec : forall s e otid row ntid ot nt, WF s -> room s ->
  live s e = true -> loc s e = Some (otid, row) -> otid <> ntid ->
  nth_error (w_tables s) otid = Some ot -> nth_error (w_tables s) ntid = Some nt -> t_arch ot = t_arch nt ->
  exists nt3 s2 s3 s4,
   tbl_addM ntid e s = Ok (t_len nt) s2 /\
   copy_all otid ntid row (t_len nt) s2 = Ok tt s3 /\
   remove_row otid row s3 = Ok tt s4 /\
   set_index_direct e ntid (t_len nt) s4 =
     Ok tt (sb2_st s (sb2_T' s otid ntid (snd (tbl_remove ot row)) nt3) (sb2_I' s e ntid row ot nt)) /\
   sb2_ot_facts ot (snd (tbl_remove ot row)) row /\ r2b_nt_facts ot nt nt3 row e /\ t_ids nt = t_ids ot.
Proof.
  intros s e otid row ntid ot nt HW Hroom Hlive Hloc Hne Hot Hnt Harch.
  destruct (sb2_mv_row _ _ _ _ _ Hlive Hloc Hot) as (Hrow & Hent).
  assert (Hsmall : t_len nt < Nat.pow 2 31).
  { pose proof (rows_le_pool s ntid nt HW Hnt) as H. unfold room in Hroom. set (P := Nat.pow 2 31) in *. clearbody P. lia. }
  pose proof (sb2_table_ok _ _ _ HW Hot) as Hoko. pose proof (sb2_table_ok _ _ _ HW Hnt) as Hokn.
  destruct (wf_layout _ HW otid ot Hot) as (a & Ha & Lido & Lko & _).
  destruct (wf_layout _ HW ntid nt Hnt) as (a' & Ha' & Lidn & Lkn & _). rewrite <- Harch, Ha in Ha'. injection Ha' as <-.
  assert (Eids : t_ids nt = t_ids ot) by congruence.
  assert (Ekinds : t_kinds nt = t_kinds ot) by (rewrite Lko, Lkn, Eids; reflexivity).
  pose proof (tbl_add_spec nt e Hokn Hsmall) as Hadd. pose proof (tbl_add_ok nt e Hokn Hsmall) as Hok2.
  destruct (tbl_add nt e) as [idx nt2] eqn:Eadd. cbn [snd] in Hok2.
  destruct Hadd as (Hidx & Hlen2 & Hent2 & Hz2 & Hc2 & He2 & G1 & G2 & G3 & G4 & G5 & G6). subst idx.
  set (s2 := sb2_setT s (upd ntid nt2 (w_tables s))).
  assert (Hot2 : nth_error (w_tables s2) otid = Some ot).
  { unfold s2. cbn. rewrite sb2_nth_error_upd_ne by auto. exact Hot. }
  assert (Hnt2 : nth_error (w_tables s2) ntid = Some nt2).
  { unfold s2. cbn. eapply sb2_nth_error_upd_eq; eauto. }
  pose proof (tbl_ok_elim _ Hoko) as (O1 & O2 & O3 & O4 & O5).
  destruct (r2b_copy_loop otid ntid row (t_len nt) ot (seq 0 (length (t_cols ot))) s2 nt2 Hne Hot2 Hnt2 Hok2)
    as (nt3 & Hrun & Hok3 & Hmeta3 & Hlen3 & Hents3 & Hcell3 & Hcopy3).
  { lia. }
  { apply seq_NoDup. }
  { intros i Hi. apply in_seq in Hi. destruct Hi as (_ & Hi). cbn in Hi.
    destruct (nth_error (t_cols ot) i) as [src|] eqn:Esrc; [|apply nth_error_None in Esrc; lia].
    assert (Hk : i < length (t_kinds ot)) by lia.
    destruct (nth_error (t_kinds ot) i) as [k|] eqn:Ek; [|apply nth_error_None in Ek; lia].
    destruct (O5 _ _ Esrc) as (L & _ & Zs).
    exists src, k, (nth row src 0%Z). split; [reflexivity|]. split; [rewrite G2, Ekinds; exact Ek|].
    split; [apply nth_error_nth'; lia|]. intros Hzs. apply (Zs k Ek Hzs). }
  set (s3 := sb2_setT s (upd ntid nt3 (w_tables s))).
  assert (Hs3 : sb2_setT s2 (upd ntid nt3 (w_tables s2)) = s3).
  { unfold s2, s3. rewrite sb2_setT_setT.
    change (w_tables (sb2_setT s (upd ntid nt2 (w_tables s)))) with (upd ntid nt2 (w_tables s)).
    rewrite sb2_upd_upd. reflexivity. }
  rewrite Hs3 in Hrun.
  assert (Hot3 : nth_error (w_tables s3) otid = Some ot).
  { unfold s3. cbn. rewrite sb2_nth_error_upd_ne by auto. exact Hot. }
  exists nt3, s2, s3. eexists.
  split.
  { rewrite (sb2_tbl_addM s ntid e nt Hnt). rewrite Eadd. reflexivity. }
  split.
  { rewrite r2b_copy_all_eq. erewrite sb2_bind_ok by (apply sb2_getT; exact Hot2). exact Hrun. }
  split.
  { rewrite (sb2_remove_row_eq s3 otid row ot Hot3 Hoko Hrow). reflexivity. }
  split.
  { reflexivity. }
  split.
  { apply sb2_ot_facts_remove; assumption. }
  split; [|exact Eids].
  destruct Hmeta3 as (M1 & M2 & M3 & M4 & M5 & M6).
  split; [assumption|]. split; [lia|]. split; [repeat split; congruence|].
  split.
  { unfold row_ent in *. rewrite Hents3. exact Hent2. }
  split.
  { intros r Hr. split.
    - unfold row_ent in *. rewrite Hents3. apply He2. assumption.
    - intros ci. rewrite Hcell3 by lia. apply Hc2. assumption. }
  intros ci Hci. rewrite (Hcopy3 ci).
  assert (Hm : memb ci (seq 0 (length (t_cols ot))) = true).
  { apply sb2_memb_In. apply in_seq. rewrite Eids in Hci. lia. }
  rewrite Hm. reflexivity.
Qed.

(** ** Post-conditions of the move (after [sb2_post] of StorageB_sb2, for [WF] alone, same archetype) *)

Section r2b_post.
Variables (s : W) (e : ent) (otid row ntid : nat) (ot nt : table) (ot' nt3 : table).
Hypothesis HW0 : WF s.
Hypothesis Hlive : live s e = true.
Hypothesis Hloc : loc s e = Some (otid, row).
Hypothesis Hot : nth_error (w_tables s) otid = Some ot.
Hypothesis Hnt : nth_error (w_tables s) ntid = Some nt.
Hypothesis Hne0 : otid <> ntid.
Hypothesis Hids : t_ids nt = t_ids ot.
Hypothesis Fo : sb2_ot_facts ot ot' row.
Hypothesis Fn : r2b_nt_facts ot nt nt3 row e.

Local Notation T' := (sb2_T' s otid ntid ot' nt3).
Local Notation I' := (sb2_I' s e ntid row ot nt).
Local Notation se := (row_ent ot (t_len ot - 1)).
Local Notation sw := (negb (Nat.eqb row (t_len ot - 1))).
Local Notation s' := (sb2_st s T' I').

Lemma r2b_p_ne : otid <> ntid.
Proof. exact Hne0. Qed.

Lemma r2b_p_row : row < t_len ot /\ row_ent ot row = e.
Proof. exact (sb2_mv_row _ _ _ _ _ Hlive Hloc Hot). Qed.

Lemma r2b_p_T : forall tid, nth_error T' tid =
  if Nat.eqb otid tid then Some ot' else if Nat.eqb ntid tid then Some nt3 else nth_error (w_tables s) tid.
Proof.
  intros tid. pose proof r2b_p_ne as Hne. unfold sb2_T'. rewrite !nth_error_upd.
  destruct (Nat.eqb_spec otid tid) as [<-|H1].
  - destruct (Nat.eqb_spec ntid otid); [congruence|]. rewrite Hot. reflexivity.
  - destruct (Nat.eqb_spec ntid tid) as [<-|H2]; [rewrite Hnt|]; reflexivity.
Qed.

Lemma r2b_p_Ie : nth_error (w_index s) (fst e) = Some (Some otid, row).
Proof. apply sb2_loc_iff. exact Hloc. Qed.

Lemma r2b_p_Ise : nth_error (w_index s) (fst se) = Some (Some otid, t_len ot - 1).
Proof.
  destruct r2b_p_row as (Hr & _). apply sb2_loc_iff.
  apply (wf_rows _ HW0 _ _ _ Hot). lia.
Qed.

Lemma r2b_p_I : forall id, nth_error I' id =
  if Nat.eqb (fst e) id then Some (Some ntid, t_len nt)
  else if (sw && Nat.eqb (fst se) id)%bool then Some (Some otid, row) else nth_error (w_index s) id.
Proof.
  intros id. pose proof r2b_p_Ie as Ie. pose proof r2b_p_Ise as Ise.
  unfold sb2_I'. rewrite nth_error_upd. destruct (Nat.eqb_spec (fst e) id) as [<-|H1].
  - destruct (Nat.eqb row (t_len ot - 1)); [rewrite Ie; reflexivity|].
    rewrite nth_error_updf. destruct (Nat.eqb (fst se) (fst e)); rewrite Ie; reflexivity.
  - destruct (Nat.eqb row (t_len ot - 1)); cbn [negb andb]; [reflexivity|].
    rewrite nth_error_updf. destruct (Nat.eqb_spec (fst se) id) as [<-|H2]; [|reflexivity].
    rewrite Ise. reflexivity.
Qed.

(** IDs of other rows differ from the IDs of [e] and of the swapped entity. *)
Lemma r2b_p_ne_e : forall tid t r, nth_error (w_tables s) tid = Some t -> r < t_len t ->
  (tid <> otid \/ r <> row) -> Nat.eqb (fst e) (fst (row_ent t r)) = false.
Proof.
  intros tid t r Ht Hr Hor. destruct r2b_p_row as (Hrow & Hent).
  destruct (Nat.eqb_spec (fst e) (fst (row_ent t r))) as [Heq|]; [|reflexivity].
  rewrite <- Hent in Heq.
  destruct (sb2_row_inj _ _ _ _ _ _ _ HW0 Hot Hrow Ht Hr Heq). destruct Hor; congruence.
Qed.

Lemma r2b_p_ne_se : forall tid t r, nth_error (w_tables s) tid = Some t -> r < t_len t ->
  (tid <> otid \/ r <> t_len ot - 1) -> Nat.eqb (fst se) (fst (row_ent t r)) = false.
Proof.
  intros tid t r Ht Hr Hor. destruct r2b_p_row as (Hrow & Hent).
  destruct (Nat.eqb_spec (fst se) (fst (row_ent t r))) as [Heq|]; [|reflexivity].
  assert (Hl : t_len ot - 1 < t_len ot) by lia.
  destruct (sb2_row_inj _ _ _ _ _ _ _ HW0 Hot Hl Ht Hr Heq). destruct Hor; congruence.
Qed.

Lemma r2b_p_WF : WF s'.
Proof.
  pose proof HW0 as HW. pose proof r2b_p_ne as Hne. destruct r2b_p_row as (Hrow & Hent).
  destruct Fo as (Oo & Lo & Mo & Swo & Resto).
  destruct Fn as (On & Ln & Mn & En & Restn & _).
  apply r2c_WF_reindex; auto.
  - intros tid t' E. rewrite r2b_p_T in E.
    destruct (Nat.eqb_spec otid tid) as [<-|H1]; [inversion E; subst t'; eauto|].
    destruct (Nat.eqb_spec ntid tid) as [<-|H2]; [inversion E; subst t'; eauto|].
    split; [eapply sb2_table_ok; eauto|]. exists t'. split; [assumption|apply sb2_meta_refl].
  - intros tid t E. rewrite r2b_p_T.
    destruct (Nat.eqb_spec otid tid) as [<-|H1]; [rewrite Hot in E; inversion E; subst t; eauto|].
    destruct (Nat.eqb_spec ntid tid) as [<-|H2]; [rewrite Hnt in E; inversion E; subst t; eauto|].
    exists t. split; [assumption|apply sb2_meta_refl].
  - unfold sb2_I'. rewrite upd_length. destruct (Nat.eqb row (t_len ot - 1)); [reflexivity|apply updf_length].
  - intros tid t' r E Hr. rewrite r2b_p_T in E. rewrite r2b_p_I.
    destruct (Nat.eqb_spec otid tid) as [<-|H1].
    { inversion E; subst t'; clear E. rewrite Lo in Hr.
      destruct (Nat.eq_dec r row) as [->|Hrr].
      - destruct (Swo Hr) as (Esw & _). rewrite Esw.
        assert (Hl : t_len ot - 1 < t_len ot) by lia.
        rewrite (r2b_p_ne_e otid ot (t_len ot - 1) Hot Hl) by lia.
        destruct (Nat.eqb_spec row (t_len ot - 1)); [lia|]. rewrite Nat.eqb_refl. cbn [negb andb].
        split; [reflexivity|]. apply (wf_rows _ HW _ _ _ Hot Hl).
      - destruct (Resto r Hr Hrr) as (Er & _). rewrite Er.
        assert (Hl : r < t_len ot) by lia.
        rewrite (r2b_p_ne_e otid ot r Hot Hl) by lia.
        rewrite (r2b_p_ne_se otid ot r Hot Hl) by lia. rewrite andb_false_r.
        destruct (wf_rows _ HW _ _ _ Hot Hl) as (A & B). split; [apply sb2_loc_iff; exact A|exact B]. }
    destruct (Nat.eqb_spec ntid tid) as [<-|H2].
    { inversion E; subst t'; clear E. rewrite Ln in Hr.
      destruct (Nat.eq_dec r (t_len nt)) as [->|Hrr].
      - rewrite En, Nat.eqb_refl. split; [reflexivity|].
        rewrite <- Hent. apply (wf_rows _ HW _ _ _ Hot Hrow).
      - assert (Hl : r < t_len nt) by lia. destruct (Restn r Hl) as (Er & _). rewrite Er.
        rewrite (r2b_p_ne_e ntid nt r Hnt Hl) by (left; congruence).
        rewrite (r2b_p_ne_se ntid nt r Hnt Hl) by (left; congruence). rewrite andb_false_r.
        destruct (wf_rows _ HW _ _ _ Hnt Hl) as (A & B). split; [apply sb2_loc_iff; exact A|exact B]. }
    rewrite (r2b_p_ne_e tid t' r E Hr) by (left; congruence).
    rewrite (r2b_p_ne_se tid t' r E Hr) by (left; congruence). rewrite andb_false_r.
    destruct (wf_rows _ HW _ _ _ E Hr) as (A & B). split; [apply sb2_loc_iff; exact A|exact B].
  - intros id tid r E. rewrite r2b_p_I in E.
    destruct (Nat.eqb_spec (fst e) id) as [<-|H1].
    { inversion E; subst tid r. exists nt3. rewrite r2b_p_T.
      destruct (Nat.eqb_spec otid ntid); [congruence|]. rewrite Nat.eqb_refl.
      split; [reflexivity|]. split; [lia|]. rewrite En. reflexivity. }
    destruct (Nat.eqb_spec row (t_len ot - 1)) as [Hlast|Hlast]; cbn [negb andb] in E.
    + destruct (wf_index _ HW _ _ _ E) as (t & Et & Hr & Hid).
      rewrite r2b_p_T. destruct (Nat.eqb_spec otid tid) as [<-|H3].
      { rewrite Hot in Et. inversion Et; subst t.
        assert (r <> row) by (intros ->; rewrite Hent in Hid; congruence).
        assert (Hl : r < t_len ot - 1) by lia.
        exists ot'. split; [reflexivity|]. split; [lia|].
        destruct (Resto r Hl H) as (Er & _). rewrite Er. assumption. }
      destruct (Nat.eqb_spec ntid tid) as [<-|H4].
      { rewrite Hnt in Et. inversion Et; subst t. exists nt3. split; [reflexivity|]. split; [lia|].
        destruct (Restn r Hr) as (Er & _). rewrite Er. assumption. }
      exists t. auto.
    + destruct (Nat.eqb_spec (fst se) id) as [<-|H2].
      { inversion E; subst tid r. exists ot'. rewrite r2b_p_T, Nat.eqb_refl.
        split; [reflexivity|]. assert (Hl : row < t_len ot - 1) by lia. split; [lia|].
        destruct (Swo Hl) as (Er & _). rewrite Er. reflexivity. }
      destruct (wf_index _ HW _ _ _ E) as (t & Et & Hr & Hid).
      rewrite r2b_p_T. destruct (Nat.eqb_spec otid tid) as [<-|H3].
      { rewrite Hot in Et. inversion Et; subst t.
        assert (r <> row) by (intros ->; rewrite Hent in Hid; congruence).
        assert (r <> t_len ot - 1) by (intros ->; congruence).
        assert (Hl : r < t_len ot - 1) by lia.
        exists ot'. split; [reflexivity|]. split; [lia|].
        destruct (Resto r Hl H) as (Er & _). rewrite Er. assumption. }
      destruct (Nat.eqb_spec ntid tid) as [<-|H4].
      { rewrite Hnt in Et. inversion Et; subst t. exists nt3. split; [reflexivity|]. split; [lia|].
        destruct (Restn r Hr) as (Er & _). rewrite Er. assumption. }
      exists t. auto.
  - intros id r E. rewrite r2b_p_I.
    destruct (Nat.eqb_spec (fst e) id) as [<-|H1]; [rewrite r2b_p_Ie in E; discriminate|].
    destruct (Nat.eqb_spec (fst se) id) as [<-|H2]; [rewrite r2b_p_Ise in E; discriminate|].
    rewrite andb_false_r. exact E.
  - intros id tid r E. rewrite r2b_p_I.
    destruct (Nat.eqb (fst e) id); [eauto|]. destruct (sw && Nat.eqb (fst se) id)%bool; eauto.
Qed.

Lemma r2b_p_loc_e : loc s' e = Some (ntid, t_len nt) /\ nth_error (w_tables s') ntid = Some nt3.
Proof.
  split.
  - apply sb2_loc_iff. change (w_index s') with I'. rewrite r2b_p_I, Nat.eqb_refl. reflexivity.
  - change (w_tables s') with T'. rewrite r2b_p_T. pose proof r2b_p_ne.
    destruct (Nat.eqb_spec otid ntid); [congruence|]. rewrite Nat.eqb_refl. reflexivity.
Qed.

Lemma r2b_p_live : live s' e = true.
Proof.
  destruct r2b_p_loc_e as (L & T). destruct Fn as (On & Ln & Mn & En & _).
  eapply sb2_live_intro; eauto. lia.
Qed.

Lemma r2b_p_val : forall c, val s' e c = val s e c.
Proof.
  intros c. pose proof HW0 as HW. destruct r2b_p_row as (Hrow & Hent).
  destruct r2b_p_loc_e as (L & T). destruct Fn as (On & Ln & Mn & En & Restn & Hcopy).
  destruct (sb2_live_at _ _ _ _ _ L T) as (_ & V'). destruct (sb2_live_at _ _ _ _ _ Hloc Hot) as (_ & V).
  unfold val. rewrite r2b_p_live, Hlive, V', V.
  destruct Mn as (_ & Mids & _). unfold tbl_colidx. rewrite Mids, Hids.
  destruct (index_of c (t_ids ot)) as [ci|] eqn:Eci; [|reflexivity].
  rewrite (Hcopy ci); [reflexivity|]. rewrite Hids. apply sb2_index_of_nth in Eci. eapply sa_nth_error_lt. exact Eci.
Qed.

Lemma r2b_p_tgt_e : forall c, tgt s' e c = tbl_target nt c.
Proof.
  intros c. destruct r2b_p_loc_e as (L & T). destruct Fn as (_ & _ & Mn & _).
  rewrite (r2c_tgt_at s' e ntid (t_len nt) nt3 L T c), r2b_p_live. apply r2c_tbl_target_meta. exact Mn.
Qed.

Lemma r2b_p_others : others_same s s' e.
Proof.
  intros x Hx. pose proof HW0 as HW. pose proof r2b_p_ne as Hne. destruct r2b_p_row as (Hrow & Hent).
  destruct Fo as (Oo & Lo & Mo & Swo & Resto).
  destruct Fn as (On & Ln & Mn & En & Restn & _).
  assert (Hcol_o : forall c, tbl_colidx ot' c = tbl_colidx ot c).
  { intros c. unfold tbl_colidx. destruct Mo as (_ & -> & _). reflexivity. }
  assert (Hcol_n : forall c, tbl_colidx nt3 c = tbl_colidx nt c).
  { intros c. unfold tbl_colidx. destruct Mn as (_ & -> & _). reflexivity. }
  assert (To : nth_error (w_tables s') otid = Some ot').
  { change (w_tables s') with T'. rewrite r2b_p_T, Nat.eqb_refl. reflexivity. }
  assert (Tn : nth_error (w_tables s') ntid = Some nt3) by apply r2b_p_loc_e.
  pose proof (r2b_p_I (fst x)) as HI.
  destruct (Nat.eqb_spec (fst e) (fst x)) as [Hfe|Hfe].
  { (* same ID as e, other generation: not live before or after *)
    assert (L' : loc s' x = Some (ntid, t_len nt)) by (apply sb2_loc_iff; exact HI).
    assert (L : loc s x = Some (otid, row)) by (apply sb2_loc_iff; rewrite <- Hfe; apply r2b_p_Ie).
    destruct (sb2_live_at _ _ _ _ _ L' Tn) as (A' & _). destruct (sb2_live_at _ _ _ _ _ L Hot) as (A & _).
    rewrite En in A'. rewrite Hent in A. rewrite (sb2_ent_eqb_ne e x) in A', A by congruence.
    rewrite andb_false_r in A', A. split; [congruence|]. intros c. unfold val. rewrite A', A. reflexivity. }
  destruct (Nat.eqb_spec row (t_len ot - 1)) as [Hlast|Hlast]; cbn [negb andb] in HI.
  - (* no swap *)
    destruct (nth_error (w_index s) (fst x)) as [[[tid|] r]|] eqn:Ex.
    + assert (L' : loc s' x = Some (tid, r)) by (apply sb2_loc_iff; exact HI).
      assert (L : loc s x = Some (tid, r)) by (apply sb2_loc_iff; exact Ex).
      destruct (wf_index _ HW _ _ _ Ex) as (t & Et & Hr & Hid).
      destruct (sb2_live_at _ _ _ _ _ L Et) as (A & V).
      destruct (Nat.eq_dec tid otid) as [->|H3].
      { rewrite Hot in Et. inversion Et; subst t.
        assert (r <> row) by (intros ->; rewrite Hent in Hid; congruence).
        assert (Hl : r < t_len ot - 1) by lia.
        destruct (Resto r Hl H) as (Er & Ec).
        destruct (sb2_live_at _ _ _ _ _ L' To) as (A' & V').
        apply sb2_same_at.
        - rewrite A', A, Er, Lo. destruct (Nat.ltb_spec r (t_len ot - 1)); [|lia].
          destruct (Nat.ltb_spec r (t_len ot)); [|lia]. reflexivity.
        - intros c. rewrite V', V, Hcol_o. destruct (tbl_colidx ot c); [rewrite Ec|]; reflexivity. }
      destruct (Nat.eq_dec tid ntid) as [->|H4].
      { rewrite Hnt in Et. inversion Et; subst t.
        destruct (Restn r Hr) as (Er & Ec).
        destruct (sb2_live_at _ _ _ _ _ L' Tn) as (A' & V').
        apply sb2_same_at.
        - rewrite A', A, Er, Ln. destruct (Nat.ltb_spec r (S (t_len nt))); [|lia].
          destruct (Nat.ltb_spec r (t_len nt)); [|lia]. reflexivity.
        - intros c. rewrite V', V, Hcol_n. destruct (tbl_colidx nt c); [rewrite Ec|]; reflexivity. }
      assert (Et' : nth_error (w_tables s') tid = Some t).
      { change (w_tables s') with T'. rewrite r2b_p_T.
        destruct (Nat.eqb_spec otid tid); [congruence|]. destruct (Nat.eqb_spec ntid tid); [congruence|]. exact Et. }
      destruct (sb2_live_at _ _ _ _ _ L' Et') as (A' & V').
      apply sb2_same_at; [congruence|]. intros c. rewrite V', V. reflexivity.
    + assert (L' : loc s' x = None) by (rewrite sb2_loc_st, HI; reflexivity).
      assert (L : loc s x = None) by (unfold loc; rewrite Ex; reflexivity).
      destruct (sb2_live_none _ _ L') as (A' & V'). destruct (sb2_live_none _ _ L) as (A & V).
      apply sb2_same_at; [congruence|]. intros c. rewrite V', V. reflexivity.
    + assert (L' : loc s' x = None) by (rewrite sb2_loc_st, HI; reflexivity).
      assert (L : loc s x = None) by (unfold loc; rewrite Ex; reflexivity).
      destruct (sb2_live_none _ _ L') as (A' & V'). destruct (sb2_live_none _ _ L) as (A & V).
      apply sb2_same_at; [congruence|]. intros c. rewrite V', V. reflexivity.
  - (* swap *)
    destruct (Nat.eqb_spec (fst se) (fst x)) as [Hfs|Hfs].
    { assert (L' : loc s' x = Some (otid, row)) by (apply sb2_loc_iff; exact HI).
      assert (L : loc s x = Some (otid, t_len ot - 1)) by (apply sb2_loc_iff; rewrite <- Hfs; apply r2b_p_Ise).
      assert (Hl : row < t_len ot - 1) by lia. destruct (Swo Hl) as (Er & Ec).
      destruct (sb2_live_at _ _ _ _ _ L' To) as (A' & V'). destruct (sb2_live_at _ _ _ _ _ L Hot) as (A & V).
      apply sb2_same_at.
      - rewrite A', A, Er, Lo. destruct (Nat.ltb_spec row (t_len ot - 1)); [|lia].
        destruct (Nat.ltb_spec (t_len ot - 1) (t_len ot)); [|lia]. reflexivity.
      - intros c. rewrite V', V, Hcol_o. destruct (tbl_colidx ot c); [rewrite Ec|]; reflexivity. }
    destruct (nth_error (w_index s) (fst x)) as [[[tid|] r]|] eqn:Ex.
    + assert (L' : loc s' x = Some (tid, r)) by (apply sb2_loc_iff; exact HI).
      assert (L : loc s x = Some (tid, r)) by (apply sb2_loc_iff; exact Ex).
      destruct (wf_index _ HW _ _ _ Ex) as (t & Et & Hr & Hid).
      destruct (sb2_live_at _ _ _ _ _ L Et) as (A & V).
      destruct (Nat.eq_dec tid otid) as [->|H3].
      { rewrite Hot in Et. inversion Et; subst t.
        assert (r <> row) by (intros ->; rewrite Hent in Hid; congruence).
        assert (r <> t_len ot - 1) by (intros ->; congruence).
        assert (Hl : r < t_len ot - 1) by lia.
        destruct (Resto r Hl H) as (Er & Ec).
        destruct (sb2_live_at _ _ _ _ _ L' To) as (A' & V').
        apply sb2_same_at.
        - rewrite A', A, Er, Lo. destruct (Nat.ltb_spec r (t_len ot - 1)); [|lia].
          destruct (Nat.ltb_spec r (t_len ot)); [|lia]. reflexivity.
        - intros c. rewrite V', V, Hcol_o. destruct (tbl_colidx ot c); [rewrite Ec|]; reflexivity. }
      destruct (Nat.eq_dec tid ntid) as [->|H4].
      { rewrite Hnt in Et. inversion Et; subst t.
        destruct (Restn r Hr) as (Er & Ec).
        destruct (sb2_live_at _ _ _ _ _ L' Tn) as (A' & V').
        apply sb2_same_at.
        - rewrite A', A, Er, Ln. destruct (Nat.ltb_spec r (S (t_len nt))); [|lia].
          destruct (Nat.ltb_spec r (t_len nt)); [|lia]. reflexivity.
        - intros c. rewrite V', V, Hcol_n. destruct (tbl_colidx nt c); [rewrite Ec|]; reflexivity. }
      assert (Et' : nth_error (w_tables s') tid = Some t).
      { change (w_tables s') with T'. rewrite r2b_p_T.
        destruct (Nat.eqb_spec otid tid); [congruence|]. destruct (Nat.eqb_spec ntid tid); [congruence|]. exact Et. }
      destruct (sb2_live_at _ _ _ _ _ L' Et') as (A' & V').
      apply sb2_same_at; [congruence|]. intros c. rewrite V', V. reflexivity.
    + assert (L' : loc s' x = None) by (rewrite sb2_loc_st, HI; reflexivity).
      assert (L : loc s x = None) by (unfold loc; rewrite Ex; reflexivity).
      destruct (sb2_live_none _ _ L') as (A' & V'). destruct (sb2_live_none _ _ L) as (A & V).
      apply sb2_same_at; [congruence|]. intros c. rewrite V', V. reflexivity.
    + assert (L' : loc s' x = None) by (rewrite sb2_loc_st, HI; reflexivity).
      assert (L : loc s x = None) by (unfold loc; rewrite Ex; reflexivity).
      destruct (sb2_live_none _ _ L') as (A' & V'). destruct (sb2_live_none _ _ L) as (A & V).
      apply sb2_same_at; [congruence|]. intros c. rewrite V', V. reflexivity.
Qed.

Lemma r2b_p_others_tgt : forall x, x <> e -> forall c, tgt s' x c = tgt s x c.
Proof.
  intros x Hx c. pose proof HW0 as HW. pose proof r2b_p_ne as Hne. destruct r2b_p_row as (Hrow & Hent).
  destruct (r2b_p_others x Hx) as (Lv & _).
  destruct (live s x) eqn:Hl; [|rewrite (r2c_tgt_dead s' x c Lv), (r2c_tgt_dead s x c Hl); reflexivity].
  destruct Fo as (Oo & Lo & Mo & Swo & Resto). destruct Fn as (On & Ln & Mn & En & Restn & _).
  destruct (sb2_live_elim _ _ Hl) as (tid & r & t & L0 & T0 & R0 & E0).
  rewrite (r2c_tgt_at s x tid r t L0 T0 c), Hl.
  assert (Hfe : fst e <> fst x).
  { intros Hf. apply Hx. symmetry. apply (r2c_live_same_id s e x Hlive Hl Hf). }
  assert (To : nth_error (w_tables s') otid = Some ot').
  { change (w_tables s') with T'. rewrite r2b_p_T, Nat.eqb_refl. reflexivity. }
  assert (Tn : nth_error (w_tables s') ntid = Some nt3) by apply r2b_p_loc_e.
  (* the table of x after the move, up to labels *)
  assert (Tx : forall r', loc s' x = Some (tid, r') -> tgt s' x c = tbl_target t c).
  { intros r' L'. destruct (Nat.eq_dec tid otid) as [->|H3].
    - rewrite Hot in T0. injection T0 as <-. rewrite (r2c_tgt_at s' x otid r' ot' L' To c), Lv. apply r2c_tbl_target_meta. exact Mo.
    - destruct (Nat.eq_dec tid ntid) as [->|H4].
      + rewrite Hnt in T0. injection T0 as <-. rewrite (r2c_tgt_at s' x ntid r' nt3 L' Tn c), Lv. apply r2c_tbl_target_meta. exact Mn.
      + assert (Et' : nth_error (w_tables s') tid = Some t).
        { change (w_tables s') with T'. rewrite r2b_p_T.
          destruct (Nat.eqb_spec otid tid); [congruence|]. destruct (Nat.eqb_spec ntid tid); [congruence|]. exact T0. }
        rewrite (r2c_tgt_at s' x tid r' t L' Et' c), Lv. reflexivity. }
  pose proof (r2b_p_I (fst x)) as HI. apply Nat.eqb_neq in Hfe. rewrite Hfe in HI. apply sb2_loc_iff in L0.
  destruct (sw && Nat.eqb (fst se) (fst x))%bool eqn:Esw.
  - apply andb_true_iff in Esw. destruct Esw as (_ & Es). apply Nat.eqb_eq in Es.
    rewrite <- Es, r2b_p_Ise in L0. injection L0 as <- <-.
    apply (Tx row). apply sb2_loc_iff. exact HI.
  - apply (Tx r). apply sb2_loc_iff. change (nth_error I' (fst x) = Some (Some tid, r)). rewrite HI. exact L0.
Qed.

End r2b_post.

(** ** The move of one row against the relation invariant *)

Lemma r2b_move_spec : forall D P X s e otid row ntid ot nt, St2G D P X s -> room s ->
  live s e = true -> loc s e = Some (otid, row) -> otid <> ntid ->
  nth_error (w_tables s) otid = Some ot -> nth_error (w_tables s) ntid = Some nt ->
  t_arch ot = t_arch nt -> t_free nt = false ->
  exists s', (forall B (K : MW B), (nidx <- tbl_addM ntid e ;; copy_all otid ntid row nidx ;;; remove_row otid row ;;;
                                    set_index_direct e ntid nidx ;;; K) s = K s') /\
    St2G D P X s' /\ live s' e = true /\ (forall c, val s' e c = val s e c) /\ (forall c, tgt s' e c = tbl_target nt c) /\
    (forall x, x <> e -> live s' x = live s x /\ (forall c, val s' x c = val s x c) /\ (forall c, tgt s' x c = tgt s x c)) /\
    w_pool s' = w_pool s /\ w_istarget s' = w_istarget s /\ w_archs s' = w_archs s /\ side_same s s' /\ frame_user s s'.
Proof.
  intros D P X s e otid row ntid ot nt (HW & HR & HT & HC) Hroom Hlive Hloc Hne Hot Hnt Harch Hfn.
  destruct (r2b_mv_exec s e otid row ntid ot nt HW Hroom Hlive Hloc Hne Hot Hnt Harch)
    as (nt3 & s2 & s3 & s4 & E1 & E2 & E3 & E4 & Fo & Fn & Eids).
  set (ot' := snd (tbl_remove ot row)) in *.
  set (s' := sb2_st s (sb2_T' s otid ntid ot' nt3) (sb2_I' s e ntid row ot nt)) in *.
  destruct (sb2_mv_row _ _ _ _ _ Hlive Hloc Hot) as (Hrow & Hent).
  assert (Hfo : t_free ot = false).
  { destruct (t_free ot) eqn:Ef; [|reflexivity]. pose proof (r2c_free_len0 D s otid ot HR Hot Ef). lia. }
  pose proof (r2b_p_T s otid ntid ot nt ot' nt3 Hot Hnt Hne) as Tab.
  assert (Hlive' : live s' e = true) by (eapply r2b_p_live; eauto).
  assert (OS : others_same s s' e) by (eapply r2b_p_others; eauto).
  pose proof Fo as (_ & _ & Mo & _). pose proof Fn as (_ & _ & Mn & _).
  assert (TM : r2c_tabs_meta (w_tables s) (w_tables s')).
  { split; [unfold s', sb2_st, sb2_T'; cbn; rewrite !upd_length; reflexivity|].
    intros j tj Hj. change (w_tables s') with (sb2_T' s otid ntid ot' nt3). rewrite Tab.
    destruct (Nat.eqb_spec otid j) as [<-|H1].
    - rewrite Hot in Hj. injection Hj as <-. exists ot'. split; [reflexivity|]. split; [exact Mo|]. intros Hc. congruence.
    - destruct (Nat.eqb_spec ntid j) as [<-|H2].
      + rewrite Hnt in Hj. injection Hj as <-. exists nt3. split; [reflexivity|]. split; [exact Mn|]. intros Hc. congruence.
      + exists tj. split; [exact Hj|]. split; [apply sb2_meta_refl|]. intros Hf. apply (r2c_free_len0 D s j tj HR Hj Hf). }
  exists s'. split.
  { intros B K. rewrite (sa_bind_ok E1), (sa_bind_ok E2), (sa_bind_ok E3), (sa_bind_ok E4). reflexivity. }
  split.
  { split; [eapply r2b_p_WF; eauto|]. split.
    - apply (r2c_RelInvG_rows D s s' HR); try reflexivity; [exact TM|]. intros x Hx. left.
      destruct (ent_eqb x e) eqn:Ex; [apply sa_ent_eqb_eq in Ex; subst x; exact Hlive'|].
      assert (Hxe : x <> e) by (intros ->; rewrite sa_ent_eqb_refl in Ex; discriminate).
      rewrite (proj1 (OS x Hxe)). exact Hx.
    - split; [apply (r2c_TargetFlagsG_ext P s s' HT); reflexivity|].
      apply (r2c_CacheInvG_rows X s s' HC); try reflexivity. exact TM. }
  split; [exact Hlive'|]. split; [eapply r2b_p_val; eauto|]. split; [eapply r2b_p_tgt_e; eauto|]. split.
  { intros x Hx. destruct (OS x Hx) as (O1 & O2). split; [exact O1|]. split; [exact O2|]. eapply r2b_p_others_tgt; eauto. }
  split; [reflexivity|]. split; [reflexivity|]. split; [reflexivity|].
  split; [unfold side_same; repeat split|unfold frame_user; repeat split].
Qed.

(* ================================================================================================ *)
(** * Part 2: the relation list SetRelations hands to the table finder (B_newrels_valid) *)

(** The target the call assigns to component [c] (last assignment wins), if any. *)
Definition r2b_assigned (rels : list rel) (c : nat) : option ent :=
  option_map snd (find (fun r : rel => Nat.eqb (fst r) c) (rev rels)).

Lemma r2b_find_none : forall A (f : A -> bool) l, (forall x, In x l -> f x = false) -> find f l = None.
Proof.
  intros A f l H. destruct (find f l) as [x|] eqn:E; [|reflexivity]. apply find_some in E. destruct E as (Hin & Hf).
  rewrite (H x Hin) in Hf. discriminate.
Qed.

(** if each component is named once and "changed" is reported, some named target really differs *)
Lemma r2b_xgo_changed : forall t, NoDup (t_ids t) -> forall rels tg cm ch s tg' cm' ch' s',
  length tg = length (t_ids t) -> NoDup (map fst rels) ->
  rl_xgo t rels tg cm ch s = Ok (tg', cm', ch') s' -> ch' = true ->
  ch = true \/ exists c x i, In (c, x) rels /\ tbl_colidx t c = Some i /\ nth_error tg' i = Some x /\ nth_error tg i <> Some x.
Proof.
  intros t ND. induction rels as [|[c x] rest IH]; intros tg cm ch s tg' cm' ch' s' Hlen Hnd E Hch.
  - cbn in E. unfold ret in E. injection E as <- <- <- <-. left. exact Hch.
  - cbn [rl_xgo] in E. fold (rl_xgo t) in E. destruct (tbl_colidx t c) as [i|] eqn:Ei; [|discriminate].
    destruct (ck_rel (nth i (t_kinds t) (Build_ckind false false true))); cbn [negb] in E; [|discriminate].
    destruct (nth_error tg i) as [cur|] eqn:Ec; [|discriminate].
    cbn [map fst] in Hnd. apply NoDup_cons_iff in Hnd. destruct Hnd as (Hnin & Hnd').
    destruct (ent_eqb x cur) eqn:Ex.
    + destruct (IH tg cm ch s tg' cm' ch' s' Hlen Hnd' E Hch) as [H|(c' & x' & i' & Hin & P)]; [left; exact H|].
      right. exists c', x', i'. split; [right; exact Hin|exact P].
    + right. exists c, x, i. split; [left; reflexivity|]. split; [exact Ei|].
      assert (Li : i < length tg) by (eapply sa_nth_error_lt; exact Ec).
      assert (Hlen' : length (upd i x tg) = length (t_ids t)) by (rewrite upd_length; exact Hlen).
      pose proof (rl_xgo_spec t ND rest (upd i x tg) (mk_set cm c) true s Hlen') as SP. rewrite E in SP.
      destruct SP as (_ & Hl & Htg & _). specialize (Htg i c (rl_index_of_some _ _ _ Ei)).
      rewrite r2b_find_none in Htg.
      2:{ intros r Hr. apply in_rev in Hr. apply Nat.eqb_neq. intros Hf. apply Hnin. rewrite <- Hf. apply in_map. exact Hr. }
      rewrite nth_upd_eq in Htg by exact Li. split.
      * rewrite <- Htg. apply nth_error_nth'. rewrite Hl, upd_length. exact Li.
      * intros Hc. rewrite Ec in Hc. injection Hc as ->. rewrite sa_ent_eqb_refl in Ex. discriminate.
Qed.

Lemma r2b_newrels : forall s tid t a (rels : list rel) newrels cm, St2 s ->
  nth_error (w_tables s) tid = Some t -> t_free t = false -> nth_error (w_archs s) (t_arch t) = Some a ->
  NoDup (map fst rels) ->
  (forall r, In r rels -> is_rel_comp s (fst r) = true) ->
  exchange_targets t rels s = Ok (Some (newrels, cm)) s ->
  ((forall r, In r rels -> snd r = zero_ent \/ live s (snd r) = true) -> r2_rels_valid s a newrels) /\
  (forall c x, In (c, x) newrels <-> exists i, nth_error (a_comps a) i = Some c /\ r2_relcol a i /\
       Some x = match r2b_assigned rels c with Some y => Some y | None => nth_error (t_targets t) i end) /\
  (exists c x, In (c, x) newrels /\ tbl_target t c <> Some x).
Proof.
  intros s tid t a rels newrels cm (HW & (HR & _) & _) Ht Hf Ha Hnd Hrelc E.
  destruct (wf_layout _ HW tid t Ht) as (a0 & Ha0 & Lids & Lk & Ltg). rewrite Ha in Ha0. injection Ha0 as <-.
  pose proof (r2_comps_nodup s _ a HW Ha) as NDc. assert (ND : NoDup (t_ids t)) by (rewrite Lids; exact NDc).
  destruct (ri_shape _ _ HR tid t a Ht Ha) as (S1 & S2 & S3 & S4).
  destruct (r2_kinds_isrel s _ a HW Ha) as (HK & HKL).
  rewrite rl_exchange_targets_unfold, (proj2 (rl_rels_distinct_nodup rels) Hnd) in E. cbn [guard] in E.
  rewrite (sa_bind_ok (m := ret tt) (s := s) eq_refl) in E. unfold bind in E.
  destruct (rl_xgo t rels (t_targets t) 0%N false s) as [[[tg' cm'] ch'] s'|er s'] eqn:Ego; [|discriminate].
  pose proof (rl_xgo_spec t ND rels (t_targets t) 0%N false s Ltg) as SP. rewrite Ego in SP.
  destruct SP as (Hs & Hl & Htg & _). subst s'.
  destruct ch'; cbn [negb] in E; [|discriminate]. unfold ret in E. injection E as <- <-.
  (* the new target of column i *)
  assert (Hnew : forall i c, nth_error (a_comps a) i = Some c ->
            nth_error tg' i = match r2b_assigned rels c with Some y => Some y | None => nth_error (t_targets t) i end).
  { intros i c Hi. assert (Hlt : i < length (t_targets t)) by (rewrite Ltg, Lids; eapply sa_nth_error_lt; exact Hi).
    rewrite (nth_error_nth' tg' zero_ent) by (rewrite Hl; exact Hlt). rewrite Lids in Htg. rewrite (Htg i c Hi).
    unfold r2b_assigned. destruct (find (fun r : rel => Nat.eqb (fst r) c) (rev rels)) as [r|]; cbn [option_map]; [reflexivity|].
    symmetry. apply nth_error_nth'. exact Hlt. }
  assert (Hchar : forall c x, In (c, x) (map (fun p : nat * ckind * ent => (fst (fst p), snd p))
              (filter (fun p : nat * ckind * ent => ck_rel (snd (fst p))) (combine (combine (t_ids t) (t_kinds t)) tg'))) <->
            exists i, nth_error (a_comps a) i = Some c /\ r2_relcol a i /\
              Some x = match r2b_assigned rels c with Some y => Some y | None => nth_error (t_targets t) i end).
  { intros c x. rewrite rl_newrels_in. rewrite Lids. split.
    - intros (i & kd & H1 & H2 & H3 & H4). exists i. split; [exact H1|]. split.
      + unfold r2_relcol. rewrite Lk, Lids in H2. rewrite (HK i kd H2), H3. reflexivity.
      + rewrite <- (Hnew i c H1). symmetry. exact H4.
    - intros (i & H1 & Hr & Hx). exists i, (kind_of s c). split; [exact H1|].
      assert (Hkd : nth_error (t_kinds t) i = Some (kind_of s c)) by (rewrite Lk, Lids, nth_error_map, H1; reflexivity).
      split; [exact Hkd|]. split.
      + rewrite Lk, Lids in Hkd. pose proof (HK i _ Hkd) as Hb. unfold r2_relcol in Hr. rewrite Hr in Hb. injection Hb as Hb. symmetry. exact Hb.
      + rewrite (Hnew i c H1). symmetry. exact Hx. }
  assert (Hsome : forall i c, nth_error (a_comps a) i = Some c -> exists x,
            Some x = match r2b_assigned rels c with Some y => Some y | None => nth_error (t_targets t) i end).
  { intros i c Hi. destruct (r2b_assigned rels c) as [y|]; [exists y; reflexivity|].
    assert (Hlt : i < length (t_targets t)) by (rewrite Ltg, Lids; eapply sa_nth_error_lt; exact Hi).
    destruct (nth_error (t_targets t) i) as [y|] eqn:Ey; [exists y; reflexivity|apply nth_error_None in Ey; lia]. }
  assert (V3 : forall c, In c (map fst (map (fun p : nat * ckind * ent => (fst (fst p), snd p))
              (filter (fun p : nat * ckind * ent => ck_rel (snd (fst p))) (combine (combine (t_ids t) (t_kinds t)) tg')))) <->
            exists i, nth_error (a_comps a) i = Some c /\ r2_relcol a i).
  { intros c. split.
    - intros Hin. apply in_map_iff in Hin. destruct Hin as ([c' x] & Ec & Hin). cbn [fst] in Ec. subst c'.
      apply Hchar in Hin. destruct Hin as (i & H1 & H2 & _). exists i. split; assumption.
    - intros (i & H1 & Hr). destruct (Hsome i c H1) as (x & Hx). apply in_map_iff. exists (c, x). split; [reflexivity|].
      apply Hchar. exists i. repeat split; assumption. }
  assert (NDn : NoDup (map fst (map (fun p : nat * ckind * ent => (fst (fst p), snd p))
              (filter (fun p : nat * ckind * ent => ck_rel (snd (fst p))) (combine (combine (t_ids t) (t_kinds t)) tg'))))).
  { apply r2c_newrels_nodup. exact ND. }
  split; [|split; [exact Hchar|]].
  - intros Hrels. split; [exact NDn|]. split; [|split; [exact V3|]].
    + rewrite <- S4.
      match goal with |- length ?l = _ => transitivity (length (map fst l)); [symmetry; apply map_length|] end.
      transitivity (length (map fst (t_rels t))); [|apply map_length].
      apply r2c_nodup_same_length; [exact NDn|exact S1|]. intros c. rewrite V3. split.
      * intros (i & H1 & Hr).
        assert (Hlt : i < length (t_targets t)) by (rewrite Ltg, Lids; eapply sa_nth_error_lt; exact H1).
        destruct (nth_error (t_targets t) i) as [y|] eqn:Ey; [|apply nth_error_None in Ey; lia].
        apply in_map_iff. exists (c, y). split; [reflexivity|]. apply S2. exists i. repeat split; assumption.
      * intros Hin. apply in_map_iff in Hin. destruct Hin as ([c' y] & Ec & Hin). cbn [fst] in Ec. subst c'.
        apply S2 in Hin. destruct Hin as (i & H1 & Hr & _). exists i. split; assumption.
    + intros [c x] Hin. apply Hchar in Hin. destruct Hin as (i & H1 & Hr & Hx). cbn [snd].
      unfold r2b_assigned in Hx. destruct (find (fun r : rel => fst r =? c) (rev rels)) as [r|] eqn:Ef; cbn [option_map] in Hx.
      * injection Hx as ->. apply find_some in Ef. destruct Ef as (Hin & _). apply in_rev in Hin. apply (Hrels r Hin).
      * assert (Hin : In (c, x) (t_rels t)) by (apply S2; exists i; split; [exact H1|split; [exact Hr|symmetry; exact Hx]]).
        destruct (ri_targets_ok _ _ HR tid t (c, x) Ht Hf Hin) as [Hz|[Hlx|[]]]; [left; exact Hz|right; exact Hlx].
  - destruct (r2b_xgo_changed t ND rels (t_targets t) 0%N false s tg' cm' true s Ltg Hnd Ego eq_refl) as [Hc|(c & x & i & Hin & Ei & Hx & Hne)]; [discriminate|].
    exists c, x. split.
    + apply rl_newrels_in. pose proof (rl_index_of_some _ _ _ Ei) as Hi. exists i, (kind_of s c). split; [exact Hi|].
      split; [rewrite Lk, nth_error_map, Hi; reflexivity|]. split; [|exact Hx].
      rewrite <- r2_is_rel_comp_kind. apply (Hrelc (c, x) Hin).
    + unfold tbl_target. rewrite Ei. exact Hne.
Qed.

(* ================================================================================================ *)
(** * Part 3: SetRelations *)

(** the part of [w_set_relations] after getExchangeTargets reported a change *)
Definition r2b_tail (e : ent) (rels : list rel) (otid row : nat) (ot : table) (newrels : list rel) (cm : mask) : MW unit :=
  ntid <- get_or_create_table (t_arch ot) newrels ;;
  nm <- arch_mask_of_table ntid ;;
  s <- get ;;
  whenM (has_obs s EvRemoveRelations) (
    l <- lockM ;; _ <- fire_set EvRemoveRelations e cm nm true ;; unlockM l) ;;;
  nidx <- tbl_addM ntid e ;;
  copy_all otid ntid row nidx ;;;
  remove_row otid row ;;;
  set_index_direct e ntid nidx ;;;
  register_targets rels ;;;
  s <- get ;;
  whenM (has_obs s EvAddRelations) (_ <- fire_set EvAddRelations e cm nm true ;; ret tt).

Lemma r2b_has_obs_side : forall s s' ev, side_same s s' -> has_obs s' ev = has_obs s ev.
Proof. intros s s' ev (_ & _ & _ & _ & Eo & _). unfold has_obs, get_agg. rewrite Eo. reflexivity. Qed.

Lemma r2b_tail_spec : forall s e (rels : list rel) otid row ot a newrels cm, St2 s -> room s ->
  has_obs s EvRemoveRelations = false -> has_obs s EvAddRelations = false ->
  live s e = true -> loc s e = Some (otid, row) -> nth_error (w_tables s) otid = Some ot ->
  nth_error (w_archs s) (t_arch ot) = Some a ->
  (forall r, In r rels -> snd r = zero_ent \/ live s (snd r) = true) ->
  r2_rels_valid s a newrels -> (exists c x, In (c, x) newrels /\ tbl_target ot c <> Some x) ->
  exists s', r2b_tail e rels otid row ot newrels cm s = Ok tt s' /\
    St2 s' /\ live s' e = true /\ (forall c, val s' e c = val s e c) /\
    (forall c x, In (c, x) newrels -> tgt s' e c = Some x) /\
    (forall c, ~ In c (map fst newrels) -> tgt s' e c = tgt s e c) /\
    r2c_others_same s s' e /\ w_pool s' = w_pool s /\ frame_user s s'.
Proof.
  intros s e rels otid row ot a newrels cm HS Hroom O1 O2 Hlive Hloc Hot Ha Htg HV (c0 & x0 & Hin0 & Hdiff).
  pose proof HS as (HW & (HR & HT) & HC). apply St2_St2G in HS.
  assert (Hfo : t_free ot = false).
  { destruct (t_free ot) eqn:Ef; [|reflexivity]. pose proof (r2c_free_len0 _ s otid ot HR Hot Ef) as Hz.
    destruct (sb2_mv_row _ _ _ _ _ Hlive Hloc Hot) as (Hrow & _). lia. }
  assert (Hst : r2_nostale a) by (apply (r2c_nostale r2_none s _ a HR Ha); right; intros k []).
  destruct (r2_get_or_create_table_spec r2_none r2_none r2_none s (t_arch ot) a newrels HS Ha HV Hst)
    as (ntid & s2 & t2 & E2 & HS2 & R & Hnt & Earch2 & Hf2 & Hm & Hcase & Hfl & I2 & I3 & I4 & I5).
  { intros x _ []. }
  pose proof HS2 as (HW2 & HR2 & HT2 & HC2).
  assert (A3 : ntid <> otid /\ nth_error (w_tables s2) otid = Some ot).
  { destruct Hcase as [->|([Hnone|(t0 & Ht0 & Hf0)] & _ & _ & Hoth & _)].
    - split; [|exact Hot]. intros ->. rewrite Hot in Hnt. injection Hnt as <-. apply Hdiff. apply (Hm (c0, x0) Hin0).
    - assert (Hn : ntid <> otid) by (intros ->; rewrite Hot in Hnone; discriminate). split; [exact Hn|].
      rewrite (Hoth otid); [exact Hot|]. intros ->. apply Hn. reflexivity.
    - assert (Hn : ntid <> otid) by (intros ->; rewrite Hot in Ht0; injection Ht0 as <-; congruence). split; [exact Hn|].
      rewrite (Hoth otid); [exact Hot|]. intros ->. apply Hn. reflexivity. }
  destruct A3 as (Hne & Hot2). assert (Hne' : otid <> ntid) by (intros ->; apply Hne; reflexivity).
  assert (Obs2 : forall x, live s2 x = live s x /\ (forall c, val s2 x c = val s x c) /\ (forall c, tgt s2 x c = tgt s x c)).
  { destruct Hcase as [->|(Hold & Hl2 & _ & Hoth & _)]; [intros x; repeat split|].
    apply (r2c_obs_one_empty s s2 ntid I2 Hoth).
    - intros t0 Ht0. destruct Hold as [Hnone|(t0' & Ht0' & Hf0)]; [congruence|]. rewrite Ht0 in Ht0'. injection Ht0' as <-.
      apply (r2c_free_len0 _ s ntid t0 HR Ht0 Hf0).
    - intros t2' Ht2'. rewrite Hnt in Ht2'. injection Ht2' as <-. exact Hl2. }
  destruct (rl_archs _ _ R _ a Ha) as (a2 & Ha2 & _ & A2c & A2i & _).
  pose proof Ha2 as Ha2'. rewrite <- Earch2 in Ha2'.
  assert (Hroom2 : room s2) by (unfold room; rewrite I3; exact Hroom).
  assert (Hlive2 : live s2 e = true) by (rewrite (proj1 (Obs2 e)); exact Hlive).
  assert (Hloc2 : loc s2 e = Some (otid, row)) by (rewrite (sa_loc_ext s s2 I2); exact Hloc).
  destruct (r2b_move_spec r2_none r2_none r2_none s2 e otid row ntid ot t2 HS2 Hroom2 Hlive2 Hloc2 Hne' Hot2 Hnt (eq_sym Earch2) Hf2)
    as (s3 & E3 & HS3 & Hlive3 & Hval3 & Htgt3 & Hoth3 & P3 & F3 & A3 & SD3 & FU3).
  (* registration *)
  pose proof (r2_register_targets_spec r2_none r2_none r2_none rels s3 HS3) as RS.
  destruct (register_targets rels s3) as [[] s4|er s4] eqn:E4.
  2:{ exfalso. destruct RS as (_ & _ & r & Hr & Hle). rewrite F3 in Hle.
      assert (Hlen : length (w_istarget s2) = length (w_istarget s)) by (apply Hfl).
      destruct (Htg r Hr) as [Hz|Hl]; [rewrite Hz in Hle; cbn in Hle; pose proof (r2_zero_index s HW); lia|].
      pose proof (r2_live_index s (snd r) HW Hl). lia. }
  destruct RS as (HS4 & l' & ->).
  set (s4 := s3 <| w_istarget := l' |>) in *.
  assert (HS4' : St2 s4).
  { apply St2_St2G. destruct HS4 as (W4 & R4 & T4 & C4). split; [exact W4|]. split; [exact R4|]. split; [|exact C4].
    eapply r2_TargetFlagsG_mono; [|exact T4]. intros k (Hk & _). exact Hk. }
  assert (Obs4 : forall x, live s4 x = live s3 x /\ (forall c, val s4 x c = val s3 x c) /\ (forall c, tgt s4 x c = tgt s3 x c)).
  { apply (r2c_obs_one_empty s3 s4 (length (w_tables s3))); [reflexivity|reflexivity| |].
    - intros t0 Ht0. apply sa_nth_error_lt in Ht0. lia.
    - intros t0 Ht0. change (w_tables s4) with (w_tables s3) in Ht0. apply sa_nth_error_lt in Ht0. lia. }
  assert (SD : side_same s s3) by (apply (sa_side_same_trans s s2 s3 I4 SD3)).
  exists s4. split.
  { unfold r2b_tail. rewrite (sa_bind_ok E2). rewrite (sa_bind_ok (sb2_arch_mask_ok s2 ntid t2 a2 Hnt Ha2')).
    rewrite (sa_bind_ok (m := get) (s := s2) eq_refl). rewrite (r2b_has_obs_side s s2 _ I4), O1. cbn [whenM].
    rewrite (sa_bind_ok (m := ret tt) (s := s2) eq_refl). rewrite E3.
    rewrite (sa_bind_ok E4). rewrite (sa_bind_ok (m := get) (s := s4) eq_refl).
    assert (SD4 : side_same s s4) by (destruct SD as (B1 & B2 & B3 & B4 & B5 & B6 & B7 & B8); unfold side_same; cbn; repeat split; assumption).
    rewrite (r2b_has_obs_side s s4 _ SD4), O2. reflexivity. }
  split; [exact HS4'|]. split; [rewrite (proj1 (Obs4 e)); exact Hlive3|]. split.
  { intros c. rewrite (proj1 (proj2 (Obs4 e)) c), Hval3. apply Obs2. }
  split.
  { intros c x Hin. rewrite (proj2 (proj2 (Obs4 e)) c), Htgt3. apply (Hm (c, x) Hin). }
  split.
  { intros c Hnin. rewrite (proj2 (proj2 (Obs4 e)) c), Htgt3.
    rewrite <- (proj2 (proj2 (Obs2 e)) c). rewrite (r2c_tgt_at s2 e otid row ot Hloc2 Hot2 c), Hlive2.
    (* a component outside the relation list: not a column, or a non-relation column (target zero in every table) *)
    destruct (wf_layout _ HW otid ot Hot) as (b & Hb & Lo & _ & Lto). rewrite Ha in Hb. injection Hb as <-.
    destruct (wf_layout _ HW2 ntid t2 Hnt) as (b & Hb & Ln & _ & Ltn). rewrite Ha2' in Hb. injection Hb as <-. rewrite A2c in Ln.
    destruct HV as (_ & _ & V3 & _).
    unfold tbl_target, tbl_colidx. rewrite Lo, Ln. destruct (index_of c (a_comps a)) as [i|] eqn:Ei; [|reflexivity].
    pose proof (rl_index_of_some _ _ _ Ei) as Hi. destruct (r2_isrel_len s _ a HW Ha) as (LI & _).
    destruct (nth_error (a_isrel a) i) as [[|]|] eqn:Eb.
    - exfalso. apply Hnin. apply V3. exists i. split; [exact Hi|exact Eb].
    - destruct (ri_shape _ _ HR otid ot a Hot Ha) as (_ & _ & S3 & _).
      destruct (ri_shape _ _ HR2 ntid t2 a2 Hnt Ha2') as (_ & _ & S3' & _). rewrite A2i in S3'.
      rewrite (S3 i Eb), (S3' i Eb). reflexivity.
    - apply nth_error_None in Eb. apply sa_nth_error_lt in Hi. lia. }
  split.
  { intros x Hx. destruct (Obs4 x) as (Q1 & Q2 & Q3). destruct (Hoth3 x Hx) as (R1 & R2 & R3). destruct (Obs2 x) as (T1 & T2 & T3).
    split; [congruence|]. split; intros c; [rewrite Q2, R2; apply T2|rewrite Q3, R3; apply T3]. }
  split; [change (w_pool s4) with (w_pool s3); congruence|].
  apply (sa_frame_user_trans s s2 s4 I5). apply (sa_frame_user_trans s2 s3 s4 FU3). unfold frame_user. cbn. repeat split.
Qed.

Lemma r2b_val_col : forall s e tid row t c, live s e = true -> loc s e = Some (tid, row) ->
  nth_error (w_tables s) tid = Some t -> (val s e c = None <-> tbl_colidx t c = None).
Proof.
  intros s e tid row t c Hl Hloc Ht. unfold val. rewrite Hl. unfold value_of. rewrite Hloc, Ht.
  destruct (tbl_colidx t c); split; intros H; try reflexivity; discriminate.
Qed.

Lemma r2b_nodup_fst_eq : forall (rels : list rel) c x y, NoDup (map fst rels) -> In (c, x) rels -> In (c, y) rels -> x = y.
Proof.
  induction rels as [|[c0 x0] rest IH]; intros c x y Hnd Hx Hy; [destruct Hx|].
  cbn [map fst] in Hnd. apply NoDup_cons_iff in Hnd. destruct Hnd as (Hn & Hnd').
  destruct Hx as [Ex|Hx]; destruct Hy as [Ey|Hy].
  - congruence.
  - injection Ex as -> ->. exfalso. apply Hn. apply (in_map fst _ _ Hy).
  - injection Ey as -> ->. exfalso. apply Hn. apply (in_map fst _ _ Hx).
  - apply (IH c x y Hnd' Hx Hy).
Qed.

Lemma r2b_assigned_in : forall (rels : list rel) c x, NoDup (map fst rels) -> In (c, x) rels -> r2b_assigned rels c = Some x.
Proof.
  intros rels c x Hnd Hin. unfold r2b_assigned. destruct (find (fun r : rel => Nat.eqb (fst r) c) (rev rels)) as [[c' y]|] eqn:Ef.
  - apply find_some in Ef. destruct Ef as (Hr & Hc). apply in_rev in Hr. cbn [fst] in Hc. apply Nat.eqb_eq in Hc. subst c'.
    cbn [option_map snd]. f_equal. apply (r2b_nodup_fst_eq rels c y x Hnd Hr Hin).
  - exfalso. pose proof (find_none _ _ Ef (c, x) (proj1 (in_rev _ _) Hin)) as Hc. cbn [fst] in Hc. rewrite Nat.eqb_refl in Hc. discriminate.
Qed.

(** ** A dead target makes GetTable-or-create fail (createTable's check), the state unchanged *)

Lemma r2b_find_exact_cases : forall s rels tabs,
  (exists er, find_exact s tabs rels = Err er s) \/ find_exact s tabs rels = Ok None s \/
  (exists t tb, find_exact s tabs rels = Ok (Some t) s /\ In t tabs /\ nth_error (w_tables s) t = Some tb /\
                tbl_matches_exact tb rels = MTrue).
Proof.
  intros s rels tabs. induction tabs as [|t rest IH]; [right; left; reflexivity|]. cbn [find_exact].
  destruct (nth_error (w_tables s) t) as [tb|] eqn:Et; [|left; exists EIndex; reflexivity].
  destruct (tbl_matches_exact tb rels) as [| |er] eqn:Em.
  - right. right. exists t, tb. split; [reflexivity|]. split; [left; reflexivity|]. split; assumption.
  - destruct IH as [(er & E)|[E|(t' & tb' & E & Hin & Ht' & Hm)]]; [left; exists er; exact E|right; left; exact E|].
    right. right. exists t', tb'. split; [exact E|]. split; [right; exact Hin|]. split; assumption.
  - left. exists er. reflexivity.
Qed.

Lemma r2b_arch_get_table_cases : forall a rels s, a_numrel a <> 0 ->
  (exists er, arch_get_table a rels s = Err er s) \/ arch_get_table a rels s = Ok None s \/
  (exists t tb i m k tabs, arch_get_table a rels s = Ok (Some t) s /\ nth_error (a_reltabs a) i = Some m /\
     afind k m = Some tabs /\ In t tabs /\ nth_error (w_tables s) t = Some tb /\ tbl_matches_exact tb rels = MTrue).
Proof.
  intros a rels s Hnr. unfold arch_get_table, arch_has_rels. destruct (a_tables a) as [|t0 tr]; [right; left; reflexivity|].
  apply Nat.eqb_neq in Hnr. rewrite Hnr. cbn [negb].
  destruct (negb (Nat.ltb (length rels) (a_numrel a))); cbn [guard]; [|left; exists ERelUnspec; reflexivity].
  rewrite (sa_bind_ok (m := ret tt) (s := s) eq_refl).
  destruct (rels_distinct rels); cbn [guard]; [|left; exists ERelUnspec; reflexivity].
  rewrite (sa_bind_ok (m := ret tt) (s := s) eq_refl).
  destruct rels as [|[c tg] rest]; [left; exists EIndex; reflexivity|].
  destruct (index_of c (a_comps a)) as [idx|]; cbn [of_opt]; [|left; exists EIndex; reflexivity].
  rewrite (sa_bind_ok (m := ret idx) (s := s) eq_refl).
  destruct (nth_error (a_reltabs a) idx) as [m|] eqn:Em; cbn [of_opt]; [|left; exists EIndex; reflexivity].
  rewrite (sa_bind_ok (m := ret m) (s := s) eq_refl).
  destruct (afind (fst tg) m) as [tabs|] eqn:Ek; [|right; left; reflexivity].
  destruct (r2b_find_exact_cases s ((c, tg) :: rest) tabs) as [(er & E)|[E|(t & tb & E & Hin & Ht & Hm)]].
  - left. exists er. exact E.
  - right. left. exact E.
  - right. right. exists t, tb, idx, m, (fst tg), tabs. repeat split; assumption.
Qed.

Lemma r2b_match_exact_true : forall tb (rels : list rel), rels_match_exact tb rels = MTrue ->
  forall c x i, In (c, x) rels -> tbl_colidx tb c = Some i -> nth_error (t_targets tb) i = Some x.
Proof.
  intros tb rels. induction rels as [|[c0 x0] rest IH]; intros E c x i Hin Hi; [destruct Hin|].
  cbn [rels_match_exact] in E. destruct Hin as [Eq|Hin].
  - injection Eq as -> ->. rewrite Hi in E. destruct (nth_error (t_kinds tb) i) as [k|]; [|discriminate].
    destruct (nth_error (t_targets tb) i) as [y|]; [|discriminate]. destruct (negb (ck_rel k)); [discriminate|].
    destruct (ent_eqb x y) eqn:Ex; [|discriminate]. apply sa_ent_eqb_eq in Ex. subst y. reflexivity.
  - apply (fun H => IH H c x i Hin Hi). destruct (tbl_colidx tb c0) as [i0|]; [|exact E].
    destruct (nth_error (t_kinds tb) i0) as [k|]; [|discriminate].
    destruct (nth_error (t_targets tb) i0) as [y|]; [|discriminate]. destruct (negb (ck_rel k)); [discriminate|].
    destruct (ent_eqb x0 y); [exact E|discriminate].
Qed.

Lemma r2b_goc_dead : forall s aid a (rels : list rel) c x i, St2 s -> nth_error (w_archs s) aid = Some a ->
  In (c, x) rels -> nth_error (a_comps a) i = Some c -> r2_relcol a i -> fst x <> 0 -> alive s x = false ->
  exists er, get_or_create_table aid rels s = Err er s.
Proof.
  intros s aid a rels c x i (HW & (HR & _) & _) Ha Hin Hi Hr Hx0 Hdead.
  assert (Hnr : a_numrel a <> 0) by (intros Hz; apply (r2_norel_cols s aid a HW Ha Hz i Hr)).
  unfold get_or_create_table. rewrite (sa_bind_ok (sa_getA_eq _ _ _ Ha)).
  destruct (r2b_arch_get_table_cases a rels s Hnr) as [(er & E)|[E|(t & tb & j & m & k & tabs & E & Hm & Hk & Hint & Htb & HM)]].
  - exists er. rewrite (sa_bind_err E). reflexivity.
  - rewrite (sa_bind_ok E). apply (create_table_rejects_invalid s aid a rels Ha). right. right. right.
    exists (c, x). split; [exact Hin|]. split; assumption.
  - exfalso.
    destruct (wf_arch_tables _ HW aid a t Ha) as (tb' & Htb' & Earch); [right; right; left; exists j, m, k, tabs; repeat split; assumption|].
    rewrite Htb in Htb'. injection Htb' as <-.
    destruct (ri_reltabs _ _ HR aid a j m k tabs Ha Hm Hk) as (_ & _ & Hall). destruct (Hall t Hint) as (tb' & Htb' & _ & Hfr).
    rewrite Htb in Htb'. injection Htb' as <-.
    assert (Hf : t_free tb = false) by (destruct (t_free tb); [destruct (Hfr eq_refl) as ([] & _)|reflexivity]).
    destruct (wf_layout _ HW t tb Htb) as (a0 & Ha0 & Lids & _). rewrite Earch, Ha in Ha0. injection Ha0 as <-.
    assert (Hcol : tbl_colidx tb c = Some i) by (unfold tbl_colidx; rewrite Lids; apply (r2_index_of_nth _ _ _ (r2_comps_nodup s aid a HW Ha) Hi)).
    unfold tbl_matches_exact in HM. destruct (Nat.ltb (length rels) (length (t_rels tb))); [discriminate|].
    pose proof (r2b_match_exact_true tb rels HM c x i Hin Hcol) as Hxt.
    pose proof Ha as Hat. rewrite <- Earch in Hat.
    destruct (ri_shape _ _ HR t tb a Htb Hat) as (_ & S2 & _).
    assert (Hrel : In (c, x) (t_rels tb)) by (apply S2; exists i; repeat split; assumption).
    destruct (ri_targets_ok _ _ HR t tb (c, x) Htb Hf Hrel) as [Hz|[Hl|[]]].
    + cbn [snd] in Hz. rewrite Hz in Hx0. apply Hx0. reflexivity.
    + destruct (live_alive s x HW Hl) as (Hal & _). cbn [snd] in Hal. congruence.
Qed.

(** ** SetRelations *)

(** a handle that is the zero entity, a stored entity, or recognisably dead (i.e. not a forged handle:
    forged handles -- id 0 with a non-zero generation, or the current generation of a free slot -- pass
    createTable's liveness check although they are not stored; they cannot be obtained from the API) *)
Definition r2b_handle_ok (s : W) (x : ent) : Prop :=
  x = zero_ent \/ live s x = true \/ (fst x <> 0 /\ alive s x = false).

Definition r2b_deadb (s : W) (r : rel) : bool := (negb (Nat.eqb (fst (snd r)) 0) && negb (alive s (snd r)))%bool.

(** B_set_relations_spec. Without observers on the relation events, for argument lists whose targets
    are proper handles: if the call returns, each named component was named once, is a relation
    component of the entity and has a zero or stored target; the targets of the named components are
    the assigned ones, everything else is unchanged. The call fails exactly for the documented
    precondition violations -- world locked, entity not stored, no relations given, a component named
    twice, a named component missing or not a relation component, a dead target -- and then the state
    is unchanged. *)
Theorem r2b_set_relations_spec_noobs : forall s e (rels : list rel), St2 s -> room s ->
  has_obs s EvRemoveRelations = false -> has_obs s EvAddRelations = false ->
  (forall r, In r rels -> r2b_handle_ok s (snd r)) ->
  match w_set_relations e rels s with
  | Ok _ s' =>
      St2 s' /\ is_locked s = false /\ live s e = true /\ rels <> [] /\ NoDup (map fst rels) /\
      (forall r, In r rels -> val s e (fst r) <> None /\ is_rel_comp s (fst r) = true /\
                              (snd r = zero_ent \/ live s (snd r) = true)) /\
      live s' e = true /\ (forall c, val s' e c = val s e c) /\
      (forall c, tgt s' e c = match r2b_assigned rels c with Some x => Some x | None => tgt s e c end) /\
      r2c_others_same s s' e /\ w_pool s' = w_pool s /\ frame_user s s'
  | Err _ s' =>
      s' = s /\ (is_locked s = true \/ live s e = false \/ rels = [] \/ rels_distinct rels = false \/
                 exists r, In r rels /\ (val s e (fst r) = None \/ is_rel_comp s (fst r) = false \/
                                         (fst (snd r) <> 0 /\ alive s (snd r) = false)))
  end.
Proof.
  intros s e rels HS Hroom O1 O2 Hhok. pose proof HS as (HW & (HR & HT) & HC).
  unfold w_set_relations.
  destruct (is_locked s) eqn:Hlk.
  { rewrite (sa_bind_err (sb2_check_locked_err s Hlk)). split; [reflexivity|left; reflexivity]. }
  rewrite (sa_bind_ok (sb2_check_locked_ok s Hlk)). rewrite (sa_bind_ok (m := get) (s := s) eq_refl).
  destruct (alive s e) eqn:Ha; cbn [guard].
  2:{ rewrite (sa_bind_err (m := fail EDead) (s := s) (e := EDead) (s' := s) eq_refl). split; [reflexivity|]. right. left.
      destruct (live s e) eqn:Hl; [|reflexivity]. destruct (live_alive s e HW Hl) as (Hc & _). congruence. }
  rewrite (sa_bind_ok (m := ret tt) (s := s) eq_refl).
  destruct rels as [|r0 rr] eqn:Erels.
  { cbn [is_nil negb guard]. rewrite (sa_bind_err (m := fail ENoComps) (s := s) (e := ENoComps) (s' := s) eq_refl).
    split; [reflexivity|]. right. right. left. reflexivity. }
  cbn [is_nil negb guard]. rewrite (sa_bind_ok (m := ret tt) (s := s) eq_refl).
  assert (Hrne : rels <> []) by (rewrite Erels; discriminate). rewrite <- Erels in *. clear Erels.
  destruct (nth_error (w_index s) (fst e)) as [[[otid|] row]|] eqn:Hi.
  2:{ rewrite (sa_bind_err (sb2_get_index_err s e ltac:(intros t r Hc; rewrite Hi in Hc; discriminate))).
      split; [reflexivity|]. right. left. unfold live, loc. rewrite Hi. reflexivity. }
  2:{ rewrite (sa_bind_err (sb2_get_index_err s e ltac:(intros t r Hc; rewrite Hi in Hc; discriminate))).
      split; [reflexivity|]. right. left. unfold live, loc. rewrite Hi. reflexivity. }
  rewrite (sa_bind_ok (sb2_get_index_ok s e otid row Hi)). cbv beta iota.
  destruct (sb3_alive_index_live _ _ _ _ HW Ha Hi) as (ot & Hot & Hrow & Hent).
  assert (Hlive : live s e = true) by (eapply sb3_live_of_row; eauto).
  assert (Hloc : loc s e = Some (otid, row)) by (apply sb2_loc_iff; exact Hi).
  rewrite (sa_bind_ok (sa_getT_eq _ _ _ Hot)).
  destruct (wf_layout _ HW otid ot Hot) as (a & Hat & Lids & Lk & Ltg).
  pose proof (r2_comps_nodup s _ a HW Hat) as NDc. assert (ND : NoDup (t_ids ot)) by (rewrite Lids; exact NDc).
  assert (Lkl : length (t_kinds ot) = length (t_ids ot)) by (rewrite Lk; apply map_length).
  assert (Hfo : t_free ot = false).
  { destruct (t_free ot) eqn:Ef; [|reflexivity]. pose proof (r2c_free_len0 _ s otid ot HR Hot Ef). lia. }
  (* the kind of a column *)
  assert (Hkind : forall c i, tbl_colidx ot c = Some i -> nth i (t_kinds ot) (Build_ckind false false true) = kind_of s c).
  { intros c i Ei. pose proof (rl_index_of_some _ _ _ Ei) as Hci. apply nth_error_nth. rewrite Lk, nth_error_map, Hci. reflexivity. }
  assert (Htgt_s : forall c, tgt s e c = tbl_target ot c) by (intros c; rewrite (r2c_tgt_at s e otid row ot Hloc Hot c), Hlive; reflexivity).
  pose proof (exchange_targets_spec s ot rels Ltg Lkl ND) as XS.
  pose proof (fun r1 s1 => exchange_targets_ok_valid s ot rels r1 s1 ND Ltg) as XV.
  destruct (exchange_targets ot rels s) as [[[newrels cm]|] s0|er s0] eqn:EX.
  - (* changed *)
    destruct XS as (-> & _). destruct (XV _ _ eq_refl) as (Hnd & Hcolrel). rewrite (sa_bind_ok EX). cbv beta iota.
    assert (Hrelc : forall r, In r rels -> is_rel_comp s (fst r) = true).
    { intros r Hr. destruct (Hcolrel r Hr) as (i & Ei & Ek). rewrite (Hkind _ _ Ei) in Ek. rewrite r2_is_rel_comp_kind. exact Ek. }
    assert (Hcols : forall r, In r rels -> val s e (fst r) <> None).
    { intros r Hr Hc. apply (r2b_val_col s e otid row ot (fst r) Hlive Hloc Hot) in Hc. destruct (Hcolrel r Hr) as (i & Ei & _). congruence. }
    destruct (r2b_newrels s otid ot a rels newrels cm HS Hot Hfo Hat Hnd Hrelc EX) as (HVimp & Hchar & Hdiff).
    destruct (existsb (r2b_deadb s) rels) eqn:Edead.
    + (* a dead target: createTable rejects it *)
      apply existsb_exists in Edead. destruct Edead as ([c x] & Hr & Hd). unfold r2b_deadb in Hd. cbn [snd] in Hd.
      apply andb_true_iff in Hd. destruct Hd as (Hd1 & Hd2). apply negb_true_iff in Hd1, Hd2. apply Nat.eqb_neq in Hd1.
      destruct (Hcolrel (c, x) Hr) as (i & Ei & Ek). cbn [fst] in Ei, Ek.
      pose proof (rl_index_of_some _ _ _ Ei) as Hci. rewrite Lids in Hci.
      assert (Hrc : r2_relcol a i).
      { destruct (r2_kinds_isrel s _ a HW Hat) as (HK & _). unfold r2_relcol. rewrite (HK i (kind_of s c)); [|rewrite nth_error_map, Hci; reflexivity].
        rewrite <- (Hkind c i Ei), Ek. reflexivity. }
      assert (Hinn : In (c, x) newrels).
      { apply Hchar. exists i. split; [exact Hci|]. split; [exact Hrc|]. rewrite (r2b_assigned_in rels c x Hnd Hr). reflexivity. }
      destruct (r2b_goc_dead s (t_arch ot) a newrels c x i HS Hat Hinn Hci Hrc Hd1 Hd2) as (er & Eg).
      rewrite (sa_bind_err Eg). split; [reflexivity|]. right. right. right. right. exists (c, x). split; [exact Hr|].
      right. right. split; assumption.
    + (* all targets zero or stored *)
      assert (Htok : forall r, In r rels -> snd r = zero_ent \/ live s (snd r) = true).
      { intros r Hr. destruct (Hhok r Hr) as [Hz|[Hl|(H1 & H2)]]; [left; exact Hz|right; exact Hl|]. exfalso.
        assert (Hc : existsb (r2b_deadb s) rels = true).
        { apply existsb_exists. exists r. split; [exact Hr|]. unfold r2b_deadb. rewrite H2. apply Nat.eqb_neq in H1. rewrite H1. reflexivity. }
        congruence. }
      destruct (r2b_tail_spec s e rels otid row ot a newrels cm HS Hroom O1 O2 Hlive Hloc Hot Hat Htok (HVimp Htok) Hdiff)
        as (s' & E & HS' & Hl' & Hv' & Ht1 & Ht2 & Hos & Hp & Hfu).
      unfold r2b_tail in E. rewrite E.
      split; [exact HS'|]. split; [reflexivity|]. split; [exact Hlive|]. split; [exact Hrne|]. split; [exact Hnd|]. split.
      { intros r Hr. split; [apply Hcols; exact Hr|]. split; [apply Hrelc; exact Hr|apply Htok; exact Hr]. }
      split; [exact Hl'|]. split; [exact Hv'|]. split; [|split; [exact Hos|split; [exact Hp|exact Hfu]]].
      intros c. destruct (in_dec Nat.eq_dec c (map fst newrels)) as [Hin|Hnin].
      * apply in_map_iff in Hin. destruct Hin as ([c' x] & Ec & Hin). cbn [fst] in Ec. subst c'.
        rewrite (Ht1 c x Hin). apply Hchar in Hin. destruct Hin as (i & Hci & Hr & Hx).
        rewrite Htgt_s. unfold tbl_target, tbl_colidx. rewrite Lids, (r2_index_of_nth _ _ _ NDc Hci). exact Hx.
      * rewrite (Ht2 c Hnin). destruct (r2b_assigned rels c) as [y|] eqn:Eas; [|reflexivity]. exfalso. apply Hnin.
        unfold r2b_assigned in Eas. destruct (find (fun r : rel => Nat.eqb (fst r) c) (rev rels)) as [r|] eqn:Ef; [|discriminate].
        apply find_some in Ef. destruct Ef as (Hr & Hfc). apply in_rev in Hr. apply Nat.eqb_eq in Hfc.
        destruct (HVimp Htok) as (_ & _ & V3 & _). apply V3.
        destruct (Hcolrel r Hr) as (i & Ei & Ek). rewrite (Hkind _ _ Ei) in Ek.
        unfold tbl_colidx in Ei. rewrite Lids in Ei. pose proof (rl_index_of_some _ _ _ Ei) as Hci. rewrite Hfc in Hci.
        exists i. split; [exact Hci|]. destruct (r2_kinds_isrel s _ a HW Hat) as (HK & _).
        unfold r2_relcol. rewrite (HK i (kind_of s c)); [|rewrite nth_error_map, Hci; reflexivity].
        rewrite <- Hfc, Ek. reflexivity.
  - (* nothing changes *)
    destruct XS as (-> & Hsame). destruct (XV _ _ eq_refl) as (Hnd & Hcolrel). rewrite (sa_bind_ok EX). cbv beta iota. unfold ret.
    split; [exact HS|]. split; [reflexivity|]. split; [exact Hlive|]. split; [exact Hrne|]. split; [exact Hnd|]. split.
    { intros r Hr. destruct (Hcolrel r Hr) as (i & Ei & Ek). split; [|split].
      - intros Hc. apply (r2b_val_col s e otid row ot (fst r) Hlive Hloc Hot) in Hc. congruence.
      - rewrite (Hkind _ _ Ei) in Ek. rewrite r2_is_rel_comp_kind. exact Ek.
      - pose proof (Hsame r Hr) as Hcur. rewrite <- Htgt_s in Hcur. apply (r2_St2_targets s e (fst r) (snd r) HS Hcur). }
    split; [exact Hlive|]. split; [reflexivity|]. split.
    { intros c. destruct (r2b_assigned rels c) as [y|] eqn:Eas; [|reflexivity].
      unfold r2b_assigned in Eas. destruct (find (fun r : rel => Nat.eqb (fst r) c) (rev rels)) as [r|] eqn:Ef; [|discriminate].
      cbn [option_map] in Eas. injection Eas as <-. apply find_some in Ef. destruct Ef as (Hr & Hfc). apply in_rev in Hr. apply Nat.eqb_eq in Hfc.
      rewrite Htgt_s, <- Hfc. apply (Hsame r Hr). }
    split; [intros x _; repeat split|]. split; [reflexivity|apply sa_frame_user_refl].
  - (* rejected by getExchangeTargets *)
    destruct XS as (-> & Hcause). rewrite (sa_bind_err EX). split; [reflexivity|]. right. right. right.
    destruct Hcause as [Hd|(r & Hr & [Hc|(i & Ei & Ek)])]; [left; exact Hd|right; exists r; split; [exact Hr|]..].
    + left. apply (r2b_val_col s e otid row ot (fst r) Hlive Hloc Hot). exact Hc.
    + right. left. rewrite (Hkind _ _ Ei) in Ek. rewrite r2_is_rel_comp_kind. exact Ek.
Qed.

(** A valid call on a stored entity of an unlocked world never fails. *)
Corollary r2b_set_relations_ok_noobs : forall s e (rels : list rel), St2 s -> room s ->
  has_obs s EvRemoveRelations = false -> has_obs s EvAddRelations = false ->
  NoDup (map fst rels) ->
  (forall r, In r rels -> is_rel_comp s (fst r) = true /\ (snd r = zero_ent \/ live s (snd r) = true)) ->
  is_locked s = false -> live s e = true -> rels <> [] -> (forall r, In r rels -> val s e (fst r) <> None) ->
  exists s', w_set_relations e rels s = Ok tt s' /\ St2 s' /\ live s' e = true /\ (forall c, val s' e c = val s e c) /\
    (forall c, tgt s' e c = match r2b_assigned rels c with Some x => Some x | None => tgt s e c end) /\
    r2c_others_same s s' e /\ w_pool s' = w_pool s /\ frame_user s s'.
Proof.
  intros s e rels HS Hroom O1 O2 Hnd Hrels Hlk Hl Hne Hval. pose proof HS as (HW & _).
  assert (Hhok : forall r, In r rels -> r2b_handle_ok s (snd r)).
  { intros r Hr. destruct (proj2 (Hrels r Hr)) as [Hz|Hlv]; [left; exact Hz|right; left; exact Hlv]. }
  pose proof (r2b_set_relations_spec_noobs s e rels HS Hroom O1 O2 Hhok) as P.
  destruct (w_set_relations e rels s) as [[] s'|er s'].
  - destruct P as (P1 & _ & _ & _ & _ & _ & P6 & P7 & P8 & P9 & P10 & P11). exists s'. repeat (split; [first [reflexivity|assumption]|]). assumption.
  - exfalso. destruct P as (_ & [Hc|[Hc|[Hc|[Hc|(r & Hr & [Hc|[Hc|(Hc1 & Hc2)]])]]]]).
    + congruence.
    + congruence.
    + contradiction.
    + rewrite (proj2 (rl_rels_distinct_nodup rels) Hnd) in Hc. discriminate.
    + apply (Hval r Hr Hc).
    + rewrite (proj1 (Hrels r Hr)) in Hc. discriminate.
    + destruct (proj2 (Hrels r Hr)) as [Hz|Hlv]; [rewrite Hz in Hc1; apply Hc1; reflexivity|].
      destruct (live_alive s (snd r) HW Hlv) as (Hal & _). congruence.
Qed.

(* ================================================================================================ *)
(** * Regression examples: the two calls that used to corrupt the world

    Before the repair (Go: getExchangeTargets calls checkRelationsDistinct and panics for a named
    non-relation column; model: [rels_distinct] guard and [ENotRelation] in [exchange_targets]) the two
    calls below returned normally and LOST the entity: the relation list computed by getExchangeTargets
    equalled the table's own although "changed" was reported, GetTable returned the entity's own table,
    the row was "moved" into the same table and set_index_direct wrote a stale row number ([wf_b]
    false afterwards, the entity no longer stored). This validation found the defect (the unconditional
    B_set_relations_spec of Rel2Plan was refuted by these scripts); it was confirmed on the Go code and
    repaired. Now both calls are rejected with the state unchanged, as [r2b_set_relations_spec_noobs]
    says. World: Rel2Check's configuration (components 0,1,2 plain, 3,4 relation components), three
    entities, [(4,0)] with components {0,3} and target [(2,0)] in component 3. As script lines:
    [[0]; [0]; [2; 2;0;3; 1; 3;0]; [10; 2; 1; 0;1]] and [[0]; [0]; [2; 2;0;3; 1; 3;0]; [10; 2; 2; 3;1; 3;0]]. *)
Definition r2b_ex_world : W := Properties.Common.exec Rel2Check.r2_cfg [[0]; [0]; [2; 2;0;3; 1; 3;0]]%Z.

Lemma r2b_ex_St2 : St2 r2b_ex_world.
Proof. apply st2_b_sound. vm_compute. reflexivity. Qed.

(** SetRelations((4,0), [0 -> (3,0)]): component 0 is not a relation component: rejected (ENotRelation). *)
Example r2b_regression_nonrelation :
  match w_set_relations (4, 0%N) [(0, (3, 0%N))] r2b_ex_world with
  | Ok _ _ => None
  | Err er s' => Some (er, st2_b s', live s' (4, 0%N), tgt s' (4, 0%N) 3)
  end = Some (ENotRelation, true, true, Some (2, 0%N)).
Proof. vm_compute. reflexivity. Qed.

(** SetRelations((4,0), [3 -> (3,0); 3 -> (2,0)]): component 3 named twice: rejected (ERelUnspec). *)
Example r2b_regression_duplicate :
  match w_set_relations (4, 0%N) [(3, (3, 0%N)); (3, (2, 0%N))] r2b_ex_world with
  | Ok _ _ => None
  | Err er s' => Some (er, st2_b s', live s' (4, 0%N), tgt s' (4, 0%N) 3)
  end = Some (ERelUnspec, true, true, Some (2, 0%N)).
Proof. vm_compute. reflexivity. Qed.

(** the same through the script interpreter: the step panics (flag 1), every check holds afterwards *)
Example r2b_regression_scripts :
  Rel2Check.r2_trace Rel2Check.r2_cfg (init_world Rel2Check.r2_cfg) [[0]; [0]; [2; 2;0;3; 1; 3;0]; [10; 2; 1; 0;1]]%Z =
    [(0, []); (0, []); (0, []); (1, [])]%Z /\
  Rel2Check.r2_trace Rel2Check.r2_cfg (init_world Rel2Check.r2_cfg) [[0]; [0]; [2; 2;0;3; 1; 3;0]; [10; 2; 2; 3;1; 3;0]]%Z =
    [(0, []); (0, []); (0, []); (1, [])]%Z.
Proof. vm_compute. split; reflexivity. Qed.

(** ** The theorem is not vacuous: the valid call SetRelations((4,0), [3 -> (3,0)]) in the same world;
    the conclusions are obtained from the theorem, not by running the model. *)
Lemma r2b_ex_hyps :
  has_obs r2b_ex_world EvRemoveRelations = false /\ has_obs r2b_ex_world EvAddRelations = false /\
  is_locked r2b_ex_world = false /\ live r2b_ex_world (4, 0%N) = true /\ live r2b_ex_world (3, 0%N) = true /\
  is_rel_comp r2b_ex_world 3 = true /\ val r2b_ex_world (4, 0%N) 3 = Some 0%Z /\ val r2b_ex_world (4, 0%N) 0 = Some 0%Z /\
  tgt r2b_ex_world (4, 0%N) 3 = Some (2, 0%N) /\ length (pe (w_pool r2b_ex_world)) = 5.
Proof. vm_compute. repeat split. Qed.

Example r2b_ex_by_theorem : exists s', w_set_relations (4, 0%N) [(3, (3, 0%N))] r2b_ex_world = Ok tt s' /\
  St2 s' /\ live s' (4, 0%N) = true /\ tgt s' (4, 0%N) 3 = Some (3, 0%N) /\ val s' (4, 0%N) 0 = Some 0%Z.
Proof.
  destruct r2b_ex_hyps as (O1 & O2 & Hlk & Hl & Hl3 & Hrc & V3 & V0 & T3 & Hlen).
  assert (Hroom : room r2b_ex_world).
  { unfold room. rewrite Hlen. apply Nat.lt_le_trans with (Nat.pow 2 3); [cbn; lia|apply Nat.pow_le_mono_r; lia]. }
  destruct (r2b_set_relations_ok_noobs r2b_ex_world (4, 0%N) [(3, (3, 0%N))] r2b_ex_St2 Hroom O1 O2)
    as (s' & E & HS' & Hl' & Hv' & Ht' & _).
  - cbn. constructor; [intros []|constructor].
  - intros r [<-|[]]. cbn [fst snd]. split; [exact Hrc|right; exact Hl3].
  - exact Hlk.
  - exact Hl.
  - discriminate.
  - intros r [<-|[]]. cbn [fst]. rewrite V3. discriminate.
  - exists s'. split; [exact E|]. split; [exact HS'|]. split; [exact Hl'|]. split; [rewrite Ht'; reflexivity|rewrite Hv'; exact V0].
Qed.

Definition r2b_setrel_all :=
  (r2b_move_spec, r2b_newrels, r2b_tail_spec, r2b_goc_dead, r2b_set_relations_spec_noobs, r2b_set_relations_ok_noobs,
   r2b_ex_St2, r2b_regression_nonrelation, r2b_regression_duplicate, r2b_regression_scripts, r2b_ex_hyps, r2b_ex_by_theorem).
Print Assumptions r2b_setrel_all.
