(** * Rel2Ops: work package A of the relation tier: entity operations that take relations
    ([new_entity ids rels], [w_add e add rels], [w_remove e rem], [w_exchange e add rem rels]) in
    worlds WITH relation components, against the invariant [St2] of Rel2Defs. Helper prefix [r2a_].

    Statements of Rel2Plan and where they are proved (names here carry the prefix [r2a_]):
    - A_find_arch       -> [r2a_find_arch] (for every [St2G D P X]; frame [r2a_arch_ext] instead of
                           [r2_relabel], which is false when an archetype is appended: Part 8);
    - A_valid_of_checks -> [r2a_valid_of_checks] (verbatim);
    - A_find_add        -> [r2a_find_add]; A_find_remove -> [r2a_find_remove]; the Exchange finder ->
                           [r2a_find_exchange]; common tail [r2a_finder_tail]. Since createTable
                           registers the targets itself, the finders return [St2] (nothing pending).
                           A finder fails exactly when a component is repeated / present / missing or
                           a relation component among [add] is left without target; in the last case
                           the (relation) archetype may already exist without table: the failing state
                           satisfies [St2] and keeps every active table literally ([r2a_keeps]); an
                           archetype WITHOUT relation components is created with its table
                           (createArchetype as repaired), so none is ever left without table;
    - A_new_entity_spec -> [r2a_new_entity_spec]; A_add_spec -> [r2a_add_spec];
      A_remove_spec -> [r2a_remove_spec]; A_exchange_spec -> [r2a_exchange_spec]. Each [Err] branch
      also states WHY the call failed, which gives the "valid calls never fail" corollaries
      [r2a_new_entity_ok], [r2a_add_ok], [r2a_exchange_add_ok] (no assumption about observers) and
      [r2a_remove_ok_noobs], [r2a_exchange_ok_noobs] (removal callbacks run before the move and may
      panic, e.g. when the lock bits are exhausted; the storage is untouched then).

    ADJUSTMENT of the precondition (found by validating the statements on reachable worlds before
    proving them, Part 8): [rels_call_ok] of Rel2Plan lets a call name a NON-relation component among
    the added ones. Such a call is accepted silently whenever the destination table already exists
    (GetTable ignores relation arguments for an archetype without relation components; Go:
    archetype.GetTable), shows the zero target instead of the named one and flags the named entity
    as a target; it panics (ENotRelation) only when the table has to be created. The theorems
    therefore require [r2a_rels_ok] (= [rels_call_ok] plus "only relation components are named") and
    DERIVE, for a successful call, that every relation component among the added ones was named
    ([r2a_rels_complete]). No misbehaviour on a valid call was found. *)
From Ark Require Import Model.Base Model.Mask Model.Pool Model.Util Model.World Model.Run.
From Ark Require Import Proofs.TableProofs Proofs.MaskProofs Proofs.WF Proofs.StorageA Proofs.StorageBDefs
  Proofs.StorageB_sb1 Proofs.StorageB_sb2 Proofs.StorageB_sb3 Proofs.RelProofs Proofs.BatchProofs Proofs.Rel2Defs Proofs.Rel2Struct
  Proofs.Rel2Remove Proofs.Rel2SetRel.
From Ark Require Properties.Common Proofs.Rel2Check.
From RecordUpdate Require Import RecordSet.
Import RecordSetNotations.
From Coq Require Import Lia Permutation.

(* ================================================================================================ *)
(** * Part 1: find_or_create_arch in relation worlds (A_find_arch) *)

(** What archetype creation does to a world: a fresh archetype may be appended, together with its
    table if it has no relation components (createArchetype as repaired; before the repair the table
    was left to the following createTable, and a call rejected in between left the archetype without
    table). Existing tables and archetypes are kept literally; index, pool and the values of the
    target flags are untouched; the cache lists may be extended by the new table. *)
Definition r2a_arch_ext (s s' : W) : Prop :=
  w_cfg s' = w_cfg s /\ w_reg s' = w_reg s /\ w_pool s' = w_pool s /\ w_index s' = w_index s /\
  (length (w_istarget s') = length (w_istarget s) /\ forall k, nth k (w_istarget s') false = nth k (w_istarget s) false) /\
  (forall tid t, nth_error (w_tables s) tid = Some t -> nth_error (w_tables s') tid = Some t) /\
  w_centries s' = w_centries s /\ w_filters s' = w_filters s /\
  (forall i a, nth_error (w_archs s) i = Some a -> nth_error (w_archs s') i = Some a).

Lemma r2a_arch_ext_refl : forall s, r2a_arch_ext s s.
Proof. intros s. unfold r2a_arch_ext. repeat split; auto. Qed.

Lemma r2a_old_arch : forall (l : list arch) a i b t_a, nth_error l t_a = Some b ->
  nth_error (l ++ [a]) t_a = Some i -> i = b.
Proof.
  intros l a i b ta Hb Hi. rewrite (sa_nth_error_snoc_old _ l a ta b Hb) in Hi. injection Hi as <-. reflexivity.
Qed.

Lemma r2a_append_arch_WF : forall s s' a,
  WF s ->
  w_archs s' = w_archs s ++ [a] ->
  w_cfg s' = w_cfg s -> w_reg s' = w_reg s -> w_pool s' = w_pool s -> w_index s' = w_index s ->
  w_istarget s' = w_istarget s -> w_tables s' = w_tables s ->
  length (w_compindex s') = length (w_compindex s) -> length (w_archcount s') = length (w_archcount s) ->
  w_cheap s' = w_cheap s -> w_centries s' = w_centries s -> w_filters s' = w_filters s ->
  (forall j, mk_get (a_mask a) j = true -> j < length (w_reg s)) ->
  a_comps a = mk_to_list (a_mask a) (length (w_reg s)) ->
  a_isrel a = map (fun c => ck_rel (kind_of s c)) (a_comps a) ->
  a_numrel a = length (filter (fun b : bool => b) (a_isrel a)) -> a_tables a = [] -> a_free a = [] -> a_tgttabs a = [] ->
  a_reltabs a = map (fun _ => []) (a_comps a) ->
  (forall i b, nth_error (w_archs s) i = Some b -> a_mask b <> a_mask a) ->
  WF s'.
Proof.
  intros s s' a HW EA E1 E2 E3 E4 E5 E6 E8 E9 E10 E11 E12 Hm Hc Hi Hn Ht Hf Hg Hr Hu.
  assert (K : forall c, kind_of s' c = kind_of s c) by (apply sa_kind_of_ext; auto).
  assert (L : forall e, loc s' e = loc s e) by (apply sa_loc_ext; auto).
  assert (KM : forall l, map (kind_of s') l = map (kind_of s) l) by (intros; apply map_ext; auto).
  destruct HW. constructor; rewrite ?EA, ?E1, ?E2, ?E3, ?E4, ?E5, ?E6, ?E10, ?E11, ?E12; auto.
  - intros tid t T. destruct (wf_layout tid t T) as (b & B1 & B2 & B3 & B4). exists b.
    rewrite KM. split; [apply sa_nth_error_snoc_old; exact B1|auto].
  - intros aid b Hb. apply sa_nth_error_snoc in Hb. destruct Hb as [[_ Hb]|[_ ->]].
    + destruct (wf_arch_comps aid b Hb) as (A1 & A2 & A3 & A4 & A5). repeat split; auto.
      rewrite A3. apply map_ext. intros c. rewrite K. reflexivity.
    + repeat split; auto.
      * rewrite Hi. apply map_ext. intros c. rewrite K. reflexivity.
      * rewrite Hr. apply map_length.
  - intros i j x y Hx Hy M. apply sa_nth_error_snoc in Hx, Hy.
    destruct Hx as [[Li Hx]|[Li ->]], Hy as [[Lj Hy]|[Lj ->]].
    + eapply wf_arch_unique; eauto.
    + exfalso. eapply Hu; eauto.
    + exfalso. eapply Hu; eauto.
    + lia.
  - intros aid b tid Hb. apply sa_nth_error_snoc in Hb. destruct Hb as [[_ Hb]|[_ ->]].
    + apply wf_arch_tables. exact Hb.
    + rewrite Ht, Hf, Hg, Hr. intros [[]|[[]|[(i & m & k & l & Hm' & Hk & _)|(k & l & Hk & _)]]].
      * rewrite nth_error_map in Hm'. destruct (nth_error (a_comps a) i); simpl in Hm'; [|discriminate].
        inversion Hm'; subst m. discriminate.
      * discriminate.
  - intros aid b Hb. apply sa_nth_error_snoc in Hb. destruct Hb as [[_ Hb]|[_ ->]].
    + apply wf_arch_norel_table with (aid := aid). exact Hb.
    + intros _. rewrite Ht. simpl. lia.
  - destruct wf_arch0 as (a0 & A0 & M0 & T0). exists a0. split; [apply sa_nth_error_snoc_old; exact A0|auto].
  - rewrite E8, E9. exact wf_index_lists.
  - intros tid t r T R. rewrite L. auto.
Qed.

Lemma r2a_append_arch_St2G : forall D P X s s' a,
  St2G D P X s ->
  w_archs s' = w_archs s ++ [a] ->
  w_cfg s' = w_cfg s -> w_reg s' = w_reg s -> w_pool s' = w_pool s -> w_index s' = w_index s ->
  w_istarget s' = w_istarget s -> w_tables s' = w_tables s ->
  w_relarchs s' = (if Nat.eqb (a_numrel a) 0 then w_relarchs s else w_relarchs s ++ [length (w_archs s)]) ->
  length (w_compindex s') = length (w_compindex s) -> length (w_archcount s') = length (w_archcount s) ->
  w_cheap s' = w_cheap s -> w_centries s' = w_centries s -> w_filters s' = w_filters s ->
  (forall j, mk_get (a_mask a) j = true -> j < length (w_reg s)) ->
  a_comps a = mk_to_list (a_mask a) (length (w_reg s)) ->
  a_isrel a = map (fun c => ck_rel (kind_of s c)) (a_comps a) ->
  a_numrel a = length (filter (fun b : bool => b) (a_isrel a)) -> a_tables a = [] -> a_free a = [] -> a_tgttabs a = [] ->
  a_reltabs a = map (fun _ => []) (a_comps a) ->
  (forall i b, nth_error (w_archs s) i = Some b -> a_mask b <> a_mask a) ->
  St2G D P X s'.
Proof.
  intros D P X s s' a (HW & HR & HT & HC) EA E1 E2 E3 E4 E5 E6 E7 E8 E9 E10 E11 E12 Hm Hc Hi Hn Ht Hf Hg Hr Hu.
  assert (HW' : WF s') by (eapply (r2a_append_arch_WF s s' a); eassumption).
  (* the archetype of an existing table is an old one *)
  assert (Old : forall tid t b, nth_error (w_tables s) tid = Some t -> nth_error (w_archs s ++ [a]) (t_arch t) = Some b ->
            nth_error (w_archs s) (t_arch t) = Some b).
  { intros tid t b Ht0 Hb. destruct (wf_layout _ HW tid t Ht0) as (b0 & B0 & _).
    rewrite (r2a_old_arch _ _ _ _ _ B0 Hb). exact B0. }
  assert (NewM : forall i m, nth_error (a_reltabs a) i = Some m -> m = []).
  { intros i m Hm'. rewrite Hr, nth_error_map in Hm'. destruct (nth_error (a_comps a) i); [|discriminate].
    cbn in Hm'. injection Hm' as <-. reflexivity. }
  split; [exact HW'|]. split; [|split].
  - destruct HR. constructor; rewrite ?EA, ?E6.
    + intros aid b Hb. apply sa_nth_error_snoc in Hb. destruct Hb as [[_ Hb]|[_ ->]]; [eauto|].
      rewrite Ht, Hf. split; constructor.
    + intros aid b tid t Hb Hin Ht0. apply sa_nth_error_snoc in Hb. destruct Hb as [[_ Hb]|[_ ->]]; [eauto|].
      rewrite Ht in Hin. destruct Hin.
    + intros aid b tid t Hb Hin Ht0. apply sa_nth_error_snoc in Hb. destruct Hb as [[_ Hb]|[_ ->]]; [eauto|].
      rewrite Hf in Hin. destruct Hin.
    + intros tid t Ht0. destruct (ri_listed tid t Ht0) as (b & Hb & Hl). exists b.
      split; [apply sa_nth_error_snoc_old; exact Hb|exact Hl].
    + intros aid b Hb Hn0. apply sa_nth_error_snoc in Hb. destruct Hb as [[_ Hb]|[_ ->]]; [eauto|].
      split; [exact Hf|]. split; [exact Hg|]. rewrite Hr. apply Forall_forall. intros x Hx. apply in_map_iff in Hx.
      destruct Hx as (? & <- & _). reflexivity.
    + intros tid t b Ht0 Hb. apply (ri_shape tid t b Ht0). apply (Old tid t b Ht0 Hb).
    + exact ri_unique.
    + intros aid b i m k l Hb Hm' Hk. apply sa_nth_error_snoc in Hb. destruct Hb as [[_ Hb]|[_ ->]]; [eauto|].
      rewrite (NewM i m Hm') in Hk. discriminate.
    + intros tid t b i x Ht0 Hfr Hb. apply (ri_reltabs_complete tid t b i x Ht0 Hfr). apply (Old tid t b Ht0 Hb).
    + intros aid b k l Hb Hk. apply sa_nth_error_snoc in Hb. destruct Hb as [[_ Hb]|[_ ->]]; [eauto|].
      rewrite Hg in Hk. discriminate.
    + intros tid t b i x Ht0 Hfr Hb. apply (ri_tgttabs_complete tid t b i x Ht0 Hfr). apply (Old tid t b Ht0 Hb).
    + intros aid b i m k l Hb Hm' Hk. apply sa_nth_error_snoc in Hb. destruct Hb as [[_ Hb]|[_ ->]]; [eauto|].
      rewrite (NewM i m Hm') in Hk. discriminate.
    + destruct ri_relarchs as (ND & Hiff). rewrite E7.
      assert (Hlt : forall x, In x (w_relarchs s) -> x < length (w_archs s)).
      { intros x Hx. apply Hiff in Hx. destruct Hx as (b & Hb & _). eapply sa_nth_error_lt. exact Hb. }
      destruct (Nat.eqb_spec (a_numrel a) 0) as [Hz|Hnz].
      * split; [exact ND|]. intros aid. rewrite (Hiff aid). split.
        -- intros (b & Hb & Hp). exists b. split; [apply sa_nth_error_snoc_old; exact Hb|exact Hp].
        -- intros (b & Hb & Hp). apply sa_nth_error_snoc in Hb. destruct Hb as [[_ Hb]|[_ ->]]; [eauto|lia].
      * split.
        -- apply r2_NoDup_snoc; [exact ND|]. intros Hin. apply Hlt in Hin. lia.
        -- intros aid. rewrite in_app_iff. split.
           ++ intros [Hin|[<-|[]]].
              ** apply Hiff in Hin. destruct Hin as (b & Hb & Hp). exists b. split; [apply sa_nth_error_snoc_old; exact Hb|exact Hp].
              ** exists a. split; [apply sa_nth_error_snoc_new|lia].
           ++ intros (b & Hb & Hp). apply sa_nth_error_snoc in Hb. destruct Hb as [[_ Hb]|[-> ->]].
              ** left. apply Hiff. eauto.
              ** right. left. reflexivity.
    + intros tid t r Ht0 Hfr Hin. destruct (ri_targets_ok tid t r Ht0 Hfr Hin) as [Hz|[Hl|Hd]].
      * left. exact Hz.
      * right. left. rewrite (r2_live_ext s s' E4 E6). exact Hl.
      * right. right. exact Hd.
  - intros aid b k l Hb Hk. rewrite EA in Hb. rewrite E5. apply sa_nth_error_snoc in Hb. destruct Hb as [[_ Hb]|[_ ->]].
    + apply (HT aid b k l Hb Hk).
    + rewrite Hg in Hk. discriminate.
  - destruct HC. constructor; rewrite ?E11; [exact ci_nodup|].
    intros addr e f Hin He Hf0. rewrite E10 in He. rewrite E12 in Hf0.
    destruct (ci_entry addr e f Hin He Hf0) as (N & M & B & I). split; [exact N|]. split; [exact M|]. split.
    + rewrite E6. exact B.
    + intros tid HX. rewrite (I tid HX). unfold r2_cache_member. rewrite E6, EA. split.
      * intros (t & b & Ht0 & Hfr & Hb & R). exists t, b. split; [exact Ht0|]. split; [exact Hfr|].
        split; [apply sa_nth_error_snoc_old; exact Hb|exact R].
      * intros (t & b & Ht0 & Hfr & Hb & R). exists t, b. split; [exact Ht0|]. split; [exact Hfr|].
        split; [apply (Old tid t b Ht0 Hb)|exact R].
Qed.

(** The archetype record alone: appended without table, nothing else moves. *)
Lemma r2a_create_archetype_bare : forall D P X s m, St2G D P X s -> (forall j, mk_get m j = true -> j < length (w_reg s)) ->
  (forall j a, nth_error (w_archs s) j = Some a -> a_mask a <> m) ->
  exists s1 a, create_archetype_bare m s = Ok (length (w_archs s)) s1 /\ St2G D P X s1 /\
    w_archs s1 = w_archs s ++ [a] /\ a_mask a = m /\ a_tables a = [] /\ a_free a = [] /\ a_tgttabs a = [] /\
    a_reltabs a = map (fun _ => []) (a_comps a) /\
    w_cfg s1 = w_cfg s /\ w_reg s1 = w_reg s /\ w_pool s1 = w_pool s /\ w_index s1 = w_index s /\
    w_istarget s1 = w_istarget s /\ w_tables s1 = w_tables s /\ w_cheap s1 = w_cheap s /\
    w_centries s1 = w_centries s /\ w_filters s1 = w_filters s /\ side_same s s1 /\ frame_user s s1.
Proof.
  intros D P X s m HS Hm Hu.
  unfold create_archetype_bare, bind, get, put, ret. eexists. eexists. split; [reflexivity|].
  split.
  { eapply r2a_append_arch_St2G with (s := s); try reflexivity; try exact HS; cbn; auto;
      try (apply sa_fold_length; intros; apply updf_length). }
  split; [reflexivity|]. split; [reflexivity|]. split; [reflexivity|]. split; [reflexivity|]. split; [reflexivity|].
  split; [reflexivity|]. split; [reflexivity|]. split; [reflexivity|]. split; [reflexivity|]. split; [reflexivity|].
  split; [reflexivity|]. split; [reflexivity|]. split; [reflexivity|]. split; [reflexivity|]. split; [reflexivity|].
  split; [unfold side_same; cbn; repeat split|unfold frame_user; cbn; repeat split].
Qed.

(** [find_or_create_arch] never fails, keeps the invariant and everything an entity can observe. *)
Lemma r2a_find_arch : forall D P X s m, St2G D P X s -> (forall j, mk_get m j = true -> j < length (w_reg s)) ->
  exists aid s', find_or_create_arch m s = Ok aid s' /\ St2G D P X s' /\ r2a_arch_ext s s' /\ side_same s s' /\
                 frame_user s s' /\
                 (exists a, nth_error (w_archs s') aid = Some a /\ a_mask a = m).
Proof.
  intros D P X s m HS Hm. unfold find_or_create_arch, bind, get. rewrite sa_find_arch_go.
  destruct (sa_find_go m (w_archs s) 0) as [i|] eqn:F.
  - apply sa_find_go_some in F. destruct F as (_ & a & Ha & Ma). rewrite Nat.sub_0_r in Ha.
    exists i, s. unfold ret.
    split; [reflexivity|]. split; [exact HS|]. split; [apply r2a_arch_ext_refl|].
    split; [apply sa_side_same_refl|]. split; [apply sa_frame_user_refl|].
    exists a. auto.
  - pose proof (sa_find_go_none _ _ _ F) as Hu.
    destruct (r2a_create_archetype_bare D P X s m HS Hm Hu) as
      (s1 & a & E1 & HS1 & EA & Ma & Hta & Hfa & Hga & Hra & C1 & C2 & C3 & C4 & C5 & C6 & C7 & C8 & C9 & D1 & F1).
    set (aid := length (w_archs s)) in *.
    assert (Ha : nth_error (w_archs s1) aid = Some a) by (rewrite EA; apply sa_nth_error_snoc_new).
    assert (Hold : forall i b, nth_error (w_archs s) i = Some b -> nth_error (w_archs s1) i = Some b).
    { intros i b Hb. rewrite EA. apply sa_nth_error_snoc_old. exact Hb. }
    unfold create_archetype. rewrite (sa_bind_ok E1), (sa_bind_ok (sa_getA_eq _ _ _ Ha)).
    destruct (Nat.eqb_spec (a_numrel a) 0) as [Hn|Hn].
    + (* no relation components: the table is created with the archetype *)
      pose proof HS as (HW & _). pose proof HS1 as (HW1 & _).
      destruct (r2_create_table_spec D P X s1 aid a [] HS1 Ha) as
        (tid & s2 & t' & E2 & HS2 & R2 & Ht' & Earch & _ & _ & _ & _ & Hoth & Haoth & Hcase & Hfl & I2 & P2 & D2 & F2).
      { split; [constructor|]. split; [cbn; lia|]. split; [|intros r []].
        intros c. split; [intros []|]. intros (j & _ & Hr). exfalso. exact (r2_norel_cols s1 aid a HW1 Ha Hn j Hr). }
      { intros x tx tg Hx Ex _ _. rewrite C6 in Hx. destruct (wf_layout _ HW x tx Hx) as (b & Hb & _).
        apply sa_nth_error_lt in Hb. fold aid in Hb. lia. }
      { intros _. exact Hta. }
      { intros x Hx. rewrite Hfa in Hx. destruct Hx. }
      { intros x Hx. rewrite Hfa in Hx. destruct Hx. }
      exists aid, s2. split.
      { unfold bind. rewrite E2. reflexivity. }
      assert (Htid : tid = length (w_tables s)).
      { destruct Hcase as [[Et _]|(fr & Efr)]; [rewrite Et, C6; reflexivity|]. rewrite Hfa in Efr. destruct fr; discriminate. }
      split; [exact HS2|]. split.
      { unfold r2a_arch_ext. destruct R2. destruct Hfl as (L1 & _ & L3 & _).
        split; [congruence|]. split; [congruence|]. split; [congruence|]. split; [congruence|].
        split; [split; [congruence|intros k; rewrite <- C5; apply L3; intros []]|].
        split.
        { intros x tx Hx. rewrite Hoth; [rewrite C6; exact Hx|]. apply sa_nth_error_lt in Hx. lia. }
        split; [congruence|]. split; [congruence|].
        intros i b Hb. rewrite Haoth; [apply Hold; exact Hb|]. apply sa_nth_error_lt in Hb. fold aid in Hb. lia. }
      split; [eapply sa_side_same_trans; eassumption|]. split; [eapply sa_frame_user_trans; eassumption|].
      destruct (rl_archs _ _ R2 aid a Ha) as (a' & Ha' & Ma' & _). exists a'. split; [exact Ha'|congruence].
    + exists aid, s1. split; [reflexivity|]. split; [exact HS1|]. split.
      { unfold r2a_arch_ext. rewrite C1, C2, C3, C4, C5, C6, C8, C9. repeat split; auto. }
      split; [exact D1|]. split; [exact F1|]. exists a. auto.
Qed.

(* ================================================================================================ *)
(** * Part 2: relation columns, counting (A_valid_of_checks), targets of a table *)

Lemma r2a_is_rel_lt : forall s c, is_rel_comp s c = true -> c < length (w_reg s).
Proof.
  intros s c H. unfold is_rel_comp in H. destruct (nth_error (w_reg s) c) eqn:E; [|discriminate].
  eapply sa_nth_error_lt. exact E.
Qed.

(** relation columns of an archetype, in terms of its mask *)
Lemma r2a_relcol_iff : forall s aid a c, WF s -> nth_error (w_archs s) aid = Some a ->
  ((exists i, nth_error (a_comps a) i = Some c /\ r2_relcol a i) <-> (mk_get (a_mask a) c = true /\ is_rel_comp s c = true)).
Proof.
  intros s aid a c HW Ha. destruct (wf_arch_comps _ HW aid a Ha) as (C1 & C2 & C3 & _). split.
  - intros (i & Hi & Hr). unfold r2_relcol in Hr. rewrite C3, nth_error_map, Hi in Hr. cbn in Hr. injection Hr as Hr.
    split; [|rewrite r2_is_rel_comp_kind; exact Hr].
    apply nth_error_In in Hi. rewrite C1 in Hi. apply mk_to_list_spec in Hi. apply Hi.
  - intros (Hm & Hr). assert (Hin : In c (a_comps a)) by (rewrite C1; apply mk_to_list_spec; split; [apply C2; exact Hm|exact Hm]).
    apply In_nth_error in Hin. destruct Hin as (i & Hi). exists i. split; [exact Hi|].
    unfold r2_relcol. rewrite C3, nth_error_map, Hi. cbn. rewrite <- r2_is_rel_comp_kind, Hr. reflexivity.
Qed.

Lemma r2a_filter_map_len : forall A (f : A -> bool) l, length (filter (fun b : bool => b) (map f l)) = length (filter f l).
Proof. intros A f l. induction l as [|x t IH]; [reflexivity|]. cbn. destruct (f x); cbn; rewrite IH; reflexivity. Qed.

Lemma r2a_numrel : forall s aid a, WF s -> nth_error (w_archs s) aid = Some a ->
  a_numrel a = length (filter (fun c => is_rel_comp s c) (a_comps a)).
Proof.
  intros s aid a HW Ha. destruct (wf_arch_comps _ HW aid a Ha) as (_ & _ & C3 & C4 & _). rewrite C4, C3, r2a_filter_map_len.
  f_equal. apply filter_ext. intros c. symmetry. apply r2_is_rel_comp_kind.
Qed.

Lemma r2a_relcomps_in : forall s aid a c, WF s -> nth_error (w_archs s) aid = Some a ->
  (In c (filter (fun c => is_rel_comp s c) (a_comps a)) <-> (mk_get (a_mask a) c = true /\ is_rel_comp s c = true)).
Proof.
  intros s aid a c HW Ha. destruct (wf_arch_comps _ HW aid a Ha) as (C1 & C2 & _). rewrite filter_In, C1, mk_to_list_spec. split.
  - intros ((_ & Hm) & Hr). split; assumption.
  - intros (Hm & Hr). split; [split; [apply C2; exact Hm|exact Hm]|exact Hr].
Qed.

(** the counting step that turns "createTable accepted a duplicate-free list" into [r2_rels_valid] *)
Lemma r2a_valid_of_checks : forall s aid a rels, WF s -> nth_error (w_archs s) aid = Some a ->
  NoDup (map fst rels) -> a_numrel a <= length rels ->
  (forall r, In r rels -> exists i, nth_error (a_comps a) i = Some (fst r) /\ r2_relcol a i) ->
  (forall r, In r rels -> snd r = zero_ent \/ live s (snd r) = true) ->
  r2_rels_valid s a rels.
Proof.
  intros s aid a rels HW Ha ND Hle Hcols Htg.
  set (R := filter (fun c => is_rel_comp s c) (a_comps a)).
  assert (NDR : NoDup R) by (apply NoDup_filter; apply (r2_comps_nodup s aid a HW Ha)).
  assert (Hincl : incl (map fst rels) R).
  { intros c Hc. apply in_map_iff in Hc. destruct Hc as (r & <- & Hr). apply (r2a_relcomps_in s aid a _ HW Ha).
    apply (r2a_relcol_iff s aid a _ HW Ha). apply Hcols. exact Hr. }
  pose proof (NoDup_incl_length ND Hincl) as Hl1. rewrite map_length in Hl1.
  pose proof (r2a_numrel s aid a HW Ha) as Hn. fold R in Hn.
  assert (Hlen : length rels = a_numrel a) by lia.
  split; [exact ND|]. split; [exact Hlen|]. split; [|exact Htg].
  intros c. split.
  - intros Hc. apply (r2a_relcol_iff s aid a c HW Ha). apply (r2a_relcomps_in s aid a c HW Ha). apply Hincl. exact Hc.
  - intros Hc. apply (r2a_relcol_iff s aid a c HW Ha) in Hc. apply (r2a_relcomps_in s aid a c HW Ha) in Hc.
    assert (Hincl2 : incl R (map fst rels)).
    { apply NoDup_length_incl; [exact ND| |exact Hincl]. rewrite map_length. lia. }
    apply Hincl2. exact Hc.
Qed.

(** an incomplete list is shorter than the number of relation columns *)
Lemma r2a_incomplete_short : forall s aid a (rels : list rel), WF s -> nth_error (w_archs s) aid = Some a ->
  NoDup (map fst rels) ->
  (forall c, mk_get (a_mask a) c = true -> is_rel_comp s c = true -> In c (map fst rels)) ->
  a_numrel a <= length rels.
Proof.
  intros s aid a rels HW Ha ND Hc. rewrite (r2a_numrel s aid a HW Ha).
  replace (length rels) with (length (map fst rels)) by apply map_length.
  apply NoDup_incl_length; [apply NoDup_filter; apply (r2_comps_nodup s aid a HW Ha)|].
  intros c Hin. apply (r2a_relcomps_in s aid a c HW Ha) in Hin. apply Hc; apply Hin.
Qed.

(** the per-component targets of a table, read off its relation list *)
Lemma r2a_tbl_target : forall D s tid t a, WF s -> RelInvG D s ->
  nth_error (w_tables s) tid = Some t -> nth_error (w_archs s) (t_arch t) = Some a ->
  (forall c x, In (c, x) (t_rels t) <-> (is_rel_comp s c = true /\ tbl_target t c = Some x)) /\
  (forall c, mk_get (a_mask a) c = true -> is_rel_comp s c = false -> tbl_target t c = Some zero_ent) /\
  (forall c, mk_get (a_mask a) c = false -> tbl_target t c = None) /\
  (forall c, mk_get (a_mask a) c = true -> exists x, tbl_target t c = Some x).
Proof.
  intros D s tid t a HW HR Ht Ha.
  destruct (wf_layout _ HW tid t Ht) as (a0 & Ha0 & Lid & Lk & Ltg). rewrite Ha in Ha0. injection Ha0 as <-.
  destruct (wf_arch_comps _ HW _ a Ha) as (C1 & C2 & C3 & _).
  pose proof (r2_comps_nodup s _ a HW Ha) as NDc.
  destruct (ri_shape _ _ HR tid t a Ht Ha) as (S1 & S2 & S3 & S4).
  assert (Tidx : forall c i, nth_error (a_comps a) i = Some c -> tbl_target t c = nth_error (t_targets t) i).
  { intros c i Hi. unfold tbl_target, tbl_colidx. rewrite Lid, (r2_index_of_nth _ _ _ NDc Hi). reflexivity. }
  assert (Tnone : forall c, ~ In c (a_comps a) -> tbl_target t c = None).
  { intros c Hn. unfold tbl_target, tbl_colidx. rewrite Lid. destruct (index_of c (a_comps a)) eqn:E; [|reflexivity].
    exfalso. apply Hn. eapply sa_index_of_some_in. exact E. }
  assert (Tsome : forall c x, tbl_target t c = Some x -> exists i, nth_error (a_comps a) i = Some c /\ nth_error (t_targets t) i = Some x).
  { intros c x H. unfold tbl_target, tbl_colidx in H. rewrite Lid in H. destruct (index_of c (a_comps a)) as [i|] eqn:E; [|discriminate].
    exists i. split; [apply rl_index_of_some; exact E|exact H]. }
  split; [|split; [|split]].
  - intros c x. rewrite S2. split.
    + intros (i & Hi & Hr & Hx). split.
      * apply (r2a_relcol_iff s _ a c HW Ha). exists i. split; assumption.
      * rewrite (Tidx c i Hi). exact Hx.
    + intros (Hr & Hx). destruct (Tsome c x Hx) as (i & Hi & Hxi). exists i. split; [exact Hi|]. split; [|exact Hxi].
      unfold r2_relcol. rewrite C3, nth_error_map, Hi. cbn. rewrite <- r2_is_rel_comp_kind, Hr. reflexivity.
  - intros c Hm Hr. assert (Hin : In c (a_comps a)) by (rewrite C1; apply mk_to_list_spec; split; [apply C2; exact Hm|exact Hm]).
    apply In_nth_error in Hin. destruct Hin as (i & Hi). rewrite (Tidx c i Hi). apply S3.
    rewrite C3, nth_error_map, Hi. cbn. rewrite <- r2_is_rel_comp_kind, Hr. reflexivity.
  - intros c Hm. apply Tnone. rewrite C1, mk_to_list_spec. intros (_ & Hc). congruence.
  - intros c Hm. assert (Hin : In c (a_comps a)) by (rewrite C1; apply mk_to_list_spec; split; [apply C2; exact Hm|exact Hm]).
    apply In_nth_error in Hin. destruct Hin as (i & Hi). rewrite (Tidx c i Hi).
    destruct (nth_error (t_targets t) i) as [x|] eqn:E; [exists x; reflexivity|].
    apply nth_error_None in E. rewrite Ltg, Lid in E. apply sa_nth_error_lt in Hi. lia.
Qed.

(* ================================================================================================ *)
(** * Part 3: the table finders with relations (A_find_add, A_find_remove, find_or_create_table) *)

(** What the finders preserve: index and pool; every ACTIVE table literally (only free tables are
    recycled, only new tables appended); the masks of the archetypes. *)
Definition r2a_keeps (s s' : W) : Prop :=
  w_index s' = w_index s /\ w_pool s' = w_pool s /\
  (forall tid t, nth_error (w_tables s) tid = Some t -> t_free t = false -> nth_error (w_tables s') tid = Some t) /\
  (forall aid a, nth_error (w_archs s) aid = Some a -> exists a', nth_error (w_archs s') aid = Some a' /\ a_mask a' = a_mask a) /\
  side_same s s' /\ frame_user s s'.

Lemma r2a_keeps_refl : forall s, r2a_keeps s s.
Proof.
  intros s. split; [reflexivity|]. split; [reflexivity|]. split; [auto|]. split; [eauto|].
  split; [apply sa_side_same_refl|apply sa_frame_user_refl].
Qed.

Lemma r2a_keeps_trans : forall s1 s2 s3, r2a_keeps s1 s2 -> r2a_keeps s2 s3 -> r2a_keeps s1 s3.
Proof.
  intros s1 s2 s3 (A1 & A2 & A3 & A4 & A5 & A6) (B1 & B2 & B3 & B4 & B5 & B6).
  split; [congruence|]. split; [congruence|]. split; [|split; [|split]].
  - intros tid t Ht Hf. apply B3; [apply A3; assumption|exact Hf].
  - intros aid a Ha. destruct (A4 aid a Ha) as (a' & Ha' & Ma'). destruct (B4 aid a' Ha') as (a'' & Ha'' & Ma'').
    exists a''. split; [exact Ha''|congruence].
  - eapply sa_side_same_trans; eauto.
  - eapply sa_frame_user_trans; eauto.
Qed.

Lemma r2a_keeps_is_rel : forall s s', r2a_keeps s s' -> forall c, is_rel_comp s' c = is_rel_comp s c.
Proof. intros s s' (_ & _ & _ & _ & _ & (E & _)) c. unfold is_rel_comp. rewrite E. reflexivity. Qed.

Lemma r2a_keeps_room : forall s s', r2a_keeps s s' -> room s -> room s'.
Proof. intros s s' (_ & E & _) H. unfold room. rewrite E. exact H. Qed.

(** the table of a located entity is active and therefore kept *)
Lemma r2a_keeps_loc : forall D s s' e tid r, WF s -> RelInvG D s -> r2a_keeps s s' -> loc s e = Some (tid, r) ->
  loc s' e = Some (tid, r) /\ exists t, nth_error (w_tables s) tid = Some t /\ nth_error (w_tables s') tid = Some t /\ t_free t = false /\ r < t_len t.
Proof.
  intros D s s' e tid r HW HR (K1 & K2 & K3 & _) Hl. split; [rewrite (sa_loc_ext s s' K1); exact Hl|].
  apply sb2_loc_iff in Hl. destruct (wf_index _ HW _ _ _ Hl) as (t & Ht & Hr & _).
  assert (Hf : t_free t = false).
  { destruct (t_free t) eqn:Ef; [|reflexivity]. pose proof (r2c_free_len0 D s tid t HR Ht Ef). lia. }
  exists t. split; [exact Ht|]. split; [apply K3; assumption|]. split; assumption.
Qed.

Lemma r2a_keeps_obs : forall D s s', WF s -> RelInvG D s -> r2a_keeps s s' ->
  content_same s s' /\ r2c_tgt_same s s'.
Proof.
  intros D s s' HW HR K.
  assert (H : forall e, live s' e = live s e /\ (forall c, value_of s' e c = value_of s e c) /\ (forall c, target_of s' e c = target_of s e c)).
  { intros e. destruct (loc s e) as [[tid r]|] eqn:El.
    - destruct (r2a_keeps_loc D s s' e tid r HW HR K El) as (El' & t & Ht & Ht' & _).
      unfold live, value_of, target_of. rewrite El, El', Ht, Ht'. repeat split.
    - assert (El' : loc s' e = None) by (destruct K as (K1 & _); rewrite (sa_loc_ext s s' K1); exact El).
      unfold live, value_of, target_of. rewrite El, El'. repeat split. }
  split.
  - intros e. destruct (H e) as (L & V & _). split; [exact L|]. intros c. unfold val. rewrite L, V. reflexivity.
  - intros e c. destruct (H e) as (L & _ & T). unfold tgt. rewrite L, T. reflexivity.
Qed.

Lemma r2a_arch_ext_keeps : forall s s', r2a_arch_ext s s' -> side_same s s' -> frame_user s s' -> r2a_keeps s s'.
Proof.
  intros s s' (E1 & E2 & E3 & E4 & E5 & E6 & E8 & E9 & EA) HS HF.
  split; [exact E4|]. split; [exact E3|]. split; [intros tid t Ht _; apply E6; exact Ht|]. split; [|split; assumption].
  intros aid a Ha. exists a. split; [apply EA; exact Ha|reflexivity].
Qed.

(** GetTable-or-create with fewer relations than the archetype has relation columns panics before
    anything is touched. *)
Lemma r2a_goc_short : forall s aid a all, nth_error (w_archs s) aid = Some a -> length all < a_numrel a ->
  get_or_create_table aid all s = Err ERelUnspec s.
Proof.
  intros s aid a all Ha Hlt. unfold get_or_create_table. rewrite (sa_bind_ok (sa_getA_eq _ _ _ Ha)).
  assert (Hg : Nat.ltb (length all) (a_numrel a) = true) by (apply Nat.ltb_lt; exact Hlt).
  assert (Hh : arch_has_rels a = true).
  { unfold arch_has_rels. destruct (Nat.eqb_spec (a_numrel a) 0); [lia|reflexivity]. }
  unfold arch_get_table. destruct (a_tables a) as [|t0 rest].
  - rewrite (sa_bind_ok (m := ret None) (s := s) eq_refl). unfold create_table.
    rewrite (sa_bind_ok (sa_getA_eq _ _ _ Ha)). rewrite Hg. reflexivity.
  - rewrite Hh. cbn [negb]. rewrite Hg. reflexivity.
Qed.

(** The common tail of the three finders: archetype with the new mask, then the table with the
    relation list [all] (duplicate-free, relation components of the new mask, legal targets). It
    fails exactly when some relation component of the new mask is left without a target, and then
    at most a new archetype (without table) has been created. *)
Lemma r2a_finder_tail : forall s old ot m (all : list rel), St2 s ->
  nth_error (w_tables s) old = Some ot -> t_free ot = false ->
  (forall j, mk_get m j = true -> j < length (w_reg s)) ->
  NoDup (map fst all) ->
  (forall r, In r all -> mk_get m (fst r) = true /\ is_rel_comp s (fst r) = true) ->
  (forall r, In r all -> snd r = zero_ent \/ live s (snd r) = true) ->
  exists aid s1 a, find_or_create_arch m s = Ok aid s1 /\ getA aid s1 = Ok a s1 /\ a_mask a = m /\
    getT old s1 = Ok ot s1 /\ St2 s1 /\ r2a_keeps s s1 /\
    match get_or_create_table aid all s1 with
    | Ok tid s2 =>
        St2 s2 /\ r2a_keeps s s2 /\
        (forall c, mk_get m c = true -> is_rel_comp s c = true -> In c (map fst all)) /\
        exists t a', nth_error (w_tables s2) tid = Some t /\ t_arch t = aid /\ t_free t = false /\
                     nth_error (w_archs s2) aid = Some a' /\ a_mask a' = m /\
                     (forall r, In r all -> tbl_target t (fst r) = Some (snd r))
    | Err _ s2 => s2 = s1 /\ ~ (forall c, mk_get m c = true -> is_rel_comp s c = true -> In c (map fst all))
    end.
Proof.
  intros s old ot m all HS Hot Hfo Hm ND Hcomp Htg. pose proof HS as HS0. apply St2_St2G in HS0.
  pose proof HS0 as (HW & HR & HT & HC).
  destruct (r2a_find_arch r2_none r2_none r2_none s m HS0 Hm) as (aid & s1 & E1 & HS1 & X1 & D1 & F1 & a & Ha & Ma).
  pose proof (r2a_arch_ext_keeps s s1 X1 D1 F1) as K1.
  pose proof HS1 as (HW1 & HR1 & HT1 & HC1).
  exists aid, s1, a. split; [exact E1|]. split; [apply sa_getA_eq; exact Ha|]. split; [exact Ma|].
  split; [apply sa_getT_eq; destruct K1 as (_ & _ & K3 & _); apply K3; assumption|].
  split; [apply St2_St2G; exact HS1|]. split; [exact K1|].
  destruct (r2a_keeps_obs r2_none s s1 HW HR K1) as (C1 & _).
  assert (Hcols : forall r, In r all -> exists i, nth_error (a_comps a) i = Some (fst r) /\ r2_relcol a i).
  { intros r Hr. apply (r2a_relcol_iff s1 aid a _ HW1 Ha). destruct (Hcomp r Hr) as (Q1 & Q2).
    rewrite Ma, (r2a_keeps_is_rel s s1 K1). split; assumption. }
  assert (Htg1 : forall r, In r all -> snd r = zero_ent \/ live s1 (snd r) = true).
  { intros r Hr. destruct (Htg r Hr) as [Hz|Hl]; [left; exact Hz|right]. destruct (C1 (snd r)) as (L & _). rewrite L. exact Hl. }
  destruct (Nat.le_gt_cases (a_numrel a) (length all)) as [Hle|Hgt].
  - pose proof (r2a_valid_of_checks s1 aid a all HW1 Ha ND Hle Hcols Htg1) as HV.
    destruct (r2_get_or_create_table_spec r2_none r2_none r2_none s1 aid a all HS1 Ha HV) as
      (tid & s2 & t' & E2 & HS2 & R2 & Ht' & Earch & Hfree & Htgt & Hcase & _ & I2 & P2 & D2 & F2).
    { apply (r2c_nostale r2_none s1 aid a HR1 Ha). right. intros k []. }
    { intros x _ []. }
    rewrite E2.
    assert (K2 : r2a_keeps s1 s2).
    { split; [exact I2|]. split; [exact P2|]. split; [|split; [|split; assumption]].
      - intros x tx Hx Hfx. destruct Hcase as [->|(Hnew & _ & _ & Hoth & _)]; [exact Hx|].
        rewrite Hoth; [exact Hx|]. intros ->. destruct Hnew as [Hn|(t0 & Ht0 & Hf0)]; congruence.
      - intros i b Hb. destruct (rl_archs _ _ R2 i b Hb) as (b' & Hb' & Mb' & _). exists b'. split; assumption. }
    split; [apply St2_St2G; exact HS2|]. split; [eapply r2a_keeps_trans; eassumption|]. split.
    { destruct HV as (_ & _ & V3 & _). intros c Hc Hr. apply V3. apply (r2a_relcol_iff s1 aid a c HW1 Ha).
      rewrite Ma, (r2a_keeps_is_rel s s1 K1). split; assumption. }
    destruct (rl_archs _ _ R2 aid a Ha) as (a' & Ha' & Ma' & _).
    exists t', a'. split; [exact Ht'|]. split; [exact Earch|]. split; [exact Hfree|]. split; [exact Ha'|].
    split; [congruence|exact Htgt].
  - rewrite (r2a_goc_short s1 aid a all Ha Hgt). split; [reflexivity|]. intros Hall.
    assert (Hle : a_numrel a <= length all); [|lia].
    apply (r2a_incomplete_short s1 aid a all HW1 Ha ND). intros c Hc Hr. apply Hall; [congruence|].
    rewrite <- (r2a_keeps_is_rel s s1 K1). exact Hr.
Qed.

(** ** The relation arguments of a call *)

(** Relation arguments of a call that adds the components [add]: every relation component is named
    at most once, only RELATION components among [add] are named, the targets are the zero entity
    or stored entities. *)
Definition r2a_rels_ok (s : W) (add : list nat) (rels : list rel) : Prop :=
  NoDup (map fst rels) /\ (forall r, In r rels -> In (fst r) add /\ is_rel_comp s (fst r) = true) /\
  (forall r, In r rels -> snd r = zero_ent \/ live s (snd r) = true).

(** ... and every relation component among [add] gets a target. *)
Definition r2a_rels_complete (s : W) (add : list nat) (rels : list rel) : Prop :=
  forall c, In c add -> is_rel_comp s c = true -> In c (map fst rels).

(** The target the call assigns to component [c] (last assignment wins), if any. *)
Definition r2a_assigned (rels : list rel) (c : nat) : option ent :=
  option_map snd (find (fun r : rel => Nat.eqb (fst r) c) (rev rels)).

(** Target of a freshly added component: the assigned one for relation components, zero otherwise. *)
Definition r2a_new_target (rels : list rel) (c : nat) : ent :=
  match r2a_assigned rels c with Some x => x | None => zero_ent end.

Lemma r2a_NoDup_app : forall A (l1 l2 : list A), NoDup l1 -> NoDup l2 -> (forall x, In x l1 -> ~ In x l2) -> NoDup (l1 ++ l2).
Proof.
  intros A l1 l2 N1 N2 H. induction l1 as [|a t IH]; [exact N2|]. inversion N1 as [|? ? Hn N1']; subst. cbn. constructor.
  - intros Hin. apply in_app_iff in Hin. destruct Hin as [Hin|Hin]; [contradiction|]. apply (H a (or_introl eq_refl) Hin).
  - apply IH; [exact N1'|]. intros x Hx. apply H. right. exact Hx.
Qed.

Lemma r2a_NoDup_map_filter : forall A B (f : A -> B) (p : A -> bool) l, NoDup (map f l) -> NoDup (map f (filter p l)).
Proof.
  intros A B f p l. induction l as [|a t IH]; intros H; [constructor|]. cbn in H. inversion H as [|? ? Hn H']; subst.
  cbn. destruct (p a); [|apply IH; exact H']. cbn. constructor; [|apply IH; exact H'].
  intros Hin. apply Hn. apply in_map_iff in Hin. destruct Hin as (x & Ex & Hx). apply filter_In in Hx. destruct Hx as (Hx & _).
  apply in_map_iff. exists x. split; assumption.
Qed.

Lemma r2a_fst_unique : forall (l : list rel) c x x', NoDup (map fst l) -> In (c, x) l -> In (c, x') l -> x = x'.
Proof.
  induction l as [|[c0 x0] t IH]; intros c x x' ND H1 H2; [destruct H1|]. cbn in ND. inversion ND as [|? ? Hn ND']; subst.
  destruct H1 as [E1|H1], H2 as [E2|H2].
  - congruence.
  - injection E1 as -> ->. exfalso. apply Hn. apply in_map_iff. exists (c, x'). split; [reflexivity|exact H2].
  - injection E2 as -> ->. exfalso. apply Hn. apply in_map_iff. exists (c, x). split; [reflexivity|exact H1].
  - apply (IH c x x' ND' H1 H2).
Qed.

Lemma r2a_assigned_in : forall (rels : list rel) c x, NoDup (map fst rels) -> In (c, x) rels -> r2a_assigned rels c = Some x.
Proof.
  intros rels c x ND Hin. unfold r2a_assigned.
  destruct (find (fun r : rel => Nat.eqb (fst r) c) (rev rels)) as [[c' x']|] eqn:E.
  - apply find_some in E. destruct E as (Hin' & Ec). cbn [fst] in Ec. apply Nat.eqb_eq in Ec. subst c'.
    apply in_rev in Hin'. cbn. f_equal. apply (r2a_fst_unique rels c x' x ND Hin' Hin).
  - exfalso. pose proof (find_none _ _ E (c, x)) as Hn. cbn [fst] in Hn. rewrite Nat.eqb_refl in Hn.
    assert (Hr : In (c, x) (rev rels)) by (apply in_rev; rewrite rev_involutive; exact Hin). specialize (Hn Hr). discriminate.
Qed.

Lemma r2a_assigned_none : forall (rels : list rel) c, ~ In c (map fst rels) -> r2a_assigned rels c = None.
Proof.
  intros rels c Hn. unfold r2a_assigned. rewrite r2b_find_none; [reflexivity|].
  intros r Hr. apply Nat.eqb_neq. intros <-. apply Hn. apply in_map. apply in_rev. exact Hr.
Qed.

(** The relation list the finders hand to GetTable-or-create: the surviving relations of the old
    table followed by the arguments. *)
Lemma r2a_all_props : forall s old ot oa m add (rels : list rel), St2 s ->
  nth_error (w_tables s) old = Some ot -> t_free ot = false -> nth_error (w_archs s) (t_arch ot) = Some oa ->
  (forall c, mk_get m c = true -> mk_get (a_mask oa) c = true \/ In c add) ->
  (forall c, In c add -> mk_get m c = true /\ mk_get (a_mask oa) c = false) ->
  r2a_rels_ok s add rels ->
  let all := filter (fun r : rel => mk_get m (fst r)) (t_rels ot) ++ rels in
  NoDup (map fst all) /\
  (forall r, In r all -> mk_get m (fst r) = true /\ is_rel_comp s (fst r) = true) /\
  (forall r, In r all -> snd r = zero_ent \/ live s (snd r) = true) /\
  ((forall c, mk_get m c = true -> is_rel_comp s c = true -> In c (map fst all)) <-> r2a_rels_complete s add rels).
Proof.
  intros s old ot oa m add rels HS Hot Hfo Hoa Hm1 Hm2 (R1 & R2 & R3) all.
  apply St2_St2G in HS. destruct HS as (HW & HR & _ & _).
  destruct (r2a_tbl_target r2_none s old ot oa HW HR Hot Hoa) as (T1 & T2 & T3 & T4).
  destruct (ri_shape _ _ HR old ot oa Hot Hoa) as (S1 & _).
  assert (Hold : forall c x, In (c, x) (t_rels ot) -> mk_get (a_mask oa) c = true /\ is_rel_comp s c = true).
  { intros c x Hin. apply T1 in Hin. destruct Hin as (Hr & Hx). split; [|exact Hr].
    destruct (mk_get (a_mask oa) c) eqn:E; [reflexivity|]. rewrite (T3 c E) in Hx. discriminate. }
  assert (Hsv : forall r, In r (filter (fun r : rel => mk_get m (fst r)) (t_rels ot)) ->
            In r (t_rels ot) /\ mk_get m (fst r) = true) by (intros r Hr; apply filter_In in Hr; exact Hr).
  split; [|split; [|split]].
  - unfold all. rewrite map_app. apply r2a_NoDup_app; [apply r2a_NoDup_map_filter; exact S1|exact R1|].
    intros c H1 H2. apply in_map_iff in H1. destruct H1 as ([c1 x1] & E1 & H1). cbn [fst] in E1. subst c1.
    apply Hsv in H1. destruct H1 as (H1 & _). apply Hold in H1. destruct H1 as (H1 & _).
    apply in_map_iff in H2. destruct H2 as (r2 & E2 & H2). destruct (R2 r2 H2) as (Ha & _). rewrite E2 in Ha.
    destruct (Hm2 c Ha) as (_ & Hc). congruence.
  - intros r Hr. unfold all in Hr. apply in_app_iff in Hr. destruct Hr as [Hr|Hr].
    + apply Hsv in Hr. destruct Hr as (Hr & Hmr). split; [exact Hmr|]. destruct r as [c x]. apply (Hold c x Hr).
    + destruct (R2 r Hr) as (Ha & Hrel). split; [apply (Hm2 _ Ha)|exact Hrel].
  - intros r Hr. unfold all in Hr. apply in_app_iff in Hr. destruct Hr as [Hr|Hr]; [|apply R3; exact Hr].
    apply Hsv in Hr. destruct Hr as (Hr & _). destruct (ri_targets_ok _ _ HR old ot r Hot Hfo Hr) as [Hz|[Hl|[]]]; [left|right]; assumption.
  - split.
    + intros Hall c Hc Hrel. destruct (Hm2 c Hc) as (Hmc & Hm0). specialize (Hall c Hmc Hrel). unfold all in Hall.
      rewrite map_app in Hall. apply in_app_iff in Hall. destruct Hall as [Hin|Hin]; [|exact Hin].
      apply in_map_iff in Hin. destruct Hin as ([c1 x1] & E1 & H1). cbn [fst] in E1. subst c1.
      apply Hsv in H1. destruct H1 as (H1 & _). apply Hold in H1. destruct H1 as (H1 & _). congruence.
    + intros Hcomp c Hmc Hrel. unfold all. rewrite map_app. apply in_app_iff. destruct (Hm1 c Hmc) as [Hm0|Ha].
      * left. destruct (T4 c Hm0) as (x & Hx). apply in_map_iff. exists (c, x). split; [reflexivity|].
        apply filter_In. split; [apply T1; split; assumption|exact Hmc].
      * right. apply Hcomp; assumption.
Qed.

(** The targets of the table the finder returns, component by component. *)
Lemma r2a_new_targets : forall s s2 old ot oa m add (rels : list rel) tid t a, St2 s -> St2 s2 -> r2a_keeps s s2 ->
  nth_error (w_tables s) old = Some ot -> t_free ot = false -> nth_error (w_archs s) (t_arch ot) = Some oa ->
  (forall c, mk_get m c = true -> mk_get (a_mask oa) c = true \/ In c add) ->
  (forall c, In c add -> mk_get m c = true /\ mk_get (a_mask oa) c = false) ->
  r2a_rels_ok s add rels -> r2a_rels_complete s add rels ->
  nth_error (w_tables s2) tid = Some t -> nth_error (w_archs s2) (t_arch t) = Some a -> a_mask a = m ->
  (forall r, In r (filter (fun r : rel => mk_get m (fst r)) (t_rels ot) ++ rels) -> tbl_target t (fst r) = Some (snd r)) ->
  forall c, tbl_target t c = if memb c add then Some (r2a_new_target rels c)
                             else if mk_get m c then tbl_target ot c else None.
Proof.
  intros s s2 old ot oa m add rels tid t a HS HS2 K Hot Hfo Hoa Hm1 Hm2 (R1 & R2 & R3) Hcomp Ht Ha Ma Hall c.
  apply St2_St2G in HS. destruct HS as (HW & HR & _ & _). apply St2_St2G in HS2. destruct HS2 as (HW2 & HR2 & _ & _).
  destruct (r2a_tbl_target r2_none s old ot oa HW HR Hot Hoa) as (T1 & T2 & T3 & T4).
  destruct (r2a_tbl_target r2_none s2 tid t a HW2 HR2 Ht Ha) as (U1 & U2 & U3 & U4). rewrite Ma in U2, U3, U4.
  pose proof (r2a_keeps_is_rel s s2 K) as Erel.
  destruct (memb c add) eqn:Ema.
  - apply sa_memb_in in Ema. destruct (Hm2 c Ema) as (Hmc & Hm0).
    destruct (is_rel_comp s c) eqn:Hrel.
    + specialize (Hcomp c Ema Hrel). apply in_map_iff in Hcomp. destruct Hcomp as ([c1 x] & E1 & Hin). cbn [fst] in E1. subst c1.
      unfold r2a_new_target. rewrite (r2a_assigned_in rels c x R1 Hin).
      apply (Hall (c, x)). apply in_app_iff. right. exact Hin.
    + unfold r2a_new_target. rewrite r2a_assigned_none.
      * apply U2; [exact Hmc|]. rewrite Erel. exact Hrel.
      * intros Hin. apply in_map_iff in Hin. destruct Hin as (r & <- & Hr). destruct (R2 r Hr) as (_ & Q). congruence.
  - destruct (mk_get m c) eqn:Hmc; [|apply U3; exact Hmc].
    destruct (Hm1 c Hmc) as [Hm0|Ha']; [|apply sa_memb_in in Ha'; congruence].
    destruct (is_rel_comp s c) eqn:Hrel.
    + destruct (T4 c Hm0) as (x & Hx). rewrite Hx. apply (Hall (c, x)). apply in_app_iff. left.
      apply filter_In. split; [apply T1; split; assumption|exact Hmc].
    + rewrite (T2 c Hm0 Hrel). apply U2; [exact Hmc|]. rewrite Erel. exact Hrel.
Qed.

(** ** The three finders *)

(** What a finder returns: the active table [tid] of the archetype [aid] with mask [m]; its targets
    are the assigned ones for the added components and those of the old table for the kept ones. *)
Definition r2a_found (s : W) (ot : table) (add : list nat) (rels : list rel) (m : mask) (tid aid : nat) (s' : W) : Prop :=
  St2 s' /\ r2a_keeps s s' /\ r2a_rels_complete s add rels /\
  exists t a, nth_error (w_tables s') tid = Some t /\ t_arch t = aid /\ t_free t = false /\
              nth_error (w_archs s') aid = Some a /\ a_mask a = m /\
              (forall c, tbl_target t c = if memb c add then Some (r2a_new_target rels c)
                                          else if mk_get m c then tbl_target ot c else None).

Lemma r2a_finder_core : forall s old ot oa m add (rels : list rel), St2 s ->
  nth_error (w_tables s) old = Some ot -> t_free ot = false -> nth_error (w_archs s) (t_arch ot) = Some oa ->
  registered s add ->
  (forall c, mk_get m c = true -> mk_get (a_mask oa) c = true \/ In c add) ->
  (forall c, In c add -> mk_get m c = true /\ mk_get (a_mask oa) c = false) ->
  r2a_rels_ok s add rels ->
  exists aid s1 a, find_or_create_arch m s = Ok aid s1 /\ getA aid s1 = Ok a s1 /\ a_mask a = m /\ getT old s1 = Ok ot s1 /\
    match get_or_create_table aid (filter (fun r : rel => mk_get m (fst r)) (t_rels ot) ++ rels) s1 with
    | Ok tid s2 => r2a_found s ot add rels m tid aid s2
    | Err _ s2 => St2 s2 /\ r2a_keeps s s2 /\ ~ r2a_rels_complete s add rels
    end.
Proof.
  intros s old ot oa m add rels HS Hot Hfo Hoa Hreg Hm1 Hm2 Hok.
  pose proof HS as HS0. apply St2_St2G in HS0. destruct HS0 as (HW & _).
  destruct (r2a_all_props s old ot oa m add rels HS Hot Hfo Hoa Hm1 Hm2 Hok) as (A1 & A2 & A3 & A4).
  assert (Hb : forall j, mk_get m j = true -> j < length (w_reg s)).
  { intros j Hj. destruct (Hm1 j Hj) as [H0|Ha]; [|apply Hreg; exact Ha].
    destruct (wf_arch_comps _ HW _ oa Hoa) as (_ & C2 & _). apply C2. exact H0. }
  destruct (r2a_finder_tail s old ot m _ HS Hot Hfo Hb A1 A2 A3) as (aid & s1 & a & E1 & E2 & Ma & E3 & HS1 & K1 & Hres).
  exists aid, s1, a. split; [exact E1|]. split; [exact E2|]. split; [exact Ma|]. split; [exact E3|].
  destruct (get_or_create_table aid (filter (fun r : rel => mk_get m (fst r)) (t_rels ot) ++ rels) s1) as [tid s2|er s2].
  - destruct Hres as (HS2 & K2 & Hc & t & a' & Ht & Hta & Hft & Ha' & Ma' & Htg).
    split; [exact HS2|]. split; [exact K2|]. split; [apply A4; exact Hc|].
    exists t, a'. split; [exact Ht|]. split; [exact Hta|]. split; [exact Hft|]. split; [exact Ha'|]. split; [exact Ma'|].
    apply (r2a_new_targets s s2 old ot oa m add rels tid t a' HS HS2 K2 Hot Hfo Hoa Hm1 Hm2 Hok); try assumption.
    + apply A4. exact Hc.
    + rewrite Hta. exact Ha'.
  - destruct Hres as (-> & Hn). split; [exact HS1|]. split; [exact K1|]. intros Hc. apply Hn. apply A4. exact Hc.
Qed.

Lemma r2a_filter_all : forall A (p : A -> bool) l, (forall x, In x l -> p x = true) -> filter p l = l.
Proof.
  intros A p l. induction l as [|a t IH]; intros H; [reflexivity|]. cbn. rewrite (H a (or_introl eq_refl)).
  rewrite IH; [reflexivity|]. intros x Hx. apply H. right. exact Hx.
Qed.

Lemma r2a_match_app : forall (l rels : list rel), match rels with [] => l | _ :: _ => l ++ rels end = l ++ rels.
Proof. intros l [|r t]; [rewrite app_nil_r|]; reflexivity. Qed.

(** the relation components of a table belong to its archetype's mask *)
Lemma r2a_rels_in_mask : forall s old ot oa, St2 s -> nth_error (w_tables s) old = Some ot ->
  nth_error (w_archs s) (t_arch ot) = Some oa -> forall r, In r (t_rels ot) -> mk_get (a_mask oa) (fst r) = true.
Proof.
  intros s old ot oa HS Hot Hoa [c x] Hin. apply St2_St2G in HS. destruct HS as (HW & HR & _ & _).
  destruct (r2a_tbl_target r2_none s old ot oa HW HR Hot Hoa) as (T1 & _ & T3 & _).
  apply T1 in Hin. destruct Hin as (_ & Hx). cbn [fst]. destruct (mk_get (a_mask oa) c) eqn:E; [reflexivity|].
  rewrite (T3 c E) in Hx. discriminate.
Qed.

(** findOrCreateTableAdd with relations. It fails exactly when a component is repeated or already
    present, or a relation component among [add] is left without target. *)
Lemma r2a_find_add : forall s old ot oa add (rels : list rel), St2 s ->
  nth_error (w_tables s) old = Some ot -> t_free ot = false -> nth_error (w_archs s) (t_arch ot) = Some oa ->
  registered s add -> r2a_rels_ok s add rels ->
  match find_or_create_table_add old add rels (a_mask oa) s with
  | Ok (tid, aid, m) s' =>
      r2a_found s ot add rels m tid aid s' /\
      (forall j, mk_get m j = (mk_get (a_mask oa) j || memb j add)%bool) /\ NoDup add /\
      (forall c, In c add -> mk_get (a_mask oa) c = false)
  | Err _ s' => St2 s' /\ r2a_keeps s s' /\
      ~ (NoDup add /\ (forall c, In c add -> mk_get (a_mask oa) c = false) /\ r2a_rels_complete s add rels)
  end.
Proof.
  intros s old ot oa add rels HS Hot Hfo Hoa Hreg Hok. unfold find_or_create_table_add.
  pose proof (sa_gf_add_spec None add (a_mask oa) s) as G.
  destruct (gf_add None add (a_mask oa) s) as [m s0|e s0] eqn:EG.
  - destruct G as (-> & Hm & ND & Hf & _). rewrite (sa_bind_ok EG).
    assert (Hm1 : forall c, mk_get m c = true -> mk_get (a_mask oa) c = true \/ In c add).
    { intros c Hc. rewrite Hm in Hc. apply orb_true_iff in Hc. destruct Hc as [Hc|Hc]; [left; exact Hc|right; apply sa_memb_in; exact Hc]. }
    assert (Hm2 : forall c, In c add -> mk_get m c = true /\ mk_get (a_mask oa) c = false).
    { intros c Hc. split; [|apply Hf; exact Hc]. rewrite Hm. apply sa_memb_in in Hc. rewrite Hc. apply orb_true_r. }
    destruct (r2a_finder_core s old ot oa m add rels HS Hot Hfo Hoa Hreg Hm1 Hm2 Hok) as (aid & s1 & a & E1 & E2 & Ma & E3 & Hres).
    rewrite (sa_bind_ok E1), (sa_bind_ok E3). rewrite r2a_match_app.
    rewrite (r2a_filter_all _ (fun r : rel => mk_get m (fst r)) (t_rels ot)) in Hres.
    2:{ intros r Hr. rewrite Hm. rewrite (r2a_rels_in_mask s old ot oa HS Hot Hoa r Hr). reflexivity. }
    destruct (get_or_create_table aid (t_rels ot ++ rels) s1) as [tid s2|er s2] eqn:E4.
    + rewrite (sa_bind_ok E4). unfold ret. split; [exact Hres|]. split; [exact Hm|]. split; assumption.
    + rewrite (sa_bind_err E4). destruct Hres as (H1 & H2 & H3). split; [exact H1|]. split; [exact H2|]. intros (_ & _ & Hc). exact (H3 Hc).
  - destruct G as (-> & Hn). rewrite (sa_bind_err EG). split; [exact HS|]. split; [apply r2a_keeps_refl|].
    intros (Q1 & Q2 & _). apply (Hn eq_refl). split; assumption.
Qed.

Lemma r2a_rels_ok_nil : forall s add, r2a_rels_ok s add [].
Proof. intros s add. split; [constructor|]. split; intros r []. Qed.

(** findOrCreateTableRemove: the relations of the removed components vanish. It fails only if a
    component is repeated or missing. *)
Lemma r2a_find_remove : forall s old ot oa rem, St2 s ->
  nth_error (w_tables s) old = Some ot -> t_free ot = false -> nth_error (w_archs s) (t_arch ot) = Some oa ->
  match find_or_create_table_remove old rem (a_mask oa) s with
  | Ok (tid, aid, m, removed) s' =>
      r2a_found s ot [] [] m tid aid s' /\
      (forall j, mk_get m j = (mk_get (a_mask oa) j && negb (memb j rem))%bool) /\ NoDup rem /\
      (forall c, In c rem -> mk_get (a_mask oa) c = true)
  | Err _ s' => s' = s /\ ~ (NoDup rem /\ (forall c, In c rem -> mk_get (a_mask oa) c = true))
  end.
Proof.
  intros s old ot oa rem HS Hot Hfo Hoa. unfold find_or_create_table_remove.
  pose proof (sa_gf_remove_spec rem (a_mask oa) s) as G.
  destruct (gf_remove rem (a_mask oa) s) as [m s0|e s0] eqn:EG.
  - destruct G as (-> & Hm & ND & Hf). rewrite (sa_bind_ok EG).
    assert (Hm1 : forall c, mk_get m c = true -> mk_get (a_mask oa) c = true \/ In c []).
    { intros c Hc. rewrite Hm in Hc. apply andb_true_iff in Hc. left. apply Hc. }
    assert (Hm2 : forall c, In c [] -> mk_get m c = true /\ mk_get (a_mask oa) c = false) by (intros c []).
    assert (Hreg : registered s []) by (intros c []).
    destruct (r2a_finder_core s old ot oa m [] [] HS Hot Hfo Hoa Hreg Hm1 Hm2 (r2a_rels_ok_nil s [])) as (aid & s1 & a & E1 & E2 & Ma & E3 & Hres).
    rewrite (sa_bind_ok E1), (sa_bind_ok E2), (sa_bind_ok E3). unfold surviving_rels. rewrite Ma.
    rewrite app_nil_r in Hres.
    destruct (get_or_create_table aid (filter (fun r : rel => mk_get m (fst r)) (t_rels ot)) s1) as [tid s2|er s2] eqn:E4.
    + rewrite (sa_bind_ok E4). unfold ret. split; [exact Hres|]. split; [exact Hm|]. split; assumption.
    + exfalso. destruct Hres as (_ & _ & H3). apply H3. intros c [].
  - destruct G as (-> & Hn). rewrite (sa_bind_err EG). split; [reflexivity|exact Hn].
Qed.

(** findOrCreateTable (Exchange). *)
Lemma r2a_gf_add_ok : forall st add m s, NoDup add -> (forall c, In c add -> mk_get m c = false) ->
  (forall c, In c add -> mk_get st c = false) -> exists m', gf_add (Some st) add m s = Ok m' s.
Proof.
  intros st add. induction add as [|c t IH]; intros m s ND H1 H2; [exists m; reflexivity|].
  cbn [gf_add]. rewrite (H1 c (or_introl eq_refl)), (H2 c (or_introl eq_refl)). inversion ND as [|? ? Hn ND']; subst.
  apply IH; [exact ND'| |intros x Hx; apply H2; right; exact Hx].
  intros x Hx. rewrite mk_get_set. apply orb_false_iff. split; [apply Nat.eqb_neq; intros ->; contradiction|apply H1; right; exact Hx].
Qed.

Lemma r2a_find_exchange : forall s old ot oa add rem (rels : list rel), St2 s ->
  nth_error (w_tables s) old = Some ot -> t_free ot = false -> nth_error (w_archs s) (t_arch ot) = Some oa ->
  registered s add -> r2a_rels_ok s add rels ->
  match find_or_create_table old add rem rels (a_mask oa) s with
  | Ok (tid, aid, m, removed) s' =>
      r2a_found s ot add rels m tid aid s' /\
      (forall j, mk_get m j = ((mk_get (a_mask oa) j && negb (memb j rem)) || memb j add)%bool) /\
      NoDup add /\ NoDup rem /\ (forall c, In c rem -> mk_get (a_mask oa) c = true) /\
      (forall c, In c add -> mk_get (a_mask oa) c = false)
  | Err _ s' => St2 s' /\ r2a_keeps s s' /\
      ~ (NoDup add /\ NoDup rem /\ (forall c, In c rem -> mk_get (a_mask oa) c = true) /\
         (forall c, In c add -> mk_get (a_mask oa) c = false) /\ r2a_rels_complete s add rels)
  end.
Proof.
  intros s old ot oa add rem rels HS Hot Hfo Hoa Hreg Hok. unfold find_or_create_table.
  pose proof (sa_gf_remove_spec rem (a_mask oa) s) as G.
  destruct (gf_remove rem (a_mask oa) s) as [m1 s0|e s0] eqn:EG.
  2:{ destruct G as (-> & Hn). rewrite (sa_bind_err EG). split; [exact HS|]. split; [apply r2a_keeps_refl|].
      intros (_ & Q2 & Q3 & _). apply Hn. split; assumption. }
  destruct G as (-> & Hm1' & NDr & Hfr). rewrite (sa_bind_ok EG).
  pose proof (sa_gf_add_spec (Some (a_mask oa)) add m1 s) as G.
  destruct (gf_add (Some (a_mask oa)) add m1 s) as [m s0|e s0] eqn:EG2.
  2:{ destruct G as (-> & _). rewrite (sa_bind_err EG2). split; [exact HS|]. split; [apply r2a_keeps_refl|].
      intros (Q1 & _ & _ & Q4 & _).
      destruct (r2a_gf_add_ok (a_mask oa) add m1 s Q1) as (m' & Em'); [|exact Q4|congruence].
      intros c Hc. rewrite Hm1', (Q4 c Hc). reflexivity. }
  destruct G as (-> & Hm & NDa & Hfa & Hsa). rewrite (sa_bind_ok EG2).
  assert (Hdis : forall c, In c add -> mk_get (a_mask oa) c = false) by (intros c Hc; apply (Hsa _ eq_refl c Hc)).
  assert (Hmask : forall j, mk_get m j = ((mk_get (a_mask oa) j && negb (memb j rem)) || memb j add)%bool).
  { intros j. rewrite Hm, Hm1'. reflexivity. }
  assert (Hm1 : forall c, mk_get m c = true -> mk_get (a_mask oa) c = true \/ In c add).
  { intros c Hc. rewrite Hmask in Hc. apply orb_true_iff in Hc. destruct Hc as [Hc|Hc]; [left|right; apply sa_memb_in; exact Hc].
    apply andb_true_iff in Hc. apply Hc. }
  assert (Hm2 : forall c, In c add -> mk_get m c = true /\ mk_get (a_mask oa) c = false).
  { intros c Hc. split; [|apply Hdis; exact Hc]. rewrite Hmask. apply sa_memb_in in Hc. rewrite Hc. apply orb_true_r. }
  destruct (r2a_finder_core s old ot oa m add rels HS Hot Hfo Hoa Hreg Hm1 Hm2 Hok) as (aid & s1 & a & E1 & E2 & Ma & E3 & Hres).
  rewrite (sa_bind_ok E1), (sa_bind_ok E2), (sa_bind_ok E3).
  assert (Eall : (match rem with
                  | [] => (match rels with [] => t_rels ot | _ :: _ => t_rels ot ++ rels end, false)
                  | _ :: _ => let '(sv, rm) := surviving_rels a (t_rels ot) in (sv ++ rels, rm)
                  end) = (filter (fun r : rel => mk_get m (fst r)) (t_rels ot) ++ rels,
                          match rem with [] => false | _ :: _ => snd (surviving_rels a (t_rels ot)) end)).
  { destruct rem as [|c0 rem'].
    - rewrite r2a_match_app. rewrite (r2a_filter_all _ (fun r : rel => mk_get m (fst r)) (t_rels ot)); [reflexivity|].
      intros r Hr. rewrite Hmask. rewrite (r2a_rels_in_mask s old ot oa HS Hot Hoa r Hr). reflexivity.
    - unfold surviving_rels. rewrite Ma. reflexivity. }
  rewrite Eall.
  destruct (get_or_create_table aid (filter (fun r : rel => mk_get m (fst r)) (t_rels ot) ++ rels) s1) as [tid s2|er s2] eqn:E4.
  - rewrite (sa_bind_ok E4). unfold ret. split; [exact Hres|]. split; [exact Hmask|]. repeat split; assumption.
  - rewrite (sa_bind_err E4). destruct Hres as (H1 & H2 & H3). split; [exact H1|]. split; [exact H2|].
    intros (_ & _ & _ & _ & Hc). exact (H3 Hc).
Qed.

(* ================================================================================================ *)
(** * Part 4: the move of one row between tables of DIFFERENT archetypes (copy_row), against [St2G]

    Execution after [sb2_mv_exec] (StorageB_sb2, there for [St]), post-conditions after the section
    [r2b_post] of Rel2SetRel (there for two tables of one archetype). *)

Lemma r2a_mv_exec : forall s e otid row ntid ot nt oa na, WF s -> room s ->
  live s e = true -> loc s e = Some (otid, row) -> otid <> ntid ->
  nth_error (w_tables s) otid = Some ot -> nth_error (w_tables s) ntid = Some nt ->
  nth_error (w_archs s) (t_arch ot) = Some oa -> nth_error (w_archs s) (t_arch nt) = Some na ->
  exists nt3 s2 s3 s4,
   tbl_addM ntid e s = Ok (t_len nt) s2 /\
   copy_row otid ntid (a_mask na) row (t_len nt) s2 = Ok tt s3 /\
   remove_row otid row s3 = Ok tt s4 /\
   set_index_direct e ntid (t_len nt) s4 =
     Ok tt (sb2_st s (sb2_T' s otid ntid (snd (tbl_remove ot row)) nt3) (sb2_I' s e ntid row ot nt)) /\
   sb2_ot_facts ot (snd (tbl_remove ot row)) row /\ sb2_nt_facts (a_mask na) ot nt nt3 row e.
Proof.
  intros s e otid row ntid ot nt oa na HW Hroom Hlive Hloc Hne Hot Hnt Hoa Hna.
  destruct (sb2_mv_row _ _ _ _ _ Hlive Hloc Hot) as (Hrow & Hent).
  assert (Hsmall : t_len nt < Nat.pow 2 31).
  { pose proof (rows_le_pool s ntid nt HW Hnt) as H. unfold room in Hroom. set (P := Nat.pow 2 31) in *. clearbody P. lia. }
  pose proof (sb2_table_ok _ _ _ HW Hot) as Hoko. pose proof (sb2_table_ok _ _ _ HW Hnt) as Hokn.
  destruct (sb2_layout _ _ _ _ HW Hot Hoa) as (Hido & Hko & Hlto).
  destruct (sb2_layout _ _ _ _ HW Hnt Hna) as (Hidn & Hkn & Hltn).
  pose proof (tbl_add_spec nt e Hokn Hsmall) as Hadd. pose proof (tbl_add_ok nt e Hokn Hsmall) as Hok2.
  destruct (tbl_add nt e) as [idx nt2] eqn:Eadd. cbn [snd] in Hok2.
  destruct Hadd as (Hidx & Hlen2 & Hent2 & Hz2 & Hc2 & He2 & G1 & G2 & G3 & G4 & G5 & G6). subst idx.
  set (s2 := sb2_setT s (upd ntid nt2 (w_tables s))).
  assert (Hot2 : nth_error (w_tables s2) otid = Some ot).
  { unfold s2. cbn. rewrite sb2_nth_error_upd_ne by auto. exact Hot. }
  assert (Hnt2 : nth_error (w_tables s2) ntid = Some nt2).
  { unfold s2. cbn. eapply sb2_nth_error_upd_eq; eauto. }
  destruct (sb2_copy_loop otid ntid (a_mask na) row (t_len nt) ot (t_ids ot) s2 nt2 Hne Hot2 Hnt2 Hok2)
    as (nt3 & Hrun & Hok3 & Hmeta3 & Hlen3 & Hents3 & Hcell3 & Hcopy3).
  { lia. }
  { rewrite Hido. apply mk_to_list_sorted. }
  { intros c Hin Hm.
    destruct (sb2_index_of_In _ _ Hin) as (oi & Eoi).
    assert (Hcn : c < length (w_reg s)).
    { rewrite Hido in Hin. apply mk_to_list_spec in Hin. tauto. }
    assert (Hinn : In c (t_ids nt2)).
    { rewrite G1, Hidn. apply mk_to_list_spec. auto. }
    destruct (sb2_index_of_In _ _ Hinn) as (ni & Eni).
    pose proof (sb2_index_of_nth _ _ _ Eoi) as Noi. pose proof (sb2_index_of_nth _ _ _ Eni) as Nni.
    pose proof (tbl_ok_elim _ Hoko) as (O1 & O2 & O3 & O4 & O5).
    assert (Hoil : oi < length (t_ids ot)) by (apply nth_error_Some; congruence).
    destruct (nth_error (t_cols ot) oi) as [src|] eqn:Esrc.
    2:{ apply nth_error_None in Esrc. lia. }
    destruct (O5 _ _ Esrc) as (L & _ & Zs).
    exists oi, ni, src, (kind_of s c), (nth row src 0%Z).
    split; [assumption|]. split; [assumption|]. split; [exact Esrc|]. split.
    { rewrite G2, Hkn, nth_error_map. rewrite G1 in Nni. rewrite Nni. reflexivity. }
    split.
    { apply nth_error_nth'. lia. }
    intros Hzs. apply (Zs (kind_of s c)); auto.
    rewrite Hko, nth_error_map, Noi. reflexivity. }
  set (s3 := sb2_setT s (upd ntid nt3 (w_tables s))).
  assert (Hs3 : sb2_setT s2 (upd ntid nt3 (w_tables s2)) = s3).
  { unfold s2, s3. rewrite sb2_setT_setT.
    change (w_tables (sb2_setT s (upd ntid nt2 (w_tables s)))) with (upd ntid nt2 (w_tables s)).
    rewrite sb2_upd_upd. reflexivity. }
  rewrite Hs3 in Hrun.
  assert (Hot3 : nth_error (w_tables s3) otid = Some ot).
  { unfold s3. cbn. rewrite sb2_nth_error_upd_ne by auto. exact Hot. }
  exists nt3, s2, s3. eexists.
  split.
  { rewrite (sb2_tbl_addM s ntid e nt Hnt). rewrite Eadd. reflexivity. }
  split.
  { rewrite sb2_copy_row_eq. erewrite sb2_bind_ok by (apply sb2_getT; exact Hot2). exact Hrun. }
  split.
  { rewrite (sb2_remove_row_eq s3 otid row ot Hot3 Hoko Hrow). reflexivity. }
  split.
  { reflexivity. }
  split.
  { apply sb2_ot_facts_remove; assumption. }
  destruct Hmeta3 as (M1 & M2 & M3 & M4 & M5 & M6).
  split; [assumption|]. split; [lia|]. split; [repeat split; congruence|].
  split.
  { unfold row_ent in *. rewrite Hents3. exact Hent2. }
  split.
  { intros r Hr. split.
    - unfold row_ent in *. rewrite Hents3. apply He2. assumption.
    - intros ci. rewrite Hcell3 by lia. apply Hc2. assumption. }
  intros c ni Eni. rewrite <- G1 in Eni. rewrite (Hcopy3 c ni Eni).
  destruct (memb c (t_ids ot) && mk_get (a_mask na) c)%bool; [reflexivity|]. apply Hz2.
Qed.

Section r2a_post.
Variables (s : W) (e : ent) (otid row ntid : nat) (ot nt : table) (oa na : arch) (ot' nt3 : table).
Hypothesis HW0 : WF s.
Hypothesis Hlive : live s e = true.
Hypothesis Hloc : loc s e = Some (otid, row).
Hypothesis Hot : nth_error (w_tables s) otid = Some ot.
Hypothesis Hnt : nth_error (w_tables s) ntid = Some nt.
Hypothesis Hne0 : otid <> ntid.
Hypothesis Hoa : nth_error (w_archs s) (t_arch ot) = Some oa.
Hypothesis Hna : nth_error (w_archs s) (t_arch nt) = Some na.
Hypothesis Fo : sb2_ot_facts ot ot' row.
Hypothesis Fn : sb2_nt_facts (a_mask na) ot nt nt3 row e.

Local Notation T' := (sb2_T' s otid ntid ot' nt3).
Local Notation I' := (sb2_I' s e ntid row ot nt).
Local Notation se := (row_ent ot (t_len ot - 1)).
Local Notation sw := (negb (Nat.eqb row (t_len ot - 1))).
Local Notation s' := (sb2_st s T' I').

Lemma r2a_p_ne : otid <> ntid.
Proof. exact Hne0. Qed.

Lemma r2a_p_row : row < t_len ot /\ row_ent ot row = e.
Proof. exact (sb2_mv_row _ _ _ _ _ Hlive Hloc Hot). Qed.

Lemma r2a_p_T : forall tid, nth_error T' tid =
  if Nat.eqb otid tid then Some ot' else if Nat.eqb ntid tid then Some nt3 else nth_error (w_tables s) tid.
Proof.
  intros tid. pose proof r2a_p_ne as Hne. unfold sb2_T'. rewrite !nth_error_upd.
  destruct (Nat.eqb_spec otid tid) as [<-|H1].
  - destruct (Nat.eqb_spec ntid otid); [congruence|]. rewrite Hot. reflexivity.
  - destruct (Nat.eqb_spec ntid tid) as [<-|H2]; [rewrite Hnt|]; reflexivity.
Qed.

Lemma r2a_p_Ie : nth_error (w_index s) (fst e) = Some (Some otid, row).
Proof. apply sb2_loc_iff. exact Hloc. Qed.

Lemma r2a_p_Ise : nth_error (w_index s) (fst se) = Some (Some otid, t_len ot - 1).
Proof.
  destruct r2a_p_row as (Hr & _). apply sb2_loc_iff.
  apply (wf_rows _ HW0 _ _ _ Hot). lia.
Qed.

Lemma r2a_p_I : forall id, nth_error I' id =
  if Nat.eqb (fst e) id then Some (Some ntid, t_len nt)
  else if (sw && Nat.eqb (fst se) id)%bool then Some (Some otid, row) else nth_error (w_index s) id.
Proof.
  intros id. pose proof r2a_p_Ie as Ie. pose proof r2a_p_Ise as Ise.
  unfold sb2_I'. rewrite nth_error_upd. destruct (Nat.eqb_spec (fst e) id) as [<-|H1].
  - destruct (Nat.eqb row (t_len ot - 1)); [rewrite Ie; reflexivity|].
    rewrite nth_error_updf. destruct (Nat.eqb (fst se) (fst e)); rewrite Ie; reflexivity.
  - destruct (Nat.eqb row (t_len ot - 1)); cbn [negb andb]; [reflexivity|].
    rewrite nth_error_updf. destruct (Nat.eqb_spec (fst se) id) as [<-|H2]; [|reflexivity].
    rewrite Ise. reflexivity.
Qed.

(** IDs of other rows differ from the IDs of [e] and of the swapped entity. *)
Lemma r2a_p_ne_e : forall tid t r, nth_error (w_tables s) tid = Some t -> r < t_len t ->
  (tid <> otid \/ r <> row) -> Nat.eqb (fst e) (fst (row_ent t r)) = false.
Proof.
  intros tid t r Ht Hr Hor. destruct r2a_p_row as (Hrow & Hent).
  destruct (Nat.eqb_spec (fst e) (fst (row_ent t r))) as [Heq|]; [|reflexivity].
  rewrite <- Hent in Heq.
  destruct (sb2_row_inj _ _ _ _ _ _ _ HW0 Hot Hrow Ht Hr Heq). destruct Hor; congruence.
Qed.

Lemma r2a_p_ne_se : forall tid t r, nth_error (w_tables s) tid = Some t -> r < t_len t ->
  (tid <> otid \/ r <> t_len ot - 1) -> Nat.eqb (fst se) (fst (row_ent t r)) = false.
Proof.
  intros tid t r Ht Hr Hor. destruct r2a_p_row as (Hrow & Hent).
  destruct (Nat.eqb_spec (fst se) (fst (row_ent t r))) as [Heq|]; [|reflexivity].
  assert (Hl : t_len ot - 1 < t_len ot) by lia.
  destruct (sb2_row_inj _ _ _ _ _ _ _ HW0 Hot Hl Ht Hr Heq). destruct Hor; congruence.
Qed.

Lemma r2a_p_WF : WF s'.
Proof.
  pose proof HW0 as HW. pose proof r2a_p_ne as Hne. destruct r2a_p_row as (Hrow & Hent).
  destruct Fo as (Oo & Lo & Mo & Swo & Resto).
  destruct Fn as (On & Ln & Mn & En & Restn & _).
  apply r2c_WF_reindex; auto.
  - intros tid t' E. rewrite r2a_p_T in E.
    destruct (Nat.eqb_spec otid tid) as [<-|H1]; [inversion E; subst t'; eauto|].
    destruct (Nat.eqb_spec ntid tid) as [<-|H2]; [inversion E; subst t'; eauto|].
    split; [eapply sb2_table_ok; eauto|]. exists t'. split; [assumption|apply sb2_meta_refl].
  - intros tid t E. rewrite r2a_p_T.
    destruct (Nat.eqb_spec otid tid) as [<-|H1]; [rewrite Hot in E; inversion E; subst t; eauto|].
    destruct (Nat.eqb_spec ntid tid) as [<-|H2]; [rewrite Hnt in E; inversion E; subst t; eauto|].
    exists t. split; [assumption|apply sb2_meta_refl].
  - unfold sb2_I'. rewrite upd_length. destruct (Nat.eqb row (t_len ot - 1)); [reflexivity|apply updf_length].
  - intros tid t' r E Hr. rewrite r2a_p_T in E. rewrite r2a_p_I.
    destruct (Nat.eqb_spec otid tid) as [<-|H1].
    { inversion E; subst t'; clear E. rewrite Lo in Hr.
      destruct (Nat.eq_dec r row) as [->|Hrr].
      - destruct (Swo Hr) as (Esw & _). rewrite Esw.
        assert (Hl : t_len ot - 1 < t_len ot) by lia.
        rewrite (r2a_p_ne_e otid ot (t_len ot - 1) Hot Hl) by lia.
        destruct (Nat.eqb_spec row (t_len ot - 1)); [lia|]. rewrite Nat.eqb_refl. cbn [negb andb].
        split; [reflexivity|]. apply (wf_rows _ HW _ _ _ Hot Hl).
      - destruct (Resto r Hr Hrr) as (Er & _). rewrite Er.
        assert (Hl : r < t_len ot) by lia.
        rewrite (r2a_p_ne_e otid ot r Hot Hl) by lia.
        rewrite (r2a_p_ne_se otid ot r Hot Hl) by lia. rewrite andb_false_r.
        destruct (wf_rows _ HW _ _ _ Hot Hl) as (A & B). split; [apply sb2_loc_iff; exact A|exact B]. }
    destruct (Nat.eqb_spec ntid tid) as [<-|H2].
    { inversion E; subst t'; clear E. rewrite Ln in Hr.
      destruct (Nat.eq_dec r (t_len nt)) as [->|Hrr].
      - rewrite En, Nat.eqb_refl. split; [reflexivity|].
        rewrite <- Hent. apply (wf_rows _ HW _ _ _ Hot Hrow).
      - assert (Hl : r < t_len nt) by lia. destruct (Restn r Hl) as (Er & _). rewrite Er.
        rewrite (r2a_p_ne_e ntid nt r Hnt Hl) by (left; congruence).
        rewrite (r2a_p_ne_se ntid nt r Hnt Hl) by (left; congruence). rewrite andb_false_r.
        destruct (wf_rows _ HW _ _ _ Hnt Hl) as (A & B). split; [apply sb2_loc_iff; exact A|exact B]. }
    rewrite (r2a_p_ne_e tid t' r E Hr) by (left; congruence).
    rewrite (r2a_p_ne_se tid t' r E Hr) by (left; congruence). rewrite andb_false_r.
    destruct (wf_rows _ HW _ _ _ E Hr) as (A & B). split; [apply sb2_loc_iff; exact A|exact B].
  - intros id tid r E. rewrite r2a_p_I in E.
    destruct (Nat.eqb_spec (fst e) id) as [<-|H1].
    { inversion E; subst tid r. exists nt3. rewrite r2a_p_T.
      destruct (Nat.eqb_spec otid ntid); [congruence|]. rewrite Nat.eqb_refl.
      split; [reflexivity|]. split; [lia|]. rewrite En. reflexivity. }
    destruct (Nat.eqb_spec row (t_len ot - 1)) as [Hlast|Hlast]; cbn [negb andb] in E.
    + destruct (wf_index _ HW _ _ _ E) as (t & Et & Hr & Hid).
      rewrite r2a_p_T. destruct (Nat.eqb_spec otid tid) as [<-|H3].
      { rewrite Hot in Et. inversion Et; subst t.
        assert (r <> row) by (intros ->; rewrite Hent in Hid; congruence).
        assert (Hl : r < t_len ot - 1) by lia.
        exists ot'. split; [reflexivity|]. split; [lia|].
        destruct (Resto r Hl H) as (Er & _). rewrite Er. assumption. }
      destruct (Nat.eqb_spec ntid tid) as [<-|H4].
      { rewrite Hnt in Et. inversion Et; subst t. exists nt3. split; [reflexivity|]. split; [lia|].
        destruct (Restn r Hr) as (Er & _). rewrite Er. assumption. }
      exists t. auto.
    + destruct (Nat.eqb_spec (fst se) id) as [<-|H2].
      { inversion E; subst tid r. exists ot'. rewrite r2a_p_T, Nat.eqb_refl.
        split; [reflexivity|]. assert (Hl : row < t_len ot - 1) by lia. split; [lia|].
        destruct (Swo Hl) as (Er & _). rewrite Er. reflexivity. }
      destruct (wf_index _ HW _ _ _ E) as (t & Et & Hr & Hid).
      rewrite r2a_p_T. destruct (Nat.eqb_spec otid tid) as [<-|H3].
      { rewrite Hot in Et. inversion Et; subst t.
        assert (r <> row) by (intros ->; rewrite Hent in Hid; congruence).
        assert (r <> t_len ot - 1) by (intros ->; congruence).
        assert (Hl : r < t_len ot - 1) by lia.
        exists ot'. split; [reflexivity|]. split; [lia|].
        destruct (Resto r Hl H) as (Er & _). rewrite Er. assumption. }
      destruct (Nat.eqb_spec ntid tid) as [<-|H4].
      { rewrite Hnt in Et. inversion Et; subst t. exists nt3. split; [reflexivity|]. split; [lia|].
        destruct (Restn r Hr) as (Er & _). rewrite Er. assumption. }
      exists t. auto.
  - intros id r E. rewrite r2a_p_I.
    destruct (Nat.eqb_spec (fst e) id) as [<-|H1]; [rewrite r2a_p_Ie in E; discriminate|].
    destruct (Nat.eqb_spec (fst se) id) as [<-|H2]; [rewrite r2a_p_Ise in E; discriminate|].
    rewrite andb_false_r. exact E.
  - intros id tid r E. rewrite r2a_p_I.
    destruct (Nat.eqb (fst e) id); [eauto|]. destruct (sw && Nat.eqb (fst se) id)%bool; eauto.
Qed.

Lemma r2a_p_loc_e : loc s' e = Some (ntid, t_len nt) /\ nth_error (w_tables s') ntid = Some nt3.
Proof.
  split.
  - apply sb2_loc_iff. change (w_index s') with I'. rewrite r2a_p_I, Nat.eqb_refl. reflexivity.
  - change (w_tables s') with T'. rewrite r2a_p_T. pose proof r2a_p_ne.
    destruct (Nat.eqb_spec otid ntid); [congruence|]. rewrite Nat.eqb_refl. reflexivity.
Qed.

Lemma r2a_p_live : live s' e = true.
Proof.
  destruct r2a_p_loc_e as (L & T). destruct Fn as (On & Ln & Mn & En & _).
  eapply sb2_live_intro; eauto. lia.
Qed.

Lemma r2a_p_val : forall c, val s' e c =
  if mk_get (a_mask na) c then (if mk_get (a_mask oa) c then val s e c else Some 0%Z) else None.
Proof.
  intros c. pose proof HW0 as HW. destruct r2a_p_row as (Hrow & Hent).
  destruct r2a_p_loc_e as (L & T). destruct Fn as (On & Ln & Mn & En & Restn & Hcopy).
  destruct (sb2_live_at _ _ _ _ _ L T) as (_ & V'). destruct (sb2_live_at _ _ _ _ _ Hloc Hot) as (_ & V).
  unfold val. rewrite r2a_p_live, Hlive, V', V.
  destruct Mn as (_ & Mids & _). unfold tbl_colidx. rewrite Mids.
  destruct (sb2_colidx_mask _ _ _ _ c HW Hnt Hna) as (Cn1 & Cn0).
  destruct (sb2_colidx_mask _ _ _ _ c HW Hot Hoa) as (Co1 & Co0).
  unfold tbl_colidx in *.
  destruct (mk_get (a_mask na) c) eqn:Emn.
  - destruct (Cn1 eq_refl) as (ni & Eni). rewrite Eni. rewrite (Hcopy c ni Eni). rewrite Emn.
    destruct (mk_get (a_mask oa) c) eqn:Emo.
    + destruct (Co1 eq_refl) as (oi & Eoi). unfold memb. rewrite Eoi. reflexivity.
    + unfold memb. rewrite (Co0 eq_refl). reflexivity.
  - rewrite (Cn0 eq_refl). reflexivity.
Qed.

Lemma r2a_p_tgt_e : forall c, tgt s' e c = tbl_target nt c.
Proof.
  intros c. destruct r2a_p_loc_e as (L & T). destruct Fn as (_ & _ & Mn & _).
  rewrite (r2c_tgt_at s' e ntid (t_len nt) nt3 L T c), r2a_p_live. apply r2c_tbl_target_meta. exact Mn.
Qed.

Lemma r2a_p_others : others_same s s' e.
Proof.
  intros x Hx. pose proof HW0 as HW. pose proof r2a_p_ne as Hne. destruct r2a_p_row as (Hrow & Hent).
  destruct Fo as (Oo & Lo & Mo & Swo & Resto).
  destruct Fn as (On & Ln & Mn & En & Restn & _).
  assert (Hcol_o : forall c, tbl_colidx ot' c = tbl_colidx ot c).
  { intros c. unfold tbl_colidx. destruct Mo as (_ & -> & _). reflexivity. }
  assert (Hcol_n : forall c, tbl_colidx nt3 c = tbl_colidx nt c).
  { intros c. unfold tbl_colidx. destruct Mn as (_ & -> & _). reflexivity. }
  assert (To : nth_error (w_tables s') otid = Some ot').
  { change (w_tables s') with T'. rewrite r2a_p_T, Nat.eqb_refl. reflexivity. }
  assert (Tn : nth_error (w_tables s') ntid = Some nt3) by apply r2a_p_loc_e.
  pose proof (r2a_p_I (fst x)) as HI.
  destruct (Nat.eqb_spec (fst e) (fst x)) as [Hfe|Hfe].
  { (* same ID as e, other generation: not live before or after *)
    assert (L' : loc s' x = Some (ntid, t_len nt)) by (apply sb2_loc_iff; exact HI).
    assert (L : loc s x = Some (otid, row)) by (apply sb2_loc_iff; rewrite <- Hfe; apply r2a_p_Ie).
    destruct (sb2_live_at _ _ _ _ _ L' Tn) as (A' & _). destruct (sb2_live_at _ _ _ _ _ L Hot) as (A & _).
    rewrite En in A'. rewrite Hent in A. rewrite (sb2_ent_eqb_ne e x) in A', A by congruence.
    rewrite andb_false_r in A', A. split; [congruence|]. intros c. unfold val. rewrite A', A. reflexivity. }
  destruct (Nat.eqb_spec row (t_len ot - 1)) as [Hlast|Hlast]; cbn [negb andb] in HI.
  - (* no swap *)
    destruct (nth_error (w_index s) (fst x)) as [[[tid|] r]|] eqn:Ex.
    + assert (L' : loc s' x = Some (tid, r)) by (apply sb2_loc_iff; exact HI).
      assert (L : loc s x = Some (tid, r)) by (apply sb2_loc_iff; exact Ex).
      destruct (wf_index _ HW _ _ _ Ex) as (t & Et & Hr & Hid).
      destruct (sb2_live_at _ _ _ _ _ L Et) as (A & V).
      destruct (Nat.eq_dec tid otid) as [->|H3].
      { rewrite Hot in Et. inversion Et; subst t.
        assert (r <> row) by (intros ->; rewrite Hent in Hid; congruence).
        assert (Hl : r < t_len ot - 1) by lia.
        destruct (Resto r Hl H) as (Er & Ec).
        destruct (sb2_live_at _ _ _ _ _ L' To) as (A' & V').
        apply sb2_same_at.
        - rewrite A', A, Er, Lo. destruct (Nat.ltb_spec r (t_len ot - 1)); [|lia].
          destruct (Nat.ltb_spec r (t_len ot)); [|lia]. reflexivity.
        - intros c. rewrite V', V, Hcol_o. destruct (tbl_colidx ot c); [rewrite Ec|]; reflexivity. }
      destruct (Nat.eq_dec tid ntid) as [->|H4].
      { rewrite Hnt in Et. inversion Et; subst t.
        destruct (Restn r Hr) as (Er & Ec).
        destruct (sb2_live_at _ _ _ _ _ L' Tn) as (A' & V').
        apply sb2_same_at.
        - rewrite A', A, Er, Ln. destruct (Nat.ltb_spec r (S (t_len nt))); [|lia].
          destruct (Nat.ltb_spec r (t_len nt)); [|lia]. reflexivity.
        - intros c. rewrite V', V, Hcol_n. destruct (tbl_colidx nt c); [rewrite Ec|]; reflexivity. }
      assert (Et' : nth_error (w_tables s') tid = Some t).
      { change (w_tables s') with T'. rewrite r2a_p_T.
        destruct (Nat.eqb_spec otid tid); [congruence|]. destruct (Nat.eqb_spec ntid tid); [congruence|]. exact Et. }
      destruct (sb2_live_at _ _ _ _ _ L' Et') as (A' & V').
      apply sb2_same_at; [congruence|]. intros c. rewrite V', V. reflexivity.
    + assert (L' : loc s' x = None) by (rewrite sb2_loc_st, HI; reflexivity).
      assert (L : loc s x = None) by (unfold loc; rewrite Ex; reflexivity).
      destruct (sb2_live_none _ _ L') as (A' & V'). destruct (sb2_live_none _ _ L) as (A & V).
      apply sb2_same_at; [congruence|]. intros c. rewrite V', V. reflexivity.
    + assert (L' : loc s' x = None) by (rewrite sb2_loc_st, HI; reflexivity).
      assert (L : loc s x = None) by (unfold loc; rewrite Ex; reflexivity).
      destruct (sb2_live_none _ _ L') as (A' & V'). destruct (sb2_live_none _ _ L) as (A & V).
      apply sb2_same_at; [congruence|]. intros c. rewrite V', V. reflexivity.
  - (* swap *)
    destruct (Nat.eqb_spec (fst se) (fst x)) as [Hfs|Hfs].
    { assert (L' : loc s' x = Some (otid, row)) by (apply sb2_loc_iff; exact HI).
      assert (L : loc s x = Some (otid, t_len ot - 1)) by (apply sb2_loc_iff; rewrite <- Hfs; apply r2a_p_Ise).
      assert (Hl : row < t_len ot - 1) by lia. destruct (Swo Hl) as (Er & Ec).
      destruct (sb2_live_at _ _ _ _ _ L' To) as (A' & V'). destruct (sb2_live_at _ _ _ _ _ L Hot) as (A & V).
      apply sb2_same_at.
      - rewrite A', A, Er, Lo. destruct (Nat.ltb_spec row (t_len ot - 1)); [|lia].
        destruct (Nat.ltb_spec (t_len ot - 1) (t_len ot)); [|lia]. reflexivity.
      - intros c. rewrite V', V, Hcol_o. destruct (tbl_colidx ot c); [rewrite Ec|]; reflexivity. }
    destruct (nth_error (w_index s) (fst x)) as [[[tid|] r]|] eqn:Ex.
    + assert (L' : loc s' x = Some (tid, r)) by (apply sb2_loc_iff; exact HI).
      assert (L : loc s x = Some (tid, r)) by (apply sb2_loc_iff; exact Ex).
      destruct (wf_index _ HW _ _ _ Ex) as (t & Et & Hr & Hid).
      destruct (sb2_live_at _ _ _ _ _ L Et) as (A & V).
      destruct (Nat.eq_dec tid otid) as [->|H3].
      { rewrite Hot in Et. inversion Et; subst t.
        assert (r <> row) by (intros ->; rewrite Hent in Hid; congruence).
        assert (r <> t_len ot - 1) by (intros ->; congruence).
        assert (Hl : r < t_len ot - 1) by lia.
        destruct (Resto r Hl H) as (Er & Ec).
        destruct (sb2_live_at _ _ _ _ _ L' To) as (A' & V').
        apply sb2_same_at.
        - rewrite A', A, Er, Lo. destruct (Nat.ltb_spec r (t_len ot - 1)); [|lia].
          destruct (Nat.ltb_spec r (t_len ot)); [|lia]. reflexivity.
        - intros c. rewrite V', V, Hcol_o. destruct (tbl_colidx ot c); [rewrite Ec|]; reflexivity. }
      destruct (Nat.eq_dec tid ntid) as [->|H4].
      { rewrite Hnt in Et. inversion Et; subst t.
        destruct (Restn r Hr) as (Er & Ec).
        destruct (sb2_live_at _ _ _ _ _ L' Tn) as (A' & V').
        apply sb2_same_at.
        - rewrite A', A, Er, Ln. destruct (Nat.ltb_spec r (S (t_len nt))); [|lia].
          destruct (Nat.ltb_spec r (t_len nt)); [|lia]. reflexivity.
        - intros c. rewrite V', V, Hcol_n. destruct (tbl_colidx nt c); [rewrite Ec|]; reflexivity. }
      assert (Et' : nth_error (w_tables s') tid = Some t).
      { change (w_tables s') with T'. rewrite r2a_p_T.
        destruct (Nat.eqb_spec otid tid); [congruence|]. destruct (Nat.eqb_spec ntid tid); [congruence|]. exact Et. }
      destruct (sb2_live_at _ _ _ _ _ L' Et') as (A' & V').
      apply sb2_same_at; [congruence|]. intros c. rewrite V', V. reflexivity.
    + assert (L' : loc s' x = None) by (rewrite sb2_loc_st, HI; reflexivity).
      assert (L : loc s x = None) by (unfold loc; rewrite Ex; reflexivity).
      destruct (sb2_live_none _ _ L') as (A' & V'). destruct (sb2_live_none _ _ L) as (A & V).
      apply sb2_same_at; [congruence|]. intros c. rewrite V', V. reflexivity.
    + assert (L' : loc s' x = None) by (rewrite sb2_loc_st, HI; reflexivity).
      assert (L : loc s x = None) by (unfold loc; rewrite Ex; reflexivity).
      destruct (sb2_live_none _ _ L') as (A' & V'). destruct (sb2_live_none _ _ L) as (A & V).
      apply sb2_same_at; [congruence|]. intros c. rewrite V', V. reflexivity.
Qed.

Lemma r2a_p_others_tgt : forall x, x <> e -> forall c, tgt s' x c = tgt s x c.
Proof.
  intros x Hx c. pose proof HW0 as HW. pose proof r2a_p_ne as Hne. destruct r2a_p_row as (Hrow & Hent).
  destruct (r2a_p_others x Hx) as (Lv & _).
  destruct (live s x) eqn:Hl; [|rewrite (r2c_tgt_dead s' x c Lv), (r2c_tgt_dead s x c Hl); reflexivity].
  destruct Fo as (Oo & Lo & Mo & Swo & Resto). destruct Fn as (On & Ln & Mn & En & Restn & _).
  destruct (sb2_live_elim _ _ Hl) as (tid & r & t & L0 & T0 & R0 & E0).
  rewrite (r2c_tgt_at s x tid r t L0 T0 c), Hl.
  assert (Hfe : fst e <> fst x).
  { intros Hf. apply Hx. symmetry. apply (r2c_live_same_id s e x Hlive Hl Hf). }
  assert (To : nth_error (w_tables s') otid = Some ot').
  { change (w_tables s') with T'. rewrite r2a_p_T, Nat.eqb_refl. reflexivity. }
  assert (Tn : nth_error (w_tables s') ntid = Some nt3) by apply r2a_p_loc_e.
  (* the table of x after the move, up to labels *)
  assert (Tx : forall r', loc s' x = Some (tid, r') -> tgt s' x c = tbl_target t c).
  { intros r' L'. destruct (Nat.eq_dec tid otid) as [->|H3].
    - rewrite Hot in T0. injection T0 as <-. rewrite (r2c_tgt_at s' x otid r' ot' L' To c), Lv. apply r2c_tbl_target_meta. exact Mo.
    - destruct (Nat.eq_dec tid ntid) as [->|H4].
      + rewrite Hnt in T0. injection T0 as <-. rewrite (r2c_tgt_at s' x ntid r' nt3 L' Tn c), Lv. apply r2c_tbl_target_meta. exact Mn.
      + assert (Et' : nth_error (w_tables s') tid = Some t).
        { change (w_tables s') with T'. rewrite r2a_p_T.
          destruct (Nat.eqb_spec otid tid); [congruence|]. destruct (Nat.eqb_spec ntid tid); [congruence|]. exact T0. }
        rewrite (r2c_tgt_at s' x tid r' t L' Et' c), Lv. reflexivity. }
  pose proof (r2a_p_I (fst x)) as HI. apply Nat.eqb_neq in Hfe. rewrite Hfe in HI. apply sb2_loc_iff in L0.
  destruct (sw && Nat.eqb (fst se) (fst x))%bool eqn:Esw.
  - apply andb_true_iff in Esw. destruct Esw as (_ & Es). apply Nat.eqb_eq in Es.
    rewrite <- Es, r2a_p_Ise in L0. injection L0 as <- <-.
    apply (Tx row). apply sb2_loc_iff. exact HI.
  - apply (Tx r). apply sb2_loc_iff. change (nth_error I' (fst x) = Some (Some tid, r)). rewrite HI. exact L0.
Qed.

End r2a_post.
(** ** The move of one row against the relation invariant *)

Lemma r2a_move_spec : forall D P X s e otid row ntid ot nt oa na, St2G D P X s -> room s ->
  live s e = true -> loc s e = Some (otid, row) ->
  nth_error (w_tables s) otid = Some ot -> nth_error (w_tables s) ntid = Some nt ->
  nth_error (w_archs s) (t_arch ot) = Some oa -> nth_error (w_archs s) (t_arch nt) = Some na ->
  a_mask oa <> a_mask na -> t_free nt = false ->
  exists s', (forall B (K : MW B), (nidx <- tbl_addM ntid e ;; copy_row otid ntid (a_mask na) row nidx ;;; remove_row otid row ;;;
                                    set_index_direct e ntid nidx ;;; K) s = K s') /\
    St2G D P X s' /\ live s' e = true /\
    (forall c, val s' e c = if mk_get (a_mask na) c then (if mk_get (a_mask oa) c then val s e c else Some 0%Z) else None) /\
    (forall c, tgt s' e c = tbl_target nt c) /\
    (forall x, x <> e -> live s' x = live s x /\ (forall c, val s' x c = val s x c) /\ (forall c, tgt s' x c = tgt s x c)) /\
    w_pool s' = w_pool s /\ w_istarget s' = w_istarget s /\ w_archs s' = w_archs s /\ side_same s s' /\ frame_user s s'.
Proof.
  intros D P X s e otid row ntid ot nt oa na (HW & HR & HT & HC) Hroom Hlive Hloc Hot Hnt Hoa Hna Hmask Hfn.
  assert (Hne : otid <> ntid) by (exact (sb2_mv_ne _ _ _ _ _ _ _ _ _ Hloc Hot Hnt Hoa Hna Hmask)).
  destruct (r2a_mv_exec s e otid row ntid ot nt oa na HW Hroom Hlive Hloc Hne Hot Hnt Hoa Hna)
    as (nt3 & s2 & s3 & s4 & E1 & E2 & E3 & E4 & Fo & Fn).
  set (ot' := snd (tbl_remove ot row)) in *.
  set (s' := sb2_st s (sb2_T' s otid ntid ot' nt3) (sb2_I' s e ntid row ot nt)) in *.
  destruct (sb2_mv_row _ _ _ _ _ Hlive Hloc Hot) as (Hrow & Hent).
  assert (Hfo : t_free ot = false).
  { destruct (t_free ot) eqn:Ef; [|reflexivity]. pose proof (r2c_free_len0 D s otid ot HR Hot Ef). lia. }
  pose proof (r2a_p_T s otid ntid ot nt ot' nt3 Hot Hnt Hne) as Tab.
  assert (Hlive' : live s' e = true) by (eapply r2a_p_live; eauto).
  assert (OS : others_same s s' e) by (eapply r2a_p_others; eauto).
  pose proof Fo as (_ & _ & Mo & _). pose proof Fn as (_ & _ & Mn & _).
  assert (TM : r2c_tabs_meta (w_tables s) (w_tables s')).
  { split; [unfold s', sb2_st, sb2_T'; cbn; rewrite !upd_length; reflexivity|].
    intros j tj Hj. change (w_tables s') with (sb2_T' s otid ntid ot' nt3). rewrite Tab.
    destruct (Nat.eqb_spec otid j) as [<-|H1].
    - rewrite Hot in Hj. injection Hj as <-. exists ot'. split; [reflexivity|]. split; [exact Mo|]. intros Hc. congruence.
    - destruct (Nat.eqb_spec ntid j) as [<-|H2].
      + rewrite Hnt in Hj. injection Hj as <-. exists nt3. split; [reflexivity|]. split; [exact Mn|]. intros Hc. congruence.
      + exists tj. split; [exact Hj|]. split; [apply sb2_meta_refl|]. intros Hf. apply (r2c_free_len0 D s j tj HR Hj Hf). }
  exists s'. split.
  { intros B K. rewrite (sa_bind_ok E1), (sa_bind_ok E2), (sa_bind_ok E3), (sa_bind_ok E4). reflexivity. }
  split.
  { split; [eapply r2a_p_WF; eauto|]. split.
    - apply (r2c_RelInvG_rows D s s' HR); try reflexivity; [exact TM|]. intros x Hx. left.
      destruct (ent_eqb x e) eqn:Ex; [apply sa_ent_eqb_eq in Ex; subst x; exact Hlive'|].
      assert (Hxe : x <> e) by (intros ->; rewrite sa_ent_eqb_refl in Ex; discriminate).
      rewrite (proj1 (OS x Hxe)). exact Hx.
    - split; [apply (r2c_TargetFlagsG_ext P s s' HT); reflexivity|].
      apply (r2c_CacheInvG_rows X s s' HC); try reflexivity. exact TM. }
  split; [exact Hlive'|]. split; [eapply r2a_p_val; eauto|]. split; [eapply r2a_p_tgt_e; eauto|]. split.
  { intros x Hx. destruct (OS x Hx) as (O1 & O2). split; [exact O1|]. split; [exact O2|]. eapply r2a_p_others_tgt; eauto. }
  split; [reflexivity|]. split; [reflexivity|]. split; [reflexivity|].
  split; [unfold side_same; repeat split|unfold frame_user; repeat split].
Qed.

(* ================================================================================================ *)
(** * Part 5: Add / Remove / Exchange with relation targets *)

Lemma r2a_rejected_refl : forall s, St2 s -> r2c_rejected s s.
Proof.
  intros s H. split; [exact H|]. split; [apply sb2_content_refl|]. split; [intros e c; reflexivity|].
  split; [reflexivity|apply sb2_frame_refl].
Qed.

Lemma r2a_keeps_rejected : forall s s', St2 s -> St2 s' -> r2a_keeps s s' -> r2c_rejected s s' /\ side_same s s'.
Proof.
  intros s s' HS HS' K. pose proof HS as HS0. apply St2_St2G in HS0. destruct HS0 as (HW & HR & _ & _).
  destruct (r2a_keeps_obs r2_none s s' HW HR K) as (C & T). destruct K as (_ & K2 & _ & _ & K5 & K6).
  split; [|exact K5]. split; [exact HS'|]. split; [exact C|]. split; [exact T|]. split; assumption.
Qed.

Lemma r2a_keeps_istarget_len : forall s s', WF s -> WF s' -> r2a_keeps s s' -> length (w_istarget s') = length (w_istarget s).
Proof.
  intros s s' HW HW' (K1 & _). destruct (wf_index_len _ HW) as (_ & L). destruct (wf_index_len _ HW') as (_ & L').
  rewrite L, L', K1. reflexivity.
Qed.

(** the trailing [register_targets] of the operations: only flags change *)
Lemma r2a_register_tail : forall s (rels : list rel), St2 s -> (forall r, In r rels -> fst (snd r) < length (w_istarget s)) ->
  exists l', register_targets rels s = Ok tt (s <| w_istarget := l' |>) /\ St2 (s <| w_istarget := l' |>) /\
             length l' = length (w_istarget s).
Proof.
  intros s rels HS Hb. apply St2_St2G in HS.
  pose proof (r2_register_targets_spec r2_none r2_none r2_none rels s HS) as H.
  destruct (r2_register_targets_gen rels s) as (l0 & S1 & L1 & _).
  destruct (register_targets rels s) as [[] s'|er s'].
  - destruct H as (HS' & l' & ->). cbn [state_of] in S1. exists l'. split; [reflexivity|]. split.
    + apply St2_St2G. destruct HS' as (A & B & C & E). split; [exact A|]. split; [exact B|]. split; [|exact E].
      apply (r2_TargetFlagsG_mono _ _ r2_none) in C; [exact C|]. intros k (Hk & _). exact Hk.
    + assert (El : l' = l0) by (apply (f_equal w_istarget) in S1; exact S1). rewrite El. exact L1.
  - exfalso. destruct H as (_ & _ & r & Hr & Hle). specialize (Hb r Hr). lia.
Qed.

Lemma r2a_flags_obs : forall s l',
  let s' := s <| w_istarget := l' |> in
  (forall e, live s' e = live s e) /\ (forall e c, val s' e c = val s e c) /\ (forall e c, tgt s' e c = tgt s e c) /\
  w_pool s' = w_pool s /\ w_archs s' = w_archs s /\ side_same s s' /\ frame_user s s'.
Proof.
  intros s l' s'. split; [reflexivity|]. split; [reflexivity|]. split; [reflexivity|]. split; [reflexivity|]. split; [reflexivity|].
  split; [unfold side_same; repeat split|unfold frame_user; repeat split].
Qed.

Lemma r2a_targets_in_range : forall s (rels : list rel) n, WF s -> n = length (w_istarget s) ->
  (forall r, In r rels -> snd r = zero_ent \/ live s (snd r) = true) ->
  forall r, In r rels -> fst (snd r) < n.
Proof.
  intros s rels n HW -> H r Hr. destruct (H r Hr) as [Hz|Hl].
  - rewrite Hz. cbn. apply (r2_zero_index s HW).
  - apply (r2_live_index s (snd r) HW Hl).
Qed.

Ltac r2a_rej_refl :=
  first [ split; [apply r2a_rejected_refl; assumption | apply sb2_side_refl]
        | apply r2a_rejected_refl; assumption ].

Lemma r2a_dead_not_live : forall s e, WF s -> alive s e = false -> live s e = false.
Proof.
  intros s e HW H. destruct (live s e) eqn:E; [|reflexivity]. destruct (live_alive s e HW E) as (A & _). congruence.
Qed.

Lemma r2a_noindex_not_live : forall s e, (forall t r, nth_error (w_index s) (fst e) <> Some (Some t, r)) -> live s e = false.
Proof.
  intros s e H. unfold live, loc. destruct (nth_error (w_index s) (fst e)) as [[[t|] r]|] eqn:E; try reflexivity.
  exfalso. apply (H t r). reflexivity.
Qed.

Lemma r2a_nil_of_guard : forall A (l : list A), negb (is_nil l) = false -> l = [].
Proof. intros A [|x t] H; [reflexivity|discriminate]. Qed.

Lemma r2a_nil2_of_guard : forall A (l1 l2 : list A), negb (is_nil l1 && is_nil l2) = false -> l1 = [] /\ l2 = [].
Proof. intros A [|x t] [|y u] H; try discriminate. split; reflexivity. Qed.

(** why a prefix check failed: world locked, entity not live, nothing to do *)
Ltac r2a_cause HW :=
  first [ left; first [assumption | reflexivity]
        | right; left; first [ apply (r2a_dead_not_live _ _ HW); assumption
                             | apply r2a_noindex_not_live; intros ? ?; match goal with H : nth_error (w_index _) _ = _ |- _ => rewrite H end; discriminate ]
        | right; right; left; first [ apply r2a_nil_of_guard; assumption | apply r2a_nil2_of_guard; assumption ] ].

(** The common prefix of add / remove / exchange: guards, index lookup, old mask. Introduces
    [Hlk Hal HG otid row Ei Hlive Hloc ot Hot oa Hoa]. *)
Ltac r2a_prefix s e HW G :=
  destruct (is_locked s) eqn:Hlk;
  [ erewrite sb2_bind_err by (apply sb2_check_locked_err; assumption); split; [r2a_rej_refl|r2a_cause HW] | ];
  erewrite sb2_bind_ok by (apply sb2_check_locked_ok; assumption); cbv beta;
  rewrite sb2_bind_get; cbv beta;
  destruct (alive s e) eqn:Hal;
  [ | rewrite sb2_bind_guard_false; split; [r2a_rej_refl|r2a_cause HW] ];
  rewrite sb2_bind_guard_true;
  destruct G eqn:HG;
  [ | rewrite sb2_bind_guard_false; split; [r2a_rej_refl|r2a_cause HW] ];
  rewrite sb2_bind_guard_true;
  destruct (nth_error (w_index s) (fst e)) as [[[otid|] row]|] eqn:Ei;
  [ | erewrite sb2_bind_err by (apply sb2_get_index_err; intros ? ?; rewrite Ei; discriminate); split; [r2a_rej_refl|r2a_cause HW]
    | erewrite sb2_bind_err by (apply sb2_get_index_err; intros ? ?; rewrite Ei; discriminate); split; [r2a_rej_refl|r2a_cause HW] ];
  erewrite sb2_bind_ok by (apply sb2_get_index_ok; exact Ei); cbv beta iota;
  assert (Hlive : live s e = true) by (eapply sb2_alive_index_live; eauto);
  assert (Hloc : loc s e = Some (otid, row)) by (apply sb2_loc_iff; exact Ei);
  destruct (wf_index _ HW _ _ _ Ei) as (ot & Hot & _ & _);
  destruct (wf_layout _ HW _ _ Hot) as (oa & Hoa & _);
  erewrite sb2_bind_ok by (eapply sb2_arch_mask_ok; eassumption); cbv beta.

Lemma r2a_val_none_iff : forall (v : option Z) (b : bool), (v <> None <-> b = true) -> (v = None <-> b = false).
Proof.
  intros v b H. split.
  - intros ->. destruct b; [|reflexivity]. exfalso. apply (proj2 H); reflexivity.
  - intros ->. destruct v; [|reflexivity]. assert (false = true) by (apply H; discriminate). discriminate.
Qed.

(** the situation after a finder returned: the entity is where it was, in the same table *)
Lemma r2a_after_finder : forall s s1 e otid row ot oa, St2 s -> St2 s1 -> r2a_keeps s s1 -> room s ->
  live s e = true -> loc s e = Some (otid, row) -> nth_error (w_tables s) otid = Some ot ->
  nth_error (w_archs s) (t_arch ot) = Some oa ->
  t_free ot = false /\ live s1 e = true /\ loc s1 e = Some (otid, row) /\ nth_error (w_tables s1) otid = Some ot /\
  (exists oa1, nth_error (w_archs s1) (t_arch ot) = Some oa1 /\ a_mask oa1 = a_mask oa) /\ room s1 /\
  content_same s s1 /\ r2c_tgt_same s s1 /\ length (w_istarget s1) = length (w_istarget s).
Proof.
  intros s s1 e otid row ot oa HS HS1 K Hroom Hlive Hloc Hot Hoa.
  apply St2_St2G in HS. destruct HS as (HW & HR & _ & _). apply St2_St2G in HS1. destruct HS1 as (HW1 & _).
  destruct (r2a_keeps_loc r2_none s s1 e otid row HW HR K Hloc) as (Hloc1 & t & Ht & Ht1 & Hf & _).
  rewrite Hot in Ht. injection Ht as <-.
  destruct (r2a_keeps_obs r2_none s s1 HW HR K) as (C & T).
  split; [exact Hf|]. split; [destruct (C e) as (L & _); rewrite L; exact Hlive|]. split; [exact Hloc1|]. split; [exact Ht1|].
  split; [destruct K as (_ & _ & _ & K4 & _); apply (K4 _ _ Hoa)|]. split; [apply (r2a_keeps_room s s1 K Hroom)|].
  split; [exact C|]. split; [exact T|]. apply (r2a_keeps_istarget_len s s1 HW HW1 K).
Qed.

(** Add with relation targets: the entity gains the components with zero values and the assigned
    targets, keeps all others; nobody else changes. A failing call leaves the observables alone
    (at most a new archetype without table was created). *)
Theorem r2a_add_spec : forall s e add (rels : list rel), St2 s -> room s -> registered s add -> r2a_rels_ok s add rels ->
  match w_add e add rels s with
  | Ok (om, nm) s' =>
      St2 s' /\ is_locked s = false /\ live s e = true /\ add <> [] /\ NoDup add /\
      (forall c, In c add -> val s e c = None) /\ r2a_rels_complete s add rels /\
      live s' e = true /\
      (forall c, val s' e c = if memb c add then Some 0%Z else val s e c) /\
      (forall c, tgt s' e c = if memb c add then Some (r2a_new_target rels c) else tgt s e c) /\
      (forall c, mk_get om c = true <-> val s e c <> None) /\ (forall c, mk_get nm c = true <-> val s' e c <> None) /\
      r2c_others_same s s' e /\ w_pool s' = w_pool s /\ side_same s s' /\ frame_user s s'
  | Err _ s' => (r2c_rejected s s' /\ side_same s s') /\
      (is_locked s = true \/ live s e = false \/ add = [] \/
       ~ (NoDup add /\ (forall c, In c add -> val s e c = None) /\ r2a_rels_complete s add rels))
  end.
Proof.
  intros s e add rels HS Hroom Hreg Hok. pose proof HS as HS0. apply St2_St2G in HS0. destruct HS0 as (HW & HR & _ & _).
  unfold w_add. r2a_prefix s e HW (negb (is_nil add)).
  destruct (r2a_after_finder s s e otid row ot oa HS HS (r2a_keeps_refl s) Hroom Hlive Hloc Hot Hoa) as (Hfo & _).
  pose proof (r2a_find_add s otid ot oa add rels HS Hot Hfo Hoa Hreg Hok) as Hf.
  destruct (find_or_create_table_add otid add rels (a_mask oa) s) as [[[ntid naid] m] s1|er s1] eqn:Ef.
  2:{ erewrite sb2_bind_err by exact Ef. destruct Hf as (F1 & F2 & F3). split; [apply (r2a_keeps_rejected s s1 HS F1 F2)|].
      right; right; right. intros (Q1 & Q2 & Q3). apply F3. split; [exact Q1|]. split; [|exact Q3].
      intros c Hc. apply (r2a_val_none_iff _ _ (val_defined_iff_mask s e otid row ot oa HW Hlive Hloc Hot Hoa c)). apply Q2. exact Hc. }
  erewrite sb2_bind_ok by exact Ef. cbv beta iota.
  destruct Hf as ((HS1 & K & Hcomp & nt & na & Hnt & Hnaid & Hfn & Hna & Hma & Htgts) & Hmk & Hnd & Hdis).
  destruct (r2a_after_finder s s1 e otid row ot oa HS HS1 K Hroom Hlive Hloc Hot Hoa)
    as (_ & Hlive1 & Hloc1 & Hot1 & (oa1 & Hoa1 & Hmask1) & Hroom1 & Hcs & Hts & Hil).
  subst naid m.
  assert (Hadd : add <> []) by (apply sb2_nil_not; exact HG).
  assert (Hmne : a_mask oa1 <> a_mask na).
  { rewrite Hmask1. intros Heq. destruct add as [|c add']; [congruence|].
    specialize (Hmk c). rewrite <- Heq, (Hdis c (or_introl eq_refl)), sb2_memb_cons, Nat.eqb_refl in Hmk.
    discriminate. }
  pose proof HS1 as HS1g. apply St2_St2G in HS1g.
  destruct (r2a_move_spec r2_none r2_none r2_none s1 e otid row ntid ot nt oa1 na HS1g Hroom1 Hlive1 Hloc1 Hot1 Hnt Hoa1 Hna Hmne Hfn)
    as (s2 & Hrun & HS2 & Hlive2 & Hval2 & Htgt2 & Hoth2 & Hpool2 & Hist2 & Harchs2 & Hside2 & Hfu2).
  rewrite Hrun. apply St2_St2G in HS2. pose proof HS2 as HS2g. apply St2_St2G in HS2g. destruct HS2g as (HW2 & _).
  destruct (r2a_register_tail s2 rels HS2) as (l' & Ereg & HS3 & _).
  { apply (r2a_targets_in_range s rels _ HW); [rewrite Hist2, Hil; reflexivity|apply Hok]. }
  erewrite sb2_bind_ok by exact Ereg.
  destruct (r2a_flags_obs s2 l') as (L3 & V3 & T3 & P3 & A3 & S3 & F3).
  erewrite sb2_bind_ok by (apply sb2_getA; rewrite A3, Harchs2; exact Hna).
  unfold ret. rewrite Hmask1 in Hval2.
  pose proof (val_defined_iff_mask s e otid row ot oa HW Hlive Hloc Hot Hoa) as Hiff.
  destruct (r2a_tbl_target r2_none s otid ot oa HW HR Hot Hoa) as (_ & _ & Tn & _).
  assert (Hval' : forall c, val (s2 <| w_istarget := l' |>) e c = if memb c add then Some 0%Z else val s e c).
  { intros c. rewrite V3, Hval2, Hmk. destruct (Hcs e) as (_ & Hv). rewrite Hv. destruct (memb c add) eqn:Ema.
    - rewrite (Hdis c) by (apply sb2_memb_In; exact Ema). rewrite orb_true_r. reflexivity.
    - rewrite orb_false_r. destruct (mk_get (a_mask oa) c) eqn:Emo; [reflexivity|].
      symmetry. apply (sb2_val_none _ _ (Hiff c) Emo). }
  split; [exact HS3|]. split; [reflexivity|]. split; [exact Hlive|]. split; [exact Hadd|]. split; [exact Hnd|].
  split.
  { intros c Hin. apply (sb2_val_none _ _ (Hiff c)). apply Hdis. exact Hin. }
  split; [exact Hcomp|]. split; [rewrite L3; exact Hlive2|]. split; [exact Hval'|].
  split.
  { intros c. rewrite T3, Htgt2, Htgts. destruct (memb c add) eqn:Ema; [reflexivity|].
    rewrite (r2c_tgt_at s e otid row ot Hloc Hot c), Hlive, Hmk, Ema, orb_false_r.
    destruct (mk_get (a_mask oa) c) eqn:Emo; [reflexivity|]. symmetry. apply Tn. exact Emo. }
  split; [intros c; split; apply Hiff|].
  split.
  { intros c. rewrite Hval', Hmk. destruct (memb c add) eqn:Ema.
    - rewrite orb_true_r. split; [discriminate|reflexivity].
    - rewrite orb_false_r. split; apply Hiff. }
  split.
  { intros x Hx. destruct (Hoth2 x Hx) as (O1 & O2 & O3). destruct (Hcs x) as (C1 & C2).
    split; [rewrite L3, O1; exact C1|]. split; [intros c; rewrite V3, O2; apply C2|]. intros c. rewrite T3, O3. apply Hts. }
  destruct K as (_ & K2 & _ & _ & K5 & K6).
  split; [rewrite P3, Hpool2; exact K2|].
  split; [eapply sb2_side_trans; [exact K5|]; eapply sb2_side_trans; eassumption|].
  eapply sb2_frame_trans; [exact K6|]. eapply sb2_frame_trans; eassumption.
Qed.

(** callbacks only touch the side state *)
Lemma r2a_storage_same_obs : forall s s', storage_same s s' ->
  w_tables s' = w_tables s /\ w_archs s' = w_archs s /\ w_index s' = w_index s /\ w_pool s' = w_pool s /\
  w_istarget s' = w_istarget s /\
  content_same s s' /\ r2c_tgt_same s s' /\ frame_user s s'.
Proof.
  intros s s' SS. pose proof (sb3_storage_same_content s s' SS) as C. pose proof (r2c_storage_same_tgt s s' SS) as T.
  pose proof (sb3_storage_same_frame s s' SS) as F.
  destruct SS as (_ & _ & E3 & E4 & E5 & E6 & E7 & _).
  split; [exact E7|]. split; [exact E6|]. split; [exact E4|]. split; [exact E3|]. split; [exact E5|]. split; [exact C|]. split; [exact T|exact F].
Qed.

Lemma r2a_rejected_trans_storage : forall s s1 s1', r2c_rejected s s1 -> storage_same s1 s1' -> r2c_rejected s s1'.
Proof.
  intros s s1 s1' (R1 & R2 & R3 & R4 & R5) SS.
  destruct (r2a_storage_same_obs s1 s1' SS) as (_ & _ & _ & P & _ & C & T & F).
  split; [apply (r2c_storage_same_St2 s1 s1' SS R1)|]. split; [eapply sb2_content_trans; eassumption|].
  split; [intros x c; rewrite (T x c); apply R3|]. split; [congruence|eapply sb2_frame_trans; eassumption].
Qed.

(** the removal events can only fail if an observer is registered for them *)
Lemma r2a_fire_err_obs : forall s s1 e om m rr er s1', side_same s s1 ->
  fire_remove_events e om m rr s1 = Err er s1' ->
  has_obs s EvRemoveComponents = true \/ has_obs s EvRemoveRelations = true.
Proof.
  intros s s1 e om m rr er s1' Side E. unfold fire_remove_events in E. rewrite sb2_bind_get in E.
  rewrite !(r2b_has_obs_side s s1 _ Side) in E.
  destruct (has_obs s EvRemoveComponents); [left; reflexivity|].
  destruct (has_obs s EvRemoveRelations); [right; reflexivity|].
  rewrite andb_false_r in E. cbn in E. discriminate E.
Qed.

(** Remove: the entity loses exactly the components (and the targets of removed relation
    components), keeps values and targets of the rest. Removal callbacks run before the change. *)
Theorem r2a_remove_spec : forall s e rem, St2 s -> room s ->
  match w_remove e rem s with
  | Ok _ s' =>
      St2 s' /\ is_locked s = false /\ live s e = true /\ rem <> [] /\ NoDup rem /\
      (forall c, In c rem -> val s e c <> None) /\ live s' e = true /\
      (forall c, val s' e c = if memb c rem then None else val s e c) /\
      (forall c, tgt s' e c = if memb c rem then None else tgt s e c) /\
      r2c_others_same s s' e /\ w_pool s' = w_pool s /\ frame_user s s'
  | Err _ s' => r2c_rejected s s' /\
      (is_locked s = true \/ live s e = false \/ rem = [] \/
       ~ (NoDup rem /\ (forall c, In c rem -> val s e c <> None)) \/
       has_obs s EvRemoveComponents = true \/ has_obs s EvRemoveRelations = true)
  end.
Proof.
  intros s e rem HS Hroom. pose proof HS as HS0. apply St2_St2G in HS0. destruct HS0 as (HW & HR & _ & _).
  unfold w_remove. r2a_prefix s e HW (negb (is_nil rem)).
  destruct (r2a_after_finder s s e otid row ot oa HS HS (r2a_keeps_refl s) Hroom Hlive Hloc Hot Hoa) as (Hfo & _).
  pose proof (r2a_find_remove s otid ot oa rem HS Hot Hfo Hoa) as Hf.
  destruct (find_or_create_table_remove otid rem (a_mask oa) s) as [[[[ntid naid] m] rr] s1|er s1] eqn:Ef.
  2:{ erewrite sb2_bind_err by exact Ef. destruct Hf as (-> & F3). split; [apply r2a_rejected_refl; exact HS|].
      right; right; right; left. intros (Q1 & Q2). apply F3. split; [exact Q1|].
      intros c Hc. apply (val_defined_iff_mask s e otid row ot oa HW Hlive Hloc Hot Hoa c). apply Q2. exact Hc. }
  erewrite sb2_bind_ok by exact Ef. cbv beta iota.
  destruct Hf as ((HS1 & K & _ & nt & na & Hnt & Hnaid & Hfn & Hna & Hma & Htgts) & Hmk & Hnd & Hsub).
  destruct (r2a_keeps_rejected s s1 HS HS1 K) as (Rej1 & Side1).
  pose proof (fire_remove_events_storage e (a_mask oa) m rr s1) as Hst.
  destruct (fire_remove_events e (a_mask oa) m rr s1) as [u s1'|er s1'] eqn:Efire; cbn [state_of] in Hst.
  2:{ erewrite sb2_bind_err by exact Efire. split; [apply (r2a_rejected_trans_storage s s1 s1' Rej1 Hst)|].
      right; right; right; right. apply (r2a_fire_err_obs s s1 e (a_mask oa) m rr er s1' Side1 Efire). }
  erewrite sb2_bind_ok by exact Efire.
  destruct (r2a_after_finder s s1 e otid row ot oa HS HS1 K Hroom Hlive Hloc Hot Hoa)
    as (_ & Hlive1 & Hloc1 & Hot1 & (oa1 & Hoa1 & Hmask1) & Hroom1 & _ & _ & _).
  pose proof (r2a_rejected_trans_storage s s1 s1' Rej1 Hst) as (HS1' & Hcs & Hts & Hpool & Hfu).
  destruct (r2a_storage_same_obs s1 s1' Hst) as (Etab & Earch & Eidx & Epool & _ & C1 & _ & _).
  rewrite <- Etab in Hnt, Hot1. rewrite <- Earch in Hna, Hoa1.
  assert (Hlive1' : live s1' e = true) by (destruct (C1 e) as (L & _); rewrite L; exact Hlive1).
  assert (Hloc1' : loc s1' e = Some (otid, row)) by (rewrite (sa_loc_ext s1 s1' Eidx); exact Hloc1).
  assert (Hroom1' : room s1') by (unfold room; rewrite Epool; exact Hroom1).
  subst naid m.
  assert (Hrem : rem <> []) by (apply sb2_nil_not; exact HG).
  assert (Hmne : a_mask oa1 <> a_mask na).
  { rewrite Hmask1. intros Heq. destruct rem as [|c rem']; [congruence|].
    specialize (Hmk c). rewrite <- Heq, (Hsub c (or_introl eq_refl)), sb2_memb_cons, Nat.eqb_refl in Hmk.
    discriminate. }
  pose proof HS1' as HS1g. apply St2_St2G in HS1g.
  destruct (r2a_move_spec r2_none r2_none r2_none s1' e otid row ntid ot nt oa1 na HS1g Hroom1' Hlive1' Hloc1' Hot1 Hnt Hoa1 Hna Hmne Hfn)
    as (s2 & Hrun & HS2 & Hlive2 & Hval2 & Htgt2 & Hoth2 & Hpool2 & Hist2 & Harchs2 & Hside2 & Hfu2).
  specialize (Hrun unit (ret tt)).
  assert (Erun : (nidx <- tbl_addM ntid e;; copy_row otid ntid (a_mask na) row nidx;;; remove_row otid row;;; set_index_direct e ntid nidx) s1' = Ok tt s2).
  { etransitivity; [|exact Hrun]. unfold bind. destruct (tbl_addM ntid e s1') as [nidx sa|? ?]; [|reflexivity].
    destruct (copy_row otid ntid (a_mask na) row nidx sa) as [[] sb|? ?]; [|reflexivity].
    destruct (remove_row otid row sb) as [[] sc|? ?]; [|reflexivity].
    destruct (set_index_direct e ntid nidx sc) as [[] sd|? ?]; reflexivity. }
  rewrite Erun. apply St2_St2G in HS2. rewrite Hmask1 in Hval2.
  pose proof (val_defined_iff_mask s e otid row ot oa HW Hlive Hloc Hot Hoa) as Hiff.
  destruct (r2a_tbl_target r2_none s otid ot oa HW HR Hot Hoa) as (_ & _ & Tn & _).
  split; [exact HS2|]. split; [reflexivity|]. split; [exact Hlive|]. split; [exact Hrem|]. split; [exact Hnd|].
  split.
  { intros c Hin. apply Hiff. apply Hsub. exact Hin. }
  split; [exact Hlive2|].
  split.
  { intros c. rewrite Hval2, Hmk. destruct (Hcs e) as (_ & Hv). rewrite Hv. destruct (memb c rem) eqn:Emr.
    - rewrite andb_false_r. reflexivity.
    - rewrite andb_true_r. destruct (mk_get (a_mask oa) c) eqn:Emo; [reflexivity|].
      symmetry. apply (sb2_val_none _ _ (Hiff c) Emo). }
  split.
  { intros c. rewrite Htgt2, Htgts. cbn [memb index_of]. rewrite Hmk. destruct (memb c rem) eqn:Emr.
    - rewrite andb_false_r. reflexivity.
    - rewrite andb_true_r. rewrite (r2c_tgt_at s e otid row ot Hloc Hot c), Hlive.
      destruct (mk_get (a_mask oa) c) eqn:Emo; [reflexivity|]. symmetry. apply Tn. exact Emo. }
  split.
  { intros x Hx. destruct (Hoth2 x Hx) as (O1 & O2 & O3). destruct (Hcs x) as (Q1 & Q2).
    split; [rewrite O1; exact Q1|]. split; [intros c; rewrite O2; apply Q2|]. intros c. rewrite O3. apply Hts. }
  split; [rewrite Hpool2; exact Hpool|]. eapply sb2_frame_trans; eassumption.
Qed.

(** Exchange: add and remove in one move. *)
Theorem r2a_exchange_spec : forall s e add rem (rels : list rel), St2 s -> room s -> registered s add -> r2a_rels_ok s add rels ->
  match w_exchange e add rem rels s with
  | Ok (om, nm) s' =>
      St2 s' /\ is_locked s = false /\ live s e = true /\ NoDup add /\ NoDup rem /\
      (forall c, In c rem -> val s e c <> None) /\ (forall c, In c add -> val s e c = None) /\
      r2a_rels_complete s add rels /\ live s' e = true /\
      (forall c, val s' e c = if memb c add then Some 0%Z else if memb c rem then None else val s e c) /\
      (forall c, tgt s' e c = if memb c add then Some (r2a_new_target rels c) else if memb c rem then None else tgt s e c) /\
      (forall c, mk_get om c = true <-> val s e c <> None) /\ (forall c, mk_get nm c = true <-> val s' e c <> None) /\
      r2c_others_same s s' e /\ w_pool s' = w_pool s /\ frame_user s s'
  | Err _ s' => r2c_rejected s s' /\
      (is_locked s = true \/ live s e = false \/ (add = [] /\ rem = []) \/
       ~ (NoDup add /\ NoDup rem /\ (forall c, In c rem -> val s e c <> None) /\
          (forall c, In c add -> val s e c = None) /\ r2a_rels_complete s add rels) \/
       has_obs s EvRemoveComponents = true \/ has_obs s EvRemoveRelations = true)
  end.
Proof.
  intros s e add rem rels HS Hroom Hreg Hok. pose proof HS as HS0. apply St2_St2G in HS0. destruct HS0 as (HW & HR & _ & _).
  unfold w_exchange. r2a_prefix s e HW (negb (is_nil add && is_nil rem)).
  destruct (r2a_after_finder s s e otid row ot oa HS HS (r2a_keeps_refl s) Hroom Hlive Hloc Hot Hoa) as (Hfo & _).
  pose proof (r2a_find_exchange s otid ot oa add rem rels HS Hot Hfo Hoa Hreg Hok) as Hf.
  destruct (find_or_create_table otid add rem rels (a_mask oa) s) as [[[[ntid naid] m] rr] s1|er s1] eqn:Ef.
  2:{ erewrite sb2_bind_err by exact Ef. destruct Hf as (F1 & F2 & F3). split; [apply (r2a_keeps_rejected s s1 HS F1 F2)|].
      right; right; right; left. intros (Q1 & Q2 & Q3 & Q4 & Q5). apply F3.
      pose proof (val_defined_iff_mask s e otid row ot oa HW Hlive Hloc Hot Hoa) as Hiff0.
      split; [exact Q1|]. split; [exact Q2|]. split; [intros c Hc; apply (Hiff0 c); apply Q3; exact Hc|]. split; [|exact Q5].
      intros c Hc. apply (r2a_val_none_iff _ _ (Hiff0 c)). apply Q4. exact Hc. }
  erewrite sb2_bind_ok by exact Ef. cbv beta iota.
  destruct Hf as ((HS1 & K & Hcomp & nt & na & Hnt & Hnaid & Hfn & Hna & Hma & Htgts) & Hmk & Hnda & Hndr & Hsub & Hdis).
  destruct (r2a_keeps_rejected s s1 HS HS1 K) as (Rej1 & Side1).
  assert (Hst : storage_same s1 (state_of (whenM (negb (is_nil rem)) (fire_remove_events e (a_mask oa) m rr) s1))).
  { destruct (negb (is_nil rem)); cbn [whenM]; [apply fire_remove_events_storage|apply sb2_storage_refl]. }
  destruct (whenM (negb (is_nil rem)) (fire_remove_events e (a_mask oa) m rr) s1) as [u s1'|er s1'] eqn:Efire;
    cbn [state_of] in Hst.
  2:{ erewrite sb2_bind_err by exact Efire. split; [apply (r2a_rejected_trans_storage s s1 s1' Rej1 Hst)|].
      right; right; right; right. destruct (negb (is_nil rem)); cbn [whenM] in Efire; [|discriminate Efire].
      apply (r2a_fire_err_obs s s1 e (a_mask oa) m rr er s1' Side1 Efire). }
  erewrite sb2_bind_ok by exact Efire.
  destruct (r2a_after_finder s s1 e otid row ot oa HS HS1 K Hroom Hlive Hloc Hot Hoa)
    as (_ & Hlive1 & Hloc1 & Hot1 & (oa1 & Hoa1 & Hmask1) & Hroom1 & _ & _ & Hil).
  pose proof (r2a_rejected_trans_storage s s1 s1' Rej1 Hst) as (HS1' & Hcs & Hts & Hpool & Hfu).
  destruct (r2a_storage_same_obs s1 s1' Hst) as (Etab & Earch & Eidx & Epool & Eist & C1 & _ & _).
  rewrite <- Etab in Hnt, Hot1. rewrite <- Earch in Hna, Hoa1.
  assert (Hlive1' : live s1' e = true) by (destruct (C1 e) as (L & _); rewrite L; exact Hlive1).
  assert (Hloc1' : loc s1' e = Some (otid, row)) by (rewrite (sa_loc_ext s1 s1' Eidx); exact Hloc1).
  assert (Hroom1' : room s1') by (unfold room; rewrite Epool; exact Hroom1).
  subst naid m.
  assert (Hmne : a_mask oa1 <> a_mask na).
  { rewrite Hmask1. intros Heq. destruct add as [|c add'].
    - destruct rem as [|c rem']; [discriminate HG|].
      specialize (Hmk c). rewrite <- Heq, (Hsub c (or_introl eq_refl)), sb2_memb_cons, Nat.eqb_refl in Hmk.
      discriminate.
    - specialize (Hmk c). rewrite <- Heq, (Hdis c (or_introl eq_refl)), sb2_memb_cons, Nat.eqb_refl in Hmk.
      discriminate. }
  pose proof HS1' as HS1g. apply St2_St2G in HS1g.
  destruct (r2a_move_spec r2_none r2_none r2_none s1' e otid row ntid ot nt oa1 na HS1g Hroom1' Hlive1' Hloc1' Hot1 Hnt Hoa1 Hna Hmne Hfn)
    as (s2 & Hrun & HS2 & Hlive2 & Hval2 & Htgt2 & Hoth2 & Hpool2 & Hist2 & Harchs2 & Hside2 & Hfu2).
  rewrite Hrun. apply St2_St2G in HS2.
  destruct (r2a_register_tail s2 rels HS2) as (l' & Ereg & HS3 & _).
  { apply (r2a_targets_in_range s rels _ HW); [rewrite Hist2, Eist, Hil; reflexivity|apply Hok]. }
  erewrite sb2_bind_ok by exact Ereg.
  destruct (r2a_flags_obs s2 l') as (L3 & V3 & T3 & P3 & A3 & S3 & F3).
  erewrite sb2_bind_ok by (apply sb2_getA; rewrite A3, Harchs2; exact Hna).
  unfold ret. rewrite Hmask1 in Hval2.
  pose proof (val_defined_iff_mask s e otid row ot oa HW Hlive Hloc Hot Hoa) as Hiff.
  destruct (r2a_tbl_target r2_none s otid ot oa HW HR Hot Hoa) as (_ & _ & Tn & _).
  assert (Hval' : forall c, val (s2 <| w_istarget := l' |>) e c = if memb c add then Some 0%Z else if memb c rem then None else val s e c).
  { intros c. rewrite V3, Hval2, Hmk. destruct (Hcs e) as (_ & Hv). rewrite Hv. destruct (memb c add) eqn:Ema.
    - rewrite (Hdis c) by (apply sb2_memb_In; exact Ema). rewrite orb_true_r. reflexivity.
    - rewrite orb_false_r. destruct (memb c rem) eqn:Emr.
      + rewrite andb_false_r. reflexivity.
      + rewrite andb_true_r. destruct (mk_get (a_mask oa) c) eqn:Emo; [reflexivity|].
        symmetry. apply (sb2_val_none _ _ (Hiff c) Emo). }
  split; [exact HS3|]. split; [reflexivity|]. split; [exact Hlive|]. split; [exact Hnda|]. split; [exact Hndr|].
  split.
  { intros c Hin. apply Hiff. apply Hsub. exact Hin. }
  split.
  { intros c Hin. apply (sb2_val_none _ _ (Hiff c)). apply Hdis. exact Hin. }
  split; [exact Hcomp|]. split; [rewrite L3; exact Hlive2|]. split; [exact Hval'|].
  split.
  { intros c. rewrite T3, Htgt2, Htgts. destruct (memb c add) eqn:Ema; [reflexivity|].
    rewrite Hmk, Ema, orb_false_r. destruct (memb c rem) eqn:Emr.
    - rewrite andb_false_r. reflexivity.
    - rewrite andb_true_r. rewrite (r2c_tgt_at s e otid row ot Hloc Hot c), Hlive.
      destruct (mk_get (a_mask oa) c) eqn:Emo; [reflexivity|]. symmetry. apply Tn. exact Emo. }
  split; [intros c; split; apply Hiff|].
  split.
  { intros c. rewrite Hval', Hmk. destruct (memb c add) eqn:Ema.
    - rewrite orb_true_r. split; [discriminate|reflexivity].
    - rewrite orb_false_r. destruct (memb c rem) eqn:Emr.
      + rewrite andb_false_r. split; [discriminate|intros H; exfalso; apply H; reflexivity].
      + rewrite andb_true_r. split; apply Hiff. }
  split.
  { intros x Hx. destruct (Hoth2 x Hx) as (O1 & O2 & O3). destruct (Hcs x) as (Q1 & Q2).
    split; [rewrite L3, O1; exact Q1|]. split; [intros c; rewrite V3, O2; apply Q2|]. intros c. rewrite T3, O3. apply Hts. }
  split; [rewrite P3, Hpool2; exact Hpool|].
  eapply sb2_frame_trans; [exact Hfu|]. eapply sb2_frame_trans; eassumption.
Qed.

(* ================================================================================================ *)
(** * Part 6: creation with relation targets ([new_entity ids rels])

    Placing a fresh entity into a table, after the section [sb1_place] of StorageB_sb1 (there for
    [St]); here for [WF] alone, plus the relation targets. *)

Section r2a_place.
Variables (s : W) (tid : nat) (t t2 : table) (e : ent) (p' : pool)
          (idx' : list (option nat * nat)) (ist' : list bool).
Hypothesis HW0 : WF s.
Hypothesis Ht : nth_error (w_tables s) tid = Some t.
Hypothesis Hroom : room s.
Hypothesis Hslot : sb1_slot s e p' idx' (Some tid, t_len t).
Hypothesis Hist : length ist' = length idx'.
Hypothesis Hgr : sb1_grown t t2 e.

Local Notation s2 := (sb1_st2 s p' (upd tid t2 (w_tables s)) idx' ist').

Local Notation sb1_p_tab := (sb1_p_tab s tid t t2 e p' idx' ist' Ht Hslot).
Local Notation sb1_p_loc_new := (sb1_p_loc_new s tid t t2 e p' idx' ist' Hslot).
Local Notation sb1_p_loc_old_none := (sb1_p_loc_old_none s tid t e p' idx' Hslot).
Local Notation sb1_p_loc_other := (sb1_p_loc_other s tid t t2 e p' idx' ist' Hslot).
Local Notation sb1_p_loc_some_ne := (sb1_p_loc_some_ne s tid t e p' idx' Hslot).

Lemma r2a_pl_WF : WF s2.
Proof.
  pose proof HW0 as Hwf.
  pose proof sb1_p_tab as Htab. pose proof sb1_p_loc_new as Hln. pose proof sb1_p_loc_other as Hlo.
  pose proof sb1_p_loc_some_ne as Hne.
  destruct Hslot as (He2 & Hi1 & Hi2 & Hil & Hp1 & Hp2 & Hold & (fl' & Hok' & Hfl1 & Hfl2) & Hlen).
  destruct Hgr as (Gok & Glen & Gent & Gcell & Grow & Gids & Gkinds & Garch & Grels & Gtg & Gfree).
  assert (Hkind : kind_of s2 = kind_of s) by (apply sb1_kind_of_eq; reflexivity).
  constructor.
  - (* wf_tables *)
    apply Forall_nth_error. intros i x Hx. rewrite Htab in Hx.
    destruct (Nat.eqb_spec tid i).
    + inversion Hx; subst; assumption.
    + eapply (proj1 (Forall_nth_error _ _ _) (wf_tables _ Hwf)); eassumption.
  - (* wf_layout *)
    intros tid' t' Hx. rewrite Htab in Hx. rewrite Hkind.
    change (w_archs s2) with (w_archs s).
    destruct (Nat.eqb_spec tid tid').
    + inversion Hx; subst t'. rewrite Garch, Gids, Gkinds, Gtg. eapply wf_layout; eassumption.
    + eapply wf_layout; eassumption.
  - (* wf_arch_comps *)
    rewrite Hkind. exact (wf_arch_comps _ Hwf).
  - exact (wf_arch_unique _ Hwf).
  - (* wf_arch_tables *)
    intros aid a tid' Ha Hin. destruct (wf_arch_tables _ Hwf aid a tid' Ha Hin) as (t0 & Ht0 & Hta).
    rewrite Htab. destruct (Nat.eqb_spec tid tid').
    + subst tid'. exists t2. split; [reflexivity|]. rewrite Ht in Ht0. inversion Ht0; subst t0. congruence.
    + exists t0. split; assumption.
  - exact (wf_arch_norel_table _ Hwf).
  - (* wf_arch0 *)
    destruct (wf_arch0 _ Hwf) as (a0 & Ha0 & Hm0 & t0 & Ht0 & Hta0).
    exists a0. split; [exact Ha0|]. split; [exact Hm0|]. rewrite Htab.
    destruct (Nat.eqb_spec tid 0).
    + subst tid. exists t2. split; [reflexivity|]. rewrite Ht in Ht0. inversion Ht0; subst t0. congruence.
    + exists t0. split; assumption.
  - exact (wf_index_lists _ Hwf).
  - (* wf_index_len *)
    split; [exact Hil | exact Hist].
  - (* wf_rows *)
    intros tid' t' r Hx Hr. rewrite Htab in Hx.
    change (pe (w_pool s2)) with (pe p').
    assert (Hold_row : forall t0 r0, nth_error (w_tables s) tid' = Some t0 -> r0 < t_len t0 ->
              loc s2 (row_ent t0 r0) = Some (tid', r0) /\
              nth_error (pe p') (fst (row_ent t0 r0)) = Some (row_ent t0 r0)).
    { intros t0 r0 Ht0 Hr0. destruct (wf_rows _ Hwf tid' t0 r0 Ht0 Hr0) as (Hl & Hp).
      pose proof (Hne _ _ Hl) as Hn. rewrite Hlo, Hp2 by assumption. split; assumption. }
    destruct (Nat.eqb_spec tid tid').
    + inversion Hx; subst t' tid'. rewrite Glen in Hr.
      destruct (Nat.eq_dec r (t_len t)).
      * subst r. rewrite Gent. split; [apply Hln; reflexivity | exact Hp1].
      * rewrite Grow by lia. apply Hold_row; [assumption|lia].
    + apply Hold_row; assumption.
  - (* wf_index *)
    intros id tid' r Hx. change (w_index s2) with idx' in Hx.
    destruct (Nat.eq_dec id (fst e)).
    + subst id. rewrite Hi1 in Hx. inversion Hx; subst tid' r.
      exists t2. rewrite Htab, Nat.eqb_refl. split; [reflexivity|]. split; [lia|]. rewrite Gent. reflexivity.
    + rewrite Hi2 in Hx by assumption.
      destruct (wf_index _ Hwf id tid' r Hx) as (t0 & Ht0 & Hr0 & Hf0).
      rewrite Htab. destruct (Nat.eqb_spec tid tid').
      * subst tid'. rewrite Ht in Ht0. inversion Ht0; subst t0.
        exists t2. split; [reflexivity|]. split; [lia|]. rewrite Grow by assumption. assumption.
      * exists t0. auto.
  - (* wf_pool *)
    exists fl'. change (w_pool s2) with p'. change (w_index s2) with idx'.
    split; [assumption|]. split.
    + intros i Hi. destruct (Hfl1 i Hi) as (Hn & r & Hr). exists r. rewrite Hi2; assumption.
    + intros i Hi Hnin. destruct (Nat.eq_dec i (fst e)).
      * subst i. eauto.
      * rewrite Hi2 by assumption. apply Hfl2; assumption.
  - (* wf_reserved *)
    change (w_pool s2) with p'. change (w_index s2) with idx'.
    destruct (wf_reserved _ Hwf) as (R0 & R1 & P0 & P1).
    rewrite !Hi2, !Hp2 by lia. auto.
  - (* wf_small *)
    change (w_pool s2) with p'. unfold room in Hroom. lia.
  - exact (wf_cache _ Hwf).
Qed.

Lemma r2a_pl_others : others_same s s2 e.
Proof.
  destruct Hgr as (Gok & Glen & Gent & Gcell & Grow & Gids & _).
  intros e' Hne'. destruct (Nat.eq_dec (fst e') (fst e)) as [Hf|Hf].
  - assert (L1 : live s e' = false) by (unfold live; rewrite (sb1_p_loc_old_none e' Hf); reflexivity).
    assert (L2 : live s2 e' = false).
    { unfold live. rewrite (sb1_p_loc_new e' Hf), sb1_p_tab, Nat.eqb_refl, Gent.
      destruct (ent_eqb e e') eqn:E; [apply sb1_ent_eqb_eq in E; congruence|]. apply andb_false_r. }
    unfold val. rewrite L1, L2. split; reflexivity.
  - assert (L : live s2 e' = live s e' /\ (live s e' = true -> forall c, value_of s2 e' c = value_of s e' c)).
    { unfold live, value_of. rewrite (sb1_p_loc_other e' Hf).
      destruct (loc s e') as [[tid' r]|] eqn:El; [|split; reflexivity].
      rewrite sb1_p_tab. destruct (Nat.eqb_spec tid tid').
      - subst tid'. rewrite Ht. rewrite Glen. unfold tbl_colidx. rewrite Gids.
        destruct (Nat.ltb_spec r (t_len t)).
        + rewrite Grow by assumption. destruct (Nat.ltb_spec r (S (t_len t))); [|lia].
          split; [reflexivity|]. intros _ c. destruct (index_of c (t_ids t)); [|reflexivity].
          rewrite Gcell by assumption. reflexivity.
        + split; [|simpl; discriminate]. simpl.
          destruct (Nat.ltb_spec r (S (t_len t))); [|reflexivity]. simpl.
          assert (r = t_len t) by lia. subst r. rewrite Gent.
          destruct (ent_eqb e e') eqn:E; [apply sb1_ent_eqb_eq in E; congruence|reflexivity].
      - split; reflexivity. }
    destruct L as [L1 L2]. split; [exact L1|]. intros c. unfold val. rewrite L1.
    destruct (live s e') eqn:E; [apply L2; reflexivity | reflexivity].
Qed.

Lemma r2a_pl_live_new : live s2 e = true.
Proof. exact (sb1_p_live_new s tid t t2 e p' idx' ist' Ht Hslot Hist Hgr). Qed.

Lemma r2a_pl_tgt_new : forall c, tgt s2 e c = tbl_target t c.
Proof.
  intros c. destruct Hgr as (_ & _ & _ & _ & _ & Gids & _ & _ & _ & Gtg & _).
  rewrite (r2c_tgt_at s2 e tid (t_len t) t2 (sb1_p_loc_new e eq_refl)), r2a_pl_live_new.
  - unfold tbl_target, tbl_colidx. rewrite Gids, Gtg. reflexivity.
  - rewrite sb1_p_tab, Nat.eqb_refl. reflexivity.
Qed.

Lemma r2a_pl_others_tgt : forall x, x <> e -> forall c, tgt s2 x c = tgt s x c.
Proof.
  intros x Hx c. destruct (r2a_pl_others x Hx) as (Lv & _).
  destruct (live s x) eqn:Hl; [|rewrite (r2c_tgt_dead s2 x c Lv), (r2c_tgt_dead s x c Hl); reflexivity].
  destruct Hgr as (_ & _ & _ & _ & _ & Gids & _ & _ & _ & Gtg & _).
  destruct (sb2_live_elim _ _ Hl) as (tid0 & r & t0 & L0 & T0 & R0 & E0).
  assert (Hf : fst x <> fst e) by (apply (sb1_p_loc_some_ne x _ L0)).
  assert (L2 : loc s2 x = Some (tid0, r)) by (rewrite (sb1_p_loc_other x Hf); exact L0).
  rewrite (r2c_tgt_at s x tid0 r t0 L0 T0 c), Hl.
  destruct (Nat.eq_dec tid tid0) as [<-|Hne].
  - rewrite Ht in T0. injection T0 as <-.
    rewrite (r2c_tgt_at s2 x tid r t2 L2), Lv; [|rewrite sb1_p_tab, Nat.eqb_refl; reflexivity].
    unfold tbl_target, tbl_colidx. rewrite Gids, Gtg. reflexivity.
  - rewrite (r2c_tgt_at s2 x tid0 r t0 L2), Lv; [reflexivity|]. rewrite sb1_p_tab.
    destruct (Nat.eqb_spec tid tid0); [contradiction|exact T0].
Qed.

End r2a_place.

Lemma r2a_nth_snoc_false : forall (l : list bool) k, nth k l false = true -> nth k (l ++ [false]) false = true.
Proof.
  intros l k H. destruct (Nat.lt_ge_cases k (length l)) as [Hlt|Hge]; [rewrite app_nth1 by exact Hlt; exact H|].
  rewrite nth_overflow in H by exact Hge. discriminate.
Qed.

(** placing a fresh entity into an active table keeps [St2] *)
Lemma r2a_place_new : forall s tid t e p',
  St2 s -> nth_error (w_tables s) tid = Some t -> t_free t = false -> room s -> pool_get (w_pool s) = (e, p') ->
  let s2 := sb1_st2 s p' (upd tid (snd (tbl_add t e)) (w_tables s)) (sb1_idx s e (Some tid, t_len t)) (sb1_ist s e) in
  St2 s2 /\ live s e = false /\ live s2 e = true /\ alive s2 e = true /\
  (forall c, val s2 e c = match tbl_colidx t c with Some _ => Some 0%Z | None => None end) /\
  (forall c, tgt s2 e c = tbl_target t c) /\
  r2c_others_same s s2 e /\ side_same s s2 /\ frame_user s s2 /\
  length (pe (w_pool s2)) <= S (length (pe (w_pool s))) /\ w_archs s2 = w_archs s /\
  length (w_istarget s) <= length (w_istarget s2).
Proof.
  intros s tid t e p' HS Ht Hft Hroom Hg s2. apply St2_St2G in HS. destruct HS as (HW & HR & HT & HC).
  destruct (sb1_slot_of_get s e p' (Some tid, t_len t) HW Hg) as (Hslot & Hist).
  assert (Htl : t_len t < Nat.pow 2 31).
  { pose proof (rows_le_pool s tid t HW Ht). unfold room in Hroom. lia. }
  assert (Htok : tbl_ok t) by (eapply sb2_table_ok; eassumption).
  destruct (sb1_grown_add t e Htok Htl) as (Hgr & Hz).
  set (t2 := snd (tbl_add t e)) in *.
  assert (HW2 : WF s2) by (eapply r2a_pl_WF; eassumption).
  assert (OS : others_same s s2 e) by (eapply r2a_pl_others; eassumption).
  assert (Lold : live s e = false) by (eapply sb1_p_live_old; eassumption).
  assert (Lnew : live s2 e = true) by (eapply sb1_p_live_new; eassumption).
  assert (TM : r2c_tabs_meta (w_tables s) (w_tables s2)).
  { split; [unfold s2, sb1_st2; cbn; apply upd_length|].
    intros j tj Hj. unfold s2. erewrite sb1_p_tab by eassumption.
    destruct (Nat.eqb_spec tid j) as [<-|Hne].
    - rewrite Ht in Hj. injection Hj as <-. exists t2. split; [reflexivity|]. split; [|intros Hc; congruence].
      destruct Hgr as (_ & _ & _ & _ & _ & G1 & G2 & G3 & G4 & G5 & G6). repeat split; assumption.
    - exists tj. split; [exact Hj|]. split; [apply sb2_meta_refl|]. intros Hf. apply (r2c_free_len0 r2_none s j tj HR Hj Hf). }
  split.
  { apply St2_St2G. split; [exact HW2|]. split; [|split].
    - apply (r2c_RelInvG_rows r2_none s s2 HR); try reflexivity; [exact TM|]. intros x Hx. left.
      assert (Hxe : x <> e) by (intros ->; congruence). rewrite (proj1 (OS x Hxe)). exact Hx.
    - intros aid a k l Ha Hk. destruct (HT aid a k l Ha Hk) as [H0|[H1|[]]]; [left; exact H0|right; left].
      change (w_istarget s2) with (sb1_ist s e). unfold sb1_ist.
      destruct (Nat.eqb (fst e) (length (w_index s))); [apply r2a_nth_snoc_false; exact H1|exact H1].
    - apply (r2c_CacheInvG_rows r2_none s s2 HC); try reflexivity. exact TM. }
  split; [exact Lold|]. split; [exact Lnew|].
  split; [eapply sb1_p_alive_new; eassumption|].
  split.
  { intros c. unfold s2. erewrite sb1_p_val_new by eassumption.
    destruct (tbl_colidx t c); [rewrite Hz|]; reflexivity. }
  split; [eapply r2a_pl_tgt_new; eassumption|].
  split.
  { intros x Hx. destruct (OS x Hx) as (O1 & O2). split; [exact O1|]. split; [exact O2|].
    eapply r2a_pl_others_tgt; eassumption. }
  split; [apply sb1_p_side|]. split; [apply sb1_p_frame|].
  split; [eapply sb1_p_poollen; eassumption|]. split; [reflexivity|].
  change (w_istarget s2) with (sb1_ist s e). unfold sb1_ist.
  destruct (Nat.eqb (fst e) (length (w_index s))); [rewrite app_length; lia|lia].
Qed.

(** table 0 (the table of the empty archetype) is active and has no relations *)
Lemma r2a_table0 : forall s, St2 s ->
  exists a0 t0, nth_error (w_archs s) 0 = Some a0 /\ a_mask a0 = 0%N /\ nth_error (w_tables s) 0 = Some t0 /\
                t_arch t0 = 0 /\ t_free t0 = false.
Proof.
  intros s HS. apply St2_St2G in HS. destruct HS as (HW & HR & _ & _).
  destruct (wf_arch0 _ HW) as (a0 & Ha0 & Hm0 & t0 & Ht0 & Hta0).
  exists a0, t0. split; [exact Ha0|]. split; [exact Hm0|]. split; [exact Ht0|]. split; [exact Hta0|].
  destruct (t_free t0) eqn:Ef; [|reflexivity]. exfalso.
  destruct (ri_listed _ _ HR 0 t0 Ht0) as (a & Ha & Hl). rewrite Hta0, Ha0 in Ha. injection Ha as <-. rewrite Ef in Hl.
  destruct (wf_arch_comps _ HW 0 a0 Ha0) as (C1 & _ & C3 & C4 & _).
  assert (Hn : a_numrel a0 = 0) by (rewrite C4, C3, C1, Hm0, sb1_mk_to_list_0; reflexivity).
  destruct (ri_norel _ _ HR 0 a0 Ha0 Hn) as (Hfree & _). rewrite Hfree in Hl. destruct Hl.
Qed.

(** Creation with relation targets: the new entity has exactly the components [ids] with zero
    values and the assigned targets; nobody else changes. *)
Theorem r2a_new_entity_spec : forall s ids (rels : list rel), St2 s -> room s -> registered s ids -> r2a_rels_ok s ids rels ->
  match new_entity ids rels s with
  | Ok (e, m) s' =>
      St2 s' /\ is_locked s = false /\ NoDup ids /\ m = mk_of_list ids /\ r2a_rels_complete s ids rels /\
      live s e = false /\ live s' e = true /\ alive s' e = true /\
      (forall c, val s' e c = if memb c ids then Some 0%Z else None) /\
      (forall c, tgt s' e c = if memb c ids then Some (r2a_new_target rels c) else None) /\
      r2c_others_same s s' e /\ side_same s s' /\ frame_user s s' /\
      length (pe (w_pool s')) <= S (length (pe (w_pool s)))
  | Err _ s' => (r2c_rejected s s' /\ side_same s s') /\
      (is_locked s = true \/ ~ (NoDup ids /\ r2a_rels_complete s ids rels))
  end.
Proof.
  intros s ids rels HS Hroom Hreg Hok. pose proof HS as HS0. apply St2_St2G in HS0. destruct HS0 as (HW & HR & _ & _).
  unfold new_entity.
  destruct (is_locked s) eqn:El.
  { erewrite sb1_bind_err by (apply sb1_check_locked_err; exact El).
    split; [split; [apply r2a_rejected_refl; exact HS|apply sb1_side_same_refl]|left; reflexivity]. }
  erewrite sb1_bind_ok by (apply sb1_check_locked_ok; exact El). cbv beta.
  destruct (r2a_table0 s HS) as (a0 & t0 & Ha0 & Hm0 & Ht0 & Hta0 & Hft0).
  assert (Ha0' : nth_error (w_archs s) (t_arch t0) = Some a0) by (rewrite Hta0; exact Ha0).
  pose proof (r2a_find_add s 0 t0 a0 ids rels HS Ht0 Hft0 Ha0' Hreg Hok) as Hf. rewrite Hm0 in Hf.
  destruct (find_or_create_table_add 0 ids rels 0%N s) as [[[tid aid] m] s1 | er s1] eqn:Ef.
  2:{ erewrite sb1_bind_err by exact Ef. destruct Hf as (F1 & F2 & F3). split; [apply (r2a_keeps_rejected s s1 HS F1 F2)|].
      right. intros (Q1 & Q2). apply F3. split; [exact Q1|]. split; [intros c _; apply sb1_mk_get_0|exact Q2]. }
  erewrite sb1_bind_ok by exact Ef. cbv beta iota.
  destruct Hf as ((HS1 & K & Hcomp & nt & na & Hnt & Hnaid & Hfn & Hna & Hma & Htgts) & Hmk & Hnd & _).
  pose proof HS1 as HS1g. apply St2_St2G in HS1g. destruct HS1g as (HW1 & HR1 & _ & _).
  destruct (r2a_keeps_obs r2_none s s1 HW HR K) as (Hcs & Hts).
  assert (Hroom1 : room s1) by (apply (r2a_keeps_room s s1 K Hroom)).
  pose proof (r2a_keeps_istarget_len s s1 HW HW1 K) as Hil.
  destruct (pool_get (w_pool s1)) as [e p'] eqn:Hg.
  rewrite (sb1_place_run _ s1 tid nt e p'
             (fun e _ => register_targets rels ;;; a <- getA aid ;; ret (e, a_mask a)) Hnt Hg).
  pose proof (r2a_place_new s1 tid nt e p' HS1 Hnt Hfn Hroom1 Hg) as H. cbv zeta in H.
  set (s2 := sb1_st2 s1 p' (upd tid (snd (tbl_add nt e)) (w_tables s1)) (sb1_idx s1 e (Some tid, t_len nt)) (sb1_ist s1 e)) in *.
  destruct H as (HS2 & H2 & H3 & H4 & H5 & H5t & H6 & H7 & H8 & H9 & H10 & H11).
  pose proof HS2 as HS2g. apply St2_St2G in HS2g. destruct HS2g as (HW2 & _).
  destruct (r2a_register_tail s2 rels HS2) as (l' & Ereg & HS3 & _).
  { intros r Hr. assert (Hlt : fst (snd r) < length (w_istarget s)); [|lia].
    apply (r2a_targets_in_range s rels _ HW eq_refl); [apply Hok|exact Hr]. }
  erewrite sb1_bind_ok by exact Ereg.
  destruct (r2a_flags_obs s2 l') as (L3 & V3 & T3 & P3 & A3 & S3 & F3).
  erewrite sb1_bind_ok by (apply sb1_getA_eq; rewrite A3, H10; exact Hna). unfold ret.
  assert (Hmj : forall j, mk_get m j = memb j ids).
  { intros j. rewrite Hmk, sb1_mk_get_0. reflexivity. }
  destruct K as (_ & K2 & _ & _ & K5 & K6). destruct K6 as (Hregs & K6').
  split; [exact HS3|]. split; [reflexivity|]. split; [exact Hnd|].
  split.
  { rewrite Hma. apply mk_eq_ext. intros j. rewrite Hmj. apply eq_true_iff_eq.
    rewrite sb1_memb_In, mk_get_of_list. reflexivity. }
  split; [exact Hcomp|].
  split; [rewrite <- (proj1 (Hcs e)); exact H2|].
  split; [rewrite L3; exact H3|]. split; [exact H4|].
  split.
  { intros c. rewrite V3, H5.
    destruct (wf_layout _ HW1 tid nt Hnt) as (a' & Ha' & Hids & _).
    rewrite Hnaid, Hna in Ha'. inversion Ha'; subst a'.
    destruct (wf_arch_comps _ HW1 aid na Hna) as (Hc & _).
    assert (E : memb c (t_ids nt) = memb c ids).
    { apply eq_true_iff_eq. rewrite !sb1_memb_In, Hids, Hc, mk_to_list_spec, Hma, Hmj, sb1_memb_In.
      split; [tauto|]. intros Hin. split; [|assumption]. rewrite Hregs. apply Hreg. assumption. }
    rewrite <- E. unfold memb, tbl_colidx. destruct (index_of c (t_ids nt)); reflexivity. }
  split.
  { intros c. rewrite T3, H5t, Htgts. destruct (memb c ids) eqn:Ema; [reflexivity|].
    rewrite Hmj, Ema. reflexivity. }
  split.
  { intros x Hx. destruct (H6 x Hx) as (O1 & O2 & O3). destruct (Hcs x) as (Q1 & Q2).
    split; [rewrite L3, O1; exact Q1|]. split; [intros c; rewrite V3, O2; apply Q2|]. intros c. rewrite T3, O3. apply Hts. }
  split; [eapply sb1_side_same_trans; [exact K5|]; eapply sb1_side_same_trans; eassumption|].
  split; [eapply sb1_frame_user_trans; [split; [exact Hregs|exact K6']|]; eapply sb1_frame_user_trans; eassumption|].
  rewrite <- K2. exact H9.
Qed.

(* ================================================================================================ *)
(** * Part 7: valid calls never fail *)

Corollary r2a_new_entity_ok : forall s ids (rels : list rel), St2 s -> room s -> registered s ids ->
  r2a_rels_ok s ids rels -> r2a_rels_complete s ids rels -> NoDup ids -> is_locked s = false ->
  is_err (new_entity ids rels s) = false.
Proof.
  intros s ids rels HS Hroom Hreg Hok Hc Hnd Hlk. pose proof (r2a_new_entity_spec s ids rels HS Hroom Hreg Hok) as H.
  destruct (new_entity ids rels s) as [[e m] s'|er s']; [reflexivity|]. exfalso.
  destruct H as (_ & [H|H]); [congruence|]. apply H. split; assumption.
Qed.

Corollary r2a_add_ok : forall s e add (rels : list rel), St2 s -> room s -> registered s add ->
  r2a_rels_ok s add rels -> r2a_rels_complete s add rels -> NoDup add -> add <> [] ->
  (forall c, In c add -> val s e c = None) -> live s e = true -> is_locked s = false ->
  is_err (w_add e add rels s) = false.
Proof.
  intros s e add rels HS Hroom Hreg Hok Hc Hnd Hne Hv Hl Hlk. pose proof (r2a_add_spec s e add rels HS Hroom Hreg Hok) as H.
  destruct (w_add e add rels s) as [[om nm] s'|er s']; [reflexivity|]. exfalso.
  destruct H as (_ & [H|[H|[H|H]]]); try congruence. apply H. repeat split; assumption.
Qed.

Corollary r2a_remove_ok_noobs : forall s e rem, St2 s -> room s ->
  NoDup rem -> rem <> [] -> (forall c, In c rem -> val s e c <> None) -> live s e = true -> is_locked s = false ->
  has_obs s EvRemoveComponents = false -> has_obs s EvRemoveRelations = false ->
  is_err (w_remove e rem s) = false.
Proof.
  intros s e rem HS Hroom Hnd Hne Hv Hl Hlk O1 O2. pose proof (r2a_remove_spec s e rem HS Hroom) as H.
  destruct (w_remove e rem s) as [u s'|er s']; [reflexivity|]. exfalso.
  destruct H as (_ & [H|[H|[H|[H|[H|H]]]]]); try congruence. apply H. split; assumption.
Qed.

Corollary r2a_exchange_ok_noobs : forall s e add rem (rels : list rel), St2 s -> room s -> registered s add ->
  r2a_rels_ok s add rels -> r2a_rels_complete s add rels -> NoDup add -> NoDup rem -> (add <> [] \/ rem <> []) ->
  (forall c, In c rem -> val s e c <> None) -> (forall c, In c add -> val s e c = None) ->
  live s e = true -> is_locked s = false ->
  has_obs s EvRemoveComponents = false -> has_obs s EvRemoveRelations = false ->
  is_err (w_exchange e add rem rels s) = false.
Proof.
  intros s e add rem rels HS Hroom Hreg Hok Hc Hnda Hndr Hne Hvr Hva Hl Hlk O1 O2.
  pose proof (r2a_exchange_spec s e add rem rels HS Hroom Hreg Hok) as H.
  destruct (w_exchange e add rem rels s) as [[om nm] s'|er s']; [reflexivity|]. exfalso.
  destruct H as (_ & [H|[H|[(H1 & H2)|[H|[H|H]]]]]); try congruence.
  - destruct Hne; congruence.
  - apply H. repeat split; assumption.
Qed.

(** an exchange that removes nothing needs no assumption about observers *)
Corollary r2a_exchange_add_ok : forall s e add (rels : list rel), St2 s -> room s -> registered s add ->
  r2a_rels_ok s add rels -> r2a_rels_complete s add rels -> NoDup add -> add <> [] ->
  (forall c, In c add -> val s e c = None) -> live s e = true -> is_locked s = false ->
  is_err (w_exchange e add [] rels s) = false.
Proof.
  intros s e add rels HS Hroom Hreg Hok Hc Hnd Hne Hv Hl Hlk.
  pose proof HS as HS0. apply St2_St2G in HS0. destruct HS0 as (HW & HR & _ & _).
  (* re-run the prefix: with [rem = []] no event is fired *)
  pose proof (r2a_exchange_spec s e add [] rels HS Hroom Hreg Hok) as H.
  destruct (w_exchange e add [] rels s) as [[om nm] s'|er s'] eqn:E; [reflexivity|]. exfalso.
  destruct H as (_ & [H|[H|[(H1 & H2)|[H|Hobs]]]]); try congruence.
  - apply H. repeat split; try assumption; [constructor|intros c []].
  - (* the observer case cannot be the cause: trace the call *)
    clear Hobs. revert E. unfold w_exchange.
    erewrite sb2_bind_ok by (apply sb2_check_locked_ok; exact Hlk). rewrite sb2_bind_get.
    destruct (live_alive s e HW Hl) as (Hal & _). rewrite Hal, sb2_bind_guard_true.
    assert (HG : negb (is_nil add && is_nil (@nil nat)) = true) by (destruct add; [congruence|reflexivity]).
    rewrite HG, sb2_bind_guard_true.
    destruct (sb2_live_elim _ _ Hl) as (otid & row & ot & Hloc & Hot & Hrow & Hent).
    erewrite sb2_bind_ok by (apply sb2_get_index_ok; apply sb2_loc_iff; exact Hloc). cbv beta iota.
    destruct (wf_layout _ HW _ _ Hot) as (oa & Hoa & _).
    erewrite sb2_bind_ok by (eapply sb2_arch_mask_ok; eassumption). cbv beta.
    destruct (r2a_after_finder s s e otid row ot oa HS HS (r2a_keeps_refl s) Hroom Hl Hloc Hot Hoa) as (Hfo & _).
    pose proof (r2a_find_exchange s otid ot oa add [] rels HS Hot Hfo Hoa Hreg Hok) as Hf.
    pose proof (val_defined_iff_mask s e otid row ot oa HW Hl Hloc Hot Hoa) as Hiff.
    destruct (find_or_create_table otid add [] rels (a_mask oa) s) as [[[[ntid naid] m] rr] s1|er1 s1] eqn:Ef.
    2:{ exfalso. destruct Hf as (_ & _ & F3). apply F3. split; [exact Hnd|]. split; [constructor|]. split; [intros c []|].
        split; [|exact Hc]. intros c Hin. apply (r2a_val_none_iff _ _ (Hiff c)). apply Hv. exact Hin. }
    erewrite sb2_bind_ok by exact Ef. cbv beta iota. cbn [is_nil negb whenM]. rewrite sb2_bind_ret.
    destruct Hf as ((HS1 & K & _ & nt & na & Hnt & Hnaid & Hfn & Hna & Hma & Htgts) & Hmk & _ & _ & _ & Hdis).
    destruct (r2a_after_finder s s1 e otid row ot oa HS HS1 K Hroom Hl Hloc Hot Hoa)
      as (_ & Hlive1 & Hloc1 & Hot1 & (oa1 & Hoa1 & Hmask1) & Hroom1 & _ & _ & Hil).
    subst naid m.
    assert (Hmne : a_mask oa1 <> a_mask na).
    { rewrite Hmask1. intros Heq. destruct add as [|c add']; [congruence|].
      specialize (Hmk c). rewrite <- Heq, (Hdis c (or_introl eq_refl)), sb2_memb_cons, Nat.eqb_refl in Hmk. discriminate. }
    pose proof HS1 as HS1g. apply St2_St2G in HS1g.
    destruct (r2a_move_spec r2_none r2_none r2_none s1 e otid row ntid ot nt oa1 na HS1g Hroom1 Hlive1 Hloc1 Hot1 Hnt Hoa1 Hna Hmne Hfn)
      as (s2 & Hrun & HS2 & _ & _ & _ & _ & _ & Hist2 & Harchs2 & _ & _).
    rewrite Hrun. apply St2_St2G in HS2.
    destruct (r2a_register_tail s2 rels HS2) as (l' & Ereg & _ & _).
    { apply (r2a_targets_in_range s rels _ HW); [rewrite Hist2, Hil; reflexivity|apply Hok]. }
    erewrite sb2_bind_ok by exact Ereg.
    erewrite sb2_bind_ok by (apply sb2_getA; cbn; rewrite Harchs2; exact Hna).
    discriminate.
Qed.

(* ================================================================================================ *)
(** * Part 8: the statements of Rel2Plan that are false of the model, and a non-vacuity check *)

(** (refuted) [A_find_arch], [A_find_add], [A_find_remove] of Rel2Plan claim [r2_relabel s s'] for the
    finders. [r2_relabel] fixes the number of archetypes ([rl_archs_len]), but the finders create
    the archetype of a new mask: [find_or_create_arch (mk_of_list [0])] in the initial world (script
    []) yields two archetypes. The frames proved here are [r2a_arch_ext] / [r2a_keeps]. (They also
    claimed [w_istarget s' = w_istarget s] and a pending registration; since createTable registers
    the targets itself, the flags may change and nothing is pending: the finders return [St2].) *)
Example r2a_plan_refuted_relabel :
  let s := Properties.Common.exec Rel2Check.r2_cfg [] in
  (length (w_archs s), length (w_archs (state_of (find_or_create_arch (mk_of_list [0]) s)))) = (1, 2).
Proof. vm_compute. reflexivity. Qed.

(** (refuted) [A_new_entity_spec], [A_add_spec], [A_exchange_spec] of Rel2Plan assume only
    [rels_call_ok] (components named once, among the added ones, targets zero or live) and conclude
    that all named components are relation components and that [tgt s' e c = Some (new_target rels c)]
    for every added [c]. Counterexample (r2_cfg; component 0 is an ordinary component): script
    [[0]; [1; 1;0]] creates entity (2,0) without components and entity (3,0) with component 0, so the
    table of archetype {0} exists. Then [new_entity [0] [(0, (2,0))]] and [w_add (2,0) [0] [(0, (2,0))]]
    SUCCEED: GetTable ignores relation arguments for an archetype without relation components; the
    entity shows the zero target, the bogus target (2,0) is flagged as a relation target.
    REGRESSION NOTE (last component of the example): in the world of script [[0]], where archetype {0}
    does not exist yet, the same call used to panic (ENotRelation, raised by createTable) AFTER the
    archetype had been created, and left the archetype without table; a later Reset / query over that
    archetype then panicked. That defect was repaired in /repo: createArchetype now creates the table
    of an archetype without relation components itself, so the following GetTable finds it and the
    call is accepted silently in this world too ([is_err ... = false]); the misuse no longer depends
    on the history and no archetype without table is left behind. It remains a misuse (not a valid
    call); the theorems above therefore require [r2a_rels_ok]: only RELATION components are named. *)
Definition r2a_ex0 : W := Properties.Common.exec Rel2Check.r2_cfg [[0]; [1; 1;0]]%Z.

Example r2a_plan_refuted_nonrelation :
  (st2_b r2a_ex0,
   match new_entity [0] [(0, (2, 0%N))] r2a_ex0 with
   | Ok (e, _) s' => (st2_b s', Some e, tgt s' e 0, nth 2 (w_istarget s') false) | Err _ _ => (false, None, None, false) end,
   match w_add (2, 0%N) [0] [(0, (2, 0%N))] r2a_ex0 with
   | Ok _ s' => (st2_b s', tgt s' (2, 0%N) 0) | Err _ _ => (false, None) end,
   is_rel_comp r2a_ex0 0, r2a_new_target [(0, (2, 0%N))] 0,
   is_err (new_entity [0] [(0, (2, 0%N))] (Properties.Common.exec Rel2Check.r2_cfg [[0]]%Z)))
  = (true, (true, Some (4, 0%N), Some zero_ent, true), (true, Some zero_ent), false, (2, 0%N), false).
Proof. vm_compute. reflexivity. Qed.

(** A call that leaves a relation component without target fails after the archetype was created:
    the failing state has a RELATION archetype without table and still satisfies [St2] (script [[0]],
    then [new_entity [3] []]). This is harmless and unaffected by the repair of createArchetype: the
    tables of a relation archetype are created per target combination, such an archetype may be
    without table at any time (e.g. after its tables were freed); only archetypes WITHOUT relation
    components are now always created with their table ([archs_tabled_norel]). *)
Example r2a_err_after_arch :
  let s := Properties.Common.exec Rel2Check.r2_cfg [[0]]%Z in
  match new_entity [3] [] s with
  | Err er s' => (st2_b s', length (w_archs s), length (w_archs s'), length (w_tables s'))
  | Ok _ _ => (false, 0, 0, 0)
  end = (true, 1, 2, 1).
Proof. vm_compute. reflexivity. Qed.

(** ** The theorems are not vacuous: a world with a child (4,0) of parent (2,0) via relation component 3 *)
Definition r2a_ex_world : W := Properties.Common.exec Rel2Check.r2_cfg [[0]; [0]; [2; 2;0;3; 1; 3;0]]%Z.

Lemma r2a_ex_St2 : St2 r2a_ex_world.
Proof. apply st2_b_sound. vm_compute. reflexivity. Qed.

Lemma r2a_ex_hyps :
  is_locked r2a_ex_world = false /\ live r2a_ex_world (4, 0%N) = true /\ live r2a_ex_world (3, 0%N) = true /\
  is_rel_comp r2a_ex_world 4 = true /\ is_rel_comp r2a_ex_world 1 = false /\
  val r2a_ex_world (4, 0%N) 4 = None /\ val r2a_ex_world (4, 0%N) 1 = None /\ val r2a_ex_world (4, 0%N) 0 = Some 0%Z /\
  tgt r2a_ex_world (4, 0%N) 3 = Some (2, 0%N) /\ length (pe (w_pool r2a_ex_world)) = 5 /\ length (w_reg r2a_ex_world) = 8.
Proof. vm_compute. repeat split. Qed.

(** the valid call Add((4,0), [4;1], 4 -> (3,0)): the conclusions come from the theorems *)
Example r2a_ex_by_theorem : exists om nm s', w_add (4, 0%N) [4; 1] [(4, (3, 0%N))] r2a_ex_world = Ok (om, nm) s' /\
  St2 s' /\ live s' (4, 0%N) = true /\ tgt s' (4, 0%N) 4 = Some (3, 0%N) /\ tgt s' (4, 0%N) 3 = Some (2, 0%N) /\
  tgt s' (4, 0%N) 1 = Some zero_ent /\ val s' (4, 0%N) 1 = Some 0%Z /\ val s' (4, 0%N) 0 = Some 0%Z.
Proof.
  destruct r2a_ex_hyps as (Hlk & Hl & Hl3 & Hr4 & Hr1 & V4 & V1 & V0 & T3 & Hlen & Hreg).
  assert (Hroom : room r2a_ex_world).
  { unfold room. rewrite Hlen. apply Nat.lt_le_trans with (Nat.pow 2 3); [cbn; lia|apply Nat.pow_le_mono_r; lia]. }
  assert (Hregd : registered r2a_ex_world [4; 1]) by (intros c [<-|[<-|[]]]; rewrite Hreg; lia).
  assert (Hok : r2a_rels_ok r2a_ex_world [4; 1] [(4, (3, 0%N))]).
  { split; [cbn; constructor; [intros []|constructor]|]. split.
    - intros r [<-|[]]. cbn [fst]. split; [left; reflexivity|exact Hr4].
    - intros r [<-|[]]. right. exact Hl3. }
  assert (Hc : r2a_rels_complete r2a_ex_world [4; 1] [(4, (3, 0%N))]).
  { intros c [<-|[<-|[]]] Hr; [left; reflexivity|congruence]. }
  pose proof (r2a_add_spec r2a_ex_world (4, 0%N) [4; 1] [(4, (3, 0%N))] r2a_ex_St2 Hroom Hregd Hok) as H.
  pose proof (r2a_add_ok r2a_ex_world (4, 0%N) [4; 1] [(4, (3, 0%N))] r2a_ex_St2 Hroom Hregd Hok Hc) as Hne.
  destruct (w_add (4, 0%N) [4; 1] [(4, (3, 0%N))] r2a_ex_world) as [[om nm] s'|er s'].
  - destruct H as (HS' & _ & _ & _ & _ & _ & _ & Hl' & Hv' & Ht' & _).
    exists om, nm, s'. split; [reflexivity|]. split; [exact HS'|]. split; [exact Hl'|].
    split; [rewrite Ht'; reflexivity|]. split; [rewrite Ht'; exact T3|]. split; [rewrite Ht'; reflexivity|].
    split; [rewrite Hv'; reflexivity|rewrite Hv'; exact V0].
  - exfalso. assert (true = false); [|discriminate]. apply Hne.
    + constructor; [intros [E|[]]; discriminate|constructor; [intros []|constructor]].
    + discriminate.
    + intros c [<-|[<-|[]]]; assumption.
    + exact Hl.
    + exact Hlk.
Qed.

Definition r2a_all :=
  (r2a_find_arch, r2a_valid_of_checks, r2a_finder_tail, r2a_find_add, r2a_find_remove, r2a_find_exchange, r2a_move_spec,
   r2a_new_entity_spec, r2a_add_spec, r2a_remove_spec, r2a_exchange_spec,
   r2a_new_entity_ok, r2a_add_ok, r2a_remove_ok_noobs, r2a_exchange_ok_noobs, r2a_exchange_add_ok,
   r2a_plan_refuted_relabel, r2a_plan_refuted_nonrelation, r2a_err_after_arch, r2a_ex_St2, r2a_ex_hyps, r2a_ex_by_theorem).
Print Assumptions r2a_all.
