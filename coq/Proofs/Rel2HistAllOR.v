(** * Rel2HistAllOR: package U, towards STAGE 3 (PARTIAL): ONE class with observers, Reset, queries, filters and the batch
    operations; the only restriction left is on batch lines (no observer registered when they run on an unlocked world).

      [rel_allOR_op o := rel_o_op o || r2r_is_reset o || r2h_batch_op o]
      [InvAllOR s n k := Inv2RO s n k]    ([Inv2R] of Rel2HistR without the clause "no observer" = [Inv2R (oe_E s) n k], [r2u_RO_iff])

    - the observer operations, the query operations, Write, filter creation, Register, Unregister, the reads: as in Rel2HistO,
      for the epoch-relative invariant;
    - a structural single-entity operation on an unlocked world WITH observers of any callback kind: the erasure simulation of
      ObsErase ([oe_step_op], [oe_cut]) against [r2r_op_spec] of Rel2HistR on the erased world; the cut states of Remove /
      Exchange / SetRelations satisfy [r2e_trans] from state-level facts ([r2u_cut_trans_R]: the handles in relation-target
      position need only be proper) - this merges Rel2HistO with Rel2HistR, which had not been done;
    - Reset WITH observers: [oe_opS_OReset] (strict simulation) against [r2r_reset_unlocked] on the erased world: it succeeds
      and the erased result is [r2r_fresh]; the epoch moves;
    - a batch line: rejected on a locked world; on an unlocked world the side condition [r2u_batch_quiet] (no observer is
      registered in that state) makes [Inv2R] itself available and [step_inv_allR_batch] applies.
    Missing for the full stage 3: batch lines in states WITH registered observers (the whole-batch event passes).
    Main results: [r2u_RO_iff], [r2u_cut_trans_R], [r2u_post_OR], [step_inv_allOR_partial], [r2u_run_inv_OR_partial],
    [reachable_inv_allOR_partial], corollaries, checker [rel_allOR_hist_b], non-vacuity [r2u_scriptOR]. Helper prefix [r2u_]. *)
From Ark Require Import Model.Base Model.Mask Model.Pool Model.Util Model.World Model.Run.
From Ark Require Import Proofs.TableProofs Proofs.MaskProofs Proofs.Hoare Proofs.WF Proofs.StorageA Proofs.StorageBDefs
  Proofs.StorageB_sb1 Proofs.StorageB_sb2 Proofs.StorageB_sb3 Proofs.LockWorld Proofs.StorageC Proofs.RelProofs
  Proofs.CacheProofs Proofs.QueryProofs Proofs.ResetShrinkProofs
  Proofs.Rel2Defs Proofs.Rel2Struct Proofs.Rel2Remove Proofs.Rel2SetRel Proofs.Rel2Ops Proofs.Rel2Maint Proofs.Rel2Hist
  Proofs.Rel2Cache Proofs.Rel2BatchHist Proofs.Rel2HistQ Proofs.Rel2HistAll Proofs.ObsErase Proofs.Rel2HistO Proofs.Rel2HistAllO
  Proofs.Rel2HistR Proofs.Rel2HistAllR.
From Ark Require Properties.Common Proofs.Rel2Check Proofs.StorageD.
From RecordUpdate Require Import RecordSet.
Import RecordSetNotations.
From Coq Require Import Lia.
Close Scope Z_scope.

(* ================================================================================================ *)
(** * Part 1: the invariant and its reading through the erasure *)

Definition Inv2RO (s : W) (n k : nat) : Prop :=
  St2 s /\ r2d_KeysLive s /\ issued_ok_from k s n /\ archs_tabled_norel s /\ r2q_filters_ok s /\ r2r_ids2 s.

Definition InvAllOR (s : W) (n k : nat) : Prop := Inv2RO s n k.

Lemma r2u_RO_of_R : forall s n k, Inv2R s n k -> Inv2RO s n k.
Proof. intros s n k (H1 & H2 & _ & H4 & H5 & H6 & H7). repeat (split; [assumption|]). assumption. Qed.

Lemma r2u_R_of_RO : forall s n k, Inv2RO s n k -> r2e_noobs s -> Inv2R s n k.
Proof. intros s n k (H1 & H2 & H4 & H5 & H6 & H7) Hn. repeat (split; [assumption|]). assumption. Qed.

(** the four clauses that a structural step changes *)
Lemma r2u_core_ext_R : forall s s' n k, oe_E s' = oe_E s -> St2 s -> r2d_KeysLive s -> issued_ok_from k s n -> r2r_ids2 s ->
  St2 s' /\ r2d_KeysLive s' /\ issued_ok_from k s' n /\ r2r_ids2 s' /\ w_reg s' = w_reg s /\ w_issued s' = w_issued s /\
  (forall x, live s' x = live s x).
Proof.
  intros s s' n k E H1 H2 H3 H7.
  destruct (r2o_fields_ext s s' E) as (E1 & E2 & E3 & E4 & E5 & E6 & E7 & E8 & E9 & E10 & E11 & E12 & E13 & E14).
  assert (HL : forall x, live s' x = live s x) by (apply r2_live_ext; assumption).
  split; [apply (r2e_St2_ext s s'); assumption|].
  split; [apply (r2d_KeysLive_mono s s' H2 E6); intros x Hx; rewrite HL; exact Hx|].
  split; [apply (r2r_issued_ext k s s' n E3 HL); [intros x Hx; left; rewrite <- E14; exact Hx|exact H3]|].
  split; [intros x Hx; rewrite E14 in Hx; apply (H7 x Hx)|].
  split; [exact E2|]. split; [exact E14|exact HL].
Qed.

Lemma r2u_RO_ext : forall s s' n k, oe_E s' = oe_E s -> Inv2RO s n k -> Inv2RO s' n k.
Proof.
  intros s s' n k E (H1 & H2 & H3 & H4 & H5 & H7).
  destruct (r2o_fields_ext s s' E) as (E1 & E2 & E3 & E4 & E5 & E6 & E7 & E8 & E9 & E10 & E11 & E12 & E13 & E14).
  destruct (r2u_core_ext_R s s' n k E H1 H2 H3 H7) as (A & B & C & D & _).
  split; [exact A|]. split; [exact B|]. split; [exact C|].
  split; [apply (r2q_tabled_ext s s' E6 H4)|]. split; [apply (r2q_filters_ok_ext s s' E2 E13 H5)|exact D].
Qed.

(** [Inv2RO] is [Inv2R] of the erased world. *)
Theorem r2u_RO_iff : forall s n k, Inv2RO s n k <-> Inv2R (oe_E s) n k.
Proof.
  intros s n k. split.
  - intros H. apply r2u_R_of_RO; [apply (r2u_RO_ext s (oe_E s) n k (oe_E_idem s) H)|]. intros ev. apply oe_E_noobs.
  - intros H. apply (r2u_RO_ext (oe_E s) s n k); [symmetry; apply oe_E_idem|]. apply r2u_RO_of_R. exact H.
Qed.

Lemma r2u_RO_mono : forall s n m k, n <= m -> Inv2RO s n k -> Inv2RO s m k.
Proof.
  intros s n m k Hnm (H1 & H2 & H3 & H4). split; [exact H1|]. split; [exact H2|]. split; [apply (r2r_issued_mono k s n m Hnm H3)|exact H4].
Qed.

Lemma r2u_RO_log : forall s n k l, Inv2RO s n k -> Inv2RO (s <| w_log := l |>) n k.
Proof. intros s n k l H. apply (r2u_RO_ext s _ n k); [reflexivity|exact H]. Qed.

(* ================================================================================================ *)
(** * Part 2: the cut states of Remove / Exchange / SetRelations from state-level facts *)

Theorem r2u_cut_trans_R : forall o s v, St2 (oe_E s) -> r2d_KeysLive (oe_E s) -> room (oe_E s) -> r2r_ids2 (oe_E s) ->
  registered (oe_E s) (rel_op_ids o) -> r2r_handles_proper (oe_E s) o ->
  oe_cut o s v -> r2e_trans (oe_E s) v.
Proof.
  intros o s v HS HK Hroom Hids Hreg Hp Hv. set (u := oe_E s) in *.
  assert (HQ : r2e_quiet u) by (split; [intros ev; apply oe_E_noobs|apply oe_E_unlocked]).
  destruct o; cbn [oe_cut] in Hv; try (destruct Hv; fail).
  - destruct Hv as (e & Hh & ->).
    destruct (r2o_same_pre_remove u e ids HS Hroom) as (HS1 & HL).
    apply (r2r_trans_fk u HK HQ _ HS1 (r2o_fkp_pre_remove e ids u)). intros x Hx. rewrite HL. exact Hx.
  - destruct Hv as (e & rl & Hh & HR & ->). apply r2o_resolved in HR. fold u in HR. cbn [rel_op_ids] in Hreg.
    assert (Hok : forall r, In r rl -> r2b_handle_ok u (snd r)).
    { apply (r2r_resolved_ok u rels rl (proj1 HS) Hids HR). apply (r2r_hp_rels u rels). exact Hp. }
    destruct (r2o_same_pre_exchange u e add rem rl HS Hroom Hreg Hok) as (HS1 & HL).
    apply (r2r_trans_fk u HK HQ _ HS1 (r2o_fkp_pre_exchange e add rem rl u)). intros x Hx. rewrite HL. exact Hx.
  - destruct Hv as (e & rl & Hh & HR & ->). apply r2o_resolved in HR. fold u in HR.
    assert (Hok : forall r, In r rl -> r2b_handle_ok u (snd r)).
    { apply (r2r_resolved_ok u rels rl (proj1 HS) Hids HR). apply (r2r_hp_rels u rels). exact Hp. }
    destruct (r2o_same_pre_setrel u e rl HS Hok) as (HS1 & HL).
    apply (r2r_trans_fk u HK HQ _ HS1 (r2o_fkp_pre_setrel e rl u)). intros x Hx. rewrite HL. exact Hx.
  - subst v. apply (r2r_trans_refl u HS HK HQ).
Qed.

(** What one structural step with observers may do, read through the erasure (after [r2o_post]). *)
Theorem r2u_post_OR : forall debug s n k o, Inv2RO s n k -> n + 4 < Nat.pow 2 31 -> oe_struct_op o = true ->
  is_locked s = false -> registered s (rel_op_ids o) -> r2r_foreign_ok k s o ->
  r2e_post (returns_entity o) (oe_E s) (oe_rmap (step_op debug o s)).
Proof.
  intros debug s n k o HIO Hn Hs Hl Hreg Hfor. pose proof (proj1 (r2u_RO_iff s n k) HIO) as (HS & HK & Hno & Hiss & _ & _ & Hids).
  assert (HQ : r2e_quiet (oe_E s)) by (split; [exact Hno|apply oe_E_unlocked]).
  assert (Hroom : room (oe_E s)) by (apply (r2r_room k _ n Hiss Hn)).
  assert (Hp : r2r_handles_proper (oe_E s) o).
  { apply (r2r_foreign_all (oe_E s) n k o (proj1 HS) Hiss). intros h Hin Eh Hlt.
    apply (r2r_hproper_ext s (oe_E s) h eq_refl eq_refl (fun x => eq_refl)). apply (Hfor h Hin Eh Hlt). }
  pose proof (r2r_op_spec debug (oe_E s) HS HK HQ Hroom Hids o (r2o_struct_core o Hs) Hreg Hp) as HP.
  pose proof (oe_step_op debug o s Hs Hl) as J. unfold oe_J, oe_res in J.
  destruct (step_op debug o s) as [a s1|er s1]; cbn [oe_rmap].
  - rewrite <- J. exact HP.
  - apply r2e_post_err. destruct J as [J|J].
    + rewrite J. exact (proj1 HP).
    + apply (r2u_cut_trans_R o s _ HS HK Hroom Hids Hreg Hp J).
Qed.

(** handing out handles of stored entities, clearing the log: the four clauses *)
Lemma r2u_core_issue : forall s1 m k (es : list ent), St2 s1 -> r2d_KeysLive s1 -> issued_ok_from k s1 m -> r2r_ids2 s1 ->
  (forall e, In e es -> live s1 e = true) ->
  let s' := s1 <| w_issued ::= fun l => l ++ es |> <| w_log := [] |> in
  St2 s' /\ r2d_KeysLive s' /\ issued_ok_from k s' m /\ r2r_ids2 s'.
Proof.
  intros s1 m k es H1 H2 H4 H7 Hes s'.
  assert (HL : forall x, live s' x = live s1 x) by (intros x; reflexivity).
  split; [apply (r2e_St2_ext s1 s'); try reflexivity; exact H1|].
  split; [apply (r2d_KeysLive_mono s1 s' H2 eq_refl); intros x Hx; exact Hx|].
  split.
  { apply (r2r_issued_ext k s1 s' m eq_refl HL); [|exact H4]. intros x Hx.
    change (w_issued s') with (w_issued s1 ++ es) in Hx. apply r2u_skipn_app in Hx. destruct Hx as [Hx|Hx]; [left; exact Hx|right].
    pose proof (Hes x Hx) as Hl. destruct (live_alive s1 x (proj1 H1) Hl) as (Ha & Hge). destruct (sc_alive_slot s1 x Ha) as (l & E).
    apply sa_nth_error_lt in E. split; [split; assumption|exact Hl]. }
  intros x Hx. change (w_issued s') with (w_issued s1 ++ es) in Hx. apply in_app_or in Hx.
  destruct Hx as [Hx|Hx]; [apply (H7 x Hx)|]. apply (live_alive s1 x (proj1 H1) (Hes x Hx)).
Qed.

(** the end of the proof of [r2r_core_unlocked], for any description [r2e_post] *)
Lemma r2u_finish_post_R : forall o u n k re, St2 u -> issued_ok_from k u n -> r2r_ids2 u -> n + 4 < Nat.pow 2 31 ->
  r2e_post (returns_entity o) u re ->
  let x := sc_issue o re <| w_log := [] |> in
  St2 x /\ r2d_KeysLive x /\ issued_ok_from k x (S n) /\ r2r_ids2 x /\ w_reg x = w_reg u /\
  (w_issued x = w_issued u \/ exists e, w_issued x = w_issued u ++ [e] /\ live x e = true /\ live u e = false).
Proof.
  intros o u n k re HS Hiss Hids Hn HP. cbv zeta. pose proof HP as (T & _).
  pose proof (r2r_trans_issued k u _ n (proj1 HS) Hiss Hn T) as HIs.
  destruct T as (T1 & T2 & _ & T4 & T5 & _).
  assert (Hids1 : r2r_ids2 (state_of re)) by (intros y Hy; rewrite T5 in Hy; apply (Hids y Hy)).
  destruct (r2e_issue_cases o u _ HP) as [E|(e & s1 & Er & E & Hl0 & Hl1 & Ha)]; rewrite E.
  - destruct (r2u_core_issue (state_of re) (S n) k [] T1 T2 HIs Hids1 (fun e H => match H with end)) as (A & B & C & D).
    assert (Ee : state_of re <| w_log := [] |> = state_of re <| w_issued ::= fun l => l ++ [] |> <| w_log := [] |>) by apply r2h_issued_nil.
    rewrite Ee. split; [exact A|]. split; [exact B|]. split; [exact C|]. split; [exact D|]. split; [exact T4|].
    left. cbn. rewrite app_nil_r. exact T5.
  - rewrite Er in *. cbn [state_of] in *.
    destruct (r2u_core_issue s1 (S n) k [e] T1 T2 HIs Hids1) as (A & B & C & D).
    { intros y [<-|[]]. exact Hl1. }
    split; [exact A|]. split; [exact B|]. split; [exact C|]. split; [exact D|]. split; [exact T4|].
    right. exists e. split; [cbn; rewrite T5; reflexivity|]. split; [exact Hl1|exact Hl0].
Qed.

Definition r2u_step_goal (s s' : W) (n k : nat) : Prop :=
  Inv2RO s' (S n) k /\ w_reg s' = w_reg s /\
  (w_issued s' = w_issued s \/ exists e, w_issued s' = w_issued s ++ [e] /\ live s' e = true /\ live s e = false).

(** a structural single-entity operation on an unlocked world with observers *)
Lemma r2u_step_struct_unlocked_OR : forall debug wd s n k line o,
  Inv2RO s n k -> n + 4 < Nat.pow 2 31 -> decode_op line = Some o -> oe_struct_op o = true -> is_locked s = false ->
  (forall c, In c (rel_op_ids o) -> c < length (w_reg s)) -> r2r_foreign_ok k s o ->
  r2u_step_goal s (fst (step debug wd s line)) n k.
Proof.
  intros debug wd s n k line o HIO Hn Hd Hs Hl Hreg Hfor. pose proof (r2o_struct_core o Hs) as Hc.
  pose proof HIO as (HS & _ & _ & HT & HF & _).
  set (s' := fst (step debug wd s line)).
  assert (Es' : s' = sc_issue o (step_op debug o (s <| w_log := [] |>)) <| w_log := [] |>)
    by (apply (r2e_step_state debug wd s line o Hd Hc)).
  set (s0 := s <| w_log := [] |>) in *.
  pose proof (r2u_RO_log s n k [] HIO) as HI0. fold s0 in HI0.
  assert (Hfor0 : r2r_foreign_ok k s0 o).
  { intros h Hin Eh Hlt. apply (r2r_hproper_ext s s0 h eq_refl eq_refl (fun x => eq_refl)). apply (Hfor h Hin Eh Hlt). }
  pose proof (r2u_post_OR debug s0 n k o HI0 Hn Hs Hl Hreg Hfor0) as HP.
  pose proof (proj1 (r2u_RO_iff s0 n k) HI0) as (HSu & _ & _ & Hissu & _ & _ & Hidsu).
  destruct (r2u_finish_post_R o (oe_E s0) n k _ HSu Hissu Hidsu Hn HP) as (X1 & X2 & X3 & X4 & XR & XI).
  set (x := sc_issue o (oe_rmap (step_op debug o s0)) <| w_log := [] |>) in *.
  assert (Ex : oe_E s' = oe_E x).
  { rewrite Es'. unfold x. rewrite <- r2o_issue_E. reflexivity. }
  destruct (r2u_core_ext_R x s' (S n) k Ex X1 X2 X3 X4) as (A & B & C & D & D1 & D2 & D3).
  assert (HT' : archs_tabled_norel s') by (apply (r2o_step_tabled debug wd s line o HS A Hd Hc HT)).
  destruct (r2q_uq_step debug wd s line o Hd Hc) as (U1 & _). fold s' in U1.
  assert (Hreg' : w_reg s' = w_reg s) by (rewrite D1, XR; reflexivity).
  split; [|split; [exact Hreg'|]].
  - split; [exact A|]. split; [exact B|]. split; [exact C|]. split; [exact HT'|].
    split; [apply (r2q_filters_ok_ext s s' Hreg' U1 HF)|exact D].
  - destruct XI as [XI|(e & XI & L1 & L2)].
    + left. rewrite D2, XI. reflexivity.
    + right. exists e. split; [rewrite D2, XI; reflexivity|]. split; [rewrite D3; exact L1|exact L2].
Qed.

(* ================================================================================================ *)
(** * Part 3: the other operations *)

Definition r2u_keptO (s s' : W) (n k : nat) : Prop := Inv2RO s' n k /\ w_reg s' = w_reg s /\ w_issued s' = w_issued s.

Lemma r2u_keptO_ext : forall s s' n k, oe_E s' = oe_E s -> Inv2RO s n k -> r2u_keptO s s' n k.
Proof.
  intros s s' n k E H. split; [apply (r2u_RO_ext s s' n k E H)|].
  destruct (r2o_fields_ext s s' E) as (_ & E2 & _ & _ & _ & _ & _ & _ & _ & _ & _ & _ & _ & E14). split; assumption.
Qed.

Lemma r2u_keptO_refl : forall s n k, Inv2RO s n k -> r2u_keptO s s n k.
Proof. intros s n k H. split; [exact H|split; reflexivity]. Qed.

Lemma r2u_keptO_sp : forall s s' n k, Inv2RO s n k -> storage_same s s' -> r2u_keptO s s' n k.
Proof. intros s s' n k H Hs. apply r2u_keptO_ext; [apply oe_E_of_storage_same; exact Hs|exact H]. Qed.

Lemma r2u_keptO_frame : forall s s' n k, Inv2RO s n k -> query_frame s s' -> r2u_keptO s s' n k.
Proof.
  intros s s' n k (H1 & H2 & H3 & H4 & H5 & H7) HF. pose proof (r2k_St2_frame s s' H1 HF) as HS.
  destruct HF as (E1 & E2 & E3 & E4 & E5 & E6 & E7 & E8 & E9 & E10 & E11 & E12 & E13 & E14 & E15 & E16 & E17 & E18 & E19 & E20 & E21).
  assert (HL : forall x, live s' x = live s x) by (apply r2_live_ext; assumption).
  split; [|split; assumption].
  split; [exact HS|]. split; [apply (r2d_KeysLive_mono s s' H2 E6); intros x Hx; rewrite HL; exact Hx|].
  split; [apply (r2r_issued_ext k s s' n E3 HL); [intros x Hx; left; rewrite <- E17; exact Hx|exact H3]|].
  split; [apply (r2q_tabled_ext s s' E6 H4)|]. split; [apply (r2q_filters_ok_ext s s' E2 E15 H5)|].
  intros x Hx. rewrite E17 in Hx. apply (H7 x Hx).
Qed.

(** Write, filter creation, Register, Unregister commute with the erasure: Rel2HistR on the erased world *)
Lemma r2u_keptO_hom : forall debug s n k o, Inv2RO s n k -> oe_hom_op o = true -> rel_q_flt_ok (w_reg s) o ->
  r2u_keptO s (state_of (step_op debug o s)) n k.
Proof.
  intros debug s n k o HIO Ho Hflt. pose proof (proj1 (r2u_RO_iff s n k) HIO) as HQ.
  assert (K : r2r_kept (oe_E s) (state_of (step_op debug o (oe_E s))) n k).
  { destruct o; try discriminate Ho.
    - apply (r2r_locked_OWrite debug (oe_E s) n k _ _ _ HQ).
    - refine (r2r_new_op_spec debug (oe_E s) n k _ HQ _ Hflt); reflexivity.
    - refine (r2r_new_op_spec debug (oe_E s) n k _ HQ _ Hflt); reflexivity.
    - refine (r2r_new_op_spec debug (oe_E s) n k _ HQ _ Hflt); reflexivity. }
  rewrite (oe_hom_step_op debug o Ho s) in K.
  assert (Es : state_of (oe_rmap (step_op debug o s)) = oe_E (state_of (step_op debug o s))) by (destruct (step_op debug o s); reflexivity).
  rewrite Es in K. destruct K as (K1 & K2 & K3 & _).
  split; [apply r2u_RO_iff; exact K1|]. split; [exact K2|exact K3].
Qed.

Lemma r2u_keptO_finish : forall s s1 n k, r2u_keptO (s <| w_log := [] |>) s1 n k -> r2u_step_goal s (s1 <| w_log := [] |>) n k.
Proof.
  intros s s1 n k (K1 & K2 & K3). split; [|split; [exact K2|left; exact K3]].
  apply (r2u_RO_mono _ n (S n)); [lia|]. apply r2u_RO_log. exact K1.
Qed.

(** ** Reset with observers *)
Theorem r2u_reset_step_OR : forall debug wd s n k line,
  Inv2RO s n k -> decode_op line = Some OReset ->
  let s' := fst (step debug wd s line) in
  Inv2RO s' (S n) (r2r_epoch k s OReset) /\ w_reg s' = w_reg s /\ w_issued s' = w_issued s /\
  (is_locked s = false -> r2r_fresh (oe_E s') /\ is_err (step_op debug OReset (s <| w_log := [] |>)) = false) /\
  (is_locked s = true -> s' = s <| w_log := [] |>).
Proof.
  intros debug wd s n k line HI Hd. cbv zeta. rewrite (r2r_step_state_reset debug wd s line Hd).
  pose proof (r2u_RO_log s n k [] HI) as HI0. set (s0 := s <| w_log := [] |>) in *.
  cbn [r2r_epoch]. destruct (is_locked s) eqn:Hl.
  - destruct (r2r_reset_locked debug s0 Hl) as (er & E). rewrite E. cbn [state_of].
    split; [apply r2u_RO_log; apply (r2u_RO_mono s0 n (S n) k); [lia|exact HI0]|].
    split; [reflexivity|]. split; [reflexivity|]. split; [discriminate|]. intros _. reflexivity.
  - pose proof (proj1 (r2u_RO_iff s0 n k) HI0) as HIu.
    destruct (r2r_reset_unlocked debug (oe_E s0) n k HIu (oe_E_unlocked s0)) as (u1 & Eu & HFr & R1 & R2 & R3 & _).
    pose proof (oe_opS_OReset debug s0 Hl) as J. unfold oe_JS, oe_resS in J. rewrite Eu in J.
    destruct (step_op debug OReset s0) as [a s1|er s1] eqn:Er.
    2:{ destruct J as [J|[]]. discriminate J. }
    injection J as Ja Ju. subst a u1. cbn [state_of is_err].
    assert (HI1 : Inv2RO s1 0 (length (w_issued s0))).
    { apply r2u_RO_iff. pose proof (proj1 HFr) as H. rewrite R3 in H. exact H. }
    split.
    { apply r2u_RO_log. apply (r2u_RO_mono _ 0 (S n)); [lia|exact HI1]. }
    split; [exact R1|]. split; [exact R3|]. split; [intros _; split; [exact HFr|reflexivity]|discriminate].
Qed.

(* ================================================================================================ *)
(** * Part 4: one step of the class, histories *)

Definition rel_allOR_op (o : op) : bool := (rel_o_op o || r2r_is_reset o || r2h_batch_op o)%bool.

Lemma r2u_opOR_cases : forall o, rel_allOR_op o = true ->
  (rel_o_op o = true /\ r2r_is_reset o = false /\ r2h_batch_op o = false /\ r2h_created o = 0 /\ r2h_op_ids o = [] /\
   rel_u_handles o = [] /\ rel_u_ranged o = [] /\ forall k s, r2r_epoch k s o = k) \/
  (o = OReset) \/
  (rel_o_op o = false /\ r2h_batch_op o = true /\ rel_op_ids o = [] /\ rel_r_handles o = [] /\ forall k s, r2r_epoch k s o = k).
Proof.
  intros o H. unfold rel_allOR_op in H. destruct (r2h_batch_op o) eqn:Hb.
  - right. right. destruct o; try discriminate Hb; repeat split; reflexivity.
  - rewrite Bool.orb_false_r in H. destruct (r2r_is_reset o) eqn:Hr.
    + right. left. destruct o; try discriminate Hr. reflexivity.
    + left. rewrite Bool.orb_false_r in H. destruct o; try discriminate Hb; try discriminate Hr; repeat split; try reflexivity; exact H.
Qed.

(** One step of a decoded line of the class keeps the invariant, in BOTH outcomes, whatever the callbacks do, in locked and
    unlocked worlds. Side conditions: those of [step_inv_allR], and [r2u_batch_quiet] for a batch line. *)
Theorem step_inv_allOR_partial : forall debug wd s n k line o,
  InvAllOR s n k -> n + r2h_created o + 4 < Nat.pow 2 31 -> decode_op line = Some o -> rel_allOR_op o = true ->
  (forall c, In c (rel_all_ids o) -> c < length (w_reg s)) -> rel_q_flt_ok (w_reg s) o ->
  (is_locked s = false -> r2r_foreign_ok k s o /\ r2u_foreign_ok k s o) -> r2u_batch_quiet s o ->
  let s' := fst (step debug wd s line) in
  InvAllOR s' (n + S (r2h_created o)) (r2r_epoch k s o) /\ w_reg s' = w_reg s /\
  (exists es, w_issued s' = w_issued s ++ es /\ forall e, In e es -> live s' e = true /\ live s e = false).
Proof.
  intros debug wd s n k line o HI Hn Hd Hop Hreg Hflt Hfor Hq. cbv zeta. unfold InvAllOR in *.
  assert (Goal1 : forall s', r2u_step_goal s s' n k ->
            Inv2RO s' (n + 1) k /\ w_reg s' = w_reg s /\
            (exists es, w_issued s' = w_issued s ++ es /\ forall e, In e es -> live s' e = true /\ live s e = false)).
  { intros s' (G1 & G2 & G3). rewrite Nat.add_1_r. split; [exact G1|]. split; [exact G2|].
    destruct G3 as [E|(e & E & L1 & L0)].
    - exists []. split; [rewrite app_nil_r; exact E|intros e []].
    - exists [e]. split; [exact E|]. intros x [<-|[]]. split; assumption. }
  destruct (r2u_opOR_cases o Hop) as [(Ho & _ & _ & Hc & _ & _ & _ & Hk)|[->|(_ & Hb & _ & _ & Hk)]].
  - rewrite Hc in *. rewrite Nat.add_0_r in Hn. rewrite Hk. apply Goal1.
    assert (Hreg' : forall c, In c (rel_op_ids o) -> c < length (w_reg s)).
    { intros c Hin. apply Hreg. unfold rel_all_ids. apply in_or_app. left. exact Hin. }
    pose proof (r2u_RO_log s n k [] HI) as HI0.
    destruct (r2o_class_cases o Ho) as [Hs|(Hkk & Hil & Hre)].
    + destruct (is_locked s) eqn:Hl.
      * rewrite (r2e_step_state debug wd s line o Hd (r2o_struct_core o Hs)).
        match goal with |- context [step_op debug o ?x] =>
          destruct (structural_blocked debug o x (r2o_struct_structural o Hs) Hl) as (er & E); rewrite E end.
        rewrite r2q_issue_err. apply r2u_keptO_finish. apply r2u_keptO_refl. exact HI0.
      * apply (r2u_step_struct_unlocked_OR debug wd s n k line o HI Hn Hd Hs Hl Hreg'). apply (Hfor eq_refl).
    + rewrite (StorageD.sd_step_state_plain debug wd s line o Hd Hil Hre). apply r2u_keptO_finish.
      destruct Hkk as [Hkk|[Hkk|[Hkk|Hkk]]].
      * apply (r2u_keptO_hom debug _ n k o HI0 Hkk Hflt).
      * apply (r2u_keptO_frame _ _ n k HI0). apply (r2q_fr_step_op debug o Hkk).
      * apply (r2u_keptO_sp _ _ n k HI0). apply (oe_sp_obs_op debug o Hkk).
      * rewrite (r2o_readonly_state debug o _ Hkk). apply r2u_keptO_refl. exact HI0.
  - cbn [r2h_created] in *. rewrite Nat.add_0_r in Hn. rewrite Nat.add_1_r.
    destruct (r2u_reset_step_OR debug wd s n k line HI Hd) as (A & B & C & _).
    split; [exact A|]. split; [exact B|]. exists []. split; [rewrite app_nil_r; exact C|intros e []].
  - rewrite Hk. destruct (is_locked s) eqn:Hl.
    + rewrite (r2u_batch_locked debug wd s line o Hd Hb Hl).
      split; [apply (r2u_RO_mono _ n); [lia|apply r2u_RO_log; exact HI]|].
      split; [reflexivity|]. exists []. split; [cbn; rewrite app_nil_r; reflexivity|intros e []].
    + pose proof (r2u_R_of_RO s n k HI (Hq Hb Hl)) as HR.
      destruct (step_inv_allR_batch debug wd s n k line o HR Hn Hd Hb) as (S1 & S2 & S3 & _).
      { intros c Hin. apply Hreg. unfold rel_all_ids. apply in_or_app. right. exact Hin. }
      { intros _. apply (Hfor eq_refl). }
      split; [apply r2u_RO_of_R; exact S1|]. split; [exact S2|exact S3].
Qed.

(** ** Histories: state and epoch after each line ([r2r_step] of Rel2HistR) *)

Definition rel_allOR_line (reg : list ckind) (sk : W * nat) (line : list Z) : Prop :=
  exists o, decode_op line = Some o /\ rel_allOR_op o = true /\ (forall c, In c (rel_all_ids o) -> c < length reg) /\
            rel_q_flt_ok reg o /\
            (is_locked (fst sk) = false -> r2r_foreign_ok (snd sk) (fst sk) o /\ r2u_foreign_ok (snd sk) (fst sk) o) /\
            r2u_batch_quiet (fst sk) o.

Fixpoint rel_allOR_hist (debug : bool) (reg : list ckind) (sk : W * nat) (lines : list (list Z)) : Prop :=
  match lines with
  | [] => True
  | l :: rest => rel_allOR_line reg sk l /\ rel_allOR_hist debug reg (r2r_step debug sk l) rest
  end.

Theorem r2u_run_inv_OR_partial : forall debug reg lines s n k,
  InvAllOR s n k -> w_reg s = reg -> rel_allOR_hist debug reg (s, k) lines -> n + r2h_total lines + 4 < Nat.pow 2 31 ->
  InvAllOR (fst (r2r_run_from debug (s, k) lines)) (n + r2h_total lines) (snd (r2r_run_from debug (s, k) lines)) /\
  w_reg (fst (r2r_run_from debug (s, k) lines)) = reg.
Proof.
  intros debug reg lines. induction lines as [|l lines IH]; intros s n k HI Hr HH Hb.
  - cbn. rewrite Nat.add_0_r. split; assumption.
  - cbn [rel_allOR_hist] in HH. destruct HH as ((o & Hd & Hop & Hids & Hflt & Hfor & Hq) & HH).
    assert (Et : r2h_total (l :: lines) = r2h_cost l + r2h_total lines) by reflexivity.
    assert (Hcost : r2h_cost l = S (r2h_created o)) by (unfold r2h_cost; rewrite Hd; reflexivity).
    rewrite Et, Hcost in *.
    unfold r2r_run_from in *. cbn [fold_left]. cbn [fst snd] in Hfor, Hq.
    destruct (step_inv_allOR_partial debug false s n k l o HI) as (S1 & S2 & _); auto; try lia.
    { rewrite Hr. exact Hids. }
    { rewrite Hr. exact Hflt. }
    unfold r2r_step in *. cbn [fst snd] in *. rewrite Hd in *.
    destruct (IH _ (n + S (r2h_created o)) _ S1) as (A & B); [congruence|exact HH|lia|].
    replace (n + (S (r2h_created o) + r2h_total lines)) with (n + S (r2h_created o) + r2h_total lines) by lia.
    split; assumption.
Qed.

Theorem reachable_inv_allOR_partial : forall c lines,
  cfg_ok2 c -> rel_allOR_hist (sc_debug c) (sc_kinds c) (init_world c, 0) lines -> r2h_total lines + 4 < Nat.pow 2 31 ->
  InvAllOR (Properties.Common.exec c lines) (r2h_total lines) (r2r_epoch_of c lines).
Proof.
  intros c lines Hc HH Hb. rewrite <- r2r_run_exec. unfold r2r_epoch_of, r2r_run.
  destruct (r2u_run_inv_OR_partial (sc_debug c) (sc_kinds c) lines (init_world c) 0 0) as (A & _); auto.
  apply r2u_RO_of_R. apply r2r_Inv2R_of_Q. apply r2q_init. exact Hc.
Qed.

(** the histories of stage 2 ([rel_allR_hist]) are covered: they never register an observer *)
Lemma r2u_allR_line_quiet : forall reg s n k line, Inv2R s n k -> rel_allR_line reg (s, k) line -> rel_allOR_line reg (s, k) line.
Proof.
  intros reg s n k line HI (o & Hd & Hop & Hids & Hflt & Hfor). exists o. split; [exact Hd|]. split.
  { unfold rel_allR_op, rel_r_op in Hop. unfold rel_allOR_op, rel_o_op.
    destruct (rel_q_op o); destruct (oe_obs_op o); destruct (r2r_is_reset o); destruct (r2h_batch_op o); cbn in *;
      first [reflexivity|discriminate Hop]. }
  split; [exact Hids|]. split; [exact Hflt|]. split; [exact Hfor|]. intros _ _. apply HI.
Qed.

(* ================================================================================================ *)
(** * Part 5: corollaries *)

Theorem targets_always_zero_or_alive_allOR_partial : forall c lines e cmp x,
  cfg_ok2 c -> rel_allOR_hist (sc_debug c) (sc_kinds c) (init_world c, 0) lines -> r2h_total lines + 4 < Nat.pow 2 31 ->
  tgt (Properties.Common.exec c lines) e cmp = Some x ->
  x = zero_ent \/ live (Properties.Common.exec c lines) x = true.
Proof.
  intros c lines e cmp x Hc Hl Hb H. destruct (reachable_inv_allOR_partial c lines Hc Hl Hb) as (HS & _).
  apply (r2_St2_targets _ e cmp x HS H).
Qed.

(** Reset succeeds in every unlocked reachable state, with or without observers; the erased result is a fresh world. *)
Theorem reachable_unlocked_reset_succeeds_allOR_partial : forall c lines wd line,
  cfg_ok2 c -> rel_allOR_hist (sc_debug c) (sc_kinds c) (init_world c, 0) lines -> r2h_total lines + 4 < Nat.pow 2 31 ->
  decode_op line = Some OReset -> is_locked (Properties.Common.exec c lines) = false ->
  let s := Properties.Common.exec c lines in
  is_err (step_op (sc_debug c) OReset (s <| w_log := [] |>)) = false /\ r2r_fresh (oe_E (fst (step (sc_debug c) wd s line))).
Proof.
  intros c lines wd line Hc Hl Hb Hd Hlk s.
  destruct (r2u_reset_step_OR (sc_debug c) wd s _ _ line (reachable_inv_allOR_partial c lines Hc Hl Hb) Hd) as (_ & _ & _ & A & _).
  destruct (A Hlk) as (A1 & A2). split; assumption.
Qed.

Lemma r2u_run_log_OR : forall debug reg lines sk, rel_allOR_hist debug reg sk lines -> w_log (fst sk) = [] ->
  w_log (fst (r2r_run_from debug sk lines)) = [].
Proof.
  intros debug reg lines. induction lines as [|l lines IH]; intros sk HH H0; [exact H0|].
  destruct HH as ((o & Hd & _) & HH). unfold r2r_run_from in *. cbn [fold_left]. apply (IH _ HH).
  unfold r2r_step. cbn [fst]. apply (r2q_step_log _ _ _ _ o Hd).
Qed.

Theorem reachable_locked_structural_unchanged_allOR_partial : forall c lines wd line o,
  rel_allOR_hist (sc_debug c) (sc_kinds c) (init_world c, 0) lines ->
  is_locked (Properties.Common.exec c lines) = true -> decode_op line = Some o -> structural o = true ->
  (exists er, step_op (sc_debug c) o (Properties.Common.exec c lines) = Err er (Properties.Common.exec c lines)) /\
  fst (step (sc_debug c) wd (Properties.Common.exec c lines) line) = Properties.Common.exec c lines.
Proof.
  intros c lines wd line o Hl Hlk Hd Hs.
  apply (locked_structural_step_unchanged (sc_debug c) wd _ line o Hd Hs Hlk).
  rewrite <- r2r_run_exec. unfold r2r_run. apply (r2u_run_log_OR _ _ _ _ Hl). reflexivity.
Qed.

(* ================================================================================================ *)
(** * Part 6: a checker for histories, non-vacuity *)

Definition rel_allOR_line_b (reg : list ckind) (sk : W * nat) (line : list Z) : bool :=
  match decode_op line with
  | Some o => (rel_allOR_op o && forallb (fun c => Nat.ltb c (length reg)) (rel_all_ids o) && rel_q_flt_okb reg o &&
               r2r_foreign_okb (fst sk) o && r2u_foreign_okb (fst sk) o &&
               (negb (r2h_batch_op o) || is_locked (fst sk) || r2u_noobs_b (fst sk)))%bool
  | None => false
  end.

Fixpoint rel_allOR_hist_b (debug : bool) (reg : list ckind) (sk : W * nat) (lines : list (list Z)) : bool :=
  match lines with
  | [] => true
  | l :: rest => (rel_allOR_line_b reg sk l && rel_allOR_hist_b debug reg (r2r_step debug sk l) rest)%bool
  end.

Lemma rel_allOR_hist_b_sound : forall debug reg lines sk, rel_allOR_hist_b debug reg sk lines = true -> rel_allOR_hist debug reg sk lines.
Proof.
  intros debug reg lines. induction lines as [|l lines IH]; intros sk H; [exact I|].
  cbn [rel_allOR_hist_b] in H. apply andb_true_iff in H. destruct H as (H1 & H2). split; [|apply IH; exact H2].
  unfold rel_allOR_line_b in H1. destruct (decode_op l) as [o|] eqn:E; [|discriminate].
  apply andb_true_iff in H1. destruct H1 as (H12345 & H6). apply andb_true_iff in H12345. destruct H12345 as (H1234 & H5).
  apply andb_true_iff in H1234. destruct H1234 as (H123 & H4). apply andb_true_iff in H123. destruct H123 as (H12 & H3).
  apply andb_true_iff in H12. destruct H12 as (H1 & H2').
  exists o. split; [exact E|]. split; [exact H1|]. split; [|split; [apply rel_q_flt_okb_sound; exact H3|split]].
  - intros c Hc. rewrite forallb_forall in H2'. apply Nat.ltb_lt. apply H2'. exact Hc.
  - intros _. split; [apply r2r_foreign_okb_sound; exact H4|apply r2u_foreign_okb_sound; exact H5].
  - intros Hb Hl. rewrite Hb, Hl in H6. cbn in H6. apply r2u_noobs_b_sound. exact H6.
Qed.

Local Open Scope Z_scope.

(** observer 0 = OnAddRelations for component 3, unregisters itself in its callback; observer 1 = OnCreateEntity, passive;
    observer 2 = OnRemoveRelations, passive *)
Definition r2u_scriptOR : list (list Z) :=
  [[0]; [0];                              (* handles 0 = (2,0), 1 = (3,0) *)
   [25; 254; 1;3; 0; 0; 0; 1];            (* observer 0 *)
   [25; 249; 0; 0; 0; 0; 0];              (* observer 1 *)
   [25; 255; 0; 0; 0; 0; 0];              (* observer 2 *)
   [26; 0]; [26; 1]; [26; 2];
   [2; 2;0;3; 1; 3;0];                    (* handle 2 with relation 3 -> handle 0: two callbacks, observer 0 unregisters itself *)
   [15; 0; 1;0; 0; 0; 0];                 (* filter 0: component 0 *)
   [19; 0; 0];                            (* LOCKED *)
   [13];                                  (* Reset: rejected *)
   [30; 2; 2;0;3; 1; 3;0; 1; 0;7];        (* NewBatch with observers registered, on the locked world: rejected *)
   [21; 0];
   [13];                                  (* RESET with observers registered: succeeds, the observers are gone; epoch 3 *)
   [0];                                   (* handle 3 = (2,0): the foreign handle 0 aliases it *)
   [30; 2; 2;0;3; 1; 3;0; 1; 0;7];        (* NewBatch, relation target = FOREIGN handle 0: handles 4, 5 *)
   [26; 2]; [26; 0];                      (* observers 2 and 0 registered again (the objects survive Reset) *)
   [10; 4; 1; 3;5];                       (* SetRelations on handle 4 -> handle 5: OnRemoveRelations BEFORE the move, OnAddRelations (which unregisters itself) after *)
   [8; 5; 1;1; 1;3; 0];                   (* Exchange on handle 5: add 1, remove 3: OnRemoveRelations between lookup and move *)
   [27; 2];                               (* unregister observer 2: no observer is registered (0 unregistered itself) *)
   [32; 0; 0; 1;3; 1; 3;0];               (* SetRelationsBatch through filter 0, target = foreign handle 0 (this call fails; both outcomes are covered) *)
   [12; 0; 0; 1];                         (* RemoveEntities *)
   [13]; [38]].

Example r2u_scriptOR_covered :
  rel_allOR_hist_b false (sc_kinds Rel2Check.r2_cfg) (init_world Rel2Check.r2_cfg, 0%nat) r2u_scriptOR = true.
Proof. vm_compute. reflexivity. Qed.

(** the script is in none of the classes that are merged *)
Example r2u_scriptOR_new :
  rel_allR_hist_b false (sc_kinds Rel2Check.r2_cfg) (init_world Rel2Check.r2_cfg, 0%nat) r2u_scriptOR = false /\
  rel_allO_hist_b false (sc_kinds Rel2Check.r2_cfg) (init_world Rel2Check.r2_cfg) r2u_scriptOR = false /\
  forallb (rel_o_line_b (sc_kinds Rel2Check.r2_cfg)) r2u_scriptOR = false.
Proof. vm_compute. repeat split; reflexivity. Qed.

(** 0 = the step returned normally, 1 = it panicked; callbacks executed per step *)
Example r2u_scriptOR_runs :
  Rel2Check.r2_flags Rel2Check.r2_cfg (init_world Rel2Check.r2_cfg) r2u_scriptOR =
  [0;0; 0;0;0; 0;0;0; 0; 0; 0; 1; 1; 0; 0; 0; 0; 0;0; 0; 0; 0; 1; 0; 0;0] /\
  r2o_logs false (init_world Rel2Check.r2_cfg) r2u_scriptOR =
  [0;0; 0;0;0; 0;0;0; 2; 0; 0; 0; 0; 0; 0; 0; 2; 0;0; 2; 1; 0; 0; 0; 0;0]%nat.
Proof. vm_compute. split; reflexivity. Qed.

(** epoch and lock after 0, 1, ... steps *)
Example r2u_scriptOR_epochs :
  map (fun k => (r2r_epoch_of Rel2Check.r2_cfg (firstn k r2u_scriptOR), is_locked (Properties.Common.exec Rel2Check.r2_cfg (firstn k r2u_scriptOR))))
      (seq 0 27) =
  repeat (0%nat, false) 11 ++ repeat (0%nat, true) 3 ++ [(0%nat, false)] ++ repeat (3%nat, false) 10 ++ repeat (6%nat, false) 2.
Proof. vm_compute. reflexivity. Qed.

Lemma r2u_scriptOR_hist : forall k,
  rel_allOR_hist false (sc_kinds Rel2Check.r2_cfg) (init_world Rel2Check.r2_cfg, 0%nat) (firstn k r2u_scriptOR).
Proof.
  intros k. apply rel_allOR_hist_b_sound.
  assert (H : forall n, (n <= 26)%nat ->
     rel_allOR_hist_b false (sc_kinds Rel2Check.r2_cfg) (init_world Rel2Check.r2_cfg, 0%nat) (firstn n r2u_scriptOR) = true).
  { intros n Hn. do 27 (destruct n as [|n]; [vm_compute; reflexivity|]). lia. }
  destruct (Nat.le_gt_cases k 26) as [Hk|Hk]; [apply (H k Hk)|].
  rewrite firstn_all2; [exact r2u_scriptOR_covered|]. cbn. lia.
Qed.

Example r2u_scriptOR_inv :
  InvAllOR (Properties.Common.exec Rel2Check.r2_cfg r2u_scriptOR) (r2h_total r2u_scriptOR) (r2r_epoch_of Rel2Check.r2_cfg r2u_scriptOR) /\
  r2r_epoch_of Rel2Check.r2_cfg r2u_scriptOR = 6%nat.
Proof.
  split; [|vm_compute; reflexivity].
  apply reachable_inv_allOR_partial; [exact r2q_cfg_ok| |apply r2_N_small; vm_compute; reflexivity].
  pose proof (r2u_scriptOR_hist 26) as H. rewrite firstn_all2 in H by (cbn; lia). exact H.
Qed.

(** the state after 20 steps: second epoch, two observers registered, a relation target given through a foreign handle,
    SetRelations just ran with a removal callback before and an add callback after the move *)
Example r2u_midOR_inv :
  InvAllOR (Properties.Common.exec Rel2Check.r2_cfg (firstn 20 r2u_scriptOR)) (r2h_total (firstn 20 r2u_scriptOR)) 3 /\
  has_obs (Properties.Common.exec Rel2Check.r2_cfg (firstn 20 r2u_scriptOR)) EvRemoveRelations = true.
Proof.
  split; [|vm_compute; reflexivity].
  assert (E : r2r_epoch_of Rel2Check.r2_cfg (firstn 20 r2u_scriptOR) = 3%nat) by (vm_compute; reflexivity). rewrite <- E.
  apply (reachable_inv_allOR_partial Rel2Check.r2_cfg (firstn 20 r2u_scriptOR) r2q_cfg_ok (r2u_scriptOR_hist 20)).
  apply r2_N_small. vm_compute. reflexivity.
Qed.

Local Close Scope Z_scope.

(** ** Assumption audit *)
Definition r2u_all_4 :=
  (r2u_RO_iff, r2u_cut_trans_R, r2u_post_OR, r2u_step_struct_unlocked_OR, r2u_reset_step_OR, step_inv_allOR_partial,
   r2u_run_inv_OR_partial, reachable_inv_allOR_partial, r2u_allR_line_quiet, targets_always_zero_or_alive_allOR_partial,
   reachable_unlocked_reset_succeeds_allOR_partial, reachable_locked_structural_unchanged_allOR_partial,
   rel_allOR_hist_b_sound, r2u_scriptOR_inv, r2u_scriptOR_new, r2u_scriptOR_runs, r2u_midOR_inv).
Print Assumptions r2u_all_4.
