(** * ObsProofs: proofs of the C08 statements (to be filled). *)
From Ark Require Import Model.Base Model.Mask Model.Pool Model.World Proofs.ObsSpec.

(** For every manager state reachable by any register / unregister / reset history, every event
    context and both values of earlyOut, dispatch equals the specification: it is independent of
    the aggregates, of earlyOut and of which other observers are registered. One theorem per family. *)

Theorem dispatch_exact_entity :
  forall s0 ops cb evt e m eo, obs_init s0 -> cb_stable cb ->
  (evt = EvCreateEntity \/ evt = EvRemoveEntity) ->
  let s := fold_left ostep ops s0 in
  fire_with cb evt (early_with m) (p_with m) e eo s = dispatch_spec cb s evt (p_with m) e.
Admitted.

Theorem dispatch_exact_entity_rel :
  forall s0 ops cb evt e m eo, obs_init s0 -> cb_stable cb ->
  (evt = EvAddRelations \/ evt = EvRemoveRelations) ->
  let s := fold_left ostep ops s0 in
  fire_with cb evt (fun g => (early_comps m g || early_with m g)%bool) (p_entity_rel m) e eo s
  = dispatch_spec cb s evt (p_entity_rel m) e.
Admitted.

Theorem dispatch_exact_add :
  forall s0 ops cb evt e old new eo, obs_init s0 -> cb_stable cb ->
  (evt = EvAddComponents \/ evt = EvAddRelations) ->
  let s := fold_left ostep ops s0 in
  fire_with cb evt (early_add old new) (p_add old new) e eo s = dispatch_spec cb s evt (p_add old new) e.
Admitted.

Theorem dispatch_exact_remove :
  forall s0 ops cb evt e old new eo, obs_init s0 -> cb_stable cb ->
  (evt = EvRemoveComponents \/ evt = EvRemoveRelations) ->
  let s := fold_left ostep ops s0 in
  fire_with cb evt (early_remove old new) (p_remove old new) e eo s = dispatch_spec cb s evt (p_remove old new) e.
Admitted.

(** Set, relation-change and custom events (any event type that is not an entity event). *)
Theorem dispatch_exact_set :
  forall s0 ops cb evt e cm em eo, obs_init s0 -> cb_stable cb ->
  is_entity_event evt = false -> evt < 256 ->
  let s := fold_left ostep ops s0 in
  fire_with cb evt (early_set cm em) (p_set cm em) e eo s = dispatch_spec cb s evt (p_set cm em) e.
Admitted.

(** The batch idiom (early-out on the first row only, stop when the first row fired nothing) equals
    per-entity dispatch when all rows share the masks: if nothing fires for the first entity,
    nothing fires for any (the predicates do not depend on the entity). *)
Theorem fired_entity_independent :
  forall s evt pred, fired s evt pred = [] ->
  forall cb e, cb_stable cb -> dispatch_spec cb s evt pred e = Ok false s.
Admitted.

(** Registration state is exact: after any history an observer is in the list of its event iff it was
    registered and not unregistered since; the total count is the sum of the list lengths. *)
Theorem total_count_exact :
  forall s0 ops, obs_init s0 ->
  let s := fold_left ostep ops s0 in
  w_ototal s = fold_left (fun acc kv => acc + length (snd kv)) (w_olists s) 0.
Admitted.

(** Reset unregisters everything, whatever event types are in use (including 255). *)
Theorem reset_clears_all :
  forall s0 ops evt, obs_init s0 ->
  let s := ostep (fold_left ostep ops s0) OResetObs in
  olist s evt = [] /\ has_obs s evt = false /\ w_ototal s = 0.
Admitted.
