(** * ObsProofs: proofs of the C08 statements. *)
From Ark Require Import Model.Base Model.Mask Model.Pool Model.World Proofs.ObsSpec.
From RecordUpdate Require Import RecordSet.
Import RecordSetNotations.
From Coq Require Import Lia Permutation.

(** ** Association lists *)

Lemma afind_aset : forall V k k' (v : V) m,
  afind k' (aset k v m) = if Nat.eqb k k' then Some v else afind k' m.
Proof.
  induction m as [|[k0 v0] m IH]; simpl.
  - reflexivity.
  - destruct (Nat.eqb_spec k0 k); simpl.
    + subst. destruct (Nat.eqb_spec k k'); reflexivity.
    + rewrite IH. destruct (Nat.eqb_spec k0 k'); destruct (Nat.eqb_spec k k'); subst; try reflexivity; congruence.
Qed.

Lemma keys_aset : forall V k (v : V) m k',
  In k' (map fst (aset k v m)) <-> k' = k \/ In k' (map fst m).
Proof.
  induction m as [|[k0 v0] m IH]; simpl; intros.
  - intuition.
  - destruct (Nat.eqb_spec k0 k); simpl.
    + subst. intuition.
    + rewrite IH. intuition.
Qed.

Lemma keys_aset_nodup : forall V k (v : V) m, NoDup (map fst m) -> NoDup (map fst (aset k v m)).
Proof.
  induction m as [|[k0 v0] m IH]; simpl; intros H.
  - constructor; [intros []|constructor].
  - inversion H; subst. destruct (Nat.eqb_spec k0 k); simpl.
    + subst. constructor; auto.
    + constructor; auto. rewrite keys_aset. intros [E|E]; [congruence|auto].
Qed.

Definition lsum (m : list (nat * list nat)) : nat := fold_right (fun kv acc => length (snd kv) + acc) 0 m.

Lemma fold_left_lsum : forall m a, fold_left (fun acc (kv : nat * list nat) => acc + length (snd kv)) m a = a + lsum m.
Proof. induction m; simpl; intros; [lia|]. rewrite IHm. lia. Qed.

Definition aget (k : nat) (m : list (nat * list nat)) : list nat :=
  match afind k m with Some l => l | None => [] end.

Lemma lsum_aset : forall k v m, lsum (aset k v m) + length (aget k m) = lsum m + length v.
Proof.
  unfold aget. induction m as [|[k0 v0] m IH]; simpl.
  - lia.
  - destruct (Nat.eqb_spec k0 k); simpl; lia.
Qed.

Lemma lsum_ge : forall k m, length (aget k m) <= lsum m.
Proof.
  unfold aget. induction m as [|[k0 v0] m IH]; simpl; [lia|].
  destruct (Nat.eqb_spec k0 k); simpl; lia.
Qed.

Lemma afind_in : forall (m : list (nat * list nat)) k l, NoDup (map fst m) -> In (k, l) m -> afind k m = Some l.
Proof.
  induction m as [|[k0 v0] m IH]; simpl; intros k l Hn Hi; [tauto|].
  inversion Hn; subst. destruct Hi as [E|Hi].
  - inversion E; subst. rewrite Nat.eqb_refl. reflexivity.
  - destruct (Nat.eqb_spec k0 k).
    + subst. exfalso. apply H1. apply (in_map fst) in Hi. exact Hi.
    + auto.
Qed.

Lemma lsum_zero : forall m, NoDup (map fst m) -> (forall k, aget k m = []) -> lsum m = 0.
Proof.
  intros m Hn H.
  assert (forall kv, In kv m -> snd kv = []) as Hall.
  { intros [k l] Hi. simpl. specialize (H k). unfold aget in H. rewrite (afind_in _ _ _ Hn Hi) in H. exact H. }
  clear H Hn. induction m as [|kv m IH]; simpl; [reflexivity|].
  rewrite (Hall kv) by (left; reflexivity). simpl. apply IH. intros; apply Hall; right; assumption.
Qed.

(** ** upd / updf *)

Lemma nth_error_upd : forall A (l : list A) i x j,
  nth_error (upd i x l) j = if Nat.eqb j i then match nth_error l j with Some _ => Some x | None => None end else nth_error l j.
Proof.
  induction l as [|h t IH]; intros i x j; simpl.
  - destruct (Nat.eqb j i); destruct i, j; reflexivity.
  - destruct i, j; simpl; try reflexivity. apply IH.
Qed.

Lemma nth_error_updf : forall A (l : list A) i f j,
  nth_error (updf i f l) j = if Nat.eqb j i then option_map f (nth_error l j) else nth_error l j.
Proof.
  intros. unfold updf. destruct (nth_error l i) eqn:E.
  - rewrite nth_error_upd. destruct (Nat.eqb_spec j i); [subst; rewrite E|]; reflexivity.
  - destruct (Nat.eqb_spec j i); [subst; rewrite E|]; reflexivity.
Qed.

(** ** swap-remove *)

Lemma index_of_split : forall x l i, index_of x l = Some i -> exists a b, l = a ++ x :: b /\ length a = i.
Proof.
  induction l as [|h t IH]; simpl; intros i H; [discriminate|].
  destruct (Nat.eqb_spec h x).
  - inversion H; subst. exists [], t. auto.
  - destruct (index_of x t) eqn:E; [|discriminate]. inversion H; subst.
    destruct (IH _ eq_refl) as (a & b & -> & Hl). exists (h :: a), b. simpl. auto.
Qed.

Lemma firstn_len_app : forall A (a r : list A), firstn (length a) (a ++ r) = a.
Proof. induction a; simpl; intros; [destruct r; reflexivity|]. f_equal. apply IHa. Qed.

Lemma upd_app_mid : forall A (a : list A) x y r, upd (length a) y (a ++ x :: r) = a ++ y :: r.
Proof. induction a; simpl; intros; [reflexivity|]. f_equal. apply IHa. Qed.

Definition swap_remove (idx : nat) (l : list nat) : list nat :=
  let last := length l - 1 in
  let l1 := if Nat.eqb idx last then l else match nth_error l last with Some x => upd idx x l | None => l end in
  firstn last l1.

Lemma swap_remove_perm : forall oi l idx, index_of oi l = Some idx ->
  Permutation l (oi :: swap_remove idx l) /\ length (swap_remove idx l) = length l - 1.
Proof.
  intros oi l idx H. destruct (index_of_split _ _ _ H) as (a & b & -> & Hl). subst idx.
  unfold swap_remove.
  destruct (exists_last (l:=oi :: b)) as (b' & z & Hb); [discriminate|].
  destruct b' as [|y b'].
  - simpl in Hb. inversion Hb; subst. 
    replace (length (a ++ [z]) - 1) with (length a) by (rewrite app_length; simpl; lia).
    rewrite Nat.eqb_refl. rewrite firstn_len_app. split; [|reflexivity].
    symmetry. apply Permutation_cons_append.
  - simpl in Hb. inversion Hb; subst y. subst b. clear Hb.
    replace (length (a ++ oi :: b' ++ [z]) - 1) with (length (a ++ oi :: b')) by (repeat (rewrite app_length; simpl); lia).
    destruct (Nat.eqb_spec (length a) (length (a ++ oi :: b'))) as [E|_].
    { rewrite app_length in E. simpl in E. lia. }
    assert (nth_error (a ++ oi :: b' ++ [z]) (length (a ++ oi :: b')) = Some z) as Hn.
    { replace (a ++ oi :: b' ++ [z]) with ((a ++ oi :: b') ++ [z]) by (rewrite <- app_assoc; reflexivity).
      rewrite nth_error_app2 by lia. rewrite Nat.sub_diag. reflexivity. }
    rewrite Hn.
    rewrite upd_app_mid.
    replace (a ++ z :: b' ++ [z]) with ((a ++ z :: b') ++ [z]) by (rewrite <- app_assoc; reflexivity).
    replace (length (a ++ oi :: b')) with (length (a ++ z :: b')) by (rewrite !app_length; reflexivity).
    rewrite firstn_len_app. split; [|rewrite !app_length; reflexivity].
    rewrite <- Permutation_middle. constructor.
    apply Permutation_app_head. symmetry. apply Permutation_cons_append.
Qed.

(** ** Masks *)

Lemma contains_spec : forall a b, mk_contains a b = true <-> (forall i, N.testbit b i = true -> N.testbit a i = true).
Proof.
  intros. unfold mk_contains. rewrite N.eqb_eq. split.
  - intros H i Hb. rewrite <- H in Hb. rewrite N.land_spec in Hb. apply andb_true_iff in Hb. tauto.
  - intros H. apply N.bits_inj. intro i. rewrite N.land_spec. destruct (N.testbit b i) eqn:E.
    + rewrite (H i E). reflexivity.
    + apply andb_false_r.
Qed.

Lemma nz_bit : forall b, b <> 0%N -> exists i, N.testbit b i = true.
Proof. intros b H. exists (N.log2 b). apply N.bit_log2. exact H. Qed.

Lemma any_spec : forall a b, mk_contains_any a b = true <-> (exists i, N.testbit a i = true /\ N.testbit b i = true).
Proof.
  intros. unfold mk_contains_any. rewrite negb_true_iff, N.eqb_neq. split.
  - intros H. destruct (nz_bit _ H) as [i Hi]. exists i. rewrite N.land_spec in Hi. apply andb_true_iff in Hi. exact Hi.
  - intros [i [Ha Hb]] H0. assert (N.testbit (N.land a b) i = true) as H by (rewrite N.land_spec, Ha, Hb; reflexivity).
    rewrite H0, N.bits_0 in H. discriminate.
Qed.

Lemma set_nz : forall m c, mk_set m c <> 0%N.
Proof.
  intros m c H. unfold mk_set in H. pose proof (N.setbit_eq m (N.of_nat c)) as E. rewrite H, N.bits_0 in E. discriminate.
Qed.

Lemma contains_or_r : forall a b, mk_contains (mk_or a b) b = true.
Proof. intros. apply contains_spec. intros i H. unfold mk_or. rewrite N.lor_spec, H. apply orb_true_r. Qed.

Lemma contains_or_l : forall a b c, mk_contains a c = true -> mk_contains (mk_or a b) c = true.
Proof. intros a b c H. rewrite contains_spec in *. intros i Hi. unfold mk_or. rewrite N.lor_spec, (H i Hi). reflexivity. Qed.

Lemma contains_refl : forall a, mk_contains a a = true.
Proof. intros. apply contains_spec. auto. Qed.

Lemma contains_trans : forall a b c, mk_contains a b = true -> mk_contains b c = true -> mk_contains a c = true.
Proof. intros a b c H1 H2. rewrite contains_spec in *. auto. Qed.

(** The two facts behind every aggregate early-out. *)
Lemma disjoint_not_contained : forall big m b, b <> 0%N -> mk_contains big b = true ->
  mk_contains_any big m = false -> mk_contains m b = false.
Proof.
  intros big m b Hb Hbig Hany. destruct (mk_contains m b) eqn:E; [|reflexivity].
  destruct (nz_bit _ Hb) as [i Hi]. rewrite contains_spec in *.
  assert (mk_contains_any big m = true) as C by (apply any_spec; exists i; auto). congruence.
Qed.

Lemma covered_intersects : forall big old b, b <> 0%N -> mk_contains big b = true ->
  mk_contains old big = true -> mk_contains_any old b = true.
Proof.
  intros big old b Hb Hbig Hold. destruct (nz_bit _ Hb) as [i Hi]. rewrite contains_spec in *.
  apply any_spec. exists i. auto.
Qed.

(** ** The manager invariant *)

Definition obj (s : W) (oi : nat) : option oobj := nth_error (w_obs s) oi.

Definition Pm (o : oobj) : Prop :=
  (o_haswith o = true -> o_with o <> 0%N) /\ (o_hascomps o = true -> o_comps o <> 0%N).

Record MInv0 (s : W) : Prop := {
  mi_lst : forall evt oi, In oi (olist s evt) ->
           exists o, obj s oi = Some o /\ o_event o = evt /\ o_id o <> None /\ Pm o;
  mi_nd : forall evt, NoDup (olist s evt);
  mi_idl : forall oi o, obj s oi = Some o -> o_id o <> None -> In oi (olist s (o_event o));
  mi_has : forall evt, g_has (get_agg s evt) = negb (is_nil (olist s evt));
  mi_aggw : forall evt oi o, g_anynowith (get_agg s evt) = false -> In oi (olist s evt) -> obj s oi = Some o ->
            o_haswith o = true /\ mk_contains (g_allwith (get_agg s evt)) (o_with o) = true;
  mi_aggc : forall evt oi o, is_entity_event evt = false -> g_anynocomps (get_agg s evt) = false ->
            In oi (olist s evt) -> obj s oi = Some o ->
            o_hascomps o = true /\ mk_contains (g_allcomps (get_agg s evt)) (o_comps o) = true;
  mi_keys : NoDup (map fst (w_olists s));
  mi_max : forall evt, olist s evt <> [] -> evt <= w_omax s;
  mi_rel : forall oi o, obj s oi = Some o -> is_relation_event (o_event o) = true ->
           forall c, In c (o_for o) -> is_rel_comp s c = true
}.

Definition MInv (s : W) : Prop := MInv0 s /\ w_ototal s = lsum (w_olists s).

Lemma olist_aget : forall s evt, olist s evt = aget evt (w_olists s).
Proof. reflexivity. Qed.

Lemma olist_aset : forall s s' evt l e, w_olists s' = aset evt l (w_olists s) ->
  olist s' e = if Nat.eqb evt e then l else olist s e.
Proof. intros. unfold olist. rewrite H, afind_aset. destruct (Nat.eqb evt e); reflexivity. Qed.

Lemma get_agg_aset : forall s s' evt g e, w_oagg s' = aset evt g (w_oagg s) ->
  get_agg s' e = if Nat.eqb evt e then g else get_agg s e.
Proof. intros. unfold get_agg. rewrite H, afind_aset. destruct (Nat.eqb evt e); reflexivity. Qed.

Definition mod_agg_st (evt : nat) (f : agg -> agg) (s : W) : W := s <| w_oagg ::= aset evt (f (get_agg s evt)) |>.

Lemma mod_agg_eq : forall evt f s, mod_agg evt f s = Ok tt (mod_agg_st evt f s).
Proof. reflexivity. Qed.

Lemma get_agg_mod_st : forall evt f s e,
  get_agg (mod_agg_st evt f s) e = if Nat.eqb evt e then f (get_agg s evt) else get_agg s e.
Proof. intros. apply get_agg_aset. reflexivity. Qed.

(** ** Frames and mask-building phases of [add_observer] *)

Definition frame (s s' : W) : Prop :=
  w_olists s' = w_olists s /\ w_oagg s' = w_oagg s /\ w_ototal s' = w_ototal s /\
  w_omax s' = w_omax s /\ w_reg s' = w_reg s.

Lemma frame_refl : forall s, frame s s.
Proof. intros; repeat split. Qed.

Lemma frame_trans : forall a b c, frame a b -> frame b c -> frame a c.
Proof. unfold frame. intros a b c (A1&A2&A3&A4&A5) (B1&B2&B3&B4&B5). repeat split; congruence. Qed.

Lemma frame_rel : forall s s' c, frame s s' -> is_rel_comp s' c = is_rel_comp s c.
Proof. intros s s' c (_&_&_&_&H). unfold is_rel_comp. rewrite H. reflexivity. Qed.

Definition static (o o' : oobj) : Prop := o_event o' = o_event o /\ o_for o' = o_for o /\ o_id o' = o_id o.

Lemma static_trans : forall a b c, static a b -> static b c -> static a c.
Proof. unfold static. intros a b c (A1&A2&A3) (B1&B2&B3). repeat split; congruence. Qed.

Definition okf (f : oobj -> oobj) : Prop := forall o, static o (f o) /\ (Pm o -> Pm (f o)).

Definition phase (oi : nat) (m : MW unit) (s : W) : Prop :=
  forall o, obj s oi = Some o -> Pm o ->
  exists s' o', m s = Ok tt s' /\ frame s s' /\
    (forall j, obj s' j = if Nat.eqb j oi then Some o' else obj s j) /\ Pm o' /\ static o o'.

Lemma obj_modO : forall s oi f j,
  obj (s <| w_obs ::= updf oi f |>) j = if Nat.eqb j oi then option_map f (obj s j) else obj s j.
Proof. intros. unfold obj. cbn. apply nth_error_updf. Qed.

Lemma phase_modO : forall oi f s, okf f -> phase oi (modO oi f) s.
Proof.
  intros oi f s Hf o Ho HP. exists (s <| w_obs ::= updf oi f |>), (f o).
  split; [reflexivity|]. split; [repeat split|]. split.
  - intro j. rewrite obj_modO. destruct (Nat.eqb_spec j oi); [subst; rewrite Ho|]; reflexivity.
  - destruct (Hf o). auto.
Qed.

Lemma phase_ret : forall oi s, phase oi (ret tt) s.
Proof.
  intros oi s o Ho HP. exists s, o. split; [reflexivity|]. split; [apply frame_refl|]. split.
  - intro j. destruct (Nat.eqb_spec j oi); [subst; auto|reflexivity].
  - split; [assumption|repeat split].
Qed.

Lemma phase_bind : forall oi m1 m2 s, phase oi m1 s -> (forall s', frame s s' -> phase oi m2 s') ->
  phase oi (m1 ;;; m2) s.
Proof.
  intros oi m1 m2 s H1 H2 o Ho HP.
  destruct (H1 o Ho HP) as (s1 & o1 & E1 & F1 & V1 & P1 & S1).
  assert (obj s1 oi = Some o1) as Ho1 by (rewrite V1, Nat.eqb_refl; reflexivity).
  destruct (H2 s1 F1 o1 Ho1 P1) as (s2 & o2 & E2 & F2 & V2 & P2 & S2).
  exists s2, o2. split; [unfold bind; rewrite E1; exact E2|].
  split; [eapply frame_trans; eauto|]. split.
  - intro j. rewrite V2, V1. destruct (Nat.eqb j oi); reflexivity.
  - split; [assumption|eapply static_trans; eauto].
Qed.

Lemma phase_ext : forall oi (m m' : MW unit) s, m s = m' s -> phase oi m' s -> phase oi m s.
Proof. intros oi m m' s E H o Ho HP. rewrite E. apply H; assumption. Qed.

Lemma phase_forM : forall oi (f : nat -> oobj -> oobj) l s, (forall c, okf (f c)) ->
  phase oi (forM_ l (fun c => modO oi (f c))) s.
Proof.
  intros oi f l. induction l as [|c l IH]; intros s Hf; simpl.
  - apply phase_ret.
  - apply phase_bind; [apply phase_modO; auto|]. intros; apply IH; auto.
Qed.

Lemma phase_forM_guard : forall oi (f : nat -> oobj -> oobj) l s, (forall c, okf (f c)) ->
  (forall c, In c l -> is_rel_comp s c = true) ->
  phase oi (forM_ l (fun c => s0 <- get ;; guard (is_rel_comp s0 c) ENotRelation ;;; modO oi (f c))) s.
Proof.
  intros oi f l. induction l as [|c l IH]; intros s Hf Hr; simpl.
  - apply phase_ret.
  - apply phase_bind.
    + apply phase_ext with (m' := modO oi (f c)); [|apply phase_modO; auto].
      unfold bind at 1, get at 1. rewrite (Hr c) by (left; reflexivity). reflexivity.
    + intros s' F. apply IH; auto. intros c' Hc'. rewrite (frame_rel _ _ _ F). apply Hr. right; assumption.
Qed.

Lemma okf_comps : forall c, okf (fun o => o <| o_comps ::= fun m => mk_set m c |> <| o_hascomps := true |>).
Proof. intros c o. split; [repeat split|]. intros [Hw Hc]. split; cbn; [exact Hw|]. intros _. apply set_nz. Qed.

Lemma okf_with : forall c, okf (fun o => o <| o_with ::= fun m => mk_set m c |> <| o_haswith := true |>).
Proof. intros c o. split; [repeat split|]. intros [Hw Hc]. split; cbn; [|exact Hc]. intros _. apply set_nz. Qed.

Lemma okf_without : forall c, okf (fun o => o <| o_without ::= fun m => mk_set m c |> <| o_haswithout := true |>).
Proof. intros c o. split; [repeat split|]. intros [Hw Hc]. split; cbn; assumption. Qed.

Lemma okf_excl : forall b, okf (fun o => o <| o_without := mk_not b (o_with o) |> <| o_haswithout := true |>).
Proof. intros c o. split; [repeat split|]. intros [Hw Hc]. split; cbn; assumption. Qed.

(** ** [add_observer] *)

Definition Gadd (o' : oobj) (g : agg) : agg :=
  let g1 := g <| g_has := true |> in
  let g2 := if o_haswith o' then g1 <| g_allwith ::= fun m => mk_or m (o_with o') |>
            else g1 <| g_anynowith := true |> in
  if is_entity_event (o_event o') then g2
  else if o_hascomps o' then g2 <| g_allcomps ::= fun m => mk_or m (o_comps o') |>
       else g2 <| g_anynocomps := true |>.

Lemma add_tail : forall s oi o, exists s',
  (modify (fun s => s <| w_olists ::= aset (o_event o) (olist s (o_event o) ++ [oi]) |>
                         <| w_omax ::= fun m => Nat.max m (o_event o) |>
                         <| w_ototal ::= S |>) ;;;
      mod_agg (o_event o) (fun g => g <| g_has := true |>) ;;;
      (if o_haswith o then mod_agg (o_event o) (fun g => g <| g_allwith ::= fun m => mk_or m (o_with o) |>)
       else mod_agg (o_event o) (fun g => g <| g_anynowith := true |>)) ;;;
      if is_entity_event (o_event o) then ret tt
      else if o_hascomps o then mod_agg (o_event o) (fun g => g <| g_allcomps ::= fun m => mk_or m (o_comps o) |>)
      else mod_agg (o_event o) (fun g => g <| g_anynocomps := true |>)) s = Ok tt s' /\
  w_obs s' = w_obs s /\
  w_olists s' = aset (o_event o) (olist s (o_event o) ++ [oi]) (w_olists s) /\
  (forall e, get_agg s' e = if Nat.eqb (o_event o) e then Gadd o (get_agg s (o_event o)) else get_agg s e) /\
  w_ototal s' = S (w_ototal s) /\ w_omax s' = Nat.max (w_omax s) (o_event o) /\ w_reg s' = w_reg s.
Proof.
  intros. unfold bind, modify. unfold Gadd.
  destruct (o_haswith o), (is_entity_event (o_event o)); [| |  |];
    try destruct (o_hascomps o); rewrite ?mod_agg_eq; unfold ret;
    (eexists; split; [reflexivity|]; repeat split;
     intro e; rewrite ?get_agg_mod_st, ?Nat.eqb_refl; destruct (Nat.eqb (o_event o) e); reflexivity).
Qed.

Lemma add_spec : forall s oi, MInv0 s ->
  (exists e, add_observer oi s = Err e s) \/
  (exists o o' s', add_observer oi s = Ok tt s' /\ obj s oi = Some o /\ o_id o = None /\
     o_event o' = o_event o /\ o_for o' = o_for o /\ o_id o' <> None /\ Pm o' /\
     (forall j, obj s' j = if Nat.eqb j oi then Some o' else obj s j) /\
     w_olists s' = aset (o_event o) (olist s (o_event o) ++ [oi]) (w_olists s) /\
     (forall e, get_agg s' e = if Nat.eqb (o_event o) e then Gadd o' (get_agg s (o_event o)) else get_agg s e) /\
     w_ototal s' = S (w_ototal s) /\ w_omax s' = Nat.max (w_omax s) (o_event o) /\ w_reg s' = w_reg s).
Proof.
  intros s oi HI. remember (add_observer oi s) as r eqn:Er. symmetry in Er. unfold add_observer in Er.
  unfold bind at 1, getO at 1, bind at 1, get at 1 in Er. cbv beta iota in Er. fold (obj s oi) in Er.
  destruct (obj s oi) as [o|] eqn:Eo; cbn [of_opt ret fail] in Er; [|left; eexists; symmetry; exact Er].
  unfold bind at 1 in Er. destruct (o_id o) eqn:Eid; cbn [guard ret fail] in Er; [left; eexists; symmetry; exact Er|].
  unfold bind at 1, get at 1 in Er. cbv beta iota in Er.
  destruct (ipool_get None (w_opool s)) as [[id p']|]; [|left; eexists; symmetry; exact Er].
  right.
  unfold bind at 1, put at 1 in Er. cbv beta iota in Er. unfold bind at 1, modO at 1, modify at 1 in Er. cbv beta iota in Er.
  match type of Er with context [bind _ _ ?st] => set (s1 := st) in Er end.
  set (o1 := o <| o_id := Some id |> <| o_hascomps := false |> <| o_haswith := false |> <| o_haswithout := false |>).
  assert (frame s s1) as F1 by (repeat split).
  assert (forall j, obj s1 j = if Nat.eqb j oi then Some o1 else obj s j) as V1.
  { intro j. unfold s1. rewrite obj_modO. change (obj (s <| w_opool := p' |>) j) with (obj s j).
    destruct (Nat.eqb_spec j oi); [subst; rewrite Eo|]; reflexivity. }
  assert (Pm o1) as P1 by (split; cbn; discriminate).
  assert (obj s1 oi = Some o1) as Ho1 by (rewrite V1, Nat.eqb_refl; reflexivity).
  (* phase 1: For *)
  match type of Er with context [bind ?m _ s1] => assert (phase oi m s1) as Ph1 end.
  { destruct (is_relation_event (o_event o)) eqn:Erel.
    - apply phase_forM_guard; [apply okf_comps|]. intros c Hc. rewrite (frame_rel _ _ c F1).
      eapply mi_rel; eauto.
    - destruct (is_entity_event (o_event o)); apply phase_forM; [apply okf_with|apply okf_comps]. }
  destruct (Ph1 o1 Ho1 P1) as (s2 & o2 & E2 & F2 & V2 & P2 & S2).
  unfold bind at 1 in Er. rewrite E2 in Er. clear E2 Ph1.
  assert (obj s2 oi = Some o2) as Ho2 by (rewrite V2, Nat.eqb_refl; reflexivity).
  (* phase 2: With *)
  match type of Er with context [bind ?m _ s2] => assert (phase oi m s2) as Ph2 by (apply phase_forM; apply okf_with) end.
  destruct (Ph2 o2 Ho2 P2) as (s3 & o3 & E3 & F3 & V3 & P3 & S3).
  unfold bind at 1 in Er. rewrite E3 in Er. clear E3 Ph2.
  assert (obj s3 oi = Some o3) as Ho3 by (rewrite V3, Nat.eqb_refl; reflexivity).
  unfold bind at 1, get at 1 in Er. cbv beta iota in Er.
  (* phase 3: Without / Exclusive *)
  match type of Er with context [bind ?m _ s3] => assert (phase oi m s3) as Ph3 end.
  { destruct (o_excl o); [apply phase_modO; apply okf_excl|apply phase_forM; apply okf_without]. }
  destruct (Ph3 o3 Ho3 P3) as (s4 & o4 & E4 & F4 & V4 & P4 & S4).
  unfold bind at 1 in Er. rewrite E4 in Er. clear E4 Ph3.
  assert (obj s4 oi = Some o4) as Ho4 by (rewrite V4, Nat.eqb_refl; reflexivity).
  unfold bind at 1, getO at 1, bind at 1, get at 1 in Er. cbv beta iota in Er. fold (obj s4 oi) in Er. rewrite Ho4 in Er. cbn [of_opt ret] in Er.
  destruct (add_tail s4 oi o4) as (s5 & E5 & T1 & T2 & T3 & T4 & T5 & T6).
  rewrite E5 in Er. subst r.
  assert (static o1 o4) as S14 by (exact (static_trans _ _ _ (static_trans _ _ _ S2 S3) S4)).
  destruct S14 as (Sa & Sb & Sc).
  assert (frame s s4) as F14 by (exact (frame_trans _ _ _ (frame_trans _ _ _ (frame_trans _ _ _ F1 F2) F3) F4)).
  destruct F14 as (Fa & Fb & Fc & Fd & Fe).
  assert (o_event o4 = o_event o) as Eev by (rewrite Sa; reflexivity).
  exists o, o4, s5. split; [reflexivity|]. split; [reflexivity|]. split; [assumption|].
  split; [assumption|]. split; [rewrite Sb; reflexivity|]. split; [rewrite Sc; cbn; discriminate|].
  split; [assumption|]. split.
  { intro j. unfold obj at 1. rewrite T1. fold (obj s4 j). rewrite V4, V3, V2, V1.
    destruct (Nat.eqb j oi); reflexivity. }
  rewrite Eev in *. unfold olist, get_agg in *. rewrite Fa, Fb, Fc, Fd, Fe in *.
  repeat split; assumption.
Qed.

Lemma Gadd_has : forall o g, g_has (Gadd o g) = true.
Proof. intros. unfold Gadd. destruct (o_haswith o), (is_entity_event (o_event o)), (o_hascomps o); reflexivity. Qed.

Lemma Gadd_w : forall o g, g_anynowith (Gadd o g) = false ->
  o_haswith o = true /\ g_anynowith g = false /\ g_allwith (Gadd o g) = mk_or (g_allwith g) (o_with o).
Proof.
  intros o g. unfold Gadd.
  destruct (o_haswith o), (is_entity_event (o_event o)), (o_hascomps o); cbn; intro H; try discriminate; auto.
Qed.

Lemma Gadd_c : forall o g, is_entity_event (o_event o) = false -> g_anynocomps (Gadd o g) = false ->
  o_hascomps o = true /\ g_anynocomps g = false /\ g_allcomps (Gadd o g) = mk_or (g_allcomps g) (o_comps o).
Proof.
  intros o g He. unfold Gadd. rewrite He.
  destruct (o_haswith o), (o_hascomps o); cbn; intro H; try discriminate; auto.
Qed.

Lemma add_inv : forall s oi, MInv s -> MInv (state_of (add_observer oi s)).
Proof.
  intros s oi [HI HT].
  destruct (add_spec s oi HI) as [[e E] | (o & o' & s' & E & Ho & Hid & Hev & Hfor & Hid' & HP & V & L & G & T & Mx & R)];
    rewrite E; simpl; [split; assumption|].
  set (evt := o_event o) in *.
  assert (forall e, ~ In oi (olist s e)) as Hnotin.
  { intros e Hin. destruct (mi_lst _ HI _ _ Hin) as (o0 & Ho0 & _ & Hid0 & _). congruence. }
  pose proof (fun e => olist_aset s s' evt _ e L) as OL. simpl in OL.
  split; [constructor|].
  - (* lst *)
    intros e j Hin. rewrite OL in Hin. rewrite V. destruct (Nat.eqb_spec evt e).
    + subst e. apply in_app_or in Hin. destruct Hin as [Hin | [<- | []]].
      * destruct (Nat.eqb_spec j oi); [subst; exfalso; eapply Hnotin; eauto|]. eapply mi_lst; eauto.
      * rewrite Nat.eqb_refl. exists o'. auto.
    + destruct (Nat.eqb_spec j oi); [subst; exfalso; eapply Hnotin; eauto|]. eapply mi_lst; eauto.
  - (* nd *)
    intro e. rewrite OL. destruct (Nat.eqb evt e); [|apply mi_nd; assumption].
    eapply Permutation_NoDup; [apply Permutation_cons_append|]. constructor; [apply Hnotin|apply mi_nd; assumption].
  - (* idl *)
    intros j oj Hj Hidj. rewrite V in Hj. rewrite OL. destruct (Nat.eqb_spec j oi).
    + inversion Hj; subst oj. rewrite Hev. rewrite Nat.eqb_refl. apply in_or_app. right. left. auto.
    + pose proof (mi_idl _ HI _ _ Hj Hidj) as Hin. destruct (Nat.eqb_spec evt (o_event oj)) as [Ee|]; [|assumption].
      apply in_or_app. left. rewrite Ee. assumption.
  - (* has *)
    intro e. rewrite G, OL. destruct (Nat.eqb evt e); [|apply mi_has; assumption].
    rewrite Gadd_has. destruct (olist s evt); reflexivity.
  - (* aggw *)
    intros e j oj Hany Hin Hj. rewrite G in *. rewrite OL in Hin. rewrite V in Hj. destruct (Nat.eqb_spec evt e).
    + subst e. destruct (Gadd_w _ _ Hany) as (Hw & Hg & ->).
      destruct (Nat.eqb_spec j oi).
      * inversion Hj; subst oj. split; [assumption|apply contains_or_r].
      * apply in_app_or in Hin. destruct Hin as [Hin | [<- | []]]; [|congruence].
        destruct (mi_aggw _ HI _ _ _ Hg Hin Hj). split; [assumption|]. apply contains_or_l. assumption.
    + destruct (Nat.eqb_spec j oi); [subst; exfalso; eapply Hnotin; eauto|]. eapply mi_aggw; eauto.
  - (* aggc *)
    intros e j oj Hent Hany Hin Hj. rewrite G in *. rewrite OL in Hin. rewrite V in Hj. destruct (Nat.eqb_spec evt e).
    + subst e. assert (is_entity_event (o_event o') = false) as Hent' by (rewrite Hev; exact Hent).
      destruct (Gadd_c _ _ Hent' Hany) as (Hw & Hg & ->).
      destruct (Nat.eqb_spec j oi).
      * inversion Hj; subst oj. split; [assumption|apply contains_or_r].
      * apply in_app_or in Hin. destruct Hin as [Hin | [<- | []]]; [|congruence].
        destruct (mi_aggc _ HI _ _ _ Hent Hg Hin Hj). split; [assumption|]. apply contains_or_l. assumption.
    + destruct (Nat.eqb_spec j oi); [subst; exfalso; eapply Hnotin; eauto|]. eapply mi_aggc; eauto.
  - (* keys *)
    rewrite L. apply keys_aset_nodup. apply mi_keys; assumption.
  - (* max *)
    intros e Hne. rewrite OL in Hne. rewrite Mx. destruct (Nat.eqb_spec evt e); [subst; lia|].
    pose proof (mi_max _ HI _ Hne). lia.
  - (* rel *)
    intros j oj Hj Hr c Hc. assert (is_rel_comp s' c = is_rel_comp s c) as -> by (unfold is_rel_comp; rewrite R; reflexivity).
    rewrite V in Hj. destruct (Nat.eqb_spec j oi).
    + inversion Hj; subst oj. rewrite Hev in Hr. rewrite Hfor in Hc. eapply mi_rel; eauto.
    + eapply mi_rel; eauto.
  - (* total *)
    rewrite T, L, HT. pose proof (lsum_aset evt (olist s evt ++ [oi]) (w_olists s)) as H.
    rewrite app_length in H. simpl in H. unfold olist in *. unfold aget in H. lia.
Qed.

(** ** [remove_observer] *)

Lemma recompute_with_spec : forall objs acc aw, recompute_with objs acc = (aw, false) ->
  mk_contains aw acc = true /\ forall o, In o objs -> o_haswith o = true /\ mk_contains aw (o_with o) = true.
Proof.
  induction objs as [|o t IH]; simpl; intros acc aw H.
  - inversion H; subst. split; [apply contains_refl|intros ? []].
  - destruct (o_haswith o) eqn:E; simpl in H; [|discriminate].
    destruct (IH _ _ H) as [Hc Ht]. split.
    + eapply contains_trans; [exact Hc|]. apply contains_or_l, contains_refl.
    + intros o' [<-|Hin]; [|auto]. split; [assumption|]. eapply contains_trans; [exact Hc|]. apply contains_or_r.
Qed.

Lemma recompute_comps_spec : forall objs acc aw, recompute_comps objs acc = (aw, false) ->
  mk_contains aw acc = true /\ forall o, In o objs -> o_hascomps o = true /\ mk_contains aw (o_comps o) = true.
Proof.
  induction objs as [|o t IH]; simpl; intros acc aw H.
  - inversion H; subst. split; [apply contains_refl|intros ? []].
  - destruct (o_hascomps o) eqn:E; simpl in H; [|discriminate].
    destruct (IH _ _ H) as [Hc Ht]. split.
    + eapply contains_trans; [exact Hc|]. apply contains_or_l, contains_refl.
    + intros o' [<-|Hin]; [|auto]. split; [assumption|]. eapply contains_trans; [exact Hc|]. apply contains_or_r.
Qed.

Lemma objs_of_in : forall s l j oj, In j l -> obj s j = Some oj -> In oj (objs_of s l).
Proof.
  intros s l j oj Hin Hj. unfold objs_of. apply in_flat_map. exists j. split; [assumption|].
  unfold obj in Hj. rewrite Hj. left. reflexivity.
Qed.

Lemma rem_spec : forall s oi,
  (exists e, remove_observer oi s = Err e s) \/
  (exists o s' l' g', remove_observer oi s = Ok tt s' /\ obj s oi = Some o /\ o_id o <> None /\
     Permutation (olist s (o_event o)) (oi :: l') /\
     (forall j, obj s' j = if Nat.eqb j oi then Some (o <| o_id := None |>) else obj s j) /\
     w_olists s' = aset (o_event o) l' (w_olists s) /\
     (forall e, get_agg s' e = if Nat.eqb (o_event o) e then g' else get_agg s e) /\
     g_has g' = negb (is_nil l') /\
     (g_anynowith g' = false -> forall j oj, In j l' -> obj s' j = Some oj ->
        o_haswith oj = true /\ mk_contains (g_allwith g') (o_with oj) = true) /\
     (is_entity_event (o_event o) = false -> g_anynocomps g' = false -> forall j oj, In j l' -> obj s' j = Some oj ->
        o_hascomps oj = true /\ mk_contains (g_allcomps g') (o_comps oj) = true) /\
     w_ototal s' = w_ototal s - 1 /\ w_omax s' = w_omax s /\ w_reg s' = w_reg s).
Proof.
  intros s oi. remember (remove_observer oi s) as r eqn:Er. symmetry in Er. unfold remove_observer in Er.
  unfold bind at 1, getO at 1, bind at 1, get at 1 in Er. cbv beta iota in Er. fold (obj s oi) in Er.
  destruct (obj s oi) as [o|] eqn:Eo; cbn [of_opt ret fail] in Er; [|left; eexists; symmetry; exact Er].
  unfold bind at 1 in Er. destruct (o_id o) eqn:Eid; cbn [guard ret fail] in Er; [|left; eexists; symmetry; exact Er].
  unfold bind at 1, get at 1 in Er. cbv beta iota zeta in Er.
  unfold bind at 1 in Er.
  destruct (index_of oi (olist s (o_event o))) as [idx|] eqn:Eidx; cbn [of_opt ret fail] in Er; [|left; eexists; symmetry; exact Er].
  right.
  destruct (swap_remove_perm _ _ _ Eidx) as [Hperm Hlen].
  set (evt := o_event o) in *. set (l' := swap_remove idx (olist s evt)) in *.
  match type of Er with context [aset _ ?x] => change x with l' in Er end.
  unfold bind at 1, modO at 1, modify at 1 in Er. cbv beta iota in Er.
  unfold bind at 1, modify at 1 in Er. cbv beta iota in Er.
  unfold bind at 1 in Er. rewrite mod_agg_eq in Er. cbv beta iota in Er.
  unfold bind at 1, get at 1 in Er. cbv beta iota in Er.
  set (s1 := s <| w_obs ::= updf oi (fun o => o <| o_id := None |>) |>) in *.
  assert (forall j, obj s1 j = if Nat.eqb j oi then Some (o <| o_id := None |>) else obj s j) as V1.
  { intro j. unfold s1. rewrite obj_modO. destruct (Nat.eqb_spec j oi); [subst; rewrite Eo|]; reflexivity. }
  match type of Er with context [objs_of ?st _] => set (sA := st) in * end.
  set (gA := get_agg s evt <| g_has := Nat.ltb 0 (length (olist s evt) - 1) |>).
  assert (forall e, get_agg sA e = if Nat.eqb evt e then gA else get_agg s e) as GA.
  { intro e. unfold sA. rewrite get_agg_mod_st. reflexivity. }
  assert (g_has gA = negb (is_nil l')) as Hhas.
  { unfold gA. cbn. rewrite <- Hlen. destruct l'; reflexivity. }
  destruct (recompute_with (objs_of sA l') 0%N) as [aw nw] eqn:Ew.
  unfold bind at 1 in Er. rewrite mod_agg_eq in Er. cbv beta iota in Er.
  assert (nw = false -> forall j oj, In j l' -> obj sA j = Some oj ->
          o_haswith oj = true /\ mk_contains aw (o_with oj) = true) as HW.
  { intros Hnw j oj Hin Hj. subst nw. destruct (recompute_with_spec _ _ _ Ew) as [_ H]. apply H.
    eapply objs_of_in; eauto. }
  destruct (is_entity_event evt) eqn:Eent.
  - cbn [ret] in Er. subst r.
    exists o. eexists. exists l', (gA <| g_allwith := aw |> <| g_anynowith := nw |>). change (o_event o) with evt. split; [reflexivity|]. split; [reflexivity|]. split; [congruence|].
    split; [exact Hperm|]. split; [exact V1|]. split; [reflexivity|].
    split. { intro e. rewrite get_agg_mod_st, !GA, ?Nat.eqb_refl. destruct (Nat.eqb evt e); reflexivity. }
    split; [exact Hhas|]. split; [cbn; intros Hnw; apply (HW Hnw)|].
    split; [intro; congruence|]. repeat split.
  - destruct (recompute_comps (objs_of sA l') 0%N) as [ac nc] eqn:Ec.
    rewrite mod_agg_eq in Er. subst r.
    exists o. eexists. exists l', (gA <| g_allwith := aw |> <| g_anynowith := nw |> <| g_allcomps := ac |> <| g_anynocomps := nc |>). change (o_event o) with evt. split; [reflexivity|]. split; [reflexivity|]. split; [congruence|].
    split; [exact Hperm|]. split; [exact V1|]. split; [reflexivity|].
    split. { intro e. rewrite !get_agg_mod_st, !GA, ?Nat.eqb_refl. destruct (Nat.eqb evt e); reflexivity. }
    split; [exact Hhas|]. split; [cbn; intros Hnw; apply (HW Hnw)|].
    split; [|repeat split].
    cbn. intros _ Hnc j oj Hin Hj. subst nc. destruct (recompute_comps_spec _ _ _ Ec) as [_ H]. apply H.
    eapply objs_of_in; eauto.
Qed.

Lemma rem_inv : forall s oi, MInv s -> MInv (state_of (remove_observer oi s)).
Proof.
  intros s oi [HI HT].
  destruct (rem_spec s oi) as [[e E] | (o & s' & l' & g' & E & Ho & Hid & Hperm & V & L & G & Hhas & HW & HC & T & Mx & R)];
    rewrite E; simpl; [split; assumption|].
  set (evt := o_event o) in *.
  assert (NoDup (oi :: l')) as Hnd by (eapply Permutation_NoDup; [exact Hperm|apply mi_nd; assumption]).
  inversion Hnd as [|? ? Hnotin Hnd']; subst.
  assert (forall j, In j l' -> In j (olist s evt)) as Hsub.
  { intros j Hj. eapply Permutation_in; [symmetry; exact Hperm|]. right; assumption. }
  assert (forall j, In j (olist s evt) -> j = oi \/ In j l') as Hsup.
  { intros j Hj. apply (Permutation_in _ Hperm) in Hj. destruct Hj; auto. }
  assert (forall e, e <> evt -> ~ In oi (olist s e)) as Hother.
  { intros e Hne Hin. destruct (mi_lst _ HI _ _ Hin) as (o0 & Ho0 & Hev0 & _). unfold evt in Hne. congruence. }
  pose proof (fun e => olist_aset s s' evt _ e L) as OL. simpl in OL.
  assert (forall e j, In j (olist s' e) -> j <> oi /\ In j (olist s e)) as Hin'.
  { intros e j Hin. rewrite OL in Hin. destruct (Nat.eqb_spec evt e).
    - subst e. split; [intro; subst; auto|auto].
    - split; [|assumption]. intro; subst. eapply Hother; eauto. }
  assert (forall j, j <> oi -> obj s' j = obj s j) as V'.
  { intros j Hne. rewrite V. destruct (Nat.eqb_spec j oi); [contradiction|reflexivity]. }
  split; [constructor|].
  - (* lst *)
    intros e j Hin. destruct (Hin' _ _ Hin) as [Hne Hin0]. rewrite (V' _ Hne). eapply mi_lst; eauto.
  - (* nd *)
    intro e. rewrite OL. destruct (Nat.eqb evt e); [assumption|apply mi_nd; assumption].
  - (* idl *)
    intros j oj Hj Hidj. rewrite V in Hj. rewrite OL. destruct (Nat.eqb_spec j oi).
    + inversion Hj; subst oj. cbn in Hidj. congruence.
    + pose proof (mi_idl _ HI _ _ Hj Hidj) as Hin. destruct (Nat.eqb_spec evt (o_event oj)) as [Ee|]; [|assumption].
      rewrite <- Ee in Hin. destruct (Hsup _ Hin); [contradiction|assumption].
  - (* has *)
    intro e. rewrite G, OL. destruct (Nat.eqb evt e); [assumption|apply mi_has; assumption].
  - (* aggw *)
    intros e j oj Hany Hin Hj. destruct (Hin' _ _ Hin) as [Hne Hin0].
    rewrite G in *. rewrite OL in Hin. destruct (Nat.eqb_spec evt e).
    + eapply HW; eauto.
    + rewrite (V' _ Hne) in Hj. eapply mi_aggw; eauto.
  - (* aggc *)
    intros e j oj Hent Hany Hin Hj. destruct (Hin' _ _ Hin) as [Hne Hin0].
    rewrite G in *. rewrite OL in Hin. destruct (Nat.eqb_spec evt e).
    + subst e. eapply HC; eauto.
    + rewrite (V' _ Hne) in Hj. eapply mi_aggc; eauto.
  - (* keys *)
    rewrite L. apply keys_aset_nodup. apply mi_keys; assumption.
  - (* max *)
    intros e Hne. rewrite OL in Hne. rewrite Mx. destruct (Nat.eqb_spec evt e); [subst e|apply mi_max; assumption].
    apply mi_max; [assumption|]. intro H0. rewrite H0 in Hperm. apply Permutation_nil in Hperm. discriminate.
  - (* rel *)
    intros j oj Hj Hr c Hc. assert (is_rel_comp s' c = is_rel_comp s c) as -> by (unfold is_rel_comp; rewrite R; reflexivity).
    rewrite V in Hj. destruct (Nat.eqb_spec j oi).
    + inversion Hj; subst oj. cbn in Hr, Hc. eapply mi_rel; eauto.
    + eapply mi_rel; eauto.
  - (* total *)
    rewrite T, L, HT. pose proof (lsum_aset evt l' (w_olists s)) as H.
    pose proof (Permutation_length Hperm) as Hl. simpl in Hl. unfold olist in Hl. unfold aget in H. lia.
Qed.

(** ** [reset_observers] *)

Lemma MInv0_ext : forall s s', w_obs s' = w_obs s -> w_olists s' = w_olists s -> w_oagg s' = w_oagg s ->
  w_reg s' = w_reg s -> (forall e, olist s' e <> [] -> e <= w_omax s') -> MInv0 s -> MInv0 s'.
Proof.
  intros s s' H1 H2 H3 H4 H5 HI. destruct HI.
  constructor; try exact H5; unfold obj, olist, get_agg, is_rel_comp in *; rewrite ?H1, ?H2, ?H3, ?H4; auto.
Qed.

Lemma forM_modO_many : forall f l s, NoDup l ->
  exists s', forM_ l (fun oi => modO oi f) s = Ok tt s' /\ frame s s' /\
    (forall j, In j l -> obj s' j = option_map f (obj s j)) /\ (forall j, ~ In j l -> obj s' j = obj s j).
Proof.
  intros f l. induction l as [|a t IH]; intros s Hnd; simpl.
  - exists s. split; [reflexivity|]. split; [apply frame_refl|]. split; [intros ? []|reflexivity].
  - inversion Hnd as [|? ? Ha Hnd']; subst.
    destruct (IH (s <| w_obs ::= updf a f |>) Hnd') as (s' & E & F & V1 & V2).
    exists s'. split; [exact E|]. split; [exact F|]. split.
    + intros j [<-|Hj].
      * rewrite (V2 _ Ha), obj_modO, Nat.eqb_refl. reflexivity.
      * rewrite (V1 _ Hj), obj_modO. destruct (Nat.eqb_spec j a); [subst; contradiction|reflexivity].
    + intros j Hj. rewrite V2 by (intro; apply Hj; right; assumption). rewrite obj_modO.
      destruct (Nat.eqb_spec j a); [subst; exfalso; apply Hj; left; reflexivity|reflexivity].
Qed.

Definition clear_evt (evt : nat) : MW unit :=
  s <- get ;;
  if negb (has_obs s evt) then ret tt
  else
    forM_ (olist s evt) (fun oi => modO oi (fun o => o <| o_id := None |>)) ;;;
    modify (fun s => s <| w_olists ::= aset evt [] |>) ;;;
    mod_agg evt (fun _ => agg0).

Lemma clear_step : forall evt s, MInv0 s ->
  exists s', clear_evt evt s = Ok tt s' /\ MInv0 s' /\
    (forall e, olist s' e = if Nat.eqb evt e then [] else olist s e) /\ w_omax s' = w_omax s.
Proof.
  intros evt s HI. unfold clear_evt. unfold bind at 1, get at 1. cbv beta iota.
  destruct (has_obs s evt) eqn:Eh; cbn [negb].
  - (* clear the event *)
    destruct (forM_modO_many (fun o => o <| o_id := None |>) (olist s evt) s (mi_nd _ HI evt))
      as (s1 & E1 & (Fa & Fb & Fc & Fd & Fe) & V1 & V2).
    unfold bind at 1. rewrite E1. unfold bind at 1, modify at 1. cbv beta iota. rewrite mod_agg_eq.
    match goal with |- context [Ok tt ?st] => set (s' := st) end.
    exists s'. split; [reflexivity|].
    assert (forall j, obj s' j = obj s1 j) as V0 by reflexivity.
    assert (forall e, olist s' e = if Nat.eqb evt e then [] else olist s e) as OL.
    { intro e. rewrite (olist_aset s1 s' evt [] e) by reflexivity. unfold olist. rewrite Fa. reflexivity. }
    assert (forall e, get_agg s' e = if Nat.eqb evt e then agg0 else get_agg s e) as G.
    { intro e. unfold s'. rewrite get_agg_mod_st. unfold get_agg. cbn [w_oagg]. 
      change (w_oagg (s1 <| w_olists ::= aset evt [] |>)) with (w_oagg s1). rewrite Fb. reflexivity. }
    assert (forall e j, In j (olist s' e) -> e <> evt /\ In j (olist s e) /\ obj s' j = obj s j) as Hin'.
    { intros e j Hin. rewrite OL in Hin. destruct (Nat.eqb_spec evt e); [destruct Hin|].
      split; [congruence|]. split; [assumption|]. rewrite V0. apply V2. intro Hin2.
      destruct (mi_lst _ HI _ _ Hin) as (o1 & Ho1 & Hev1 & _). destruct (mi_lst _ HI _ _ Hin2) as (o2 & Ho2 & Hev2 & _).
      congruence. }
    split; [|split; [exact OL|exact Fd]].
    constructor.
    + intros e j Hin. destruct (Hin' _ _ Hin) as (Hne & Hin0 & ->). eapply mi_lst; eauto.
    + intro e. rewrite OL. destruct (Nat.eqb evt e); [constructor|apply mi_nd; assumption].
    + intros j oj Hj Hidj. rewrite V0 in Hj. destruct (in_dec Nat.eq_dec j (olist s evt)) as [Hin|Hnin].
      * rewrite (V1 _ Hin) in Hj. destruct (obj s j); simpl in Hj; [|discriminate]. inversion Hj; subst oj. cbn in Hidj. congruence.
      * rewrite (V2 _ Hnin) in Hj. pose proof (mi_idl _ HI _ _ Hj Hidj) as Hin. rewrite OL.
        destruct (Nat.eqb_spec evt (o_event oj)) as [Ee|]; [|assumption]. rewrite <- Ee in Hin. contradiction.
    + intro e. rewrite G, OL. destruct (Nat.eqb evt e); [reflexivity|apply mi_has; assumption].
    + intros e j oj Hany Hin Hj. destruct (Hin' _ _ Hin) as (Hne & Hin0 & Hv). rewrite Hv in Hj. rewrite G in *.
      destruct (Nat.eqb_spec evt e); [congruence|]. eapply mi_aggw; eauto.
    + intros e j oj Hent Hany Hin Hj. destruct (Hin' _ _ Hin) as (Hne & Hin0 & Hv). rewrite Hv in Hj. rewrite G in *.
      destruct (Nat.eqb_spec evt e); [congruence|]. eapply mi_aggc; eauto.
    + change (w_olists s') with (aset evt [] (w_olists s1)). rewrite Fa. apply keys_aset_nodup. apply mi_keys; assumption.
    + intros e Hne. rewrite OL in Hne. change (w_omax s') with (w_omax s1). rewrite Fd.
      destruct (Nat.eqb evt e); [congruence|apply mi_max; assumption].
    + intros j oj Hj Hr c Hc.
      assert (is_rel_comp s' c = is_rel_comp s c) as -> by (unfold is_rel_comp; change (w_reg s') with (w_reg s1); rewrite Fe; reflexivity).
      rewrite V0 in Hj. destruct (in_dec Nat.eq_dec j (olist s evt)) as [Hin|Hnin].
      * rewrite (V1 _ Hin) in Hj. destruct (obj s j) as [o0|] eqn:Ho0; simpl in Hj; [|discriminate]. inversion Hj; subst oj.
        cbn in Hr, Hc. eapply mi_rel; eauto.
      * rewrite (V2 _ Hnin) in Hj. eapply mi_rel; eauto.
  - (* nothing registered for this event *)
    exists s. split; [reflexivity|]. split; [assumption|]. split; [|reflexivity].
    intro e. destruct (Nat.eqb_spec evt e); [subst e|reflexivity].
    unfold has_obs in Eh. rewrite (mi_has _ HI) in Eh. destruct (olist s evt); [reflexivity|discriminate].
Qed.

Lemma clear_loop : forall L s, MInv0 s ->
  exists s', forM_ L clear_evt s = Ok tt s' /\ MInv0 s' /\
    (forall e, In e L -> olist s' e = []) /\ (forall e, olist s e = [] -> olist s' e = []) /\ w_omax s' = w_omax s.
Proof.
  induction L as [|a L IH]; intros s HI; simpl.
  - exists s. split; [reflexivity|]. split; [assumption|]. split; [intros ? []|]. split; auto.
  - destruct (clear_step a s HI) as (s1 & E1 & HI1 & OL1 & M1).
    destruct (IH s1 HI1) as (s2 & E2 & HI2 & A2 & B2 & M2).
    exists s2. split; [unfold bind; rewrite E1; exact E2|]. split; [assumption|].
    split; [|split; [|congruence]].
    + intros e [<-|Hin]; [|auto]. apply B2. rewrite OL1, Nat.eqb_refl. reflexivity.
    + intros e He. apply B2. rewrite OL1. destruct (Nat.eqb a e); [reflexivity|assumption].
Qed.

Lemma reset_spec : forall s, MInv s ->
  exists s', reset_observers s = Ok tt s' /\ MInv s' /\ (forall e, olist s' e = []) /\ w_ototal s' = 0.
Proof.
  intros s [HI HT]. unfold reset_observers. unfold bind at 1, get at 1. cbv beta iota.
  destruct (Nat.eqb_spec (w_ototal s) 0) as [E0|E0].
  - unfold put. eexists. split; [reflexivity|].
    assert (forall e, olist s e = []) as Hall.
    { intro e. pose proof (lsum_ge e (w_olists s)) as H. rewrite olist_aget. destruct (aget e (w_olists s)); [reflexivity|simpl in H; lia]. }
    split; [split|split; [exact Hall|exact E0]].
    + apply (MInv0_ext s); [reflexivity..| |exact HI]. intros e He. exfalso. apply He. apply Hall.
    + exact HT.
  - change (forM_ (seq 0 (S (w_omax s))) _) with (forM_ (seq 0 (S (w_omax s))) clear_evt).
    destruct (clear_loop (seq 0 (S (w_omax s))) s HI) as (s2 & E2 & HI2 & A2 & B2 & M2).
    unfold bind at 1. rewrite E2. unfold modify. eexists. split; [reflexivity|].
    assert (forall e, olist s2 e = []) as Hall.
    { intro e. destruct (le_lt_dec e (w_omax s)) as [Hle|Hlt].
      - apply A2. apply in_seq. lia.
      - apply B2. destruct (olist s e) eqn:El; [reflexivity|]. exfalso.
        assert (e <= w_omax s) by (apply mi_max; [assumption|congruence]). lia. }
    split; [split|split; [exact Hall|reflexivity]].
    + apply (MInv0_ext s2); [reflexivity..| |exact HI2]. intros e He. exfalso. apply He. apply Hall.
    + cbn. symmetry. apply lsum_zero; [apply mi_keys; assumption|]. intro k. rewrite <- olist_aget. apply Hall.
Qed.

(** ** Reachable states satisfy the invariant *)

Lemma init_inv : forall s, obs_init s -> MInv s.
Proof.
  intros s (H1 & H2 & H3 & H4 & H5 & H6).
  assert (forall e, olist s e = []) as OL by (intro; unfold olist; rewrite H1; reflexivity).
  assert (forall e, get_agg s e = agg0) as G by (intro; unfold get_agg; rewrite H2; reflexivity).
  split; [constructor|].
  - intros e j Hin. rewrite OL in Hin. destruct Hin.
  - intro e. rewrite OL. constructor.
  - intros j o Hj Hid. apply nth_error_In in Hj. destruct (H6 _ Hj) as (Hn & _). congruence.
  - intro e. rewrite G, OL. reflexivity.
  - intros e j o _ Hin. rewrite OL in Hin. destruct Hin.
  - intros e j o _ _ Hin. rewrite OL in Hin. destruct Hin.
  - rewrite H1. constructor.
  - intros e He. rewrite OL in He. congruence.
  - intros j o Hj Hr c Hc. apply nth_error_In in Hj. destruct (H6 _ Hj) as (_ & _ & _ & _ & _ & _ & Hrel). auto.
  - rewrite H1, H3. reflexivity.
Qed.

Lemma step_inv : forall s o, MInv s -> MInv (ostep s o).
Proof.
  intros s [oi|oi|] HI; unfold ostep.
  - apply add_inv; assumption.
  - apply rem_inv; assumption.
  - destruct (reset_spec s HI) as (s' & E & HI' & _). rewrite E. exact HI'.
Qed.

Lemma reach_inv : forall ops s, MInv s -> MInv (fold_left ostep ops s).
Proof. induction ops as [|o ops IH]; intros s HI; simpl; [assumption|]. apply IH. apply step_inv. assumption. Qed.

(** ** Soundness of the aggregate early-outs *)

Lemma filter_nil : forall A (f : A -> bool) l, (forall x, In x l -> f x = false) -> filter f l = [].
Proof.
  induction l as [|a l IH]; intros H; simpl; [reflexivity|].
  rewrite (H a) by (left; reflexivity). apply IH. intros; apply H; right; assumption.
Qed.

Lemma fired_nil : forall s evt pred,
  (forall oi o, In oi (olist s evt) -> obj s oi = Some o -> pred o = false) -> fired s evt pred = [].
Proof.
  intros s evt pred H. unfold fired. apply filter_nil. intros oi Hin.
  destruct (nth_error (w_obs s) oi) as [o|] eqn:E; [|reflexivity]. eapply H; eauto.
Qed.

Lemma reg_w : forall s evt oi o, MInv0 s -> g_anynowith (get_agg s evt) = false ->
  In oi (olist s evt) -> obj s oi = Some o ->
  o_haswith o = true /\ o_with o <> 0%N /\ mk_contains (g_allwith (get_agg s evt)) (o_with o) = true.
Proof.
  intros s evt oi o HI Hg Hin Ho. destruct (mi_aggw _ HI _ _ _ Hg Hin Ho) as [Hw Hc].
  destruct (mi_lst _ HI _ _ Hin) as (o' & Ho' & _ & _ & HP & _). rewrite Ho in Ho'. inversion Ho'; subst o'.
  auto.
Qed.

Lemma reg_c : forall s evt oi o, MInv0 s -> is_entity_event evt = false -> g_anynocomps (get_agg s evt) = false ->
  In oi (olist s evt) -> obj s oi = Some o ->
  o_hascomps o = true /\ o_comps o <> 0%N /\ mk_contains (g_allcomps (get_agg s evt)) (o_comps o) = true.
Proof.
  intros s evt oi o HI He Hg Hin Ho. destruct (mi_aggc _ HI _ _ _ He Hg Hin Ho) as [Hw Hc].
  destruct (mi_lst _ HI _ _ Hin) as (o' & Ho' & _ & _ & _ & HP). rewrite Ho in Ho'. inversion Ho'; subst o'.
  auto.
Qed.

Lemma early_with_sound : forall s evt m oi o, MInv0 s -> early_with m (get_agg s evt) = true ->
  In oi (olist s evt) -> obj s oi = Some o -> p_with m o = false.
Proof.
  intros s evt m oi o HI He Hin Ho. unfold early_with in He. apply andb_true_iff in He. destruct He as [H1 H2].
  apply negb_true_iff in H1, H2. destruct (reg_w _ _ _ _ HI H1 Hin Ho) as (Hw & Hnz & Hc).
  unfold p_with. rewrite Hw, (disjoint_not_contained _ _ _ Hnz Hc H2). reflexivity.
Qed.

Lemma early_comps_sound : forall s evt m oi o, MInv0 s -> is_entity_event evt = false ->
  early_comps m (get_agg s evt) = true -> In oi (olist s evt) -> obj s oi = Some o ->
  (o_hascomps o && negb (mk_contains m (o_comps o)))%bool = true.
Proof.
  intros s evt m oi o HI Hent He Hin Ho. unfold early_comps in He. apply andb_true_iff in He. destruct He as [H1 H2].
  apply negb_true_iff in H1, H2. destruct (reg_c _ _ _ _ HI Hent H1 Hin Ho) as (Hw & Hnz & Hc).
  rewrite Hw, (disjoint_not_contained _ _ _ Hnz Hc H2). reflexivity.
Qed.

Lemma early_set_sound : forall s evt cm em oi o, MInv0 s -> is_entity_event evt = false ->
  early_set cm em (get_agg s evt) = true -> In oi (olist s evt) -> obj s oi = Some o -> p_set cm em o = false.
Proof.
  intros s evt cm em oi o HI Hent He Hin Ho. unfold early_set in He. apply orb_true_iff in He. unfold p_set.
  destruct He as [He|He].
  - rewrite (early_comps_sound _ _ _ _ _ HI Hent He Hin Ho). reflexivity.
  - rewrite (early_with_sound _ _ _ _ _ HI He Hin Ho). apply andb_false_r.
Qed.

Lemma early_add_sound : forall s evt old new oi o, MInv0 s -> is_entity_event evt = false ->
  early_add old new (get_agg s evt) = true -> In oi (olist s evt) -> obj s oi = Some o -> p_add old new o = false.
Proof.
  intros s evt old new oi o HI Hent He Hin Ho. unfold early_add in He. apply orb_true_iff in He. unfold p_add.
  destruct He as [He|He].
  - apply andb_true_iff in He. destruct He as [H1 H2]. apply negb_true_iff in H1.
    destruct (reg_c _ _ _ _ HI Hent H1 Hin Ho) as (Hw & Hnz & Hc). rewrite Hw.
    apply orb_true_iff in H2. destruct H2 as [H2|H2].
    + apply negb_true_iff in H2. rewrite (disjoint_not_contained _ _ _ Hnz Hc H2). reflexivity.
    + rewrite (covered_intersects _ _ _ Hnz Hc H2). rewrite orb_true_r. reflexivity.
  - rewrite (early_with_sound _ _ _ _ _ HI He Hin Ho). apply andb_false_r.
Qed.

Lemma early_remove_sound : forall s evt old new oi o, MInv0 s -> is_entity_event evt = false ->
  early_remove old new (get_agg s evt) = true -> In oi (olist s evt) -> obj s oi = Some o -> p_remove old new o = false.
Proof.
  intros s evt old new oi o HI Hent He Hin Ho. unfold early_remove in He. apply orb_true_iff in He. unfold p_remove.
  destruct He as [He|He].
  - apply andb_true_iff in He. destruct He as [H1 H2]. apply negb_true_iff in H1.
    destruct (reg_c _ _ _ _ HI Hent H1 Hin Ho) as (Hw & Hnz & Hc). rewrite Hw.
    apply orb_true_iff in H2. destruct H2 as [H2|H2].
    + apply negb_true_iff in H2. rewrite (disjoint_not_contained _ _ _ Hnz Hc H2). reflexivity.
    + rewrite (covered_intersects _ _ _ Hnz Hc H2). rewrite orb_true_r. reflexivity.
  - rewrite (early_with_sound _ _ _ _ _ HI He Hin Ho). apply andb_false_r.
Qed.

(** ** The dispatch loop *)

Definition sel (obs : list oobj) (pred : oobj -> bool) (oi : nat) : bool :=
  match nth_error obs oi with Some o => pred o | None => false end.

Lemma fire_loop_spec : forall cb pred e, cb_stable cb -> forall obs l s found, w_obs s = obs ->
  (forall oi, In oi l -> nth_error obs oi <> None) ->
  fire_loop cb pred e l found s =
  (forM_ (filter (sel obs pred) l) (fun oi => cb oi e) ;;; ret (found || negb (is_nil (filter (sel obs pred) l)))%bool) s.
Proof.
  intros cb pred e Hcb obs l. induction l as [|a l IH]; intros s found Hs Hv.
  - simpl. unfold bind, ret. rewrite orb_false_r. reflexivity.
  - simpl fire_loop. unfold bind at 1, getO at 1, bind at 1, get at 1. cbv beta iota. rewrite Hs.
    simpl filter.
    destruct (nth_error obs a) as [o|] eqn:Ea; [|exfalso; apply (Hv a); [left; reflexivity|assumption]].
    assert (sel obs pred a = pred o) as Esel by (unfold sel; rewrite Ea; reflexivity). rewrite Esel.
    cbn [of_opt ret].
    assert (forall oi, In oi l -> nth_error obs oi <> None) as Hv' by (intros; apply Hv; right; assumption).
    destruct (pred o) eqn:Ep.
    + destruct (Hcb a e s) as (s' & Ecb & Hobs & _).
      simpl forM_. unfold bind at 1. rewrite Ecb.
      rewrite (IH s' true (eq_trans Hobs Hs) Hv').
      unfold bind. rewrite Ecb. simpl. rewrite orb_true_r. reflexivity.
    + apply IH; assumption.
Qed.

Lemma fire_with_exact : forall cb evt early pred e eo s, cb_stable cb -> MInv0 s ->
  (early (get_agg s evt) = true -> fired s evt pred = []) ->
  fire_with cb evt early pred e eo s = dispatch_spec cb s evt pred e.
Proof.
  intros cb evt early pred e eo s Hcb HI He. unfold fire_with. unfold bind at 1, get at 1. cbv beta iota.
  destruct (eo && early (get_agg s evt))%bool eqn:Eb.
  - apply andb_true_iff in Eb. destruct Eb as [_ Eb]. unfold dispatch_spec. rewrite (He Eb). reflexivity.
  - rewrite (fire_loop_spec cb pred e Hcb (w_obs s) (olist s evt) s false eq_refl).
    + reflexivity.
    + intros oi Hin. destruct (mi_lst _ HI _ _ Hin) as (o & Ho & _). unfold obj in Ho. congruence.
Qed.

(** ** The C08 theorems *)

Lemma not_entity : forall evt,
  evt = EvAddComponents \/ evt = EvRemoveComponents \/ evt = EvAddRelations \/ evt = EvRemoveRelations ->
  is_entity_event evt = false.
Proof. intros evt [ -> | [ -> | [ -> | -> ]]]; reflexivity. Qed.

(** For every manager state reachable by any register / unregister / reset history, every event
    context and both values of earlyOut, dispatch equals the specification: it is independent of
    the aggregates, of earlyOut and of which other observers are registered. One theorem per family. *)

Theorem dispatch_exact_entity :
  forall s0 ops cb evt e m eo, obs_init s0 -> cb_stable cb ->
  (evt = EvCreateEntity \/ evt = EvRemoveEntity) ->
  let s := fold_left ostep ops s0 in
  fire_with cb evt (early_with m) (p_with m) e eo s = dispatch_spec cb s evt (p_with m) e.
Proof.
  intros s0 ops cb evt e m eo Hinit Hcb Hevt s.
  assert (MInv s) as [HI _] by (apply reach_inv, init_inv; assumption). clearbody s.
  apply fire_with_exact; [assumption..|]. intro He. apply fired_nil. intros oi o Hin Ho.
  eapply early_with_sound; eauto.
Qed.

Theorem dispatch_exact_entity_rel :
  forall s0 ops cb evt e m eo, obs_init s0 -> cb_stable cb ->
  (evt = EvAddRelations \/ evt = EvRemoveRelations) ->
  let s := fold_left ostep ops s0 in
  fire_with cb evt (fun g => (early_comps m g || early_with m g)%bool) (p_entity_rel m) e eo s
  = dispatch_spec cb s evt (p_entity_rel m) e.
Proof.
  intros s0 ops cb evt e m eo Hinit Hcb Hevt s.
  assert (MInv s) as [HI _] by (apply reach_inv, init_inv; assumption). clearbody s.
  assert (is_entity_event evt = false) as Hent by (apply not_entity; tauto).
  apply fire_with_exact; [assumption..|]. intro He. apply fired_nil. intros oi o Hin Ho.
  exact (early_set_sound s evt m m oi o HI Hent He Hin Ho).
Qed.

Theorem dispatch_exact_add :
  forall s0 ops cb evt e old new eo, obs_init s0 -> cb_stable cb ->
  (evt = EvAddComponents \/ evt = EvAddRelations) ->
  let s := fold_left ostep ops s0 in
  fire_with cb evt (early_add old new) (p_add old new) e eo s = dispatch_spec cb s evt (p_add old new) e.
Proof.
  intros s0 ops cb evt e old new eo Hinit Hcb Hevt s.
  assert (MInv s) as [HI _] by (apply reach_inv, init_inv; assumption). clearbody s.
  assert (is_entity_event evt = false) as Hent by (apply not_entity; tauto).
  apply fire_with_exact; [assumption..|]. intro He. apply fired_nil. intros oi o Hin Ho.
  eapply early_add_sound; eauto.
Qed.

Theorem dispatch_exact_remove :
  forall s0 ops cb evt e old new eo, obs_init s0 -> cb_stable cb ->
  (evt = EvRemoveComponents \/ evt = EvRemoveRelations) ->
  let s := fold_left ostep ops s0 in
  fire_with cb evt (early_remove old new) (p_remove old new) e eo s = dispatch_spec cb s evt (p_remove old new) e.
Proof.
  intros s0 ops cb evt e old new eo Hinit Hcb Hevt s.
  assert (MInv s) as [HI _] by (apply reach_inv, init_inv; assumption). clearbody s.
  assert (is_entity_event evt = false) as Hent by (apply not_entity; tauto).
  apply fire_with_exact; [assumption..|]. intro He. apply fired_nil. intros oi o Hin Ho.
  eapply early_remove_sound; eauto.
Qed.

(** Set, relation-change and custom events (any event type that is not an entity event). *)
Theorem dispatch_exact_set :
  forall s0 ops cb evt e cm em eo, obs_init s0 -> cb_stable cb ->
  is_entity_event evt = false -> evt < 256 ->
  let s := fold_left ostep ops s0 in
  fire_with cb evt (early_set cm em) (p_set cm em) e eo s = dispatch_spec cb s evt (p_set cm em) e.
Proof.
  intros s0 ops cb evt e cm em eo Hinit Hcb Hent _ s.
  assert (MInv s) as [HI _] by (apply reach_inv, init_inv; assumption). clearbody s.
  apply fire_with_exact; [assumption..|]. intro He. apply fired_nil. intros oi o Hin Ho.
  eapply early_set_sound; eauto.
Qed.

(** The batch idiom (early-out on the first row only, stop when the first row fired nothing) equals
    per-entity dispatch when all rows share the masks: if nothing fires for the first entity,
    nothing fires for any (the predicates do not depend on the entity). *)
Theorem fired_entity_independent :
  forall s evt pred, fired s evt pred = [] ->
  forall cb e, cb_stable cb -> dispatch_spec cb s evt pred e = Ok false s.
Proof. intros s evt pred H cb e _. unfold dispatch_spec. rewrite H. reflexivity. Qed.

(** Registration state is exact: after any history an observer is in the list of its event iff it was
    registered and not unregistered since; the total count is the sum of the list lengths. *)
Theorem total_count_exact :
  forall s0 ops, obs_init s0 ->
  let s := fold_left ostep ops s0 in
  w_ototal s = fold_left (fun acc kv => acc + length (snd kv)) (w_olists s) 0.
Proof.
  intros s0 ops Hinit s.
  assert (MInv s) as [_ HT] by (apply reach_inv, init_inv; assumption). clearbody s.
  rewrite fold_left_lsum. exact HT.
Qed.

(** Reset unregisters everything, whatever event types are in use (including 255). *)
Theorem reset_clears_all :
  forall s0 ops evt, obs_init s0 ->
  let s := ostep (fold_left ostep ops s0) OResetObs in
  olist s evt = [] /\ has_obs s evt = false /\ w_ototal s = 0.
Proof.
  intros s0 ops evt Hinit s.
  assert (MInv (fold_left ostep ops s0)) as HI by (apply reach_inv, init_inv; assumption).
  destruct (reset_spec _ HI) as (s' & E & [HI' _] & Hall & HT).
  subst s. change (ostep (fold_left ostep ops s0) OResetObs) with (state_of (reset_observers (fold_left ostep ops s0))).
  rewrite E. simpl. split; [apply Hall|]. split; [|exact HT].
  unfold has_obs. rewrite (mi_has _ HI'), Hall. reflexivity.
Qed.

