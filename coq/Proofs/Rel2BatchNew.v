(** * Rel2BatchNew: the batch CREATION operations in the relation tier (worlds WITH relation components).
    Helper prefix [r2n_].

    Item 2 of proof package B. Standing hypotheses: [St2 s], [r2d_KeysLive s], [r2e_noobs s] (no observers),
    [is_locked s = false], [room_n s n]; the invariant [r2n_inv = St2 /\ r2d_KeysLive /\ r2e_noobs] is proved in
    EVERY outcome of both operations (the state at a panic included).

    (a) [w_new_entities n fn] (World.NewEntities): [r2n_new_entities_spec] (both outcomes), [r2n_new_entities_ok]
        (never fails without a callback or with a lock bit available); the only failure is [EBits] at [lockM]
        AFTER the entities were created ([r2n_new_entities_fails_after_creating] realises it).
    (b) [w_new_batch n ids rels vals fn] (MapN.NewBatch / NewBatchFn), additionally [registered s ids] and
        [r2n_handles s rels] (the relation targets are proper handles: zero entity, stored, or recognisably dead):
        [r2n_new_batch_spec] (success and the four failures, each with its exact reason), its projection
        [r2n_new_batch_spec_partial], and "valid calls succeed": [r2n_new_batch_ok_checked] (from what the code
        checks), [r2n_new_batch_ok] (from [r2a_rels_ok] / [r2a_rels_complete] of Rel2Ops).
        Decomposition: [r2n_to_relations] (ToRelations is a pure check), [r2n_finder] (the table finder of a
        creation; [r2n_finder_dup]: a relation component named twice is rejected), [r2n_create_entities],
        [r2n_new_entities_run] (storage.newEntities with relations), [r2n_cb_phase] (the callback loop for
        ARBITRARY value lists), [r2n_setcells] / [r2n_cells_post] (rewriting cells keeps [St2]), and
        [r2n_callback_phase] (lock, callbacks, unlock).

    Findings.
    - NewBatchFn has NO deferred unlock: if the callback panics (here: a value naming a component the batch
      lacks, [ENil], only when [n > 0]) the entities exist and THE WORLD STAYS LOCKED with the bit taken for the
      callbacks; the storage invariant still holds ([r2n_new_batch_spec] case 4, [r2n_new_batch_stays_locked]).
    - with a callback, the lock is taken after the creation: without a lock bit the call panics ([EBits]) with
      the entities created and the world unlocked (case 3).
    - (refuted) without [r2n_handles] the invariant is not kept: a forged handle (id 0, generation <> 0) passes
      "id 0 or alive" in ToRelations and createTable: [r2n_new_batch_forged_refuted]; without [registered s ids]
      neither: [r2n_new_batch_unregistered_refuted]. Neither can be produced through the typed API.
    - a value list is only looked at when there is a row: [n = 0] succeeds with any [vals]
      ([r2n_new_batch_outcomes]). *)
From Ark Require Import Model.Base Model.Mask Model.Pool Model.Util Model.World Model.Run.
From Ark Require Import Proofs.TableProofs Proofs.UtilProofs Proofs.MaskProofs Proofs.WF Proofs.StorageA Proofs.StorageBDefs
  Proofs.StorageB_sb1 Proofs.StorageB_sb2 Proofs.StorageB_sb3 Proofs.StorageC Proofs.RelProofs Proofs.ResetShrinkProofs Proofs.BatchProofs Proofs.ViewProofs
  Proofs.BatchOps Proofs.Rel2Defs Proofs.Rel2Struct Proofs.Rel2Remove Proofs.Rel2SetRel Proofs.Rel2Ops Proofs.Rel2Maint Proofs.Rel2Hist.
From Ark Require Properties.Common Proofs.Rel2Check.
From RecordUpdate Require Import RecordSet.
Import RecordSetNotations.
From Coq Require Import Lia.

(* ================================================================================================ *)
(** * Vocabulary *)

(** The invariant of the relation tier between operations (without the lock, which is stated separately). *)
Definition r2n_inv (s : W) : Prop := St2 s /\ r2d_KeysLive s /\ r2e_noobs s.

(** Nobody but the entities of [es] changes. *)
Definition r2n_others (s s' : W) (es : list ent) : Prop :=
  forall e, ~ In e es -> live s' e = live s e /\ (forall c, val s' e c = val s e c) /\ (forall c, tgt s' e c = tgt s e c).

(** Nobody changes at all. *)
Definition r2n_nobody (s s' : W) : Prop :=
  forall e, live s' e = live s e /\ (forall c, val s' e c = val s e c) /\ (forall c, tgt s' e c = tgt s e c).

(** [es] are [n] pairwise distinct entities that were not stored before and are stored and alive now. *)
Definition r2n_fresh (s s' : W) (n : nat) (es : list ent) : Prop :=
  length es = n /\ NoDup es /\ forall e, In e es -> live s e = false /\ live s' e = true /\ alive s' e = true.

Lemma r2n_noobs_oagg : forall s s', w_oagg s' = w_oagg s -> r2e_noobs s -> r2e_noobs s'.
Proof. intros s s' E H ev. unfold has_obs, get_agg. rewrite E. apply (H ev). Qed.

Lemma r2n_unlocked_mask : forall s, is_locked s = false -> lk_mask (w_lock s) = 0%N.
Proof.
  intros s Hunl. unfold is_locked, lock_is_locked, mk_is_zero in Hunl. apply negb_false_iff in Hunl. apply N.eqb_eq in Hunl. exact Hunl.
Qed.

(* ================================================================================================ *)
(** * Part A: World.NewEntities(n, fn) *)

(** Both outcomes of [w_new_entities n fn] on an unlocked world of the relation tier without observers.
    Success: [n] fresh, pairwise distinct entities without components (hence without values and relation
    targets), nobody else changes, the world is unlocked again, the log got one entry per new entity iff a
    callback was passed. Failure: only with a callback when no lock bit is available ([EBits]); the entities
    HAVE been created then (the lock is taken after the creation, cf. [new_entities_spec_refuted] of
    BatchProofs), the invariant holds, the world is unlocked, lock / log / observers are untouched. *)
Theorem r2n_new_entities_spec : forall s n fn,
  St2 s -> r2d_KeysLive s -> r2e_noobs s -> is_locked s = false -> room_n s n ->
  match w_new_entities n fn s with
  | Ok _ s' =>
      St2 s' /\ r2d_KeysLive s' /\ r2e_noobs s' /\ is_locked s' = false /\ frame_user s s' /\
      (fn = true -> lock_lock (w_lock s) <> None) /\
      exists es, r2n_fresh s s' n es /\
        (forall e, In e es -> (forall c, val s' e c = None) /\ (forall c, tgt s' e c = None)) /\
        r2n_others s s' es /\
        w_log s' = w_log s ++ (if fn then map b_entry es else [])
  | Err er s' =>
      er = EBits /\ fn = true /\ lock_lock (w_lock s) = None /\
      St2 s' /\ r2d_KeysLive s' /\ r2e_noobs s' /\ is_locked s' = false /\ frame_user s s' /\ side_same s s' /\
      exists es, r2n_fresh s s' n es /\
        (forall e, In e es -> (forall c, val s' e c = None) /\ (forall c, tgt s' e c = None)) /\
        r2n_others s s' es
  end.
Proof.
  intros s n fn HS HK Hno Hunl Hroom.
  destruct (r2d_new_entities_run s n HS HK Hroom)
    as (start & s2 & es & t' & Hrun & HS2 & HK2 & Hside & Hfr & Hlen & Hnd & Hin & Hout & Ht' & Hl' & Hes).
  pose proof Hside as (Elock & Elog & _ & _ & Eagg & _).
  assert (Hno2 : r2e_noobs s2) by (apply (r2n_noobs_oagg s s2 Eagg Hno)).
  assert (Hunl2 : is_locked s2 = false) by (unfold is_locked; rewrite Elock; exact Hunl).
  assert (Hfresh : r2n_fresh s s2 n es).
  { split; [exact Hlen|]. split; [exact Hnd|]. intros e He. destruct (Hin e He) as (L1 & L2 & L3 & _). repeat split; assumption. }
  assert (Hnone : forall e, In e es -> (forall c, val s2 e c = None) /\ (forall c, tgt s2 e c = None)).
  { intros e He. destruct (Hin e He) as (_ & _ & _ & V & T). split; assumption. }
  pose proof (sb2_table_ok _ _ _ (proj1 HS2) Ht') as Hok'.
  pose proof (tbl_ok_elim _ Hok') as (O1 & O2 & _).
  assert (Hpre : w_new_entities n fn s =
                 (l <- (if fn then lockM else ret 0) ;;
                  whenM fn (forM_ (seq start n) (fun i => batch_callback 0 [] i)) ;;;
                  whenM false (m <- arch_mask_of_table 0 ;; es <- rows_of 0 start n ;;
                               fire_rows (fun e eo => fire_create_entity e m eo) es true) ;;;
                  whenM fn (unlockM l)) s2).
  { unfold w_new_entities.
    rewrite (sa_bind_ok (sb1_check_locked_ok s Hunl)).
    rewrite (sa_bind_ok Hrun). cbv beta iota.
    unfold bind at 1. unfold get at 1. cbv zeta. rewrite (Hno2 EvCreateEntity). cbn [orb]. reflexivity. }
  rewrite Hpre. clear Hpre.
  destruct fn.
  - (* with a callback: lock, callbacks, unlock *)
    destruct (lock_lock (w_lock s)) as [[b l']|] eqn:LL.
    + pose proof (bo_lock_cycle s b l' Hunl LL) as LU.
      set (l'' := {| lk_pool := ipool_recycle (lk_pool l') b; lk_mask := 0%N |}) in *.
      set (L := map (fun r => b_entry (nth r (t_ents t') zero_ent)) (seq start n)).
      set (s3 := s2 <| w_lock := l' |>).
      set (s4 := b_logged s3 L).
      set (s5 := s4 <| w_lock := l'' |>).
      assert (E : (l <- lockM ;;
                   whenM true (forM_ (seq start n) (fun i => batch_callback 0 [] i)) ;;;
                   whenM false (m <- arch_mask_of_table 0 ;; es <- rows_of 0 start n ;;
                                fire_rows (fun e eo => fire_create_entity e m eo) es true) ;;;
                   whenM true (unlockM l)) s2 = Ok tt s5).
      { rewrite (sa_bind_ok (v_lockM_ok s2 b l' ltac:(rewrite Elock; exact LL))). fold s3. cbn [whenM].
        rewrite (sa_bind_ok (b_callback_loop 0 t' (seq start n) s3 Ht' ltac:(intros r Hr; apply in_seq in Hr; lia))).
        fold L. fold s4.
        rewrite (sa_bind_ok (m := ret tt) (s := s4) eq_refl).
        apply (v_unlockM_ok s4 b l''). exact LU. }
      rewrite E.
      assert (SS : storage_same s2 s5) by (unfold storage_same; repeat split).
      pose proof (sb3_storage_same_content s2 s5 SS) as Hcs. pose proof (r2c_storage_same_tgt s2 s5 SS) as Hts.
      split; [apply (r2c_storage_same_St2 s2 s5 SS HS2)|].
      split.
      { apply (r2d_KeysLive_mono s2 s5 HK2 eq_refl). intros x Hx. rewrite (proj1 (Hcs x)). exact Hx. }
      split; [apply (r2n_noobs_oagg s2 s5 eq_refl Hno2)|].
      split; [reflexivity|].
      split; [apply (sb1_frame_user_trans _ _ _ Hfr); unfold frame_user; repeat split|].
      split; [intros _; discriminate|].
      exists es. split.
      { split; [exact Hlen|]. split; [exact Hnd|]. intros e He. destruct (Hin e He) as (L1 & L2 & L3 & _).
        split; [exact L1|]. split; [rewrite (proj1 (Hcs e)); exact L2|exact L3]. }
      split.
      { intros e He. destruct (Hnone e He) as (V & T).
        split; [intros c; rewrite (proj2 (Hcs e)); apply V|intros c; rewrite (Hts e c); apply T]. }
      split.
      { intros e He. destruct (Hout e He) as (L1 & V & T). split; [rewrite (proj1 (Hcs e)); exact L1|].
        split; [intros c; rewrite (proj2 (Hcs e)); apply V|intros c; rewrite (Hts e c); apply T]. }
      change (w_log s5) with (w_log s2 ++ L). rewrite Elog. f_equal.
      rewrite <- Hes. rewrite (b_firstn_skipn_seq _ (t_ents t') zero_ent n start) by lia.
      unfold L. rewrite map_map. reflexivity.
    + (* no lock bit: the entities exist, the call panics *)
      rewrite (sa_bind_err (v_lockM_err s2 ltac:(rewrite Elock; exact LL))).
      split; [reflexivity|]. split; [reflexivity|]. split; [reflexivity|].
      split; [exact HS2|]. split; [exact HK2|]. split; [exact Hno2|]. split; [exact Hunl2|]. split; [exact Hfr|]. split; [exact Hside|].
      exists es. split; [exact Hfresh|]. split; [exact Hnone|exact Hout].
  - (* without a callback nothing is locked *)
    assert (E : (l <- ret 0 ;;
                 whenM false (forM_ (seq start n) (fun i => batch_callback 0 [] i)) ;;;
                 whenM false (m <- arch_mask_of_table 0 ;; es <- rows_of 0 start n ;;
                              fire_rows (fun e eo => fire_create_entity e m eo) es true) ;;;
                 whenM false (unlockM l)) s2 = Ok tt s2) by reflexivity.
    rewrite E.
    split; [exact HS2|]. split; [exact HK2|]. split; [exact Hno2|]. split; [exact Hunl2|]. split; [exact Hfr|].
    split; [intros Hc; discriminate Hc|].
    exists es. split; [exact Hfresh|]. split; [exact Hnone|]. split; [exact Hout|].
    rewrite Elog, app_nil_r. reflexivity.
Qed.

(** NewEntities never fails without a callback, or when a lock bit is available. *)
Corollary r2n_new_entities_ok : forall s n fn,
  St2 s -> r2d_KeysLive s -> r2e_noobs s -> is_locked s = false -> room_n s n ->
  (fn = false \/ lock_lock (w_lock s) <> None) ->
  exists s', w_new_entities n fn s = Ok tt s'.
Proof.
  intros s n fn HS HK Hno Hunl Hroom Hc.
  pose proof (r2n_new_entities_spec s n fn HS HK Hno Hunl Hroom) as H.
  destruct (w_new_entities n fn s) as [[] s'|er s']; [exists s'; reflexivity|].
  destruct H as (_ & Hfn & LL & _). destruct Hc as [Hc|Hc]; [congruence|contradiction].
Qed.

(** ** Non-vacuity and the two outcomes, on a reachable relation world

    [r2a_ex_world] (Rel2Ops): parent (2,0), (3,0), child (4,0) with components 2, 3 and relation 3 -> (2,0). *)

Lemma r2n_small : forall k, k < 1024 -> k < Nat.pow 2 31.
Proof.
  intros k H. assert (E : Nat.pow 2 10 = 1024) by reflexivity.
  pose proof (Nat.pow_le_mono_r 2 10 31 ltac:(discriminate) ltac:(repeat constructor)) as Hle.
  set (P := Nat.pow 2 31) in *. clearbody P. rewrite E in Hle. lia.
Qed.

Lemma r2n_noobs_nil : forall s, w_oagg s = [] -> r2e_noobs s.
Proof. intros s E ev. unfold has_obs, get_agg. rewrite E. reflexivity. Qed.

Lemma r2n_ex_hyps : st2_b r2a_ex_world = true /\ r2d_keys_live_b r2a_ex_world = true /\ w_oagg r2a_ex_world = [] /\
  is_locked r2a_ex_world = false /\ length (pe (w_pool r2a_ex_world)) = 5 /\
  live r2a_ex_world (4, 0%N) = true /\ tgt r2a_ex_world (4, 0%N) 3 = Some (2, 0%N) /\
  lock_lock (w_lock r2a_ex_world) <> None /\ w_log r2a_ex_world = [].
Proof. vm_compute. repeat split. discriminate. Qed.

Lemma r2n_ex_pre : forall n, n < 1000 -> St2 r2a_ex_world /\ r2d_KeysLive r2a_ex_world /\ r2e_noobs r2a_ex_world /\
  is_locked r2a_ex_world = false /\ room_n r2a_ex_world n.
Proof.
  intros n Hn. destruct r2n_ex_hyps as (HB & HKb & Ho & Hl & LP & _).
  pose proof (st2_b_sound _ HB) as HS.
  split; [exact HS|]. split; [apply (r2d_keys_live_b_sound _ (proj1 HS) HKb)|]. split; [apply r2n_noobs_nil; exact Ho|].
  split; [exact Hl|]. unfold room_n. rewrite LP. apply r2n_small. lia.
Qed.

(** the hypotheses of [r2n_new_entities_spec] hold in a reachable world with a relation, and BY THE THEOREM the
    call succeeds, creates three entities, logs them, and the child keeps its parent *)
Example r2n_new_entities_nonvacuous : forall fn,
  exists s', w_new_entities 3 fn r2a_ex_world = Ok tt s' /\ St2 s' /\ r2d_KeysLive s' /\ is_locked s' = false /\
    (exists es, length es = 3 /\ NoDup es /\ (forall e, In e es -> live s' e = true /\ tgt s' e 3 = None) /\
                w_log s' = if fn then map b_entry es else []) /\
    live s' (4, 0%N) = true /\ tgt s' (4, 0%N) 3 = Some (2, 0%N).
Proof.
  intros fn. destruct (r2n_ex_pre 3 ltac:(lia)) as (HS & HK & Hno & Hunl & Hroom).
  destruct r2n_ex_hyps as (_ & _ & _ & _ & _ & L4 & T4 & LL & Elog).
  destruct (r2n_new_entities_ok r2a_ex_world 3 fn HS HK Hno Hunl Hroom (or_intror LL)) as (s' & E).
  pose proof (r2n_new_entities_spec r2a_ex_world 3 fn HS HK Hno Hunl Hroom) as P. rewrite E in P.
  destruct P as (P1 & P2 & _ & P4 & _ & _ & es & (F1 & F2 & F3) & Pn & Po & Plog).
  exists s'. split; [exact E|]. split; [exact P1|]. split; [exact P2|]. split; [exact P4|].
  assert (Hnin : ~ In (4, 0%N) es) by (intros Hin; destruct (F3 _ Hin) as (Hc & _); congruence).
  destruct (Po _ Hnin) as (Q1 & _ & Q3).
  split.
  - exists es. split; [exact F1|]. split; [exact F2|]. split.
    + intros e He. destruct (F3 e He) as (_ & Hl & _). destruct (Pn e He) as (_ & Ht). split; [exact Hl|exact (Ht 3)].
    + rewrite Plog, Elog. reflexivity.
  - split; [rewrite Q1; exact L4|rewrite Q3; exact T4].
Qed.

(** the failing outcome is real: any world of the tier whose lock has handed out all its bits while nothing is
    locked (the lock state of [new_entities_spec_refuted]) still satisfies the hypotheses *)
Lemma r2n_nobits_pre : forall s n, St2 s -> r2d_KeysLive s -> r2e_noobs s -> room_n s n ->
  let s' := s <| w_lock := b_bad_lock |> in
  St2 s' /\ r2d_KeysLive s' /\ r2e_noobs s' /\ is_locked s' = false /\ room_n s' n /\ lock_lock (w_lock s') = None /\
  (forall e, live s' e = live s e).
Proof.
  intros s n HS HK Hno Hroom s'.
  assert (SS : storage_same s s') by (unfold storage_same; repeat split).
  pose proof (sb3_storage_same_content _ _ SS) as Hcs.
  split; [apply (r2c_storage_same_St2 _ _ SS HS)|].
  split; [apply (r2d_KeysLive_mono s s' HK eq_refl); intros x Hx; exact (eq_trans (proj1 (Hcs x)) Hx)|].
  split; [apply (r2n_noobs_oagg s s' eq_refl Hno)|].
  split; [reflexivity|]. split; [exact Hroom|]. split; [reflexivity|]. intros e. apply (Hcs e).
Qed.

Definition r2n_ex_nobits : W := r2a_ex_world <| w_lock := b_bad_lock |>.

(** ... and there the callback variant panics AFTER creating the entities *)
Example r2n_new_entities_fails_after_creating :
  St2 r2n_ex_nobits /\ r2d_KeysLive r2n_ex_nobits /\ r2e_noobs r2n_ex_nobits /\ is_locked r2n_ex_nobits = false /\ room_n r2n_ex_nobits 2 /\ exists s', w_new_entities 2 true r2n_ex_nobits = Err EBits s' /\ St2 s' /\ r2d_KeysLive s' /\ is_locked s' = false /\   exists es, length es = 2 /\ NoDup es /\ forall e, In e es -> live r2n_ex_nobits e = false /\ live s' e = true.
Proof.
  destruct (r2n_ex_pre 2 ltac:(lia)) as (HS & HK & Hno & Hunl & Hroom).
  pose proof (r2n_nobits_pre r2a_ex_world 2 HS HK Hno Hroom) as H. cbv zeta in H. fold r2n_ex_nobits in H.
  destruct H as (HS' & HK' & Hno' & Hunl' & Hroom' & LL' & _).
  split; [exact HS'|]. split; [exact HK'|]. split; [exact Hno'|]. split; [exact Hunl'|]. split; [exact Hroom'|].
  pose proof (r2n_new_entities_spec r2n_ex_nobits 2 true HS' HK' Hno' Hunl' Hroom') as P.
  destruct (w_new_entities 2 true r2n_ex_nobits) as [[] s'|er s'].
  - exfalso. destruct P as (_ & _ & _ & _ & _ & Hl & _). exact (Hl eq_refl LL').
  - destruct P as (Eer & _ & _ & P1 & P2 & _ & P4 & _ & _ & es & (F1 & F2 & F3) & _). subst er.
    exists s'. split; [reflexivity|]. split; [exact P1|]. split; [exact P2|]. split; [exact P4|].
    exists es. split; [exact F1|]. split; [exact F2|]. intros e He. destruct (F3 e He) as (A & B & _). split; [exact A|exact B].
Qed.

(* ================================================================================================ *)
(** * Part B: MapN.NewBatch / NewBatchFn ([w_new_batch n ids rels vals fn]) *)

(** ** B.1 relationSlice.ToRelations: a pure check *)

(** What [to_relations (mk_of_list ids)] accepts: every target is the zero id or alive, every named component is a
    relation component and one of [ids]. *)
Definition r2n_rels_checked (s : W) (ids : list nat) (rels : list rel) : Prop :=
  forall r, In r rels -> (fst (snd r) = 0 \/ alive s (snd r) = true) /\ is_rel_comp s (fst r) = true /\ In (fst r) ids.

Lemma r2n_to_relations : forall ids rels s,
  match to_relations (mk_of_list ids) rels s with
  | Ok _ s' => s' = s /\ r2n_rels_checked s ids rels
  | Err er s' => s' = s /\ (er = EDeadTarget \/ er = ENotRelation \/ er = ERelNotInMask) /\
      exists r, In r rels /\ ((fst (snd r) <> 0 /\ alive s (snd r) = false) \/ is_rel_comp s (fst r) = false \/ ~ In (fst r) ids)
  end.
Proof.
  intros ids rels. induction rels as [|r rest IH]; intros s.
  - cbn. split; [reflexivity|]. intros r [].
  - unfold to_relations. cbn [forM_]. fold (to_relations (mk_of_list ids) rest).
    unfold bind at 1. unfold bind at 1. unfold get at 1. cbv beta iota.
    destruct (Nat.eqb (fst (snd r)) 0 || alive s (snd r))%bool eqn:B1; cbn [guard].
    2:{ rewrite (sa_bind_err (m := fail EDeadTarget) (s := s) (e := EDeadTarget) (s' := s) eq_refl).
        split; [reflexivity|]. split; [left; reflexivity|]. exists r. split; [left; reflexivity|]. left.
        apply orb_false_iff in B1. destruct B1 as (B1 & B2). apply Nat.eqb_neq in B1. split; assumption. }
    rewrite (sa_bind_ok (m := ret tt) (s := s) eq_refl).
    destruct (is_rel_comp s (fst r)) eqn:B2; cbn [guard].
    2:{ rewrite (sa_bind_err (m := fail ENotRelation) (s := s) (e := ENotRelation) (s' := s) eq_refl).
        split; [reflexivity|]. split; [right; left; reflexivity|]. exists r. split; [left; reflexivity|]. right. left. exact B2. }
    rewrite (sa_bind_ok (m := ret tt) (s := s) eq_refl).
    destruct (mk_get (mk_of_list ids) (fst r)) eqn:B3; cbn [guard].
    2:{ split; [reflexivity|]. split; [right; right; reflexivity|]. exists r. split; [left; reflexivity|]. right. right.
        intros Hin. apply mk_get_of_list in Hin. congruence. }
    unfold ret at 1. specialize (IH s).
    destruct (to_relations (mk_of_list ids) rest s) as [[] s'|er s'].
    + destruct IH as (-> & IH). split; [reflexivity|]. intros x [<-|Hx]; [|apply IH; exact Hx].
      split; [|split; [exact B2|apply mk_get_of_list; exact B3]].
      apply orb_true_iff in B1. destruct B1 as [B1|B1]; [left; apply Nat.eqb_eq; exact B1|right; exact B1].
    + destruct IH as (-> & Her & x & Hx & Hwhy). split; [reflexivity|]. split; [exact Her|]. exists x. split; [right; exact Hx|exact Hwhy].
Qed.

(** ** B.2 generic list / loop helpers *)

Lemma r2n_forM_app : forall A (f : A -> MW unit) l1 l2 s,
  forM_ (l1 ++ l2) f s = (forM_ l1 f ;;; forM_ l2 f) s.
Proof.
  intros A f l1 l2. induction l1 as [|x l1 IH]; intros s; [reflexivity|].
  cbn [app forM_]. unfold bind in *. destruct (f x s) as [[] s1|er s1]; [|reflexivity]. apply IH.
Qed.

Lemma r2n_split_first : forall A (p : A -> bool) l,
  (forall x, In x l -> p x = true) \/
  exists pre bad rest, l = pre ++ bad :: rest /\ (forall x, In x pre -> p x = true) /\ p bad = false.
Proof.
  intros A p l. induction l as [|a l IH]; [left; intros x []|].
  destruct (p a) eqn:Ea.
  - destruct IH as [IH|(pre & bad & rest & -> & Hp & Hb)].
    + left. intros x [<-|Hx]; [exact Ea|apply IH; exact Hx].
    + right. exists (a :: pre), bad, rest. split; [reflexivity|]. split; [|exact Hb]. intros x [<-|Hx]; [exact Ea|apply Hp; exact Hx].
  - right. exists [], a, l. split; [reflexivity|]. split; [intros x []|exact Ea].
Qed.

(** ** B.3 rewriting the cells of one table keeps the relation invariant ([bo_setcells] for [St2]) *)

Lemma r2n_setcells : forall s tid T T', St2 s -> nth_error (w_tables s) tid = Some T ->
  tbl_ok T' -> sb2_meta T T' -> t_len T' = t_len T -> t_ents T' = t_ents T ->
  let s' := sb2_setT s (upd tid T' (w_tables s)) in
  St2 s' /\ (forall x, live s' x = live s x) /\
  (forall x r, loc s x = Some (tid, r) -> live s x = true ->
     forall c, val s' x c = match tbl_colidx T c with Some ci => Some (cell T' ci r) | None => None end) /\
  (forall x, (forall r, loc s x <> Some (tid, r)) -> forall c, val s' x c = val s x c) /\
  r2d_tgt_same s s'.
Proof.
  intros s tid t t' HS Ht Hok Hmeta Hlen Hents s'.
  pose proof HS as (HW & (HR & HT) & HC).
  pose proof Hmeta as (M1 & M2 & M3 & M4 & M5 & M6).
  assert (Hrow : forall r, row_ent t' r = row_ent t r) by (intros r; unfold row_ent; rewrite Hents; reflexivity).
  assert (Etab : forall j, nth_error (w_tables s') j = if Nat.eqb tid j then Some t' else nth_error (w_tables s) j).
  { intros j. unfold s', sb2_setT. cbn. rewrite nth_error_upd.
    destruct (Nat.eqb_spec tid j); [subst; rewrite Ht|]; reflexivity. }
  assert (HL : length (w_tables s') = length (w_tables s)) by (unfold s', sb2_setT; cbn; apply upd_length).
  assert (Hfwd : forall j t0, nth_error (w_tables s) j = Some t0 ->
            exists t0', nth_error (w_tables s') j = Some t0' /\ tbl_ok t0' /\ sb2_meta t0 t0' /\ t_len t0' = t_len t0 /\
                        (forall r, row_ent t0' r = row_ent t0 r)).
  { intros j t0 E. rewrite Etab. destruct (Nat.eqb_spec tid j) as [<-|Hne].
    - rewrite Ht in E. injection E as <-. exists t'. split; [reflexivity|]. split; [exact Hok|]. split; [exact Hmeta|]. split; [exact Hlen|exact Hrow].
    - exists t0. split; [exact E|]. split; [apply (sb2_table_ok _ _ _ HW E)|]. split; [apply sb2_meta_refl|]. split; reflexivity. }
  assert (Hbwd : forall j t0', nth_error (w_tables s') j = Some t0' ->
            exists t0, nth_error (w_tables s) j = Some t0 /\ t_len t0' = t_len t0 /\ (forall r, row_ent t0' r = row_ent t0 r)).
  { intros j t0' E. rewrite Etab in E. destruct (Nat.eqb_spec tid j) as [<-|Hne].
    - injection E as <-. exists t. split; [exact Ht|]. split; [exact Hlen|exact Hrow].
    - exists t0'. split; [exact E|]. split; reflexivity. }
  assert (HW' : WF s').
  { apply (r2c_WF_intro s s' HW).
    - unfold sb3_struct_same. repeat split; reflexivity.
    - split; [exact HL|]. intros j t0 E. destruct (Hfwd j t0 E) as (t0' & E' & O & (N1 & N2 & N3 & N4 & N5 & N6) & _).
      exists t0'. split; [exact E'|]. split; [exact O|]. repeat split; assumption.
    - exact (wf_index_len _ HW).
    - intros j t0' r E' Hr. destruct (Hbwd j t0' E') as (t0 & E & L & Re). rewrite L in Hr. rewrite (Re r).
      exact (wf_rows _ HW j t0 r E Hr).
    - intros id j r E. destruct (wf_index _ HW id j r E) as (t0 & Et & Hr & Hf).
      destruct (Hfwd j t0 Et) as (t0' & E' & _ & _ & L & Re). exists t0'. split; [exact E'|]. split; [lia|]. rewrite (Re r). exact Hf.
    - exact (wf_pool _ HW).
    - exact (wf_reserved _ HW).
    - exact (wf_small _ HW). }
  assert (Hlive : forall x, live s' x = live s x).
  { intros x. unfold live. change (loc s' x) with (loc s x). destruct (loc s x) as [[j r]|]; [|reflexivity].
    rewrite Etab. destruct (Nat.eqb_spec tid j) as [<-|Hne]; [|reflexivity].
    rewrite Ht, Hlen, Hrow. reflexivity. }
  assert (Htgt : r2d_tgt_same s s').
  { intros x c0. unfold tgt. rewrite Hlive. unfold target_of. change (loc s' x) with (loc s x).
    destruct (loc s x) as [[j r]|]; [|reflexivity].
    rewrite Etab. destruct (Nat.eqb_spec tid j) as [<-|Hne]; [|reflexivity]. rewrite Ht.
    unfold tbl_target, tbl_colidx. rewrite M2, M4. reflexivity. }
  split.
  { apply St2_St2G. apply (L_St2G_rows r2_none r2_none r2_none s s' (proj1 (St2_St2G s) HS) HW'); try reflexivity.
    - intros j t0 E. destruct (Hfwd j t0 E) as (t0' & E' & _ & Mt & L & _). exists t0'. split; [exact E'|]. split; [exact Mt|].
      intros Hfr. rewrite L. apply (r2c_free_len0 _ s j t0 HR E Hfr).
    - exact HL.
    - intros x Hx. left. rewrite Hlive. exact Hx.
    - intros aid a k l _ _ Hfl. exact Hfl. }
  split; [exact Hlive|]. split; [|split; [|exact Htgt]].
  - intros x r Hloc Hl c. unfold val. rewrite Hlive, Hl. unfold value_of. change (loc s' x) with (loc s x).
    rewrite Hloc, Etab, Nat.eqb_refl. unfold tbl_colidx. rewrite M2. reflexivity.
  - intros x Hnot c. unfold val. rewrite Hlive. destruct (live s x); [|reflexivity].
    unfold value_of. change (loc s' x) with (loc s x). destruct (loc s x) as [[j r]|] eqn:El; [|reflexivity].
    rewrite Etab. destruct (Nat.eqb_spec tid j) as [<-|Hne]; [|reflexivity]. exfalso. apply (Hnot r). reflexivity.
Qed.

(** ** B.4 storage.createEntities into an active table ([D_create_entities_spec2] of Rel2Maint, additionally
    exposing that the table keeps its layout, targets and label) *)

Lemma r2n_create_entities : forall s tid t n, St2 s -> r2d_KeysLive s -> room_n s n ->
  nth_error (w_tables s) tid = Some t -> t_free t = false ->
  exists s' es, create_entities tid n s = Ok tt s' /\ St2 s' /\ r2d_KeysLive s' /\ length es = n /\ NoDup es /\
    (forall e, In e es -> live s e = false /\ live s' e = true /\ alive s' e = true /\
                          (forall c, val s' e c = if memb c (t_ids t) then Some 0%Z else None) /\
                          (forall c, tgt s' e c = tbl_target t c)) /\
    r2n_others s s' es /\
    (exists t', nth_error (w_tables s') tid = Some t' /\ t_len t' = t_len t + n /\ t_ids t' = t_ids t /\
                t_targets t' = t_targets t /\ t_free t' = false /\
                firstn n (skipn (t_len t) (t_ents t')) = es) /\
    side_same s s' /\ frame_user s s' /\ w_archs s' = w_archs s.
Proof.
  intros s tid t n HS HK Hroom Ht Hfree. pose proof (proj1 HS) as HW.
  pose proof (sb2_table_ok _ _ _ HW Ht) as Hok.
  assert (Hn : t_len t + n <= Nat.pow 2 31).
  { pose proof (rows_le_pool s tid t HW Ht). unfold room_n in Hroom. lia. }
  destruct (tbl_extend_facts t n Hok Hn) as (E0 & L & C & Ec & Er & F1 & F2 & F3 & F4 & F5 & F6).
  set (tv := tbl_extend t n) in *.
  assert (Sim : r_tsim t tv).
  { unfold r_tsim. split; [exact E0|]. split; [exact L|]. split; [exact F3|]. split; [exact F1|]. split; [exact F2|].
    split; [exact F5|]. split; [exact F4|]. split; [exact F6|]. split; [exact Er|exact Ec]. }
  assert (HT : forall j, nth_error (upd tid tv (w_tables s)) j = if Nat.eqb tid j then Some tv else nth_error (w_tables s) j).
  { intros j. rewrite TableProofs.nth_error_upd. destruct (Nat.eqb_spec tid j) as [<-|]; [rewrite Ht|]; reflexivity. }
  destruct (r2d_sim_St2 s (upd tid tv (w_tables s)) HS (upd_length _ _ _ _)) as (HS0 & Hcs & Hts).
  { intros j t0 Hj. rewrite HT. destruct (Nat.eqb_spec tid j) as [<-|Hne].
    - rewrite Ht in Hj. injection Hj as <-. exists tv. split; [reflexivity|exact Sim].
    - exists t0. split; [exact Hj|]. apply r_tsim_refl. apply (sb2_table_ok _ _ _ HW Hj). }
  set (v0 := s <| w_tables := upd tid tv (w_tables s) |>) in *.
  assert (HK0 : r2d_KeysLive v0).
  { apply (r2d_KeysLive_mono s v0 HK eq_refl). intros x Hx. rewrite (proj1 (Hcs x)). exact Hx. }
  assert (Ht0 : nth_error (w_tables v0) tid = Some tv) by (change (w_tables v0) with (upd tid tv (w_tables s)); rewrite HT, Nat.eqb_refl; reflexivity).
  assert (Hfree0 : t_free tv = false) by congruence.
  assert (Hcap0 : t_len tv + n <= t_cap tv) by lia.
  assert (Hroom0 : room_n v0 n) by exact Hroom.
  destruct (r2d_create_loop tid n v0 tv HS0 HK0 Ht0 Hfree0 Hcap0 Hroom0) as (v' & tv' & es & Hrun & Q).
  destruct Q as (Q1 & QK & Q2 & Q3 & Q4 & Q4t & Q4f & Q5 & Q6 & Q7 & Q8 & Q9 & Q10 & Q11 & Q12 & QA & Q13).
  exists v', es. split.
  { rewrite b_create_entities_eq.
    erewrite sb1_bind_ok by (apply sb1_getT_eq; exact Ht).
    erewrite sb1_bind_ok by (apply sb2_modT; exact Ht).
    rewrite <- L.
    assert (E : sb2_setT s (upd tid (tbl_alloc t n) (w_tables s)) = b_real v0 tid tv (t_len tv + n)).
    { unfold b_real, v0, sb2_setT. apply b_W_ext; cbn; try reflexivity. rewrite sb2_upd_upd. reflexivity. }
    rewrite E. fold tv. rewrite Hrun. rewrite b_real_id by (auto; lia). reflexivity. }
  split; [assumption|]. split; [assumption|]. split; [assumption|]. split; [assumption|].
  split.
  { intros e Hin. destruct (Q8 e Hin) as (L1 & L2 & V & T). destruct (Hcs e) as (L0 & _).
    split; [congruence|]. split; [assumption|].
    split; [apply (live_alive v' e (proj1 Q1) L2)|]. split.
    - intros c. rewrite V. unfold tbl_colidx, memb. rewrite F1. destruct (index_of c (t_ids t)); reflexivity.
    - intros c. rewrite T. unfold tbl_target, tbl_colidx. rewrite F1, F5. reflexivity. }
  split.
  { intros e Hnin. destruct (Q9 e Hnin) as (L1 & V & T). destruct (Hcs e) as (L0 & V0).
    split; [congruence|]. split; [intros c; rewrite V, V0; reflexivity|intros c; rewrite T, (Hts e c); reflexivity]. }
  split.
  { exists tv'. split; [assumption|]. split; [lia|]. split; [congruence|]. split; [congruence|]. split; [congruence|].
    rewrite <- L. exact Q10. }
  split.
  - eapply sb1_side_same_trans; [|exact Q11]. unfold side_same. repeat split.
  - split; [eapply sb1_frame_user_trans; [|exact Q12]; unfold frame_user; repeat split|]. rewrite QA. reflexivity.
Qed.

(** ** B.5 the table finder of a creation: [find_or_create_table_add 0 ids rels 0] *)

(** What the finder needs beyond the checks of ToRelations: no component twice, no relation component named
    twice, every relation component among [ids] named. *)
Definition r2n_finder_ok (s : W) (ids : list nat) (rels : list rel) : Prop :=
  NoDup ids /\ NoDup (map fst rels) /\ r2a_rels_complete s ids rels.

(** The relation arguments after ToRelations accepted them (targets: proper handles). *)
Definition r2n_rels_pre (s : W) (ids : list nat) (rels : list rel) : Prop :=
  forall r, In r rels -> (snd r = zero_ent \/ live s (snd r) = true) /\ is_rel_comp s (fst r) = true /\ In (fst r) ids.

Lemma r2n_checked_pre : forall s ids rels, (forall r, In r rels -> r2b_handle_ok s (snd r)) ->
  r2n_rels_checked s ids rels -> r2n_rels_pre s ids rels.
Proof.
  intros s ids rels Hh Hc r Hr. destruct (Hc r Hr) as (C1 & C2 & C3). split; [|split; assumption].
  destruct (Hh r Hr) as [Hz|[Hl|(N1 & N2)]]; [left; exact Hz|right; exact Hl|].
  exfalso. destruct C1 as [C1|C1]; [contradiction|congruence].
Qed.

Lemma r2n_NoDup_app_r : forall A (a b : list A), NoDup (a ++ b) -> NoDup b.
Proof.
  intros A a b. induction a as [|x a IH]; intros H; [exact H|]. cbn in H. inversion H as [|? ? _ H']; subst. apply IH. exact H'.
Qed.

Lemma r2n_distinct_app : forall (l rels : list rel), rels_distinct rels = false -> rels_distinct (l ++ rels) = false.
Proof.
  intros l rels H. destruct (rels_distinct (l ++ rels)) eqn:E; [|reflexivity]. exfalso.
  apply rl_rels_distinct_nodup in E. rewrite map_app in E. apply r2n_NoDup_app_r in E.
  apply rl_rels_distinct_nodup in E. congruence.
Qed.

(** GetTable-or-create of an archetype WITH relation components rejects a list that names a component twice. *)
Lemma r2n_goc_dup : forall s aid a all, nth_error (w_archs s) aid = Some a -> 0 < a_numrel a ->
  rels_distinct all = false -> exists er, get_or_create_table aid all s = Err er s.
Proof.
  intros s aid a all Ha Hn Hd. unfold get_or_create_table. rewrite (sa_bind_ok (sa_getA_eq _ _ _ Ha)).
  assert (Hh : arch_has_rels a = true).
  { unfold arch_has_rels. destruct (Nat.eqb_spec (a_numrel a) 0); [lia|reflexivity]. }
  unfold arch_get_table. destruct (a_tables a) as [|t0 rest].
  - rewrite (sa_bind_ok (m := ret None) (s := s) eq_refl). apply (r2e_create_table_nodistinct s aid a all Ha Hd).
  - rewrite Hh. cbn [negb]. rewrite Hd. destruct (negb (Nat.ltb (length all) (a_numrel a))); exists ERelUnspec; reflexivity.
Qed.

Lemma r2n_getA_inv : forall aid s a s', getA aid s = Ok a s' -> s' = s /\ nth_error (w_archs s) aid = Some a.
Proof.
  intros aid s a s' H. unfold getA, bind, get, of_opt in H. destruct (nth_error (w_archs s) aid) as [a0|]; [|discriminate].
  unfold ret in H. injection H as <- <-. split; reflexivity.
Qed.

(** a duplicate relation component makes the finder of a creation fail (the archetype has relation components) *)
Lemma r2n_finder_dup : forall s ids rels, St2 s -> registered s ids -> r2n_rels_pre s ids rels ->
  rels_distinct rels = false -> is_err (find_or_create_table_add 0 ids rels 0%N s) = true.
Proof.
  intros s ids rels HS Hreg Hpre Hd. pose proof HS as HS0. apply St2_St2G in HS0. destruct HS0 as (HW & HR & _ & _).
  destruct (r2a_table0 s HS) as (a0 & t0 & Ha0 & Hm0 & Ht0 & Hta0 & Hft0).
  unfold find_or_create_table_add.
  pose proof (sa_gf_add_spec None ids 0%N s) as G.
  destruct (gf_add None ids 0%N s) as [m s0|e s0] eqn:EG.
  2:{ rewrite (sa_bind_err EG). reflexivity. }
  destruct G as (-> & Hm & ND & Hf & _). rewrite (sa_bind_ok EG).
  set (all := match rels with [] => t_rels t0 | _ :: _ => t_rels t0 ++ rels end).
  assert (Hne : exists r0 rr, rels = r0 :: rr) by (destruct rels as [|r0 rr]; [discriminate Hd|eauto]).
  destruct Hne as (r0 & rr & Erels).
  assert (Hmreg : forall j, mk_get m j = true -> j < length (w_reg s)).
  { intros j Hj. rewrite Hm, sb1_mk_get_0 in Hj. cbn [orb] in Hj. apply Hreg. apply sb1_memb_In. exact Hj. }
  assert (Hall : forall r, In r all -> r2b_handle_ok s (snd r)).
  { intros r Hr. unfold all in Hr. rewrite r2a_match_app in Hr. apply in_app_iff in Hr. destruct Hr as [Hr|Hr].
    - apply (r2e_old_rels_ok s 0 t0 HS Ht0 Hft0 r Hr).
    - destruct (Hpre r Hr) as ([Hz|Hl] & _); [left; exact Hz|right; left; exact Hl]. }
  destruct (r2e_finder_tail s 0 t0 m all HS Ht0 Hft0 Hmreg Hall) as (aid & s1 & a & E1 & E2 & Ma & E3 & HS1 & K1 & _).
  rewrite (sa_bind_ok E1), (sa_bind_ok E3). fold all.
  destruct (r2n_getA_inv aid s1 a s1 E2) as (_ & Ha).
  pose proof HS1 as (HW1 & _).
  assert (Hn : 0 < a_numrel a).
  { rewrite (r2a_numrel s1 aid a HW1 Ha).
    assert (Hin : In (fst r0) (filter (fun c => is_rel_comp s1 c) (a_comps a))).
    { destruct (Hpre r0 ltac:(rewrite Erels; left; reflexivity)) as (_ & P2 & P3).
      apply filter_In. split; [|rewrite (r2a_keeps_is_rel s s1 K1); exact P2].
      destruct (wf_arch_comps _ HW1 aid a Ha) as (C1 & _). rewrite C1. apply mk_to_list_spec.
      assert (Ereg : w_reg s1 = w_reg s) by (destruct K1 as (_ & _ & _ & _ & _ & (E & _)); exact E).
      rewrite Ereg. split; [apply Hreg; exact P3|]. rewrite Ma, Hm. apply sb1_memb_In in P3. rewrite P3. apply orb_true_r. }
    destruct (filter (fun c => is_rel_comp s1 c) (a_comps a)); [destruct Hin|cbn; lia]. }
  assert (Hd' : rels_distinct all = false).
  { unfold all. rewrite r2a_match_app. apply r2n_distinct_app. exact Hd. }
  destruct (r2n_goc_dup s1 aid a all Ha Hn Hd') as (er & Eg). rewrite (sa_bind_err Eg). reflexivity.
Qed.

Lemma r2n_finder : forall s ids rels, St2 s -> r2d_KeysLive s -> r2e_noobs s -> registered s ids -> r2n_rels_pre s ids rels ->
  match find_or_create_table_add 0 ids rels 0%N s with
  | Ok (tid, aid, m) s1 =>
      r2n_finder_ok s ids rels /\ St2 s1 /\ r2d_KeysLive s1 /\ r2a_keeps s s1 /\
      exists t, nth_error (w_tables s1) tid = Some t /\ t_free t = false /\ (forall c, In c (t_ids t) <-> In c ids) /\
        (forall c, tbl_target t c = if memb c ids then Some (r2a_new_target rels c) else None)
  | Err _ s1 => ~ r2n_finder_ok s ids rels /\ St2 s1 /\ r2d_KeysLive s1 /\ r2a_keeps s s1
  end.
Proof.
  intros s ids rels HS HK Hno Hreg Hpre. pose proof HS as HS0. apply St2_St2G in HS0. destruct HS0 as (HW & HR & _ & _).
  destruct (r2a_table0 s HS) as (a0 & t0 & Ha0 & Hm0 & Ht0 & Hta0 & Hft0).
  assert (Ha0' : nth_error (w_archs s) (t_arch t0) = Some a0) by (rewrite Hta0; exact Ha0).
  (* lookup keys through the finder *)
  assert (HKL : forall s1, s1 = state_of (find_or_create_table_add 0 ids rels 0%N s) -> St2 s1 -> r2a_keeps s s1 -> r2d_KeysLive s1).
  { intros s1 Es1 HS1 K1. pose proof (r2e_fkp_find_add 0 ids rels 0%N s) as F. rewrite <- Es1 in F.
    destruct (F Hno) as (_ & _ & HE & _). apply (r2e_KeysLive_E s s1 HS1 HK HE).
    intros x Hx. destruct (r2a_keeps_obs r2_none s s1 HW HR K1) as (C & _). rewrite (proj1 (C x)). exact Hx. }
  destruct (rels_distinct rels) eqn:Hd.
  - (* a duplicate-free list: the finder with valid relation arguments *)
    assert (Hok : r2a_rels_ok s ids rels).
    { split; [apply rl_rels_distinct_nodup; exact Hd|]. split.
      - intros r Hr. destruct (Hpre r Hr) as (_ & P2 & P3). split; assumption.
      - intros r Hr. apply (Hpre r Hr). }
    pose proof (r2a_find_add s 0 t0 a0 ids rels HS Ht0 Hft0 Ha0' Hreg Hok) as Hf. rewrite Hm0 in Hf.
    destruct (find_or_create_table_add 0 ids rels 0%N s) as [[[tid aid] m] s1|er s1] eqn:Ef.
    + destruct Hf as ((HS1 & K & Hcomp & nt & na & Hnt & Hnaid & Hfn & Hna & Hma & Htgts) & Hmk & Hnd & _).
      split; [split; [exact Hnd|]; split; [apply rl_rels_distinct_nodup; exact Hd|exact Hcomp]|].
      split; [exact HS1|]. split; [apply (HKL s1 eq_refl HS1 K)|]. split; [exact K|].
      pose proof HS1 as (HW1 & _).
      assert (Hmj : forall j, mk_get m j = memb j ids) by (intros j; rewrite Hmk, sb1_mk_get_0; reflexivity).
      exists nt. split; [exact Hnt|]. split; [exact Hfn|]. split.
      * intros c. destruct (wf_layout _ HW1 tid nt Hnt) as (a' & Ha' & Hids & _).
        rewrite Hnaid, Hna in Ha'. injection Ha' as <-.
        destruct (wf_arch_comps _ HW1 aid na Hna) as (Hc & _).
        assert (Ereg : w_reg s1 = w_reg s) by (destruct K as (_ & _ & _ & _ & _ & (E & _)); exact E).
        rewrite Hids, Hc, mk_to_list_spec, Hma, Hmj, sb1_memb_In, Ereg. split; [intros (_ & H); exact H|].
        intros H. split; [apply Hreg; exact H|exact H].
      * intros c. rewrite Htgts. destruct (memb c ids) eqn:Ema; [reflexivity|]. rewrite Hmj, Ema. reflexivity.
    + destruct Hf as (F1 & F2 & F3). split.
      * intros (Q1 & _ & Q3). apply F3. split; [exact Q1|]. split; [intros c _; apply sb1_mk_get_0|exact Q3].
      * split; [exact F1|]. split; [apply (HKL s1 eq_refl F1 F2)|exact F2].
  - (* a component named twice *)
    pose proof (r2n_finder_dup s ids rels HS Hreg Hpre Hd) as Herr.
    assert (Hh : forall r, In r rels -> r2b_handle_ok s (snd r)).
    { intros r Hr. destruct (Hpre r Hr) as ([Hz|Hl] & _); [left; exact Hz|right; left; exact Hl]. }
    pose proof (r2e_find_add s 0 t0 a0 ids rels HS Ht0 Hft0 Ha0' Hreg Hh) as Hf. rewrite Hm0 in Hf.
    destruct (find_or_create_table_add 0 ids rels 0%N s) as [[[tid aid] m] s1|er s1] eqn:Ef; [discriminate Herr|].
    destruct Hf as (F1 & F2). split.
    + intros (_ & Q2 & _). apply rl_rels_distinct_nodup in Q2. congruence.
    + split; [exact F1|]. split; [apply (HKL s1 eq_refl F1 F2)|exact F2].
Qed.

(** ** B.6 storage.newEntities with components and relations *)

(** [es]: [n] fresh entities with exactly the components [ids] at zero and the named relation targets; nobody else
    changes. *)
Definition r2n_made (s s' : W) (n : nat) (ids : list nat) (rels : list rel) (es : list ent) : Prop :=
  r2n_fresh s s' n es /\
  (forall e, In e es -> (forall c, val s' e c = if memb c ids then Some 0%Z else None) /\
                        (forall c, tgt s' e c = if memb c ids then Some (r2a_new_target rels c) else None)) /\
  r2n_others s s' es.

Lemma r2n_memb_ext : forall l1 l2, (forall c, In c l1 <-> In c l2) -> forall c, memb c l1 = memb c l2.
Proof. intros l1 l2 H c. apply eq_true_iff_eq. rewrite !sb1_memb_In. apply H. Qed.

Lemma r2n_keeps_nobody : forall s s', St2 s -> r2a_keeps s s' -> r2n_nobody s s'.
Proof.
  intros s s' HS K. apply St2_St2G in HS. destruct HS as (HW & HR & _ & _).
  destruct (r2a_keeps_obs r2_none s s' HW HR K) as (C & T). intros e. destruct (C e) as (L & V).
  split; [exact L|]. split; [exact V|]. intros c. apply T.
Qed.

Lemma r2n_new_entities_run : forall s n ids rels, St2 s -> r2d_KeysLive s -> r2e_noobs s -> room_n s n ->
  registered s ids -> r2n_rels_pre s ids rels ->
  match new_entities n ids rels s with
  | Ok (tid, start) s3 =>
      r2n_finder_ok s ids rels /\ St2 s3 /\ r2d_KeysLive s3 /\ side_same s s3 /\ frame_user s s3 /\
      exists es t', r2n_made s s3 n ids rels es /\
        nth_error (w_tables s3) tid = Some t' /\ t_len t' = start + n /\ firstn n (skipn start (t_ents t')) = es /\
        (forall c, In c (t_ids t') <-> In c ids)
  | Err _ s1 => ~ r2n_finder_ok s ids rels /\ St2 s1 /\ r2d_KeysLive s1 /\ r2a_keeps s s1
  end.
Proof.
  intros s n ids rels HS HK Hno Hroom Hreg Hpre. pose proof HS as (HW & _).
  unfold new_entities.
  pose proof (r2n_finder s ids rels HS HK Hno Hreg Hpre) as Hf.
  destruct (find_or_create_table_add 0 ids rels 0%N s) as [[[tid aid] m] s1|er s1] eqn:Ef.
  2:{ rewrite (sa_bind_err Ef). exact Hf. }
  rewrite (sa_bind_ok Ef). cbv beta iota.
  destruct Hf as (Hfok & HS1 & HK1 & K & t & Ht & Hfree & Hids & Htg).
  pose proof (r2n_keeps_nobody s s1 HS K) as Hnb.
  pose proof K as (_ & Kpool & _ & _ & Kside & Kfr).
  assert (Hroom1 : room_n s1 n) by (unfold room_n in *; rewrite Kpool; exact Hroom).
  rewrite (sa_bind_ok (sa_getT_eq _ _ _ Ht)).
  destruct (r2n_create_entities s1 tid t n HS1 HK1 Hroom1 Ht Hfree)
    as (s2 & es & Hrun & HS2 & HK2 & Hlen & Hnd & Hin & Hout & (t' & Ht' & Hl' & Hi' & _ & _ & Hes) & Hside2 & Hfr2 & Harch2).
  rewrite (sa_bind_ok Hrun).
  pose proof HS2 as (HW2 & _).
  assert (Hnotin : forall x, live s x = true -> ~ In x es).
  { intros x Hx Hc. destruct (Hin x Hc) as (L1 & _). rewrite (proj1 (Hnb x)) in L1. congruence. }
  assert (Hrange : forall r, In r rels -> fst (snd r) < length (w_istarget s2)).
  { apply (r2a_targets_in_range s2 rels _ HW2 eq_refl). intros r Hr. destruct (Hpre r Hr) as ([Hz|Hl] & _); [left; exact Hz|right].
    destruct (Hout (snd r) (Hnotin _ Hl)) as (L2 & _). rewrite L2, (proj1 (Hnb (snd r))). exact Hl. }
  destruct (r2a_register_tail s2 rels HS2 Hrange) as (l' & Ereg & HS3 & _).
  rewrite (sa_bind_ok Ereg). unfold ret.
  destruct (r2a_flags_obs s2 l') as (L3 & V3 & T3 & _ & A3 & S3 & F3).
  set (s3 := s2 <| w_istarget := l' |>) in *.
  split; [exact Hfok|]. split; [exact HS3|].
  split; [apply (r2d_KeysLive_mono s2 s3 HK2 A3); intros x Hx; rewrite L3; exact Hx|].
  split; [apply (sa_side_same_trans s s1 s3 Kside); apply (sa_side_same_trans s1 s2 s3 Hside2 S3)|].
  split; [apply (sa_frame_user_trans s s1 s3 Kfr); apply (sa_frame_user_trans s1 s2 s3 Hfr2 F3)|].
  pose proof (r2n_memb_ext _ _ Hids) as Hmemb.
  exists es, t'. split.
  { split.
    - split; [exact Hlen|]. split; [exact Hnd|]. intros e He. destruct (Hin e He) as (L1 & L2 & A2 & _).
      split; [rewrite <- (proj1 (Hnb e)); exact L1|]. split; [rewrite L3; exact L2|exact A2].
    - split.
      + intros e He. destruct (Hin e He) as (_ & _ & _ & V & T). split.
        * intros c. rewrite V3, V, Hmemb. reflexivity.
        * intros c. rewrite T3, T. apply Htg.
      + intros e He. destruct (Hout e He) as (O1 & O2 & O3). destruct (Hnb e) as (N1 & N2 & N3).
        split; [rewrite L3, O1; exact N1|]. split; [intros c; rewrite V3, O2; apply N2|intros c; rewrite T3, O3; apply N3]. }
  split; [exact Ht'|]. split; [exact Hl'|]. split; [exact Hes|]. intros c. rewrite Hi'. apply Hids.
Qed.

(** ** B.7 the callbacks of a batch, for ARBITRARY value lists *)

(** the stores of one callback when some value names a component outside the table: [ENil] at the first such value,
    the earlier stores have been made (same rows, same entities, other rows untouched) *)
Lemma r2n_vals_fail : forall K tid row pre bad rest s T,
  nth_error (w_tables s) tid = Some T -> tbl_ok T -> row < t_len T -> t_kinds T = map K (t_ids T) ->
  (forall cv, In cv pre -> In (fst cv) (t_ids T)) -> ~ In (fst bad) (t_ids T) ->
  exists T', forM_ (pre ++ bad :: rest) (bo_vbody tid row) s = Err ENil (sb2_setT s (upd tid T' (w_tables s))) /\
    tbl_ok T' /\ sb2_meta T T' /\ t_len T' = t_len T /\ t_ents T' = t_ents T /\
    (forall ci r, r <> row -> cell T' ci r = cell T ci r).
Proof.
  intros K tid row pre bad rest s T Ht Hok Hrow Hk Hpre Hbad.
  destruct (bo_vals_loop K tid row pre s T Ht Hok Hrow Hk Hpre) as (T' & Hrun & Hok' & Hmeta & Hlen & Hents & Hc1 & _).
  exists T'. split; [|repeat (split; [assumption|]); exact Hc1].
  rewrite r2n_forM_app. rewrite (sa_bind_ok Hrun). cbn [forM_].
  set (s1 := sb2_setT s (upd tid T' (w_tables s))).
  assert (Ht1 : nth_error (w_tables s1) tid = Some T').
  { unfold s1, sb2_setT. cbn. eapply sb2_nth_error_upd_eq; exact Ht. }
  assert (Eb : bo_vbody tid row bad s1 = Err ENil s1).
  { unfold bo_vbody. rewrite (sa_bind_ok (sb2_getT _ _ _ Ht1)). unfold tbl_colidx.
    destruct Hmeta as (_ & M2 & _). rewrite M2, (b_index_of_notin _ _ Hbad). reflexivity. }
  rewrite (sa_bind_err Eb). reflexivity.
Qed.

Lemma r2n_logged_setT : forall s T L, sb2_setT (b_logged s L) T = b_logged (sb2_setT s T) L.
Proof. intros s T L. reflexivity. Qed.

(** the callback loop of a batch creation over the rows [start .. start+n): it fails exactly when there is a row
    and some value names a component the table lacks, and then in the FIRST row *)
Lemma r2n_cb_phase : forall K tid vals start n s T,
  nth_error (w_tables s) tid = Some T -> tbl_ok T -> start + n <= t_len T -> t_kinds T = map K (t_ids T) ->
  exists T' L, tbl_ok T' /\ sb2_meta T T' /\ t_len T' = t_len T /\ t_ents T' = t_ents T /\
    (forall ci r, ~ In r (seq start n) -> cell T' ci r = cell T ci r) /\
    match forM_ (seq start n) (fun i => batch_callback tid vals i) s with
    | Ok _ s' => s' = b_logged (sb2_setT s (upd tid T' (w_tables s))) L /\
        L = map (fun r => b_entry (row_ent T r)) (seq start n) /\
        (n = 0 \/ forall cv, In cv vals -> In (fst cv) (t_ids T)) /\
        (forall c ci r, index_of c (t_ids T) = Some ci -> In r (seq start n) -> cell T' ci r = bo_wval K c vals (cell T ci r))
    | Err er s' => er = ENil /\ s' = b_logged (sb2_setT s (upd tid T' (w_tables s))) L /\
        L = [b_entry (row_ent T start)] /\ 0 < n /\ ~ (forall cv, In cv vals -> In (fst cv) (t_ids T)) /\
        (forall ci r, r <> start -> cell T' ci r = cell T ci r)
    end.
Proof.
  intros K tid vals start n s T Ht Hok Hn Hk.
  destruct (r2n_split_first _ (fun cv : nat * Z => memb (fst cv) (t_ids T)) vals) as [Hall|(pre & bad & rest & Evals & Hp & Hb)].
  - (* every value names a column *)
    assert (Hin : forall cv, In cv vals -> In (fst cv) (t_ids T)) by (intros cv Hcv; apply sb1_memb_In; apply (Hall cv Hcv)).
    destruct (bo_cb_loop K tid vals (seq start n) s T Ht Hok) as (T' & Hrun & Hok' & Hmeta & Hlen & Hents & Hd1 & Hd2).
    { intros r Hr. apply in_seq in Hr. lia. }
    { apply seq_NoDup. }
    { exact Hk. }
    { exact Hin. }
    exists T', (map (fun r => b_entry (row_ent T r)) (seq start n)).
    split; [exact Hok'|]. split; [exact Hmeta|]. split; [exact Hlen|]. split; [exact Hents|]. split; [exact Hd1|].
    rewrite Hrun. split; [reflexivity|]. split; [reflexivity|]. split; [right; exact Hin|exact Hd2].
  - assert (Hbad : ~ In (fst bad) (t_ids T)) by (apply sb2_memb_false; exact Hb).
    assert (Hpre : forall cv, In cv pre -> In (fst cv) (t_ids T)) by (intros cv Hcv; apply sb1_memb_In; apply (Hp cv Hcv)).
    assert (Hnot : ~ (forall cv, In cv vals -> In (fst cv) (t_ids T))).
    { intros Hc. apply Hbad. apply Hc. rewrite Evals. apply in_or_app. right. left. reflexivity. }
    destruct n as [|n].
    + (* no row: no callback *)
      exists T, []. split; [exact Hok|]. split; [apply sb2_meta_refl|]. split; [reflexivity|]. split; [reflexivity|].
      split; [reflexivity|]. cbn [seq forM_]. unfold ret. split.
      { rewrite (sb2_upd_same _ _ _ _ Ht), sb2_setT_id, b_logged_nil. reflexivity. }
      split; [reflexivity|]. split; [left; reflexivity|]. intros c ci r _ [].
    + (* the callback of the first row panics *)
      pose proof (tbl_ok_elim _ Hok) as (O1 & O2 & _).
      assert (Hr0 : start < t_len T) by lia.
      assert (He : nth_error (t_ents T) start = Some (row_ent T start)) by (apply nth_error_nth'; lia).
      set (s0 := b_logged s [b_entry (row_ent T start)]).
      assert (Ht0 : nth_error (w_tables s0) tid = Some T) by exact Ht.
      destruct (r2n_vals_fail K tid start pre bad rest s0 T Ht0 Hok Hr0 Hk Hpre Hbad) as (T' & Hrun & Hok' & Hmeta & Hlen & Hents & Hc1).
      exists T', [b_entry (row_ent T start)].
      split; [exact Hok'|]. split; [exact Hmeta|]. split; [exact Hlen|]. split; [exact Hents|]. split.
      { intros ci r Hr. apply Hc1. intros ->. apply Hr. left. reflexivity. }
      assert (Hcb : batch_callback tid vals start s = Err ENil (b_logged (sb2_setT s (upd tid T' (w_tables s))) [b_entry (row_ent T start)])).
      { rewrite bo_batch_callback_eq. rewrite (sa_bind_ok (sb2_getT _ _ _ Ht)). rewrite He. cbn [of_opt].
        rewrite (sa_bind_ok (m := ret (row_ent T start)) (s := s) eq_refl).
        rewrite (sa_bind_ok (m := log _) (s := s) (a := tt) (s' := s0) eq_refl). rewrite Evals, Hrun. reflexivity. }
      cbn [seq forM_]. rewrite (sa_bind_err Hcb).
      split; [reflexivity|]. split; [reflexivity|]. split; [reflexivity|]. split; [lia|]. split; [exact Hnot|exact Hc1].
Qed.

(** rewriting cells of the rows [start .. start+n) of one table: the invariant, and who sees what *)
Lemma r2n_cells_post : forall s tid T T' start n, St2 s -> nth_error (w_tables s) tid = Some T ->
  tbl_ok T' -> sb2_meta T T' -> t_len T' = t_len T -> t_ents T' = t_ents T -> start + n <= t_len T ->
  (forall ci r, ~ In r (seq start n) -> cell T' ci r = cell T ci r) ->
  let s' := sb2_setT s (upd tid T' (w_tables s)) in
  St2 s' /\ (forall x, live s' x = live s x) /\ r2d_tgt_same s s' /\
  (forall r c, In r (seq start n) -> val s' (row_ent T r) c = match tbl_colidx T c with Some ci => Some (cell T' ci r) | None => None end) /\
  (forall x, ~ In x (map (row_ent T) (seq start n)) -> forall c, val s' x c = val s x c).
Proof.
  intros s tid T T' start n HS Ht Hok Hmeta Hlen Hents Hn Hcells s'. pose proof HS as (HW & _).
  destruct (r2n_setcells s tid T T' HS Ht Hok Hmeta Hlen Hents) as (HS' & Hlv & Hvin & Hvout & Htg). fold s' in HS', Hlv, Hvin, Hvout, Htg.
  split; [exact HS'|]. split; [exact Hlv|]. split; [exact Htg|]. split.
  - intros r c Hr. apply in_seq in Hr.
    destruct (wf_rows _ HW tid T r Ht ltac:(lia)) as (Hloc & _).
    apply (Hvin (row_ent T r) r Hloc).
    apply (sb3_live_of_row s (row_ent T r) tid r T); [apply sb2_loc_iff; exact Hloc|exact Ht|lia|reflexivity].
  - intros x Hx c. destruct (live s x) eqn:Hl.
    + destruct (sb2_live_elim _ _ Hl) as (tid0 & r & t0 & L0 & T0 & R0 & E0).
      destruct (Nat.eq_dec tid0 tid) as [->|Hne].
      * rewrite Ht in T0. injection T0 as <-.
        assert (Hr : ~ In r (seq start n)).
        { intros Hr. apply Hx. apply in_map_iff. exists r. split; [exact E0|exact Hr]. }
        rewrite (Hvin x r L0 Hl c). unfold val. rewrite Hl. destruct (sb2_live_at _ _ _ _ _ L0 Ht) as (_ & Hva). rewrite Hva.
        destruct (tbl_colidx T c) as [ci|]; [|reflexivity]. rewrite (Hcells ci r Hr). reflexivity.
      * apply Hvout. intros r' Hr'. congruence.
    + unfold val. rewrite (Hlv x), Hl. reflexivity.
Qed.

(** ** B.8 the second half of NewBatchFn: lock, callbacks, (no events), unlock *)

(** the callback values only name components of the batch *)
Definition r2n_vals_ok (ids : list nat) (vals : list (nat * Z)) : Prop := forall cv, In cv vals -> In (fst cv) ids.

Lemma r2n_kinds_of : forall s tid t, WF s -> nth_error (w_tables s) tid = Some t -> t_kinds t = map (kind_of s) (t_ids t).
Proof. intros s tid t HW Ht. destruct (wf_layout _ HW tid t Ht) as (a & _ & _ & K & _). exact K. Qed.

Lemma r2n_callback_phase : forall s3 tid start n ids vals (fn : bool) t' (X Y : list ent -> MW unit),
  St2 s3 -> r2d_KeysLive s3 -> r2e_noobs s3 -> is_locked s3 = false ->
  nth_error (w_tables s3) tid = Some t' -> t_len t' = start + n -> (forall c, In c (t_ids t') <-> In c ids) ->
  let es := firstn n (skipn start (t_ents t')) in
  (forall e, In e es -> forall c, val s3 e c = if memb c ids then Some 0%Z else None) ->
  match (l <- (if fn then lockM else ret 0) ;;
         whenM fn (forM_ (seq start n) (fun i => batch_callback tid vals i)) ;;;
         es <- rows_of tid start n ;;
         whenM false (X es) ;;; whenM false (Y es) ;;; whenM fn (unlockM l)) s3 with
  | Ok _ s' =>
      r2n_inv s' /\ is_locked s' = false /\ frame_user s3 s' /\ (forall x, live s' x = live s3 x) /\ r2d_tgt_same s3 s' /\
      (fn = true -> lock_lock (w_lock s3) <> None /\ (n = 0 \/ r2n_vals_ok ids vals)) /\
      (forall e, In e es -> forall c, val s' e c = if memb c ids then Some (if fn then bo_cbval s3 vals c else 0%Z) else None) /\
      (forall x, ~ In x es -> forall c, val s' x c = val s3 x c) /\
      w_log s' = w_log s3 ++ (if fn then map b_entry es else [])
  | Err er s' =>
      r2n_inv s' /\ frame_user s3 s' /\ (forall x, live s' x = live s3 x) /\ r2d_tgt_same s3 s' /\ fn = true /\
      (forall x, ~ In x es -> forall c, val s' x c = val s3 x c) /\
      ((er = EBits /\ lock_lock (w_lock s3) = None /\ s' = s3) \/
       (er = ENil /\ 0 < n /\ ~ r2n_vals_ok ids vals /\ (exists b, lock_lock (w_lock s3) = Some (b, w_lock s')) /\
        is_locked s' = true /\
        (forall e, In e es -> forall c, val s' e c <> None <-> In c ids) /\
        (forall e, In e (tl es) -> forall c, val s' e c = val s3 e c) /\
        w_log s' = w_log s3 ++ [b_entry (hd zero_ent es)]))
  end.
Proof.
  intros s3 tid start n ids vals fn t' X Y HS3 HK3 Hno3 Hunl3 Ht' Hl' Hids es Hzero.
  pose proof HS3 as (HW3 & _).
  pose proof (sb2_table_ok _ _ _ HW3 Ht') as Hok'.
  pose proof (tbl_ok_elim _ Hok') as (O1 & O2 & _).
  assert (Hes : es = map (row_ent t') (seq start n)).
  { unfold es. apply (b_firstn_skipn_seq _ (t_ents t') zero_ent n start). lia. }
  assert (Erows : forall s, nth_error (w_tables s) tid = Some t' ->
            rows_of tid start n s = Ok (firstn n (skipn start (t_ents t'))) s).
  { intros s Hs. unfold rows_of. rewrite (sa_bind_ok (sb2_getT _ _ _ Hs)). reflexivity. }
  assert (Hmemb : forall c, memb c (t_ids t') = memb c ids) by (apply r2n_memb_ext; exact Hids).
  destruct fn.
  2:{ (* no callback: nothing happens *)
      rewrite (sa_bind_ok (m := ret 0) (s := s3) eq_refl). cbn [whenM].
      rewrite (sa_bind_ok (m := ret tt) (s := s3) eq_refl).
      rewrite (sa_bind_ok (Erows s3 Ht')).
      rewrite (sa_bind_ok (m := ret tt) (s := s3) eq_refl).
      rewrite (sa_bind_ok (m := ret tt) (s := s3) eq_refl). unfold ret.
      split; [split; [exact HS3|split; [exact HK3|exact Hno3]]|]. split; [exact Hunl3|]. split; [apply sa_frame_user_refl|].
      split; [reflexivity|]. split; [apply r2d_tgt_same_refl|]. split; [intros Hc; discriminate Hc|].
      split; [exact Hzero|]. split; [reflexivity|]. rewrite app_nil_r. reflexivity. }
  destruct (lock_lock (w_lock s3)) as [[lb l']|] eqn:LL.
  2:{ (* no lock bit *)
      rewrite (sa_bind_err (v_lockM_err s3 LL)).
      split; [split; [exact HS3|split; [exact HK3|exact Hno3]]|]. split; [apply sa_frame_user_refl|]. split; [reflexivity|].
      split; [apply r2d_tgt_same_refl|]. split; [reflexivity|]. split; [reflexivity|]. left. repeat split. }
  pose proof (bo_lock_cycle s3 lb l' Hunl3 LL) as LU.
  set (l'' := {| lk_pool := ipool_recycle (lk_pool l') lb; lk_mask := 0%N |}) in *.
  rewrite (sa_bind_ok (v_lockM_ok s3 lb l' LL)). cbn [whenM].
  set (s4 := s3 <| w_lock := l' |>).
  assert (SS4 : storage_same s3 s4) by (unfold storage_same; repeat split).
  pose proof (r2c_storage_same_St2 s3 s4 SS4 HS3) as HS4.
  assert (Ht4 : nth_error (w_tables s4) tid = Some t') by exact Ht'.
  pose proof (r2n_kinds_of s4 tid t' (proj1 HS4) Ht4) as Kinds.
  destruct (r2n_cb_phase (kind_of s4) tid vals start n s4 t' Ht4 Hok' ltac:(lia) Kinds)
    as (T' & L & HokT & HmetaT & HlenT & HentsT & Hcells & Hres).
  destruct (r2n_cells_post s4 tid t' T' start n HS4 Ht4 HokT HmetaT HlenT HentsT ltac:(lia) Hcells)
    as (HS5 & Hlv5 & Htg5 & Hvin5 & Hvout5).
  set (s5' := sb2_setT s4 (upd tid T' (w_tables s4))) in *.
  assert (HK5 : r2d_KeysLive s5').
  { apply (r2d_KeysLive_mono s3 s5' HK3 eq_refl). intros x Hx. rewrite (Hlv5 x). exact Hx. }
  assert (Hno5 : r2e_noobs s5') by (apply (r2n_noobs_oagg s3 s5' eq_refl Hno3)).
  assert (Hcell0 : forall r c ci, In r (seq start n) -> tbl_colidx t' c = Some ci -> cell t' ci r = 0%Z /\ memb c ids = true).
  { intros r c ci Hr Eci. assert (He : In (row_ent t' r) es) by (rewrite Hes; apply in_map; exact Hr).
    specialize (Hzero _ He c). apply in_seq in Hr.
    destruct (wf_rows _ HW3 tid t' r Ht' ltac:(lia)) as (Hloc & _).
    assert (Hlive : live s3 (row_ent t' r) = true).
    { apply (sb3_live_of_row s3 (row_ent t' r) tid r t'); [apply sb2_loc_iff; exact Hloc|exact Ht'|lia|reflexivity]. }
    unfold val in Hzero. rewrite Hlive in Hzero. destruct (sb2_live_at _ _ _ _ _ Hloc Ht') as (_ & Hva). rewrite Hva, Eci in Hzero.
    destruct (memb c ids); [|discriminate Hzero]. injection Hzero as Hz. split; [exact Hz|reflexivity]. }
  assert (Hcolnone : forall c, tbl_colidx t' c = None -> memb c ids = false).
  { intros c Ec. rewrite <- Hmemb. unfold memb. unfold tbl_colidx in Ec. rewrite Ec. reflexivity. }
  assert (Hothers5 : forall x, ~ In x es -> forall c, val s5' x c = val s3 x c).
  { intros x Hx c. rewrite Hes in Hx. rewrite (Hvout5 x Hx c). reflexivity. }
  destruct (forM_ (seq start n) (fun i => batch_callback tid vals i) s4) as [[] s5|er s5] eqn:Ecb.
  - (* the callbacks ran *)
    destruct Hres as (-> & EL & Hvalid & Hd2).
    set (s5 := b_logged s5' L) in *.
    rewrite (sa_bind_ok Ecb).
    assert (Ht5 : nth_error (w_tables s5) tid = Some T').
    { change (w_tables s5) with (upd tid T' (w_tables s4)). eapply sb2_nth_error_upd_eq; exact Ht4. }
    assert (Erows5 : rows_of tid start n s5 = Ok (firstn n (skipn start (t_ents T'))) s5).
    { unfold rows_of. rewrite (sa_bind_ok (sb2_getT _ _ _ Ht5)). reflexivity. }
    rewrite (sa_bind_ok Erows5).
    rewrite (sa_bind_ok (m := ret tt) (s := s5) eq_refl).
    rewrite (sa_bind_ok (m := ret tt) (s := s5) eq_refl).
    assert (LU5 : lock_unlock (w_lock s5) lb = Some l'') by exact LU.
    rewrite (v_unlockM_ok s5 lb l'' LU5).
    set (s6 := s5 <| w_lock := l'' |>).
    assert (SS6 : storage_same s5' s6) by (unfold storage_same; repeat split).
    pose proof (sb3_storage_same_content s5' s6 SS6) as Hcs6. pose proof (r2c_storage_same_tgt s5' s6 SS6) as Hts6.
    split.
    { split; [apply (r2c_storage_same_St2 s5' s6 SS6 HS5)|]. split.
      - apply (r2d_KeysLive_mono s5' s6 HK5 eq_refl). intros x Hx. rewrite (proj1 (Hcs6 x)). exact Hx.
      - apply (r2n_noobs_oagg s5' s6 eq_refl Hno5). }
    split; [reflexivity|]. split; [unfold frame_user; repeat split|].
    split; [intros x; rewrite (proj1 (Hcs6 x)); apply Hlv5|].
    split; [intros x c; rewrite (Hts6 x c); apply Htg5|].
    split.
    { intros _. split; [discriminate|]. destruct Hvalid as [Hz|Hv]; [left; exact Hz|right].
      intros cv Hcv. apply Hids. apply Hv. exact Hcv. }
    split.
    { intros e He c. rewrite (proj2 (Hcs6 e)). rewrite Hes in He. apply in_map_iff in He. destruct He as (r & <- & Hr).
      rewrite (Hvin5 r c Hr). destruct (tbl_colidx t' c) as [ci|] eqn:Eci.
      - destruct (Hcell0 r c ci Hr Eci) as (Hz & Hm). rewrite Hm. f_equal. unfold tbl_colidx in Eci.
        rewrite (Hd2 c ci r Eci Hr), Hz. unfold bo_cbval. apply bo_wval_ext. reflexivity.
      - rewrite (Hcolnone c Eci). reflexivity. }
    split; [intros x Hx c; rewrite (proj2 (Hcs6 x)); apply (Hothers5 x Hx)|].
    change (w_log s6) with (w_log s3 ++ L). f_equal. rewrite EL, Hes, map_map. reflexivity.
  - (* a callback panicked: the world stays locked *)
    destruct Hres as (-> & -> & EL & Hpos & Hbadv & Hc1).
    set (s5 := b_logged s5' L) in *.
    rewrite (sa_bind_err Ecb).
    assert (SS5 : storage_same s5' s5) by (unfold storage_same; repeat split).
    pose proof (sb3_storage_same_content s5' s5 SS5) as Hcs. pose proof (r2c_storage_same_tgt s5' s5 SS5) as Hts.
    split.
    { split; [apply (r2c_storage_same_St2 s5' s5 SS5 HS5)|]. split.
      - apply (r2d_KeysLive_mono s5' s5 HK5 eq_refl). intros x Hx. rewrite (proj1 (Hcs x)). exact Hx.
      - apply (r2n_noobs_oagg s5' s5 eq_refl Hno5). }
    split; [unfold frame_user; repeat split|].
    split; [intros x; rewrite (proj1 (Hcs x)); apply Hlv5|].
    split; [intros x c; rewrite (Hts x c); apply Htg5|].
    split; [reflexivity|].
    split; [intros x Hx c; rewrite (proj2 (Hcs x)); apply (Hothers5 x Hx)|].
    right. split; [reflexivity|]. split; [exact Hpos|]. split.
    { intros Hv. apply Hbadv. intros cv Hcv. apply Hids. apply Hv. exact Hcv. }
    split; [exists lb; reflexivity|]. split; [apply (bo_lock_taken s3 lb l' LL)|].
    split.
    { intros e He c. rewrite (proj2 (Hcs e)). rewrite Hes in He. apply in_map_iff in He. destruct He as (r & <- & Hr).
      rewrite (Hvin5 r c Hr). rewrite <- Hids. destruct (tbl_colidx t' c) as [ci|] eqn:Eci.
      - split; [intros _|intros _; discriminate]. unfold tbl_colidx in Eci. apply (sa_index_of_some_in _ _ _ Eci).
      - split; [intros Hc; exfalso; apply Hc; reflexivity|]. intros Hin. exfalso. apply sb1_memb_In in Hin.
        rewrite Hmemb, (Hcolnone c Eci) in Hin. discriminate. }
    split.
    { intros e He c. rewrite (proj2 (Hcs e)). rewrite Hes in He. destruct n as [|n']; [destruct He|].
      cbn [seq map tl] in He. apply in_map_iff in He. destruct He as (r & <- & Hr).
      assert (Hr' : In r (seq start (S n'))) by (cbn [seq]; right; exact Hr).
      assert (Hne : r <> start) by (apply in_seq in Hr; lia).
      rewrite (Hvin5 r c Hr').
      apply in_seq in Hr'.
      destruct (wf_rows _ HW3 tid t' r Ht' ltac:(lia)) as (Hloc & _).
      assert (Hlive : live s3 (row_ent t' r) = true).
      { apply (sb3_live_of_row s3 (row_ent t' r) tid r t'); [apply sb2_loc_iff; exact Hloc|exact Ht'|lia|reflexivity]. }
      unfold val. rewrite Hlive. destruct (sb2_live_at _ _ _ _ _ Hloc Ht') as (_ & Hva). rewrite Hva.
      destruct (tbl_colidx t' c) as [ci|]; [|reflexivity]. rewrite (Hc1 ci r Hne). reflexivity. }
    change (w_log s5) with (w_log s3 ++ L). f_equal. rewrite EL, Hes. destruct n as [|n']; [lia|]. reflexivity.
Qed.

(** ** B.9 MapN.NewBatch / NewBatchFn *)

(** The relation targets of a call are proper handles (Rel2SetRel: the zero entity, a stored entity, or a recognisably
    dead one; forged handles cannot be obtained from the API). *)
Definition r2n_handles (s : W) (rels : list rel) : Prop := forall r, In r rels -> r2b_handle_ok s (snd r).

(** [es]: [n] fresh entities with exactly the components [ids], values [v], the named relation targets; nobody else
    changes. *)
Definition r2n_created (s s' : W) (n : nat) (ids : list nat) (rels : list rel) (v : nat -> Z) (es : list ent) : Prop :=
  r2n_fresh s s' n es /\
  (forall e, In e es -> (forall c, val s' e c = if memb c ids then Some (v c) else None) /\
                        (forall c, tgt s' e c = if memb c ids then Some (r2a_new_target rels c) else None)) /\
  r2n_others s s' es.

(** All outcomes of [w_new_batch n ids rels vals fn] on an unlocked world of the relation tier without observers,
    for registered components and relation targets that are proper handles. The invariant
    ([St2], [r2d_KeysLive], no observers) holds in EVERY outcome.
    - success: exactly what ToRelations and the table finder check held ([r2n_rels_checked], [r2n_finder_ok]); [n] fresh
      entities with components [ids], the named targets, values zero or (with a callback) what the callback stored
      ([bo_cbval]: last value given, zero-sized kinds stay zero); nobody else changes; unlocked; the log has one
      entry per entity iff a callback was passed;
    - failure 1 (ToRelations): state literally unchanged;
    - failure 2 (table finder): everybody unchanged, unlocked, at most an archetype / empty table was created;
    - failure 3 (no lock bit, only with a callback): the entities exist (values zero), unlocked, lock/log untouched;
    - failure 4 (a value names a component outside [ids], only with a callback and [n > 0]): the entities exist, the
      callback of the FIRST one panicked with [ENil]; NewBatchFn has no deferred unlock, so THE WORLD STAYS LOCKED
      with the bit taken for the callbacks; the other new entities are zero, the first one is partially written. *)
Theorem r2n_new_batch_spec : forall s n ids rels vals fn,
  St2 s -> r2d_KeysLive s -> r2e_noobs s -> is_locked s = false -> room_n s n -> registered s ids -> r2n_handles s rels ->
  match w_new_batch n ids rels vals fn s with
  | Ok _ s' =>
      r2n_inv s' /\ is_locked s' = false /\ frame_user s s' /\
      r2n_rels_checked s ids rels /\ r2n_finder_ok s ids rels /\
      (fn = true -> lock_lock (w_lock s) <> None /\ (n = 0 \/ r2n_vals_ok ids vals)) /\
      exists es, r2n_created s s' n ids rels (fun c => if fn then bo_cbval s vals c else 0%Z) es /\
                 w_log s' = w_log s ++ (if fn then map b_entry es else [])
  | Err er s' =>
      r2n_inv s' /\ frame_user s s' /\
      ((s' = s /\ ~ r2n_rels_checked s ids rels /\ (er = EDeadTarget \/ er = ENotRelation \/ er = ERelNotInMask)) \/
       (r2n_rels_checked s ids rels /\ ~ r2n_finder_ok s ids rels /\ r2a_keeps s s' /\ r2n_nobody s s' /\ is_locked s' = false) \/
       (er = EBits /\ fn = true /\ lock_lock (w_lock s) = None /\ r2n_rels_checked s ids rels /\ r2n_finder_ok s ids rels /\
        is_locked s' = false /\ side_same s s' /\ exists es, r2n_created s s' n ids rels (fun _ => 0%Z) es) \/
       (er = ENil /\ fn = true /\ 0 < n /\ ~ r2n_vals_ok ids vals /\ r2n_rels_checked s ids rels /\ r2n_finder_ok s ids rels /\
        (exists b, lock_lock (w_lock s) = Some (b, w_lock s')) /\ is_locked s' = true /\
        exists e0 rest, r2n_fresh s s' n (e0 :: rest) /\ r2n_others s s' (e0 :: rest) /\
          (forall e, In e (e0 :: rest) -> (forall c, val s' e c <> None <-> In c ids) /\
                       (forall c, tgt s' e c = if memb c ids then Some (r2a_new_target rels c) else None)) /\
          (forall e, In e rest -> forall c, val s' e c = if memb c ids then Some 0%Z else None) /\
          w_log s' = w_log s ++ [b_entry e0]))
  end.
Proof.
  intros s n ids rels vals fn HS HK Hno Hunl Hroom Hreg Hh.
  assert (Hinv : r2n_inv s) by (split; [exact HS|split; [exact HK|exact Hno]]).
  unfold w_new_batch.
  rewrite (sa_bind_ok (sb1_check_locked_ok s Hunl)).
  pose proof (r2n_to_relations ids rels s) as Htr.
  destruct (to_relations (mk_of_list ids) rels s) as [[] s0|er0 s0] eqn:Etr.
  2:{ (* 1: ToRelations rejects *)
      destruct Htr as (-> & Her & r & Hr & Hwhy). rewrite (sa_bind_err Etr).
      split; [exact Hinv|]. split; [apply sa_frame_user_refl|]. left. split; [reflexivity|]. split; [|exact Her].
      intros Hc. destruct (Hc r Hr) as (C1 & C2 & C3). destruct Hwhy as [(W1 & W2)|[W|W]].
      - destruct C1 as [C1|C1]; [contradiction|congruence].
      - congruence.
      - contradiction. }
  destruct Htr as (-> & Hchk). rewrite (sa_bind_ok Etr).
  pose proof (r2n_checked_pre s ids rels Hh Hchk) as Hpre.
  pose proof (r2n_new_entities_run s n ids rels HS HK Hno Hroom Hreg Hpre) as Hrun.
  destruct (new_entities n ids rels s) as [[tid start] s3|er1 s1] eqn:Ene.
  2:{ (* 2: the table finder rejects *)
      destruct Hrun as (Hnok & HS1 & HK1 & K). rewrite (sa_bind_err Ene).
      pose proof K as (_ & _ & _ & _ & Kside & Kfr).
      split; [split; [exact HS1|split; [exact HK1|apply (r2e_noobs_side s s1 Kside Hno)]]|]. split; [exact Kfr|].
      right. left. split; [exact Hchk|]. split; [exact Hnok|]. split; [exact K|]. split; [apply (r2n_keeps_nobody s s1 HS K)|].
      unfold is_locked. rewrite (proj1 Kside). exact Hunl. }
  rewrite (sa_bind_ok Ene). cbv beta iota.
  destruct Hrun as (Hfok & HS3 & HK3 & Hside3 & Hfr3 & es & t' & (Hfresh & Hvt & Hoth) & Ht' & Hl' & Hes & Hids).
  pose proof Hside3 as (Elock & Elog & _).
  assert (Hno3 : r2e_noobs s3) by (apply (r2e_noobs_side s s3 Hside3 Hno)).
  assert (Hunl3 : is_locked s3 = false) by (unfold is_locked; rewrite Elock; exact Hunl).
  unfold bind at 1. unfold get at 1. cbv zeta.
  rewrite (Hno3 EvCreateEntity), (Hno3 EvAddRelations), andb_false_r. cbn [orb].
  pose proof (r2n_callback_phase s3 tid start n ids vals fn t'
                (fun es0 => fire_rows (fun e eo => fire_create_entity e (mk_of_list ids) eo) es0 true)
                (fun es0 => fire_rows (fun e eo => fire_create_entity_rel e (mk_of_list ids) eo) es0 true)
                HS3 HK3 Hno3 Hunl3 Ht' Hl' Hids) as P.
  cbv zeta in P. rewrite Hes in P.
  specialize (P (fun e He => proj1 (Hvt e He))).
  match type of P with match ?R with _ => _ end =>
    match goal with |- match ?G with _ => _ end => change G with R end end.
  match type of P with match ?R with _ => _ end => destruct R as [[] s'|er s'] end.
  - (* success *)
    destruct P as ((P1 & P2 & P3) & P4 & P5 & P6 & P7 & P8 & P9 & P10 & P11).
    split; [split; [exact P1|split; [exact P2|exact P3]]|]. split; [exact P4|].
    split; [apply (sa_frame_user_trans s s3 s' Hfr3 P5)|]. split; [exact Hchk|]. split; [exact Hfok|].
    split; [intros Hfn; rewrite <- Elock; apply (P8 Hfn)|].
    exists es. split.
    + destruct Hfresh as (F1 & F2 & F3). split; [split; [exact F1|split; [exact F2|]]|split].
      * intros e He. destruct (F3 e He) as (A & B & C). split; [exact A|]. split; [rewrite P6; exact B|].
        apply (live_alive s' e (proj1 P1)). rewrite P6. exact B.
      * intros e He. split.
        -- intros c. rewrite (P9 e He c). destruct (memb c ids); [|reflexivity]. destruct fn; [|reflexivity].
           f_equal. unfold bo_cbval. apply bo_wval_ext. apply sa_kind_of_ext. apply Hfr3.
        -- intros c. rewrite (P7 e c). apply (proj2 (Hvt e He)).
      * intros e He. destruct (Hoth e He) as (O1 & O2 & O3).
        split; [rewrite P6; exact O1|]. split; [intros c; rewrite (P10 e He c); apply O2|intros c; rewrite (P7 e c); apply O3].
    + rewrite P11, Elog. reflexivity.
  - (* failure after the creation *)
    destruct P as ((P1 & P2 & P3) & P5 & P6 & P7 & Pfn & P10 & Pcase).
    split; [split; [exact P1|split; [exact P2|exact P3]]|]. split; [apply (sa_frame_user_trans s s3 s' Hfr3 P5)|].
    right. right. destruct Pcase as [(-> & LL & ->)|(-> & Hpos & Hbad & (b & LL) & Hlk & Pv & Ptl & Plog)].
    + (* 3: no lock bit *)
      left. split; [reflexivity|]. split; [exact Pfn|]. split; [rewrite <- Elock; exact LL|]. split; [exact Hchk|]. split; [exact Hfok|].
      split; [exact Hunl3|]. split; [exact Hside3|]. exists es. split; [exact Hfresh|]. split; [exact Hvt|exact Hoth].
    + (* 4: a callback panicked *)
      right. split; [reflexivity|]. split; [exact Pfn|]. split; [exact Hpos|]. split; [exact Hbad|]. split; [exact Hchk|]. split; [exact Hfok|].
      split; [exists b; rewrite <- Elock; exact LL|]. split; [exact Hlk|].
      destruct Hfresh as (F1 & F2 & F3).
      destruct es as [|e0 rest]; [cbn in F1; lia|].
      exists e0, rest. split.
      { split; [exact F1|]. split; [exact F2|]. intros e He. destruct (F3 e He) as (A & B & C). split; [exact A|].
        split; [rewrite P6; exact B|]. apply (live_alive s' e (proj1 P1)). rewrite P6. exact B. }
      split.
      { intros e He. destruct (Hoth e He) as (O1 & O2 & O3).
        split; [rewrite P6; exact O1|]. split; [intros c; rewrite (P10 e He c); apply O2|intros c; rewrite (P7 e c); apply O3]. }
      split.
      { intros e He. split; [apply (Pv e He)|]. intros c. rewrite (P7 e c). apply (proj2 (Hvt e (He))). }
      split.
      { intros e He c. rewrite (Ptl e He c). apply (proj1 (Hvt e (or_intror He))). }
      rewrite Plog, Elog. reflexivity.
Qed.

(** ** B.10 valid calls succeed *)

(** Whatever ToRelations and the finder check holds, values only name components of the batch (or there is no
    row), a lock bit is available when a callback is passed: the call succeeds. *)
Corollary r2n_new_batch_ok_checked : forall s n ids rels vals fn,
  St2 s -> r2d_KeysLive s -> r2e_noobs s -> is_locked s = false -> room_n s n -> registered s ids -> r2n_handles s rels ->
  r2n_rels_checked s ids rels -> r2n_finder_ok s ids rels ->
  (fn = true -> lock_lock (w_lock s) <> None /\ (n = 0 \/ r2n_vals_ok ids vals)) ->
  exists s', w_new_batch n ids rels vals fn s = Ok tt s'.
Proof.
  intros s n ids rels vals fn HS HK Hno Hunl Hroom Hreg Hh Hchk Hfok Hfn.
  pose proof (r2n_new_batch_spec s n ids rels vals fn HS HK Hno Hunl Hroom Hreg Hh) as P.
  destruct (w_new_batch n ids rels vals fn s) as [[] s'|er s']; [exists s'; reflexivity|]. exfalso.
  destruct P as (_ & _ & [(_ & Hc & _)|[(_ & Hc & _)|[(_ & Efn & LL & _)|(_ & Efn & Hpos & Hbad & _)]]]).
  - exact (Hc Hchk).
  - exact (Hc Hfok).
  - destruct (Hfn Efn) as (Hl & _). exact (Hl LL).
  - destruct (Hfn Efn) as (_ & [Hz|Hv]); [lia|exact (Hbad Hv)].
Qed.

(** the same from the validity hypotheses of the single-entity theorems ([r2a_rels_ok], [r2a_rels_complete]) *)
Lemma r2n_rels_ok_checked : forall s ids rels, WF s -> r2a_rels_ok s ids rels -> r2n_handles s rels /\ r2n_rels_checked s ids rels.
Proof.
  intros s ids rels HW (R1 & R2 & R3). split.
  - intros r Hr. destruct (R3 r Hr) as [Hz|Hl]; [left; exact Hz|right; left; exact Hl].
  - intros r Hr. destruct (R2 r Hr) as (A & B). split; [|split; assumption].
    destruct (R3 r Hr) as [Hz|Hl]; [left; rewrite Hz; reflexivity|right; apply (live_alive s (snd r) HW Hl)].
Qed.

Corollary r2n_new_batch_ok : forall s n ids rels vals fn,
  St2 s -> r2d_KeysLive s -> r2e_noobs s -> is_locked s = false -> room_n s n -> registered s ids ->
  NoDup ids -> r2a_rels_ok s ids rels -> r2a_rels_complete s ids rels ->
  (fn = true -> lock_lock (w_lock s) <> None /\ (n = 0 \/ r2n_vals_ok ids vals)) ->
  exists s', w_new_batch n ids rels vals fn s = Ok tt s' /\
    r2n_inv s' /\ is_locked s' = false /\ frame_user s s' /\
    exists es, r2n_created s s' n ids rels (fun c => if fn then bo_cbval s vals c else 0%Z) es /\
               w_log s' = w_log s ++ (if fn then map b_entry es else []).
Proof.
  intros s n ids rels vals fn HS HK Hno Hunl Hroom Hreg Hnd Hok Hcomp Hfn.
  destruct (r2n_rels_ok_checked s ids rels (proj1 HS) Hok) as (Hh & Hchk).
  assert (Hfok : r2n_finder_ok s ids rels) by (split; [exact Hnd|split; [apply Hok|exact Hcomp]]).
  destruct (r2n_new_batch_ok_checked s n ids rels vals fn HS HK Hno Hunl Hroom Hreg Hh Hchk Hfok Hfn) as (s' & E).
  pose proof (r2n_new_batch_spec s n ids rels vals fn HS HK Hno Hunl Hroom Hreg Hh) as P. rewrite E in P.
  destruct P as (P1 & P2 & P3 & _ & _ & _ & P7).
  exists s'. split; [exact E|]. split; [exact P1|]. split; [exact P2|]. split; [exact P3|exact P7].
Qed.

(** the version asked for first: invariant, freshness, components and targets, nobody else, unlocked; it is the
    projection of [r2n_new_batch_spec] that forgets the values and the log *)
Corollary r2n_new_batch_spec_partial : forall s n ids rels vals fn,
  St2 s -> r2d_KeysLive s -> r2e_noobs s -> is_locked s = false -> room_n s n -> registered s ids -> r2n_handles s rels ->
  match w_new_batch n ids rels vals fn s with
  | Ok _ s' =>
      r2n_inv s' /\ is_locked s' = false /\
      exists es, r2n_fresh s s' n es /\ r2n_others s s' es /\
        forall e, In e es -> (forall c, val s' e c <> None <-> In c ids) /\
                             (forall c, tgt s' e c = if memb c ids then Some (r2a_new_target rels c) else None)
  | Err _ s' => r2n_inv s'
  end.
Proof.
  intros s n ids rels vals fn HS HK Hno Hunl Hroom Hreg Hh.
  pose proof (r2n_new_batch_spec s n ids rels vals fn HS HK Hno Hunl Hroom Hreg Hh) as P.
  destruct (w_new_batch n ids rels vals fn s) as [[] s'|er s']; [|apply P].
  destruct P as (P1 & P2 & _ & _ & _ & _ & es & (F & V & O) & _).
  split; [exact P1|]. split; [exact P2|]. exists es. split; [exact F|]. split; [exact O|].
  intros e He. destruct (V e He) as (V1 & V2). split; [|exact V2].
  intros c. rewrite (V1 c). rewrite <- sb1_memb_In. destruct (memb c ids); split; intros H; try reflexivity; try discriminate.
  exfalso. apply H. reflexivity.
Qed.

(** ** B.11 Non-vacuity, the outcomes on concrete runs, and why the handle hypothesis is needed

    World [r2a_ex_world]: entities (2,0), (3,0), child (4,0) with components 2, 3 and relation 3 -> (2,0).
    Components of [r2_cfg]: 0,1,2 plain; 3,4 relation components. The batch: two entities with components 0 and 3,
    relation 3 -> (2,0), the callback stores 7 in component 0. *)

Definition r2n_ex_ids : list nat := [0; 3].
Definition r2n_ex_rels : list rel := [(3, (2, 0%N))].
Definition r2n_ex_vals : list (nat * Z) := [(0, 7%Z)].

Lemma r2n_ex_hyps2 :
  is_rel_comp r2a_ex_world 3 = true /\ is_rel_comp r2a_ex_world 0 = false /\ live r2a_ex_world (2, 0%N) = true /\
  length (w_reg r2a_ex_world) = 8 /\ bo_cbval r2a_ex_world r2n_ex_vals 0 = 7%Z /\ bo_cbval r2a_ex_world r2n_ex_vals 3 = 0%Z.
Proof. vm_compute. repeat split. Qed.

Lemma r2n_ex_valid : registered r2a_ex_world r2n_ex_ids /\ NoDup r2n_ex_ids /\ r2a_rels_ok r2a_ex_world r2n_ex_ids r2n_ex_rels /\
  r2a_rels_complete r2a_ex_world r2n_ex_ids r2n_ex_rels /\ r2n_vals_ok r2n_ex_ids r2n_ex_vals.
Proof.
  destruct r2n_ex_hyps2 as (R3 & R0 & L2 & LR & _).
  split.
  { intros c Hc. rewrite LR. destruct Hc as [<-|[<-|[]]]; lia. }
  split.
  { constructor; [intros [Hc|[]]; discriminate Hc|]. constructor; [intros []|constructor]. }
  split.
  { split; [constructor; [intros []|constructor]|]. split.
    - intros r [<-|[]]. split; [right; left; reflexivity|exact R3].
    - intros r [<-|[]]. right. exact L2. }
  split.
  { intros c [<-|[<-|[]]] Hr; [rewrite R0 in Hr; discriminate Hr|left; reflexivity]. }
  intros cv [<-|[]]. left. reflexivity.
Qed.

(** the hypotheses of [r2n_new_batch_ok] hold in a reachable world with a relation, and BY THE THEOREM the call
    succeeds; the new entities point to (2,0), hold the callback's value, the old child keeps its parent *)
Example r2n_new_batch_nonvacuous : forall fn,
  exists s', w_new_batch 2 r2n_ex_ids r2n_ex_rels r2n_ex_vals fn r2a_ex_world = Ok tt s' /\
    St2 s' /\ r2d_KeysLive s' /\ is_locked s' = false /\
    (exists es, length es = 2 /\ NoDup es /\
       (forall e, In e es -> live r2a_ex_world e = false /\ live s' e = true /\ tgt s' e 3 = Some (2, 0%N) /\
                             val s' e 0 = Some (if fn then 7%Z else 0%Z) /\ val s' e 3 = Some 0%Z /\ val s' e 1 = None) /\
       w_log s' = if fn then map b_entry es else []) /\
    live s' (4, 0%N) = true /\ tgt s' (4, 0%N) 3 = Some (2, 0%N).
Proof.
  intros fn. destruct (r2n_ex_pre 2 ltac:(lia)) as (HS & HK & Hno & Hunl & Hroom).
  destruct r2n_ex_hyps as (_ & _ & _ & _ & _ & L4 & T4 & LL & Elog).
  destruct r2n_ex_hyps2 as (_ & _ & _ & _ & C0 & C3).
  destruct r2n_ex_valid as (Hreg & Hnd & Hok & Hcomp & Hvals).
  destruct (r2n_new_batch_ok r2a_ex_world 2 r2n_ex_ids r2n_ex_rels r2n_ex_vals fn HS HK Hno Hunl Hroom Hreg Hnd Hok Hcomp
              (fun _ => conj LL (or_intror Hvals))) as (s' & E & (P1 & P2 & _) & P4 & _ & es & ((F1 & F2 & F3) & V & O) & Plog).
  exists s'. split; [exact E|]. split; [exact P1|]. split; [exact P2|]. split; [exact P4|].
  assert (Hnin : ~ In (4, 0%N) es) by (intros Hin; destruct (F3 _ Hin) as (Hc & _); congruence).
  destruct (O _ Hnin) as (Q1 & _ & Q3).
  split.
  - exists es. split; [exact F1|]. split; [exact F2|]. split.
    + intros e He. destruct (F3 e He) as (A & B & _). destruct (V e He) as (V1 & V2).
      split; [exact A|]. split; [exact B|]. split; [rewrite (V2 3); reflexivity|].
      split; [rewrite (V1 0); cbn [memb index_of r2n_ex_ids Nat.eqb]; rewrite C0; destruct fn; reflexivity|].
      split; [rewrite (V1 3); cbn [memb index_of r2n_ex_ids Nat.eqb]; rewrite C3; destruct fn; reflexivity|].
      rewrite (V1 1). reflexivity.
    + rewrite Plog, Elog. reflexivity.
  - split; [rewrite Q1; exact L4|rewrite Q3; exact T4].
Qed.

(** *** The four failing outcomes, on concrete runs (error code, lock state, number of rows of table 1 afterwards) *)

Definition r2n_outcome (r : res W unit) : option err * bool * list nat :=
  match r with
  | Ok _ s' => (None, is_locked s', map t_len (w_tables s'))
  | Err e s' => (Some e, is_locked s', map t_len (w_tables s'))
  end.

Example r2n_new_batch_outcomes :
  (* success *)
  r2n_outcome (w_new_batch 2 r2n_ex_ids r2n_ex_rels r2n_ex_vals true r2a_ex_world) = (None, false, [2; 3]) /\
  (* 1: ToRelations: dead target; non-relation component *)
  r2n_outcome (w_new_batch 2 r2n_ex_ids [(3, (9, 0%N))] r2n_ex_vals true r2a_ex_world) = (Some EDeadTarget, false, [2; 1]) /\
  r2n_outcome (w_new_batch 2 r2n_ex_ids [(0, (2, 0%N))] r2n_ex_vals true r2a_ex_world) = (Some ENotRelation, false, [2; 1]) /\
  (* 2: the finder: relation component without target; relation component named twice; component twice *)
  r2n_outcome (w_new_batch 2 r2n_ex_ids [] r2n_ex_vals true r2a_ex_world) = (Some ERelUnspec, false, [2; 1]) /\
  r2n_outcome (w_new_batch 2 r2n_ex_ids [(3, (2, 0%N)); (3, (3, 0%N))] r2n_ex_vals true r2a_ex_world) = (Some ERelUnspec, false, [2; 1]) /\
  r2n_outcome (w_new_batch 2 [0; 0] [] r2n_ex_vals true r2a_ex_world) = (Some EHasComp, false, [2; 1]) /\
  (* 3: no lock bit: the two entities exist, unlocked *)
  r2n_outcome (w_new_batch 2 r2n_ex_ids r2n_ex_rels r2n_ex_vals true r2n_ex_nobits) = (Some EBits, false, [2; 3]) /\
  (* 4: a value for component 1, which the batch lacks: the two entities exist, THE WORLD STAYS LOCKED *)
  r2n_outcome (w_new_batch 2 r2n_ex_ids r2n_ex_rels [(1, 5%Z)] true r2a_ex_world) = (Some ENil, true, [2; 3]) /\
  (* ... but not without rows, nor without a callback *)
  r2n_outcome (w_new_batch 0 r2n_ex_ids r2n_ex_rels [(1, 5%Z)] true r2a_ex_world) = (None, false, [2; 1]) /\
  r2n_outcome (w_new_batch 2 r2n_ex_ids r2n_ex_rels [(1, 5%Z)] false r2a_ex_world) = (None, false, [2; 3]).
Proof. vm_compute. repeat split. Qed.

(** outcome 4 BY THE THEOREM: the invariant holds in the locked state that is left behind *)
Example r2n_new_batch_stays_locked :
  exists s', w_new_batch 2 r2n_ex_ids r2n_ex_rels [(1, 5%Z)] true r2a_ex_world = Err ENil s' /\
    St2 s' /\ r2d_KeysLive s' /\ is_locked s' = true /\
    exists e0 e1, live s' e0 = true /\ live s' e1 = true /\ e0 <> e1 /\ live r2a_ex_world e0 = false /\
      live r2a_ex_world e1 = false /\ tgt s' e1 3 = Some (2, 0%N) /\ val s' e1 0 = Some 0%Z.
Proof.
  destruct (r2n_ex_pre 2 ltac:(lia)) as (HS & HK & Hno & Hunl & Hroom).
  destruct r2n_ex_valid as (Hreg & Hnd & Hok & Hcomp & _).
  destruct (r2n_rels_ok_checked _ _ _ (proj1 HS) Hok) as (Hh & Hchk).
  assert (Hfok : r2n_finder_ok r2a_ex_world r2n_ex_ids r2n_ex_rels) by (split; [exact Hnd|split; [exact (proj1 Hok)|exact Hcomp]]).
  pose proof (r2n_new_batch_spec r2a_ex_world 2 r2n_ex_ids r2n_ex_rels [(1, 5%Z)] true HS HK Hno Hunl Hroom Hreg Hh) as P.
  assert (Hout : fst (fst (r2n_outcome (w_new_batch 2 r2n_ex_ids r2n_ex_rels [(1, 5%Z)] true r2a_ex_world))) = Some ENil)
    by (vm_compute; reflexivity).
  destruct (w_new_batch 2 r2n_ex_ids r2n_ex_rels [(1, 5%Z)] true r2a_ex_world) as [[] s'|er s']; [discriminate Hout|].
  cbn [r2n_outcome fst] in Hout. injection Hout as ->.
  destruct P as ((P1 & P2 & _) & _ & [(_ & _ & [Hc|[Hc|Hc]])|[(_ & Hc & _)|[(Hc & _)|(_ & _ & _ & _ & _ & _ & _ & Hlk & e0 & rest & (F1 & F2 & F3) & _ & VT & V0 & _)]]]);
    try discriminate Hc; [exact (False_ind _ (Hc Hfok))|].
  exists s'. split; [reflexivity|]. split; [exact P1|]. split; [exact P2|]. split; [exact Hlk|].
  destruct rest as [|e1 [|e2 rest]]; try discriminate F1.
  exists e0, e1.
  destruct (F3 e0 (or_introl eq_refl)) as (A0 & B0 & _). destruct (F3 e1 (or_intror (or_introl eq_refl))) as (A1 & B1 & _).
  split; [exact B0|]. split; [exact B1|]. split.
  { intros ->. inversion F2 as [|? ? Hn _]. apply Hn. left. reflexivity. }
  split; [exact A0|]. split; [exact A1|]. split.
  - destruct (VT e1 (or_intror (or_introl eq_refl))) as (_ & T). rewrite (T 3). reflexivity.
  - rewrite (V0 e1 (or_introl eq_refl) 0). reflexivity.
Qed.

(** *** (refuted) without the hypothesis on the handles the invariant is NOT kept: a forged handle (id 0 with a
    non-zero generation) passes the liveness checks of ToRelations and createTable ("id 0 or alive") although it is
    neither the zero entity nor stored; the new table names a target that is not a legal one ([ri_targets_ok]).
    Such a handle cannot be obtained from the API (Entity's fields are private). *)
Example r2n_new_batch_forged_refuted :
  ~ (forall s n ids rels vals fn, St2 s -> r2d_KeysLive s -> r2e_noobs s -> is_locked s = false -> room_n s n ->
       registered s ids -> St2 (state_of (w_new_batch n ids rels vals fn s))).
Proof.
  intros H. destruct (r2n_ex_pre 1 ltac:(lia)) as (HS & HK & Hno & Hunl & Hroom).
  destruct r2n_ex_hyps2 as (_ & _ & _ & LR & _).
  assert (Hreg : registered r2a_ex_world [3]) by (intros c [<-|[]]; rewrite LR; lia).
  specialize (H r2a_ex_world 1 [3] [(3, (0, 5%N))] [] false HS HK Hno Hunl Hroom Hreg).
  destruct (w_new_batch 1 [3] [(3, (0, 5%N))] [] false r2a_ex_world) as [[] s'|er s'] eqn:E; [|vm_compute in E; discriminate E].
  cbn [state_of] in H.
  assert (Q : exists t, nth_error (w_tables s') 2 = Some t /\ t_free t = false /\ In (3, (0, 5%N)) (t_rels t) /\ live s' (0, 5%N) = false).
  { vm_compute in E. injection E as <-. eexists. split; [reflexivity|]. split; [reflexivity|]. split; [left; reflexivity|vm_compute; reflexivity]. }
  destruct Q as (t & Ht & Hf & Hin & Hl). destruct H as (_ & (HR & _) & _).
  destruct (ri_targets_ok _ _ HR 2 t (3, (0, 5%N)) Ht Hf Hin) as [Hz|[Hl'|[]]].
  - discriminate Hz.
  - cbn [snd] in Hl'. rewrite Hl in Hl'. discriminate Hl'.
Qed.

(** *** (refuted) ... and [registered s ids] is needed as well: a component id beyond the registry (which the typed API
    cannot produce) puts a bit into an archetype mask that [WF] does not allow *)
Example r2n_new_batch_unregistered_refuted :
  ~ (forall s n ids rels vals fn, St2 s -> r2d_KeysLive s -> r2e_noobs s -> is_locked s = false -> room_n s n ->
       r2n_handles s rels -> St2 (state_of (w_new_batch n ids rels vals fn s))).
Proof.
  intros H. destruct (r2n_ex_pre 1 ltac:(lia)) as (HS & HK & Hno & Hunl & Hroom).
  specialize (H r2a_ex_world 1 [20] [] [] false HS HK Hno Hunl Hroom (fun r (Hr : In r []) => match Hr with end)).
  destruct (w_new_batch 1 [20] [] [] false r2a_ex_world) as [[] s'|er s'] eqn:E; [|vm_compute in E; discriminate E].
  cbn [state_of] in H.
  assert (Q : exists a, nth_error (w_archs s') 2 = Some a /\ mk_get (a_mask a) 20 = true /\ length (w_reg s') = 8).
  { vm_compute in E. injection E as <-. eexists. split; [reflexivity|]. split; vm_compute; reflexivity. }
  destruct Q as (a & Ha & Hm & Hl). destruct H as (HW & _).
  destruct (wf_arch_comps _ HW 2 a Ha) as (_ & C2 & _). specialize (C2 20 Hm). rewrite Hl in C2. lia.
Qed.

(* ================================================================================================ *)
(** * Assumption audit *)
Definition r2n_all :=
  (r2n_new_entities_spec, r2n_new_entities_ok, r2n_new_entities_nonvacuous, r2n_new_entities_fails_after_creating,
   r2n_to_relations, r2n_setcells, r2n_create_entities, r2n_finder, r2n_new_entities_run, r2n_cb_phase, r2n_callback_phase,
   r2n_new_batch_spec, r2n_new_batch_spec_partial, r2n_new_batch_ok_checked, r2n_new_batch_ok,
   r2n_new_batch_nonvacuous, r2n_new_batch_outcomes, r2n_new_batch_stays_locked, r2n_new_batch_forged_refuted,
   r2n_new_batch_unregistered_refuted).
Print Assumptions r2n_all.
