(** * BatchProofs: batch creation and the bulk move of one table, against the single-entity
    operations (relation-free tier). Property C06.
    [create_entities_spec] and [exchange_table_spec] are proved as stated; [new_entities_spec] is
    refuted as stated ([new_entities_spec_refuted]) and proved as [new_entities_spec_partial] with
    the extra hypothesis [lock_lock (w_lock s) <> None]. Helper lemmas carry the prefix [b_]. *)
From Ark Require Import Model.Base Model.Mask Model.Pool Model.Util Model.World Model.Run.
From Ark Require Import Proofs.TableProofs Proofs.MaskProofs Proofs.WF Proofs.StorageA Proofs.StorageBDefs.
From Ark Require Import Proofs.StorageB_sb1 Proofs.StorageB_sb2 Proofs.StorageB_sb3 Proofs.ViewProofs.
From RecordUpdate Require Import RecordSet.
Import RecordSetNotations.
From Coq Require Import Lia.

(** Room for [n] more entities. *)
Definition room_n (s : W) (n : nat) : Prop := length (pe (w_pool s)) + n < Nat.pow 2 31.


(* ------------------------------------------------------------------ *)
(** ** Helpers (prefix [b_]) for create_entities *)

(** The loop of [create_entities] runs on a state whose table [tid] already has its final length
    [L]; rows beyond the ones filled so far are allocated but not yet owned. We relate that "real"
    state to a "virtual" state [v] in which table [tid] has only the rows filled so far: the virtual
    state satisfies the full invariant, and every iteration is, on the virtual state, exactly the
    single-entity placement of StorageB_sb1 ([sb1_p_*]). *)
Definition b_real (v : W) (tid : nat) (tv : table) (L : nat) : W :=
  v <| w_tables := upd tid (tv <| t_len := L |>) (w_tables v) |>.

Definition b_cbody (tid index : nat) : MW unit :=
  e <- pool_getM ;;
  modT tid (fun t => t <| t_ents ::= upd index e |>) ;;;
  set_index (fst e) (Some tid, index) ;;;
  modify (fun s => s <| w_istarget ::= upd (fst e) false |>).

Definition b_t2 (tv : table) (e : ent) : table :=
  tv <| t_ents := upd (t_len tv) e (t_ents tv) |> <| t_len := S (t_len tv) |>.

Definition b_v2 (v : W) (tid : nat) (tv : table) (e : ent) (p' : pool) : W :=
  sb1_st2 v p' (upd tid (b_t2 tv e) (w_tables v)) (sb1_idx v e (Some tid, t_len tv))
          (upd (fst e) false (sb1_ist v e)).

Lemma b_real_id : forall v tid tv L, nth_error (w_tables v) tid = Some tv -> t_len tv = L -> b_real v tid tv L = v.
Proof.
  intros v tid tv L H E. subst L. unfold b_real.
  replace (tv <| t_len := t_len tv |>) with tv by (destruct tv; reflexivity).
  rewrite sb2_upd_same by assumption. destruct v; reflexivity.
Qed.

Lemma b_W_ext : forall a b : W,
  w_cfg a = w_cfg b ->
  w_reg a = w_reg b ->
  w_pool a = w_pool b ->
  w_index a = w_index b ->
  w_istarget a = w_istarget b ->
  w_archs a = w_archs b ->
  w_tables a = w_tables b ->
  w_relarchs a = w_relarchs b ->
  w_compindex a = w_compindex b ->
  w_archcount a = w_archcount b ->
  w_version a = w_version b ->
  w_cheap a = w_cheap b ->
  w_centries a = w_centries b ->
  w_cpool a = w_cpool b ->
  w_lock a = w_lock b ->
  w_obs a = w_obs b ->
  w_olists a = w_olists b ->
  w_oagg a = w_oagg b ->
  w_opool a = w_opool b ->
  w_ototal a = w_ototal b ->
  w_omax a = w_omax b ->
  w_filters a = w_filters b ->
  w_queries a = w_queries b ->
  w_res a = w_res b ->
  w_issued a = w_issued b ->
  w_log a = w_log b ->
  a = b.
Proof. intros a b; destruct a, b; cbn; intros; subst; reflexivity. Qed.

Lemma b_cbody_step : forall v tid tv L e p',
  nth_error (w_tables v) tid = Some tv -> pool_get (w_pool v) = (e, p') ->
  b_cbody tid (t_len tv) (b_real v tid tv L) = Ok tt (b_real (b_v2 v tid tv e p') tid (b_t2 tv e) L).
Proof.
  intros v tid tv L e p' Ht Hg.
  assert (Hlt : tid < length (w_tables v)) by (apply nth_error_Some; congruence).
  unfold b_cbody.
  erewrite sb1_bind_ok by (apply sb1_pool_getM_eq; cbn; exact Hg). cbv beta.
  unfold modT, set_index, modify, bind, b_real, b_v2, sb1_st2, sb1_idx, sb1_ist. cbn.
  f_equal.
  destruct (Nat.eqb (fst e) (length (w_index v))); apply b_W_ext; cbn; try reflexivity;
    (rewrite sb1_updf_upd by assumption); rewrite sb2_upd_upd; reflexivity.
Qed.

(** Placement of a fresh entity in a new last row, for any grown table (generalises [sb1_place_new]). *)
Lemma b_place : forall s tid t t2 e p' ist',
  St s -> nth_error (w_tables s) tid = Some t -> room s -> pool_get (w_pool s) = (e, p') ->
  sb1_grown t t2 e -> (forall ci, cell t2 ci (t_len t) = 0%Z) ->
  length ist' = length (sb1_idx s e (Some tid, t_len t)) ->
  let s2 := sb1_st2 s p' (upd tid t2 (w_tables s)) (sb1_idx s e (Some tid, t_len t)) ist' in
  St s2 /\ live s e = false /\ live s2 e = true /\
  (forall c, val s2 e c = match tbl_colidx t c with Some _ => Some 0%Z | None => None end) /\
  others_same s s2 e /\ side_same s s2 /\ frame_user s s2 /\
  length (pe (w_pool s2)) <= S (length (pe (w_pool s))).
Proof.
  intros s tid t t2 e p' ist' HSt Ht Hroom Hg Hgr Hz Hist s2.
  destruct (sb1_slot_of_get s e p' (Some tid, t_len t) (proj1 HSt) Hg) as (Hslot & _).
  split; [eapply sb1_p_St; eassumption|].
  split; [eapply sb1_p_live_old; eassumption|].
  split; [eapply sb1_p_live_new; eassumption|].
  split.
  { intros c. subst s2. erewrite sb1_p_val_new by eassumption.
    destruct (tbl_colidx t c); [rewrite Hz|]; reflexivity. }
  split; [eapply sb1_p_others; eassumption|].
  split; [apply sb1_p_side|]. split; [apply sb1_p_frame|].
  eapply sb1_p_poollen; eassumption.
Qed.

Lemma b_grown : forall tv e, tbl_ok tv -> t_len tv < t_cap tv ->
  sb1_grown tv (b_t2 tv e) e /\ forall ci, cell (b_t2 tv e) ci (t_len tv) = 0%Z.
Proof.
  intros tv e Hok Hlt. pose proof (tbl_ok_elim _ Hok) as (O1 & O2 & O3 & O4 & O5).
  split.
  - unfold sb1_grown. split.
    { unfold b_t2. apply set_len_ok; cbn; try lia. apply set_ents_ok; auto. rewrite upd_length. assumption. }
    split; [reflexivity|].
    split; [unfold row_ent, b_t2; cbn; apply nth_upd_eq; lia|].
    split; [intros; reflexivity|].
    split; [intros r Hr; unfold row_ent, b_t2; cbn; apply nth_upd_neq; lia|].
    repeat split.
  - intros ci. change (cell (b_t2 tv e) ci (t_len tv)) with (cell tv ci (t_len tv)).
    apply cell_clean; auto.
Qed.

Lemma b_firstn_skipn : forall A (l : list A) k m d, k < length l ->
  firstn (S m) (skipn k l) = nth k l d :: firstn m (skipn (S k) l).
Proof.
  intros A l. induction l as [|a l IH]; intros k m d Hk; [simpl in Hk; lia|].
  destruct k; [reflexivity|]. simpl in Hk. change (skipn (S k) (a :: l)) with (skipn k l).
  change (skipn (S (S k)) (a :: l)) with (skipn (S k) l). change (nth (S k) (a :: l) d) with (nth k l d).
  apply IH. lia.
Qed.

Definition b_cpost (v v' : W) (tid : nat) (tv tv' : table) (m : nat) (es : list ent) : Prop :=
  St v' /\ nth_error (w_tables v') tid = Some tv' /\ t_len tv' = t_len tv + m /\ t_ids tv' = t_ids tv /\
  (forall r, r < t_len tv -> row_ent tv' r = row_ent tv r) /\
  length es = m /\ NoDup es /\
  (forall e, In e es -> live v e = false /\ live v' e = true /\
       forall c, val v' e c = match tbl_colidx tv c with Some _ => Some 0%Z | None => None end) /\
  (forall e, ~ In e es -> live v' e = live v e /\ forall c, val v' e c = val v e c) /\
  firstn m (skipn (t_len tv) (t_ents tv')) = es /\
  side_same v v' /\ frame_user v v' /\ length (pe (w_pool v')) <= length (pe (w_pool v)) + m.

Lemma b_create_loop : forall tid m v tv, St v -> nth_error (w_tables v) tid = Some tv ->
  t_len tv + m <= t_cap tv -> room_n v m ->
  exists v' tv' es,
    forM_ (seq (t_len tv) m) (b_cbody tid) (b_real v tid tv (t_len tv + m)) =
      Ok tt (b_real v' tid tv' (t_len tv + m)) /\
    b_cpost v v' tid tv tv' m es.
Proof.
  intros tid m. induction m as [|m IH]; intros v tv HSt Ht Hcap Hroom.
  - exists v, tv, []. split; [reflexivity|].
    unfold b_cpost. split; [assumption|]. split; [assumption|]. split; [lia|]. split; [reflexivity|].
    split; [auto|]. split; [reflexivity|]. split; [constructor|]. split; [intros e []|].
    split; [intros; split; reflexivity|]. split; [reflexivity|].
    split; [apply sb1_side_same_refl|]. split; [apply sb1_frame_user_refl|]. lia.
  - destruct (pool_get (w_pool v)) as [e p'] eqn:Hg.
    pose proof (sb2_table_ok _ _ _ (proj1 HSt) Ht) as Hok.
    assert (Hlt : t_len tv < t_cap tv) by lia.
    destruct (b_grown tv e Hok Hlt) as (Hgr & Hz).
    assert (Hroom1 : room v) by (unfold room, room_n in *; lia).
    assert (Hist : length (upd (fst e) false (sb1_ist v e)) = length (sb1_idx v e (Some tid, t_len tv))).
    { rewrite upd_length. apply (sb1_slot_of_get v e p' (Some tid, t_len tv) (proj1 HSt) Hg). }
    pose proof (b_place v tid tv (b_t2 tv e) e p' _ HSt Ht Hroom1 Hg Hgr Hz Hist) as P. cbv zeta in P.
    fold (b_v2 v tid tv e p') in P. set (v2 := b_v2 v tid tv e p') in *.
    destruct P as (P1 & P2 & P3 & P4 & P5 & P6 & P7 & P8).
    assert (Ht2 : nth_error (w_tables v2) tid = Some (b_t2 tv e)).
    { unfold v2, b_v2, sb1_st2. cbn. eapply sb2_nth_error_upd_eq; eassumption. }
    assert (Hcap2 : t_len (b_t2 tv e) + m <= t_cap (b_t2 tv e)) by (cbn; lia).
    assert (Hroom2 : room_n v2 m) by (unfold room_n in *; lia).
    destruct (IH v2 (b_t2 tv e) P1 Ht2 Hcap2 Hroom2) as (v' & tv' & es & Hrun & Q).
    change (t_len (b_t2 tv e)) with (S (t_len tv)) in *.
    exists v', tv', (e :: es). split.
    { cbn [seq forM_]. erewrite sb1_bind_ok by (apply b_cbody_step; eassumption).
      replace (t_len tv + S m) with (S (t_len tv) + m) by lia. exact Hrun. }
    destruct Q as (Q1 & Q2 & Q3 & Q4 & Q5 & Q6 & Q7 & Q8 & Q9 & Q10 & Q11 & Q12 & Q13).
    change (t_len (b_t2 tv e)) with (S (t_len tv)) in *.
    destruct Hgr as (Gok & Glen & Gent & Gcell & Grow & Gids & _).
    assert (Hnin : ~ In e es).
    { intros Hin. destruct (Q8 e Hin) as (L & _). congruence. }
    unfold b_cpost.
    split; [assumption|]. split; [assumption|]. split; [lia|]. split; [congruence|].
    split; [intros r Hr; rewrite Q5 by lia; apply Grow; assumption|].
    split; [simpl; congruence|]. split; [constructor; assumption|].
    split.
    { intros x [<-|Hin].
      - split; [assumption|]. destruct (Q9 e Hnin) as (L & V). split; [congruence|].
        intros c. rewrite V. apply P4.
      - destruct (Q8 x Hin) as (L1 & L2 & V).
        assert (Hne : x <> e) by (intros ->; contradiction).
        destruct (P5 x Hne) as (L & _). split; [congruence|]. split; [assumption|].
        intros c. rewrite V. unfold tbl_colidx. rewrite Gids. reflexivity. }
    split.
    { intros x Hx. assert (Hne : x <> e) by (intros ->; apply Hx; left; reflexivity).
      assert (Hx' : ~ In x es) by (intros Hin; apply Hx; right; assumption).
      destruct (Q9 x Hx') as (L & V). destruct (P5 x Hne) as (L' & V').
      split; [congruence|]. intros c. rewrite V, V'. reflexivity. }
    split.
    { pose proof (sb2_table_ok _ _ _ (proj1 Q1) Q2) as Hok'.
      pose proof (tbl_ok_elim _ Hok') as (O1 & O2 & _).
      rewrite (b_firstn_skipn _ (t_ents tv') (t_len tv) m zero_ent) by lia.
      rewrite Q10. f_equal. change (row_ent tv' (t_len tv) = e). rewrite Q5 by lia. exact Gent. }
    split; [apply (sb1_side_same_trans _ _ _ P6 Q11)|].
    split; [apply (sb1_frame_user_trans _ _ _ P7 Q12)|]. lia.
Qed.

(** Replacing one table by a table with the same rows (same length, layout, entities and cells below
    the length; capacity and stale cells may differ) keeps the invariant and the content. *)
Definition b_same_rows_tab (t t' : table) : Prop :=
  tbl_ok t' /\ t_len t' = t_len t /\ sb2_meta t t' /\
  (forall r, r < t_len t -> row_ent t' r = row_ent t r) /\
  (forall ci r, r < t_len t -> cell t' ci r = cell t ci r).

Lemma b_replace_tab : forall s tid t t', St s -> nth_error (w_tables s) tid = Some t -> b_same_rows_tab t t' ->
  St (sb2_setT s (upd tid t' (w_tables s))) /\ content_same s (sb2_setT s (upd tid t' (w_tables s))).
Proof.
  intros s tid t t' HSt Ht (Hok & Hlen & Hmeta & Hrow & Hcell).
  pose proof (proj1 HSt) as HW.
  set (s' := sb2_setT s (upd tid t' (w_tables s))).
  assert (Etab : forall j, nth_error (w_tables s') j = if Nat.eqb tid j then Some t' else nth_error (w_tables s) j).
  { intros j. unfold s', sb2_setT. cbn. rewrite nth_error_upd.
    destruct (Nat.eqb_spec tid j); [subst; rewrite Ht|]; reflexivity. }
  split.
  - replace s' with (sb2_st s (upd tid t' (w_tables s)) (w_index s)) by apply sb2_st_same_index.
    apply sb2_St_reindex; auto.
    + intros j x E. change (nth_error (w_tables s') j = Some x) in E. rewrite Etab in E.
      destruct (Nat.eqb_spec tid j) as [<-|Hne].
      * inversion E; subst x. split; [assumption|]. exists t. auto.
      * split; [eapply sb2_table_ok; eauto|]. exists x. split; [assumption|apply sb2_meta_refl].
    + intros j x E. change (exists t'0, nth_error (w_tables s') j = Some t'0 /\ sb2_meta x t'0). rewrite Etab.
      destruct (Nat.eqb_spec tid j) as [<-|Hne].
      * rewrite Ht in E. inversion E; subst x. eauto.
      * exists x. split; [assumption|apply sb2_meta_refl].
    + intros j x r E Hr. change (nth_error (w_tables s') j = Some x) in E. rewrite Etab in E.
      destruct (Nat.eqb_spec tid j) as [<-|Hne].
      * inversion E; subst x. rewrite Hlen in Hr. rewrite Hrow by assumption.
        destruct (wf_rows _ HW _ _ _ Ht Hr) as (A & B). split; [apply sb2_loc_iff; exact A|exact B].
      * destruct (wf_rows _ HW _ _ _ E Hr) as (A & B). split; [apply sb2_loc_iff; exact A|exact B].
    + intros id j r E. destruct (wf_index _ HW _ _ _ E) as (x & Ex & Hr & Hf).
      change (exists t'0, nth_error (w_tables s') j = Some t'0 /\ r < t_len t'0 /\ fst (row_ent t'0 r) = id).
      rewrite Etab. destruct (Nat.eqb_spec tid j) as [<-|Hne].
      * rewrite Ht in Ex. inversion Ex; subst x. exists t'. split; [reflexivity|]. split; [lia|].
        rewrite Hrow by assumption. assumption.
      * exists x. auto.
    + intros id j r E. eauto.
  - intros x. apply sb2_same_at.
    + unfold live. change (loc s' x) with (loc s x). destruct (loc s x) as [[j r]|]; [|reflexivity].
      rewrite Etab. destruct (Nat.eqb_spec tid j) as [<-|Hne]; [|reflexivity].
      rewrite Ht, Hlen. destruct (Nat.ltb_spec r (t_len t)); [|reflexivity]. rewrite Hrow by assumption. reflexivity.
    + intros c. unfold value_of. change (loc s' x) with (loc s x). destruct (loc s x) as [[j r]|] eqn:El; [|reflexivity].
      rewrite Etab. destruct (Nat.eqb_spec tid j) as [<-|Hne]; [|reflexivity].
      rewrite Ht. destruct Hmeta as (_ & Hids & _). unfold tbl_colidx. rewrite Hids.
      destruct (index_of c (t_ids t)); [|reflexivity].
      apply sb2_loc_iff in El. destruct (wf_index _ HW _ _ _ El) as (x0 & Ex & Hr & _).
      rewrite Ht in Ex. inversion Ex; subst x0. rewrite Hcell by assumption. reflexivity.
Qed.

Lemma b_extend_same : forall t n, tbl_ok t -> t_len t + n <= Nat.pow 2 31 -> b_same_rows_tab t (tbl_extend t n).
Proof.
  intros t n Hok Hn.
  destruct (tbl_extend_facts t n Hok Hn) as (O & L & C & Hc & He & F1 & F2 & F3 & F4 & F5 & F6).
  unfold b_same_rows_tab, sb2_meta. split; [exact O|]. repeat split; auto.
Qed.

Lemma b_create_entities_eq : forall tid count,
  create_entities tid count =
  (t <- getT tid ;; modT tid (fun t => tbl_alloc t count) ;;; forM_ (seq (t_len t) count) (b_cbody tid)).
Proof. reflexivity. Qed.

(** createEntities = n times createEntity: [n] fresh, pairwise distinct handles, each live afterwards
    with the table's components at zero, located in consecutive rows starting at the old length;
    everything else unchanged. *)
Theorem create_entities_spec : forall s tid t n, St s -> room_n s n -> nth_error (w_tables s) tid = Some t ->
  exists s' es, create_entities tid n s = Ok tt s' /\ St s' /\ length es = n /\ NoDup es /\
    (forall e, In e es -> live s e = false /\ live s' e = true /\ alive s' e = true /\
                          (forall c, val s' e c = if memb c (t_ids t) then Some 0%Z else None)) /\
    (forall e, ~ In e es -> live s' e = live s e /\ forall c, val s' e c = val s e c) /\
    (exists t', nth_error (w_tables s') tid = Some t' /\ t_len t' = t_len t + n /\
                firstn n (skipn (t_len t) (t_ents t')) = es) /\
    side_same s s' /\ frame_user s s'.
Proof.
  intros s tid t n HSt Hroom Ht. pose proof (proj1 HSt) as HW.
  pose proof (sb2_table_ok _ _ _ HW Ht) as Hok.
  assert (Hn : t_len t + n <= Nat.pow 2 31).
  { pose proof (rows_le_pool s tid t HW Ht). unfold room_n in Hroom. lia. }
  pose proof (b_extend_same t n Hok Hn) as Hsame.
  destruct (tbl_extend_facts t n Hok Hn) as (_ & L & C & _ & _ & F1 & _).
  set (tv := tbl_extend t n) in *.
  destruct (b_replace_tab s tid t tv HSt Ht Hsame) as (HSt0 & Hcs).
  set (v0 := sb2_setT s (upd tid tv (w_tables s))) in *.
  assert (Ht0 : nth_error (w_tables v0) tid = Some tv).
  { unfold v0, sb2_setT. cbn. eapply sb2_nth_error_upd_eq; eassumption. }
  assert (Hcap0 : t_len tv + n <= t_cap tv) by lia.
  assert (Hroom0 : room_n v0 n) by exact Hroom.
  destruct (b_create_loop tid n v0 tv HSt0 Ht0 Hcap0 Hroom0) as (v' & tv' & es & Hrun & Q).
  destruct Q as (Q1 & Q2 & Q3 & Q4 & Q5 & Q6 & Q7 & Q8 & Q9 & Q10 & Q11 & Q12 & Q13).
  exists v', es. split.
  { rewrite b_create_entities_eq.
    erewrite sb1_bind_ok by (apply sb1_getT_eq; exact Ht).
    erewrite sb1_bind_ok by (apply sb2_modT; exact Ht).
    rewrite <- L.
    assert (E : sb2_setT s (upd tid (tbl_alloc t n) (w_tables s)) = b_real v0 tid tv (t_len tv + n)).
    { unfold b_real, v0, sb2_setT. apply b_W_ext; cbn; try reflexivity. rewrite sb2_upd_upd. reflexivity. }
    rewrite E. fold tv. rewrite Hrun. rewrite b_real_id by (auto; lia). reflexivity. }
  split; [assumption|]. split; [assumption|]. split; [assumption|].
  split.
  { intros e Hin. destruct (Q8 e Hin) as (L1 & L2 & V). destruct (Hcs e) as (L0 & _).
    split; [congruence|]. split; [assumption|].
    split; [apply (live_alive v' e (proj1 Q1) L2)|].
    intros c. rewrite V. unfold tbl_colidx, memb. rewrite F1. destruct (index_of c (t_ids t)); reflexivity. }
  split.
  { intros e Hnin. destruct (Q9 e Hnin) as (L1 & V). destruct (Hcs e) as (L0 & V0).
    split; [congruence|]. intros c. rewrite V, V0. reflexivity. }
  split.
  { exists tv'. split; [assumption|]. split; [lia|]. rewrite <- L. exact Q10. }
  split.
  - eapply sb1_side_same_trans; [|exact Q11]. unfold side_same. repeat split.
  - eapply sb1_frame_user_trans; [|exact Q12]. unfold frame_user. repeat split.
Qed.

(* ------------------------------------------------------------------ *)
(** ** Helpers for w_new_entities *)

Lemma b_new_entities_run : forall s n, St s -> room_n s n ->
  exists tid start s2 es t',
    new_entities n [] [] s = Ok (tid, start) s2 /\ St s2 /\ side_same s s2 /\
    length es = n /\ NoDup es /\
    (forall e, In e es -> live s e = false /\ live s2 e = true /\ forall c, val s2 e c = None) /\
    (forall e, ~ In e es -> live s2 e = live s e /\ forall c, val s2 e c = val s e c) /\
    nth_error (w_tables s2) tid = Some t' /\ t_len t' = start + n /\
    firstn n (skipn start (t_ents t')) = es.
Proof.
  intros s n HSt Hroom. pose proof (proj1 HSt) as HW.
  destruct (wf_arch0 _ HW) as (a0 & Ha0 & Hm0 & t0 & Ht0 & Hta0).
  assert (Hz : forall j, mk_get 0%N j = true -> j < length (w_reg s)).
  { intros j Hj. rewrite sb1_mk_get_0 in Hj. discriminate. }
  assert (Hreg : forall c, In c (@nil nat) -> c < length (w_reg s)) by (intros c []).
  pose proof (find_or_create_table_add_spec s 0 t0 [] 0%N HSt Ht0 Hz Hreg) as Hf.
  unfold new_entities. unfold bind at 1.
  destruct (find_or_create_table_add 0 [] [] 0%N s) as [[[tid aid] m] s1 | er s1].
  2:{ destruct Hf as (_ & Hn). exfalso. apply Hn. split; [constructor|intros c []]. }
  destruct Hf as ((HSt1 & Hsr & Hside & Hfr & (t & a & Ht & Hta & Ha & Hma)) & Hm & _).
  pose proof (same_rows_content s s1 HW Hsr) as Hcs.
  assert (Hpool : w_pool s1 = w_pool s) by apply Hsr.
  assert (Hroom1 : room_n s1 n) by (unfold room_n in *; rewrite Hpool; assumption).
  destruct (create_entities_spec s1 tid t n HSt1 Hroom1 Ht) as (s2 & es & Hrun & HSt2 & Hlen & Hnd & Hin & Hout & (t' & Ht' & Hl' & Hes) & Hside2 & _).
  assert (Hids : t_ids t = []).
  { destruct (wf_layout _ (proj1 HSt1) tid t Ht) as (a' & Ha' & Hi & _).
    rewrite Hta, Ha in Ha'. inversion Ha'; subst a'.
    destruct (wf_arch_comps _ (proj1 HSt1) aid a Ha) as (Hc & _).
    assert (Em : m = 0%N).
    { apply mk_eq_ext. intros j. rewrite Hm, sb1_mk_get_0. reflexivity. }
    rewrite Hi, Hc, Hma, Em. apply sb1_mk_to_list_0. }
  exists tid, (t_len t), s2, es, t'. split.
  { erewrite sb1_bind_ok by (apply sb1_getT_eq; exact Ht). cbv beta.
    erewrite sb1_bind_ok by exact Hrun.
    reflexivity. }
  split; [assumption|]. split; [eapply sb1_side_same_trans; eassumption|].
  split; [assumption|]. split; [assumption|].
  split.
  { intros e He. destruct (Hin e He) as (L1 & L2 & _ & V). destruct (Hcs e) as (L0 & _).
    split; [congruence|]. split; [assumption|]. intros c. rewrite V, Hids. reflexivity. }
  split.
  { intros e He. destruct (Hout e He) as (L1 & V). destruct (Hcs e) as (L0 & V0).
    split; [congruence|]. intros c. rewrite V, V0. reflexivity. }
  auto.
Qed.

(** The log produced by the batch callbacks over a range of rows. *)
Definition b_logged (s : W) (L : list (list Z)) : W := s <| w_log := w_log s ++ L |>.

Lemma b_logged_logged : forall s L1 L2, b_logged (b_logged s L1) L2 = b_logged s (L1 ++ L2).
Proof. intros. unfold b_logged. apply b_W_ext; cbn; try reflexivity. rewrite app_assoc. reflexivity. Qed.

Lemma b_logged_nil : forall s, b_logged s [] = s.
Proof. intros. unfold b_logged. apply b_W_ext; cbn; try reflexivity. apply app_nil_r. Qed.

Definition b_entry (e : ent) : list Z := [101%Z; Zn (fst e); Z.of_N (snd e)].

Lemma b_batch_callback_nil : forall s tid t row e, nth_error (w_tables s) tid = Some t ->
  nth_error (t_ents t) row = Some e ->
  batch_callback tid [] row s = Ok tt (b_logged s [b_entry e]).
Proof.
  intros s tid t row e Ht He. unfold batch_callback.
  erewrite sb1_bind_ok by (apply sb1_getT_eq; exact Ht). cbv beta.
  rewrite He. reflexivity.
Qed.

Lemma b_callback_loop : forall tid t rows s, nth_error (w_tables s) tid = Some t ->
  (forall r, In r rows -> r < length (t_ents t)) ->
  forM_ rows (fun i => batch_callback tid [] i) s =
  Ok tt (b_logged s (map (fun r => b_entry (nth r (t_ents t) zero_ent)) rows)).
Proof.
  intros tid t rows. induction rows as [|r rows IH]; intros s Ht Hr.
  - cbn. rewrite b_logged_nil. reflexivity.
  - cbn [forM_ map].
    assert (He : nth_error (t_ents t) r = Some (nth r (t_ents t) zero_ent)).
    { apply nth_error_nth'. apply Hr. left; reflexivity. }
    erewrite sb1_bind_ok by (eapply b_batch_callback_nil; eassumption).
    rewrite IH; [|exact Ht|intros; apply Hr; right; assumption].
    rewrite b_logged_logged. reflexivity.
Qed.

Lemma b_firstn_skipn_seq : forall A (l : list A) d n start, start + n <= length l ->
  firstn n (skipn start l) = map (fun r => nth r l d) (seq start n).
Proof.
  intros A l d n. induction n as [|n IH]; intros start H; [reflexivity|].
  rewrite (b_firstn_skipn _ l start n d) by lia. cbn [seq map]. f_equal. apply IH. lia.
Qed.

Lemma b_mask_unlock : forall b, mk_clear (mk_set 0%N b) b = 0%N.
Proof.
  intros b. apply mk_eq_ext. intros j. rewrite mk_get_clear, mk_get_set, sb1_mk_get_0.
  destruct (Nat.eqb b j); reflexivity.
Qed.

(** NewEntities(n, fn): on an unlocked world without OnCreateEntity observers it creates [n]
    component-less entities, runs the callback exactly once per new entity (the log holds exactly one
    entry [101; id; gen] per new entity, in row order), and leaves the world unlocked. *)
Theorem new_entities_spec_partial : forall s n, St s -> room_n s n -> is_locked s = false -> has_obs s EvCreateEntity = false ->
  lock_lock (w_lock s) <> None ->
  match w_new_entities n true s with
  | Ok _ s' =>
      St s' /\ is_locked s' = false /\
      exists es, length es = n /\ NoDup es /\
        w_log s' = w_log s ++ map (fun e => [101%Z; Zn (fst e); Z.of_N (snd e)]) es /\
        (forall e, In e es -> live s e = false /\ live s' e = true /\ forall c, val s' e c = None) /\
        (forall e, ~ In e es -> live s' e = live s e /\ forall c, val s' e c = val s e c)
  | Err _ s' => False
  end.
Proof.
  intros s n HSt Hroom Hunl Hobs Hlock.
  destruct (b_new_entities_run s n HSt Hroom) as (tid & start & s2 & es & t' & Hrun & HSt2 & Hside & Hlen & Hnd & Hin & Hout & Ht' & Hl' & Hes).
  destruct Hside as (Elock & Elog & _ & _ & Eagg & _).
  destruct (lock_lock (w_lock s)) as [[b l']|] eqn:LL; [|congruence]. clear Hlock.
  pose proof (sb2_table_ok _ _ _ (proj1 HSt2) Ht') as Hok'.
  pose proof (tbl_ok_elim _ Hok') as (O1 & O2 & _).
  set (L := map (fun r => b_entry (nth r (t_ents t') zero_ent)) (seq start n)).
  assert (Hmask : lk_mask (w_lock s) = 0%N).
  { unfold is_locked, lock_is_locked, mk_is_zero in Hunl. apply negb_false_iff in Hunl. apply N.eqb_eq in Hunl. exact Hunl. }
  assert (Hl'def : l' = {| lk_pool := lk_pool l'; lk_mask := mk_set 0%N b |}).
  { unfold lock_lock in LL. destruct (ipool_get (Some 64) (lk_pool (w_lock s))) as [[b0 p0]|]; [|discriminate].
    inversion LL; subst. rewrite Hmask. reflexivity. }
  set (l'' := {| lk_pool := ipool_recycle (lk_pool l') b; lk_mask := 0%N |}).
  assert (LU : lock_unlock l' b = Some l'').
  { rewrite Hl'def. unfold lock_unlock. cbn [lk_mask lk_pool]. rewrite mk_get_set, Nat.eqb_refl. cbn [orb].
    unfold l''. rewrite b_mask_unlock. reflexivity. }
  set (s3 := s2 <| w_lock := l' |>).
  set (s4 := b_logged s3 L).
  set (s5 := s4 <| w_lock := l'' |>).
  assert (E : w_new_entities n true s = Ok tt s5).
  { unfold w_new_entities.
    erewrite sb1_bind_ok by (apply sb1_check_locked_ok; exact Hunl).
    erewrite sb1_bind_ok by exact Hrun. cbv beta iota.
    unfold bind at 1. unfold get at 1. cbv zeta.
    assert (Ho : has_obs s2 EvCreateEntity = false).
    { unfold has_obs, get_agg in *. rewrite Eagg. exact Hobs. }
    rewrite Ho. cbn [orb whenM].
    erewrite sb1_bind_ok by (apply v_lockM_ok; rewrite Elock; exact LL). cbv beta.
    fold s3.
    erewrite sb1_bind_ok.
    2:{ apply (b_callback_loop tid t' (seq start n) s3); [exact Ht'|].
        intros r Hr. apply in_seq in Hr. lia. }
    fold L. fold s4. cbv beta.
    erewrite sb1_bind_ok by reflexivity.
    apply (v_unlockM_ok s4 b l''). exact LU. }
  rewrite E.
  assert (SS : storage_same s2 s5) by (unfold storage_same; repeat split).
  split; [apply (storage_same_St s2 s5 SS HSt2)|].
  split; [reflexivity|].
  exists es. split; [assumption|]. split; [assumption|].
  split.
  { change (w_log s5) with (w_log s2 ++ L). rewrite Elog. f_equal.
    rewrite <- Hes. rewrite (b_firstn_skipn_seq _ (t_ents t') zero_ent n start) by lia.
    unfold L. rewrite map_map. reflexivity. }
  split.
  - intros e He. destruct (Hin e He) as (L1 & L2 & V). split; [assumption|]. split; [exact L2|exact V].
  - intros e He. exact (Hout e He).
Qed.

(** The statement as originally written is false: its only hypothesis about the lock besides
    [is_locked s = false] is the vacuous [lk_pool (w_lock s) = ipool_new \/ True], and [St] says
    nothing about the lock's bit pool. A world whose lock pool has handed out all 64 bits
    ([ip] of length 64, nothing available) while its lock mask is zero satisfies every hypothesis,
    yet [lockM] panics with [EBits], so [w_new_entities] returns [Err]. Concretely:
    [init_world c <| w_lock := b_bad_lock |>] with [n = 0], see [new_entities_spec_refuted] below.
    [new_entities_spec_partial] above is the same statement with that hypothesis replaced by
    [lock_lock (w_lock s) <> None] (a lock bit can be taken); nothing else is needed: the matching
    [unlockM] always succeeds and leaves the mask zero.

Theorem new_entities_spec : forall s n, St s -> room_n s n -> is_locked s = false -> has_obs s EvCreateEntity = false ->
  lk_pool (w_lock s) = ipool_new \/ True ->
  match w_new_entities n true s with
  | Ok _ s' =>
      St s' /\ is_locked s' = false /\
      exists es, length es = n /\ NoDup es /\
        w_log s' = w_log s ++ map (fun e => [101%Z; Zn (fst e); Z.of_N (snd e)]) es /\
        (forall e, In e es -> live s e = false /\ live s' e = true /\ forall c, val s' e c = None) /\
        (forall e, ~ In e es -> live s' e = live s e /\ forall c, val s' e c = val s e c)
  | Err _ s' => False
  end.
(refuted) *)

Lemma b_new_entities_lock_fail : forall s n, St s -> room_n s n -> is_locked s = false ->
  lock_lock (w_lock s) = None -> exists s', w_new_entities n true s = Err EBits s'.
Proof.
  intros s n HSt Hroom Hunl LL.
  destruct (b_new_entities_run s n HSt Hroom) as (tid & start & s2 & es & t' & Hrun & _ & Hside & _).
  destruct Hside as (Elock & _).
  exists s2. unfold w_new_entities.
  erewrite sb1_bind_ok by (apply sb1_check_locked_ok; exact Hunl).
  erewrite sb1_bind_ok by exact Hrun. cbv beta iota.
  unfold bind at 1. unfold get at 1. cbv zeta. rewrite orb_true_r.
  apply sb1_bind_err. apply v_lockM_err. rewrite Elock. exact LL.
Qed.

Definition b_bad_lock : lockst := {| lk_pool := {| ip := repeat 0 64; inext := 0; iavail := 0 |}; lk_mask := 0%N |}.

Lemma new_entities_spec_refuted :
  ~ (forall s n, St s -> room_n s n -> is_locked s = false -> has_obs s EvCreateEntity = false ->
       lk_pool (w_lock s) = ipool_new \/ True ->
       match w_new_entities n true s with Ok _ _ => True | Err _ _ => False end).
Proof.
  intros H.
  set (c := {| sc_cap := 1; sc_caprel := 1; sc_bits := 0; sc_debug := false; sc_kinds := [] |}).
  assert (HSt0 : St (init_world c)) by (apply St_init; cbn; auto).
  set (s := init_world c <| w_lock := b_bad_lock |>).
  assert (HSt : St s).
  { apply (storage_same_St (init_world c) s); [|exact HSt0]. unfold storage_same. repeat split. }
  assert (Hroom : room_n s 0).
  { unfold room_n. change (length (pe (w_pool s))) with 2. pose proof sa_small_2 as H2.
    set (P := Nat.pow 2 31) in *. clearbody P. lia. }
  assert (Hunl : is_locked s = false) by reflexivity.
  assert (Hobs : has_obs s EvCreateEntity = false) by reflexivity.
  assert (LL : lock_lock (w_lock s) = None) by reflexivity.
  specialize (H s 0 HSt Hroom Hunl Hobs (or_intror I)).
  destruct (b_new_entities_lock_fail s 0 HSt Hroom Hunl LL) as (s' & E). rewrite E in H. exact H.
Qed.

(* ------------------------------------------------------------------ *)
(** ** Helpers for exchange_table *)

(** *** Room: two different tables together have at most as many rows as the pool has slots *)
Lemma b_list_sum_ge1 : forall (l : list nat) i a, nth_error l i = Some a -> a <= list_sum l.
Proof.
  induction l as [|x l IH]; intros [|i] a H; simpl in *; try discriminate.
  - inversion H; subst. lia.
  - specialize (IH _ _ H). lia.
Qed.

Lemma b_list_sum_ge2 : forall (l : list nat) i j a b, i <> j -> nth_error l i = Some a -> nth_error l j = Some b ->
  a + b <= list_sum l.
Proof.
  induction l as [|x l IH]; intros [|i] [|j] a b Hne Hi Hj; simpl in *; try discriminate; try congruence.
  - inversion Hi; subst. pose proof (b_list_sum_ge1 _ _ _ Hj). lia.
  - inversion Hj; subst. pose proof (b_list_sum_ge1 _ _ _ Hi). lia.
  - assert (i <> j) by congruence. specialize (IH _ _ _ _ H Hi Hj). lia.
Qed.

Lemma b_two_tables_room : forall s otid ntid ot nt, WF s -> otid <> ntid ->
  nth_error (w_tables s) otid = Some ot -> nth_error (w_tables s) ntid = Some nt ->
  t_len nt + t_len ot <= length (pe (w_pool s)).
Proof.
  intros s otid ntid ot nt HW Hne Hot Hnt.
  pose proof (v_pool_split s HW) as Hp. rewrite v_total_rows_sum in Hp.
  pose proof (b_list_sum_ge2 (map t_len (w_tables s)) otid ntid (t_len ot) (t_len nt) Hne
                (map_nth_error t_len _ _ Hot) (map_nth_error t_len _ _ Hnt)).
  lia.
Qed.

(** *** The index rewrite *)
Fixpoint b_reindex (I : list (option nat * nat)) (ntid pos : nat) (es : list ent) : list (option nat * nat) :=
  match es with
  | [] => I
  | e :: rest => b_reindex (upd (fst e) (Some ntid, pos) I) ntid (S pos) rest
  end.

Lemma b_reindex_length : forall ntid es I pos, length (b_reindex I ntid pos es) = length I.
Proof. intros ntid es. induction es as [|e es IH]; intros; simpl; auto. rewrite IH. apply upd_length. Qed.

Lemma b_index_of_notin : forall x l, ~ In x l -> index_of x l = None.
Proof.
  intros x l H. destruct (index_of x l) eqn:E; [|reflexivity].
  exfalso. apply H. eapply sa_index_of_some_in; eauto.
Qed.

Lemma b_reindex_spec : forall ntid es I pos id, NoDup (map fst es) -> (forall e, In e es -> fst e < length I) ->
  nth_error (b_reindex I ntid pos es) id =
  match index_of id (map fst es) with Some j => Some (Some ntid, pos + j) | None => nth_error I id end.
Proof.
  intros ntid es. induction es as [|e es IH]; intros I pos id Hnd Hlt; [reflexivity|].
  simpl map in *. inversion Hnd as [|? ? Hnin Hnd']; subst.
  cbn [b_reindex index_of]. rewrite IH; [|assumption|intros e' He'; rewrite upd_length; apply Hlt; right; assumption].
  destruct (Nat.eqb_spec (fst e) id) as [<-|Hne].
  - rewrite (b_index_of_notin _ _ Hnin). rewrite sa_nth_error_upd_eq by (apply Hlt; left; reflexivity).
    rewrite Nat.add_0_r. reflexivity.
  - destruct (index_of id (map fst es)) as [j|].
    + rewrite Nat.add_succ_r. reflexivity.
    + apply sa_nth_error_upd_ne. assumption.
Qed.

Definition b_ibody (ot : table) (ntid start : nat) (i : nat) : MW unit :=
  match nth_error (t_ents ot) i with
  | Some e => modify (fun s => s <| w_index ::= upd (fst e) (Some ntid, start + i) |>)
  | None => fail EIndex
  end.

Lemma b_iloop : forall ot ntid start k a s, a + k <= length (t_ents ot) ->
  forM_ (seq a k) (b_ibody ot ntid start) s =
  Ok tt (s <| w_index := b_reindex (w_index s) ntid (start + a) (firstn k (skipn a (t_ents ot))) |>).
Proof.
  intros ot ntid start k. induction k as [|k IH]; intros a s Hk.
  - cbn. unfold ret. f_equal. apply b_W_ext; reflexivity.
  - cbn [seq forM_]. unfold b_ibody at 1.
    rewrite (nth_error_nth' (t_ents ot) zero_ent) by lia.
    unfold bind at 1, modify at 1. rewrite IH by lia. f_equal.
    rewrite (b_firstn_skipn _ (t_ents ot) a k zero_ent) by lia. cbn [b_reindex].
    rewrite Nat.add_succ_r.
    apply b_W_ext; reflexivity.
Qed.

(** *** Copying one column of the source into the new rows of the destination *)
Lemma b_colcopy : forall T ni k base count sc,
  tbl_ok T -> t_len T = base + count -> nth_error (t_kinds T) ni = Some k -> count <= length sc ->
  (ck_zs k = true -> forall r, nth r sc 0%Z = 0%Z) ->
  let T' := T <| t_cols ::= updf ni (fun dc => copy_into dc base (firstn count sc)) |> in
  tbl_ok T' /\
  (forall ci r, (ci <> ni \/ r < base \/ base + count <= r) -> cell T' ci r = cell T ci r) /\
  (forall i, i < count -> cell T' ni (base + i) = nth i sc 0%Z).
Proof.
  intros T ni k base count sc Hok Hlen Hk Hsc Hz T'.
  pose proof (tbl_ok_elim _ Hok) as (H1 & H2 & H3 & H4 & H5).
  assert (Hni : ni < length (t_cols T)).
  { rewrite H3, <- H4. apply nth_error_Some. congruence. }
  destruct (nth_error (t_cols T) ni) as [col|] eqn:Ec.
  2:{ apply nth_error_None in Ec. lia. }
  destruct (H5 _ _ Ec) as (L & C & Zs).
  assert (Hfl : length (firstn count sc) = count) by (apply firstn_length_le; assumption).
  assert (Enew : nth_error (t_cols T') ni = Some (copy_into col base (firstn count sc))).
  { unfold T'. cbn. rewrite nth_error_updf, Nat.eqb_refl, Ec. reflexivity. }
  split; [|split].
  - unfold T'. apply updf_col_ok; auto.
    intros col' Ec' (L' & C' & Zs'). split; [|split].
    + rewrite copy_into_length. assumption.
    + intros r Hr. rewrite nth_copy_into, Hfl. bdestr; try lia; apply C'; assumption.
    + intros k' Ek' Hz' r. rewrite Hk in Ek'. inversion Ek'; subst k'.
      rewrite nth_copy_into, Hfl.
      destruct ((base <=? r) && (r <? base + count) && (r <? length col'))%bool eqn:Hb.
      * apply andb_true_iff in Hb. destruct Hb as (Hb & _). apply andb_true_iff in Hb. destruct Hb as (Hb1 & Hb2).
        apply Nat.leb_le in Hb1. apply Nat.ltb_lt in Hb2.
        rewrite nth_firstn' by lia. apply Hz. assumption.
      * apply (Zs' k); assumption.
  - intros ci r Hor. destruct (Nat.eq_dec ci ni) as [->|Hne].
    + rewrite (cell_some _ _ _ _ Enew), (cell_some _ _ _ _ Ec). rewrite nth_copy_into, Hfl.
      bdestr; try lia; reflexivity.
    + apply sb1_cell_ext. unfold T'. cbn. rewrite nth_error_updf.
      destruct (Nat.eqb_spec ni ci); [congruence|reflexivity].
  - intros i Hi. rewrite (cell_some _ _ _ _ Enew). rewrite nth_copy_into, Hfl.
    bdestr; try lia. rewrite nth_firstn' by lia. f_equal. lia.
Qed.

Definition b_xbody (otid ntid : nat) (nm : mask) (count : nat) (c : nat) : MW unit :=
  if mk_get nm c then
    ot <- getT otid ;; nt <- getT ntid ;;
    match tbl_colidx ot c, tbl_colidx nt c with
    | Some oi, Some ni =>
        match nth_error (t_cols ot) oi with
        | Some sc => modT ntid (fun t => t <| t_cols ::= updf ni (fun dc => copy_into dc (t_len t - count) (firstn count sc)) |>)
        | None => fail EIndex
        end
    | _, _ => fail ENil
    end
  else ret tt.

Lemma b_exchange_table_eq : forall otid ntid rels,
  exchange_table otid ntid rels =
  (ot <- getT otid ;; nt <- getT ntid ;;
   nm <- arch_mask_of_table ntid ;;
   forM_ (seq 0 (t_len ot)) (b_ibody ot ntid (t_len nt)) ;;;
   modT ntid (fun nt => tbl_add_all_entities nt ot (t_len ot)) ;;;
   forM_ (t_ids ot) (b_xbody otid ntid nm (t_len ot)) ;;;
   modT otid tbl_reset ;;;
   register_targets rels ;;;
   ret (t_len nt, t_len ot)).
Proof. reflexivity. Qed.

Definition b_xpre (ot T : table) (count c : nat) : Prop :=
  exists oi ni sc k, index_of c (t_ids ot) = Some oi /\ index_of c (t_ids T) = Some ni /\
     nth_error (t_cols ot) oi = Some sc /\ nth_error (t_kinds T) ni = Some k /\
     count <= length sc /\ (ck_zs k = true -> forall r, nth r sc 0%Z = 0%Z).

Lemma b_xloop : forall otid ntid nm count base ot l s T,
  otid <> ntid -> nth_error (w_tables s) otid = Some ot -> nth_error (w_tables s) ntid = Some T ->
  tbl_ok T -> t_len T = base + count -> NoDup l ->
  (forall c, In c l -> mk_get nm c = true -> b_xpre ot T count c) ->
  exists T', forM_ l (b_xbody otid ntid nm count) s = Ok tt (sb2_setT s (upd ntid T' (w_tables s))) /\
    tbl_ok T' /\ sb2_meta T T' /\ t_len T' = t_len T /\ t_ents T' = t_ents T /\
    (forall ci r, (r < base \/ base + count <= r) -> cell T' ci r = cell T ci r) /\
    (forall c ni, index_of c (t_ids T) = Some ni -> forall i, i < count ->
       cell T' ni (base + i) = if (memb c l && mk_get nm c)%bool
                               then match index_of c (t_ids ot) with Some oi => cell ot oi i | None => 0%Z end
                               else cell T ni (base + i)).
Proof.
  intros otid ntid nm count base ot l. induction l as [|c l IH]; intros s T Hne Hot Hnt Hok Hlen Hnd Hpre.
  - exists T. split.
    + cbn [forM_]. unfold ret. rewrite (sb2_upd_same _ _ _ _ Hnt), sb2_setT_id. reflexivity.
    + split; [assumption|]. split; [apply sb2_meta_refl|]. repeat split; auto.
  - inversion Hnd as [|? ? Hnin Hnd']; subst.
    cbn [forM_]. destruct (mk_get nm c) eqn:Em.
    + destruct (Hpre c (or_introl eq_refl) Em) as (oi & ni & sc & k & Eoi & Eni & Esc & Ek & Hsc & Hz).
      set (T1 := T <| t_cols ::= updf ni (fun dc => copy_into dc base (firstn count sc)) |>).
      assert (Hbody : b_xbody otid ntid nm count c s = Ok tt (sb2_setT s (upd ntid T1 (w_tables s)))).
      { unfold b_xbody. rewrite Em.
        erewrite sb2_bind_ok by (apply sb2_getT; eassumption).
        erewrite sb2_bind_ok by (apply sb2_getT; eassumption).
        unfold tbl_colidx. rewrite Eoi, Eni, Esc.
        erewrite sb2_modT by eassumption. cbv beta.
        replace (t_len T - count) with base by lia. reflexivity. }
      erewrite sb2_bind_ok by exact Hbody.
      destruct (b_colcopy T ni k base count sc Hok Hlen Ek Hsc Hz) as (Hok1 & Hc1 & Hc2).
      fold T1 in Hok1, Hc1, Hc2.
      assert (Hot1 : nth_error (w_tables (sb2_setT s (upd ntid T1 (w_tables s)))) otid = Some ot).
      { cbn. rewrite sb2_nth_error_upd_ne by auto. exact Hot. }
      assert (Hnt1 : nth_error (w_tables (sb2_setT s (upd ntid T1 (w_tables s)))) ntid = Some T1).
      { cbn. eapply sb2_nth_error_upd_eq; eauto. }
      assert (Hlen1 : t_len T1 = base + count) by exact Hlen.
      destruct (IH _ T1 Hne Hot1 Hnt1 Hok1 Hlen1 Hnd') as (T' & Hrun & Hok' & Hmeta & Hlen' & Hents & Hcell & Hcopy).
      { intros c' Hin Hm'. destruct (Hpre c' (or_intror Hin) Hm') as (oi' & ni' & sc' & k' & P1 & P2 & P3 & P4 & P5 & P6).
        exists oi', ni', sc', k'. repeat split; auto. }
      exists T'. split.
      { rewrite Hrun. rewrite sb2_setT_setT.
        change (w_tables (sb2_setT s (upd ntid T1 (w_tables s)))) with (upd ntid T1 (w_tables s)).
        rewrite sb2_upd_upd. reflexivity. }
      split; [assumption|].
      split; [eapply sb2_meta_trans; [|exact Hmeta]; repeat split|].
      split; [rewrite Hlen'; reflexivity|]. split; [rewrite Hents; reflexivity|].
      split.
      { intros ci r Hr. rewrite Hcell by assumption. apply Hc1. right. assumption. }
      intros c' ni' Eni' i Hi. specialize (Hcopy c' ni' Eni' i Hi).
      rewrite sb2_memb_cons. destruct (Nat.eqb_spec c c') as [<-|Hcc].
      * assert (ni' = ni) by congruence. subst ni'.
        rewrite Em. cbn [orb andb]. rewrite Eoi.
        assert (Hml : memb c l = false) by (apply sb2_memb_false; assumption).
        rewrite Hml in Hcopy. cbn [andb] in Hcopy. rewrite Hcopy, Hc2 by assumption.
        rewrite (cell_some _ _ _ _ Esc). reflexivity.
      * cbn [orb]. rewrite Hcopy. destruct (memb c' l && mk_get nm c')%bool; [reflexivity|].
        apply Hc1. left. intros ->.
        apply sb2_index_of_nth in Eni. apply sb2_index_of_nth in Eni'. congruence.
    + assert (Hbody : b_xbody otid ntid nm count c s = Ok tt s).
      { unfold b_xbody. rewrite Em. reflexivity. }
      erewrite sb2_bind_ok by exact Hbody.
      destruct (IH s T Hne Hot Hnt Hok Hlen Hnd') as (T' & Hrun & Hok' & Hmeta & Hlen' & Hents & Hcell & Hcopy).
      { intros c' Hin Hm'. apply Hpre; auto. right. assumption. }
      exists T'. split; [exact Hrun|]. repeat (split; [assumption|]).
      intros c' ni' Eni' i Hi. rewrite (Hcopy c' ni' Eni' i Hi). rewrite sb2_memb_cons.
      destruct (Nat.eqb_spec c c') as [<-|Hcc]; [|reflexivity].
      rewrite Em. rewrite !andb_false_r. reflexivity.
Qed.

(** *** Appending the entities *)
Lemma b_add_all_entities_facts : forall nt ot count, tbl_ok nt -> tbl_ok ot -> count <= t_len ot ->
  t_len nt + count <= Nat.pow 2 31 ->
  let nt1 := tbl_add_all_entities nt ot count in
  tbl_ok nt1 /\ t_len nt1 = t_len nt + count /\ sb2_meta nt nt1 /\
  (forall ci r, t_len nt <= r -> cell nt1 ci r = 0%Z) /\
  (forall ci r, r < t_len nt -> cell nt1 ci r = cell nt ci r) /\
  (forall r, r < t_len nt -> row_ent nt1 r = row_ent nt r) /\
  (forall i, i < count -> row_ent nt1 (t_len nt + i) = row_ent ot i).
Proof.
  intros nt ot count Hokn Hoko Hc Hn nt1.
  destruct (tbl_alloc_facts nt count Hokn Hn) as (O & L & C & Z0 & Hcell & Hent & F1 & F2 & F3 & F4 & F5 & F6 & Le & Lc).
  pose proof (tbl_ok_elim _ Hoko) as (S1 & S2 & _).
  unfold tbl_add_all_entities in nt1. cbv zeta in nt1.
  set (d := tbl_alloc nt count) in *. clearbody d.
  assert (Hstart : t_len d - count = t_len nt) by lia.
  subst nt1. rewrite Hstart.
  assert (Hfl : length (firstn count (t_ents ot)) = count) by (apply firstn_length_le; lia).
  split; [apply set_ents_ok; [assumption|rewrite copy_into_length; assumption]|].
  split; [exact L|]. split; [repeat split; assumption|].
  split; [exact Z0|]. split; [exact Hcell|].
  split.
  - intros r Hr. rewrite <- Hent by assumption. unfold row_ent. cbn. rewrite nth_copy_into. bdestr; auto; lia.
  - intros i Hi. unfold row_ent. cbn. rewrite nth_copy_into, Hfl. bdestr; try lia.
    rewrite nth_firstn' by lia. f_equal. lia.
Qed.

Definition b_nt_facts (ot nt nt3 : table) : Prop :=
  tbl_ok nt3 /\ t_len nt3 = t_len nt + t_len ot /\ sb2_meta nt nt3 /\
  (forall r, r < t_len nt -> row_ent nt3 r = row_ent nt r /\ forall ci, cell nt3 ci r = cell nt ci r) /\
  (forall i, i < t_len ot -> row_ent nt3 (t_len nt + i) = row_ent ot i) /\
  (forall c ni, index_of c (t_ids nt) = Some ni -> forall i, i < t_len ot ->
     cell nt3 ni (t_len nt + i) = match index_of c (t_ids ot) with Some oi => cell ot oi i | None => 0%Z end).

Definition b_xT' (s : W) (otid ntid : nat) (ot nt3 : table) : list table :=
  upd otid (tbl_reset ot) (upd ntid nt3 (w_tables s)).
Definition b_xI' (s : W) (ntid : nat) (ot nt : table) : list (option nat * nat) :=
  b_reindex (w_index s) ntid (t_len nt) (firstn (t_len ot) (t_ents ot)).

Section b_exchange.
Variables (s : W) (otid ntid : nat) (ot nt : table) (oa na : arch).
Hypothesis HSt : St s.
Hypothesis Hne : otid <> ntid.
Hypothesis Hot : nth_error (w_tables s) otid = Some ot.
Hypothesis Hnt : nth_error (w_tables s) ntid = Some nt.
Hypothesis Hoa : nth_error (w_archs s) (t_arch ot) = Some oa.
Hypothesis Hna : nth_error (w_archs s) (t_arch nt) = Some na.

Lemma b_x_exec : exists nt3,
  exchange_table otid ntid [] s = Ok (t_len nt, t_len ot) (sb2_st s (b_xT' s otid ntid ot nt3) (b_xI' s ntid ot nt)) /\
  b_nt_facts ot nt nt3.
Proof.
  pose proof (proj1 HSt) as HW.
  pose proof (sb2_table_ok _ _ _ HW Hot) as Hoko. pose proof (sb2_table_ok _ _ _ HW Hnt) as Hokn.
  destruct (sb2_layout _ _ _ _ HW Hot Hoa) as (Hido & Hko & Hlto).
  destruct (sb2_layout _ _ _ _ HW Hnt Hna) as (Hidn & Hkn & Hltn).
  pose proof (tbl_ok_elim _ Hoko) as (O1 & O2 & O3 & O4 & O5).
  assert (Hroom : t_len nt + t_len ot <= Nat.pow 2 31).
  { pose proof (b_two_tables_room s otid ntid ot nt HW Hne Hot Hnt). pose proof (wf_small _ HW). lia. }
  destruct (b_add_all_entities_facts nt ot (t_len ot) Hokn Hoko (le_n _) Hroom) as (Hok1 & Hlen1 & Hmeta1 & Hz1 & Hc1 & He1 & Hn1).
  set (nt1 := tbl_add_all_entities nt ot (t_len ot)) in *.
  destruct Hmeta1 as (M1 & M2 & M3 & M4 & M5 & M6).
  set (s1 := s <| w_index := b_xI' s ntid ot nt |>).
  set (s2 := sb2_setT s1 (upd ntid nt1 (w_tables s))).
  assert (Hot2 : nth_error (w_tables s2) otid = Some ot).
  { unfold s2. cbn. rewrite sb2_nth_error_upd_ne by auto. exact Hot. }
  assert (Hnt2 : nth_error (w_tables s2) ntid = Some nt1).
  { unfold s2. cbn. eapply sb2_nth_error_upd_eq; eauto. }
  destruct (b_xloop otid ntid (a_mask na) (t_len ot) (t_len nt) ot (t_ids ot) s2 nt1 Hne Hot2 Hnt2 Hok1 Hlen1)
    as (nt3 & Hrun & Hok3 & Hmeta3 & Hlen3 & Hents3 & Hcell3 & Hcopy3).
  { rewrite Hido. apply mk_to_list_sorted. }
  { intros c Hin Hm.
    destruct (sb2_index_of_In _ _ Hin) as (oi & Eoi).
    assert (Hcn : c < length (w_reg s)).
    { rewrite Hido in Hin. apply mk_to_list_spec in Hin. tauto. }
    assert (Hinn : In c (t_ids nt1)).
    { rewrite M2, Hidn. apply mk_to_list_spec. auto. }
    destruct (sb2_index_of_In _ _ Hinn) as (ni & Eni).
    pose proof (sb2_index_of_nth _ _ _ Eoi) as Noi. pose proof (sb2_index_of_nth _ _ _ Eni) as Nni.
    assert (Hoil : oi < length (t_ids ot)) by (apply nth_error_Some; congruence).
    destruct (nth_error (t_cols ot) oi) as [src|] eqn:Esrc.
    2:{ apply nth_error_None in Esrc. lia. }
    destruct (O5 _ _ Esrc) as (L & _ & Zs).
    exists oi, ni, src, (kind_of s c).
    split; [assumption|]. split; [assumption|]. split; [exact Esrc|]. split.
    { rewrite M3, Hkn, nth_error_map. rewrite M2 in Nni. rewrite Nni. reflexivity. }
    split; [lia|].
    intros Hzs. apply (Zs (kind_of s c)); auto.
    rewrite Hko, nth_error_map, Noi. reflexivity. }
  exists nt3. split.
  { rewrite b_exchange_table_eq.
    erewrite sb2_bind_ok by (apply sb2_getT; exact Hot).
    erewrite sb2_bind_ok by (apply sb2_getT; exact Hnt).
    erewrite sb2_bind_ok.
    2:{ unfold arch_mask_of_table. erewrite sb2_bind_ok by (apply sb2_getT; exact Hnt).
        erewrite sb2_bind_ok by (apply sb2_getA; exact Hna). reflexivity. }
    erewrite sb2_bind_ok by (apply b_iloop; cbn; lia).
    rewrite Nat.add_0_r. change (skipn 0 (t_ents ot)) with (t_ents ot). fold (b_xI' s ntid ot nt). fold s1.
    erewrite sb2_bind_ok by (apply (sb2_modT s1 ntid _ nt); exact Hnt).
    change (w_tables s1) with (w_tables s). fold nt1. fold s2.
    erewrite sb2_bind_ok by exact Hrun.
    erewrite sb2_bind_ok.
    2:{ apply (sb2_modT _ otid _ ot). cbn. rewrite sb2_nth_error_upd_ne by auto. exact Hot2. }
    erewrite sb2_bind_ok by reflexivity.
    unfold ret. f_equal. unfold sb2_st, sb2_setT, b_xT', s2, s1, sb2_setT.
    apply b_W_ext; cbn; try reflexivity.
    rewrite sb2_upd_upd. reflexivity. }
  destruct Hmeta3 as (N1 & N2 & N3 & N4 & N5 & N6).
  split; [assumption|]. split; [lia|]. split; [repeat split; congruence|].
  split.
  { intros r Hr. split.
    - unfold row_ent in *. rewrite Hents3. apply He1. assumption.
    - intros ci. rewrite Hcell3 by lia. apply Hc1. assumption. }
  split.
  { intros i Hi. unfold row_ent in *. rewrite Hents3. apply Hn1. assumption. }
  intros c ni Eni i Hi. rewrite <- M2 in Eni. rewrite (Hcopy3 c ni Eni i Hi).
  assert (Hm : mk_get (a_mask na) c = true).
  { apply sb2_index_of_some_In in Eni. rewrite M2, Hidn in Eni. apply mk_to_list_spec in Eni. tauto. }
  rewrite Hm, andb_true_r. unfold memb. destruct (index_of c (t_ids ot)); [reflexivity|].
  apply Hz1. lia.
Qed.

End b_exchange.

(** *** Post-conditions of the bulk move *)
Section b_xpost.
Variables (s : W) (otid ntid : nat) (ot nt : table) (oa na : arch) (nt3 : table).
Hypothesis HSt : St s.
Hypothesis Hne : otid <> ntid.
Hypothesis Hot : nth_error (w_tables s) otid = Some ot.
Hypothesis Hnt : nth_error (w_tables s) ntid = Some nt.
Hypothesis Hoa : nth_error (w_archs s) (t_arch ot) = Some oa.
Hypothesis Hna : nth_error (w_archs s) (t_arch nt) = Some na.
Hypothesis Fn : b_nt_facts ot nt nt3.

Local Notation T' := (b_xT' s otid ntid ot nt3).
Local Notation I' := (b_xI' s ntid ot nt).
Local Notation s' := (sb2_st s T' I').
Local Notation ids := (map fst (firstn (t_len ot) (t_ents ot))).

Lemma b_xp_T : forall tid, nth_error T' tid =
  if Nat.eqb otid tid then Some (tbl_reset ot) else if Nat.eqb ntid tid then Some nt3 else nth_error (w_tables s) tid.
Proof.
  intros tid. unfold b_xT'. rewrite !nth_error_upd.
  destruct (Nat.eqb_spec otid tid) as [<-|H1].
  - destruct (Nat.eqb_spec ntid otid); [congruence|]. rewrite Hot. reflexivity.
  - destruct (Nat.eqb_spec ntid tid) as [<-|H2]; [rewrite Hnt|]; reflexivity.
Qed.

Lemma b_xp_otok : tbl_ok ot.
Proof. exact (sb2_table_ok _ _ _ (proj1 HSt) Hot). Qed.

Lemma b_xp_ids_len : length ids = t_len ot.
Proof.
  pose proof (tbl_ok_elim _ b_xp_otok) as (O1 & O2 & _).
  rewrite map_length. apply firstn_length_le. lia.
Qed.

Lemma b_xp_ids_nth : forall j, j < t_len ot -> nth_error ids j = Some (fst (row_ent ot j)).
Proof.
  intros j Hj. pose proof (tbl_ok_elim _ b_xp_otok) as (O1 & O2 & _).
  apply map_nth_error. rewrite (nth_error_nth' _ zero_ent) by (rewrite firstn_length_le; lia).
  rewrite nth_firstn' by assumption. reflexivity.
Qed.

Lemma b_xp_NoDup : NoDup ids.
Proof.
  apply (NoDup_nth ids 0). intros i j Hi Hj E. rewrite b_xp_ids_len in Hi, Hj.
  rewrite (nth_error_nth _ _ 0 (b_xp_ids_nth i Hi)), (nth_error_nth _ _ 0 (b_xp_ids_nth j Hj)) in E.
  apply (sb2_row_inj _ _ _ _ _ _ _ (proj1 HSt) Hot Hi Hot Hj E).
Qed.

Lemma b_xp_idx_some : forall id j, index_of id ids = Some j -> j < t_len ot /\ fst (row_ent ot j) = id.
Proof.
  intros id j E. apply sb2_index_of_nth in E.
  assert (Hj : j < t_len ot) by (rewrite <- b_xp_ids_len; apply nth_error_Some; congruence).
  split; [assumption|]. rewrite (b_xp_ids_nth j Hj) in E. congruence.
Qed.

Lemma b_xp_idx_row : forall j, j < t_len ot -> index_of (fst (row_ent ot j)) ids = Some j.
Proof.
  intros j Hj. pose proof (b_xp_ids_nth j Hj) as E.
  destruct (sb2_index_of_In _ _ (nth_error_In _ _ E)) as (j' & E').
  destruct (b_xp_idx_some _ _ E') as (Hj' & F).
  destruct (sb2_row_inj _ _ _ _ _ _ _ (proj1 HSt) Hot Hj' Hot Hj F) as (_ & ->). exact E'.
Qed.

Lemma b_xp_idx_other : forall tid t r, nth_error (w_tables s) tid = Some t -> r < t_len t -> tid <> otid ->
  index_of (fst (row_ent t r)) ids = None.
Proof.
  intros tid t r Ht Hr Hn. destruct (index_of (fst (row_ent t r)) ids) as [j|] eqn:E; [|reflexivity].
  destruct (b_xp_idx_some _ _ E) as (Hj & F).
  destruct (sb2_row_inj _ _ _ _ _ _ _ (proj1 HSt) Hot Hj Ht Hr F). congruence.
Qed.

Lemma b_xp_I : forall id, nth_error I' id =
  match index_of id ids with Some j => Some (Some ntid, t_len nt + j) | None => nth_error (w_index s) id end.
Proof.
  intros id. unfold b_xI'. apply b_reindex_spec; [exact b_xp_NoDup|].
  intros e He. pose proof (tbl_ok_elim _ b_xp_otok) as (O1 & O2 & _).
  destruct (In_nth _ _ zero_ent He) as (j & Hj & Ej).
  rewrite firstn_length_le in Hj by lia. rewrite nth_firstn' in Ej by assumption.
  destruct (wf_rows _ (proj1 HSt) _ _ _ Hot Hj) as (L & _). apply sb2_loc_iff in L.
  change (nth j (t_ents ot) zero_ent) with (row_ent ot j) in Ej. rewrite <- Ej.
  apply nth_error_Some. congruence.
Qed.

Lemma b_xp_St : St s'.
Proof.
  pose proof (proj1 HSt) as HW.
  destruct Fn as (On & Ln & Mn & Oldn & Newn & _).
  pose proof b_xp_otok as Hoko.
  assert (Mo : sb2_meta ot (tbl_reset ot)) by (repeat split).
  apply sb2_St_reindex; auto.
  - intros tid t' E. rewrite b_xp_T in E.
    destruct (Nat.eqb_spec otid tid) as [<-|H1].
    { inversion E; subst t'. split; [apply tbl_reset_ok; assumption|]. eauto. }
    destruct (Nat.eqb_spec ntid tid) as [<-|H2]; [inversion E; subst t'; eauto|].
    split; [eapply sb2_table_ok; eauto|]. exists t'. split; [assumption|apply sb2_meta_refl].
  - intros tid t E. rewrite b_xp_T.
    destruct (Nat.eqb_spec otid tid) as [<-|H1]; [rewrite Hot in E; inversion E; subst t; eauto|].
    destruct (Nat.eqb_spec ntid tid) as [<-|H2]; [rewrite Hnt in E; inversion E; subst t; eauto|].
    exists t. split; [assumption|apply sb2_meta_refl].
  - unfold b_xI'. apply b_reindex_length.
  - intros tid t' r E Hr. rewrite b_xp_T in E. rewrite b_xp_I.
    destruct (Nat.eqb_spec otid tid) as [<-|H1].
    { inversion E; subst t'. cbn in Hr. lia. }
    destruct (Nat.eqb_spec ntid tid) as [<-|H2].
    { inversion E; subst t'; clear E. rewrite Ln in Hr.
      destruct (Nat.lt_ge_cases r (t_len nt)) as [Hlt|Hge].
      - destruct (Oldn r Hlt) as (Er & _). rewrite Er.
        rewrite (b_xp_idx_other ntid nt r Hnt Hlt) by auto.
        destruct (wf_rows _ HW _ _ _ Hnt Hlt) as (A & B). split; [apply sb2_loc_iff; exact A|exact B].
      - assert (Hi : r - t_len nt < t_len ot) by lia.
        replace r with (t_len nt + (r - t_len nt)) by lia.
        rewrite (Newn _ Hi). rewrite (b_xp_idx_row _ Hi). split; [reflexivity|].
        apply (wf_rows _ HW _ _ _ Hot Hi). }
    rewrite (b_xp_idx_other tid t' r E Hr) by auto.
    destruct (wf_rows _ HW _ _ _ E Hr) as (A & B). split; [apply sb2_loc_iff; exact A|exact B].
  - intros id tid r E. rewrite b_xp_I in E.
    destruct (index_of id ids) as [j|] eqn:Ej.
    + destruct (b_xp_idx_some _ _ Ej) as (Hj & F). inversion E; subst tid r.
      exists nt3. rewrite b_xp_T. destruct (Nat.eqb_spec otid ntid); [congruence|]. rewrite Nat.eqb_refl.
      split; [reflexivity|]. split; [lia|]. rewrite (Newn _ Hj). exact F.
    + destruct (wf_index _ HW _ _ _ E) as (t & Et & Hr & F).
      rewrite b_xp_T. destruct (Nat.eqb_spec otid tid) as [<-|H1].
      { rewrite Hot in Et. inversion Et; subst t. rewrite <- F in Ej. rewrite (b_xp_idx_row _ Hr) in Ej. discriminate. }
      destruct (Nat.eqb_spec ntid tid) as [<-|H2].
      { rewrite Hnt in Et. inversion Et; subst t. exists nt3. split; [reflexivity|]. split; [lia|].
        destruct (Oldn r Hr) as (Er & _). rewrite Er. exact F. }
      exists t. auto.
  - intros id r E. rewrite b_xp_I. destruct (index_of id ids) as [j|] eqn:Ej; [|exact E].
    destruct (b_xp_idx_some _ _ Ej) as (Hj & F).
    destruct (wf_rows _ HW _ _ _ Hot Hj) as (L & _). apply sb2_loc_iff in L. rewrite F in L. congruence.
  - intros id tid r E. rewrite b_xp_I. destruct (index_of id ids) as [j|]; eauto.
Qed.

Lemma b_xp_loc : forall x, loc s' x =
  match index_of (fst x) ids with Some j => Some (ntid, t_len nt + j) | None => loc s x end.
Proof.
  intros x. rewrite sb2_loc_st, b_xp_I. destruct (index_of (fst x) ids); reflexivity.
Qed.

Lemma b_xp_tab : forall tid, nth_error (w_tables s') tid =
  if Nat.eqb otid tid then Some (tbl_reset ot) else if Nat.eqb ntid tid then Some nt3 else nth_error (w_tables s) tid.
Proof. exact b_xp_T. Qed.

Lemma b_xp_moved : forall e r, live s e = true -> loc s e = Some (otid, r) ->
  live s' e = true /\
  forall c, val s' e c = if mk_get (a_mask na) c then (if mk_get (a_mask oa) c then val s e c else Some 0%Z) else None.
Proof.
  intros e r Hlive Hloc. pose proof (proj1 HSt) as HW.
  destruct Fn as (On & Ln & Mn & Oldn & Newn & Celln). destruct Mn as (_ & Mids & _).
  destruct (sb2_live_elim _ _ Hlive) as (tid0 & r0 & t0 & L0 & T0 & R0 & E0).
  rewrite Hloc in L0. inversion L0; subst tid0 r0. rewrite Hot in T0. inversion T0; subst t0.
  assert (Hloc' : loc s' e = Some (ntid, t_len nt + r)).
  { rewrite b_xp_loc. rewrite <- E0. rewrite (b_xp_idx_row _ R0). reflexivity. }
  assert (Htab' : nth_error (w_tables s') ntid = Some nt3).
  { rewrite b_xp_tab. destruct (Nat.eqb_spec otid ntid); [congruence|]. rewrite Nat.eqb_refl. reflexivity. }
  destruct (sb2_live_at _ _ _ _ _ Hloc' Htab') as (Hl' & Hv').
  destruct (sb2_live_at _ _ _ _ _ Hloc Hot) as (_ & Hv).
  assert (Hlive' : live s' e = true).
  { rewrite Hl', Ln, (Newn _ R0), E0, sb2_ent_eqb_refl.
    destruct (Nat.ltb_spec (t_len nt + r) (t_len nt + t_len ot)); [reflexivity|lia]. }
  split; [exact Hlive'|]. intros c. unfold val. rewrite Hlive', Hlive, Hv', Hv.
  unfold tbl_colidx. rewrite Mids.
  destruct (sb2_colidx_mask _ _ _ _ c HW Hnt Hna) as (Nt & Nf).
  destruct (sb2_colidx_mask _ _ _ _ c HW Hot Hoa) as (Ot & Of).
  unfold tbl_colidx in *.
  destruct (mk_get (a_mask na) c).
  - destruct (Nt eq_refl) as (ni & Eni). rewrite Eni. rewrite (Celln c ni Eni r R0).
    destruct (mk_get (a_mask oa) c).
    + destruct (Ot eq_refl) as (oi & Eoi). rewrite Eoi. reflexivity.
    + rewrite (Of eq_refl). reflexivity.
  - rewrite (Nf eq_refl). reflexivity.
Qed.

Lemma b_xp_other : forall e, live s e = true -> (forall r, loc s e <> Some (otid, r)) ->
  live s' e = true /\ forall c, val s' e c = val s e c.
Proof.
  intros e Hlive Hnot. pose proof (proj1 HSt) as HW.
  destruct Fn as (On & Ln & Mn & Oldn & Newn & Celln). destruct Mn as (_ & Mids & _).
  destruct (sb2_live_elim _ _ Hlive) as (tid & r & t & L0 & T0 & R0 & E0).
  assert (Hn : tid <> otid) by (intros ->; apply (Hnot r); exact L0).
  assert (Hloc' : loc s' e = Some (tid, r)).
  { rewrite b_xp_loc. rewrite <- E0. rewrite (b_xp_idx_other tid t r T0 R0 Hn). rewrite E0. exact L0. }
  destruct (sb2_live_at _ _ _ _ _ L0 T0) as (Hl & Hv).
  assert (S : live s' e = live s e /\ forall c, val s' e c = val s e c).
  { apply sb2_same_at.
    - destruct (Nat.eq_dec tid ntid) as [->|Hn2].
      + rewrite Hnt in T0. inversion T0; subst t.
        assert (Htab' : nth_error (w_tables s') ntid = Some nt3).
        { rewrite b_xp_tab. destruct (Nat.eqb_spec otid ntid); [congruence|]. rewrite Nat.eqb_refl. reflexivity. }
        destruct (sb2_live_at _ _ _ _ _ Hloc' Htab') as (Hl' & _). rewrite Hl', Hl, Ln.
        destruct (Oldn r R0) as (Er & _). rewrite Er.
        destruct (Nat.ltb_spec r (t_len nt + t_len ot)); [|lia].
        destruct (Nat.ltb_spec r (t_len nt)); [reflexivity|lia].
      + assert (Htab' : nth_error (w_tables s') tid = Some t).
        { rewrite b_xp_tab. destruct (Nat.eqb_spec otid tid); [congruence|].
          destruct (Nat.eqb_spec ntid tid); [congruence|]. exact T0. }
        destruct (sb2_live_at _ _ _ _ _ Hloc' Htab') as (Hl' & _). rewrite Hl', Hl. reflexivity.
    - intros c. destruct (Nat.eq_dec tid ntid) as [->|Hn2].
      + rewrite Hnt in T0. inversion T0; subst t.
        assert (Htab' : nth_error (w_tables s') ntid = Some nt3).
        { rewrite b_xp_tab. destruct (Nat.eqb_spec otid ntid); [congruence|]. rewrite Nat.eqb_refl. reflexivity. }
        destruct (sb2_live_at _ _ _ _ _ Hloc' Htab') as (_ & Hv'). rewrite Hv', Hv.
        unfold tbl_colidx. rewrite Mids. destruct (index_of c (t_ids nt)); [|reflexivity].
        destruct (Oldn r R0) as (_ & Ec). rewrite Ec. reflexivity.
      + assert (Htab' : nth_error (w_tables s') tid = Some t).
        { rewrite b_xp_tab. destruct (Nat.eqb_spec otid tid); [congruence|].
          destruct (Nat.eqb_spec ntid tid); [congruence|]. exact T0. }
        destruct (sb2_live_at _ _ _ _ _ Hloc' Htab') as (_ & Hv'). rewrite Hv', Hv. reflexivity. }
  destruct S as (S1 & S2). split; [congruence|exact S2].
Qed.

Lemma b_xp_dead : forall e, live s e = false -> live s' e = false.
Proof.
  intros e Hdead. pose proof (proj1 HSt) as HW.
  destruct Fn as (On & Ln & Mn & Oldn & Newn & Celln).
  destruct (live s' e) eqn:Hl'; [|reflexivity]. exfalso.
  destruct (sb2_live_elim _ _ Hl') as (tid & r & t & L0 & T0 & R0 & E0).
  rewrite b_xp_tab in T0.
  assert (K : forall tid0 t0 r0, nth_error (w_tables s) tid0 = Some t0 -> r0 < t_len t0 -> row_ent t0 r0 = e -> False).
  { intros tid0 t0 r0 Ht0 Hr0 He0. destruct (wf_rows _ HW _ _ _ Ht0 Hr0) as (A & _). rewrite He0 in A.
    rewrite (sb2_live_intro _ _ _ _ _ A Ht0 Hr0 He0) in Hdead. discriminate. }
  destruct (Nat.eqb_spec otid tid) as [<-|H1].
  { inversion T0; subst t. cbn in R0. lia. }
  destruct (Nat.eqb_spec ntid tid) as [<-|H2].
  { inversion T0; subst t. rewrite Ln in R0.
    destruct (Nat.lt_ge_cases r (t_len nt)) as [Hlt|Hge].
    - destruct (Oldn r Hlt) as (Er & _). rewrite Er in E0. exact (K _ _ _ Hnt Hlt E0).
    - assert (Hi : r - t_len nt < t_len ot) by lia.
      replace r with (t_len nt + (r - t_len nt)) in E0 by lia. rewrite (Newn _ Hi) in E0.
      exact (K _ _ _ Hot Hi E0). }
  exact (K _ _ _ T0 R0 E0).
Qed.

End b_xpost.

(** exchangeTable: the bulk move of every row of table [otid] into table [ntid] (different tables,
    archetype masks [om] and [nm]): every moved entity keeps the values of the components present
    in both masks, gets zero for the components only in [nm], loses those only in [om]; entities
    elsewhere are untouched; the source table is empty afterwards. *)
Theorem exchange_table_spec : forall s otid ntid ot nt oa na, St s -> otid <> ntid ->
  nth_error (w_tables s) otid = Some ot -> nth_error (w_tables s) ntid = Some nt ->
  nth_error (w_archs s) (t_arch ot) = Some oa -> nth_error (w_archs s) (t_arch nt) = Some na ->
  exists s', exchange_table otid ntid [] s = Ok (t_len nt, t_len ot) s' /\ St s' /\
    (forall e, live s e = true -> loc s e = Some (otid, snd (match loc s e with Some p => p | None => (0,0) end)) ->
       live s' e = true /\
       forall c, val s' e c = if mk_get (a_mask na) c then (if mk_get (a_mask oa) c then val s e c else Some 0%Z) else None) /\
    (forall e, live s e = true -> (forall r, loc s e <> Some (otid, r)) -> live s' e = true /\ forall c, val s' e c = val s e c) /\
    (forall e, live s e = false -> live s' e = false) /\
    (exists ot', nth_error (w_tables s') otid = Some ot' /\ t_len ot' = 0) /\
    w_pool s' = w_pool s /\ side_same s s' /\ frame_user s s'.
Proof.
  intros s otid ntid ot nt oa na HSt Hne Hot Hnt Hoa Hna.
  destruct (b_x_exec s otid ntid ot nt oa na HSt Hne Hot Hnt Hoa Hna) as (nt3 & Hrun & Fn).
  exists (sb2_st s (b_xT' s otid ntid ot nt3) (b_xI' s ntid ot nt)).
  split; [exact Hrun|].
  split; [eapply b_xp_St; eassumption|].
  split.
  { intros e Hlive Hloc. eapply b_xp_moved; eassumption. }
  split.
  { intros e Hlive Hnot. eapply b_xp_other; eassumption. }
  split.
  { intros e Hdead. eapply b_xp_dead; eassumption. }
  split.
  { exists (tbl_reset ot). split; [|reflexivity].
    rewrite (b_xp_tab s otid ntid ot nt nt3 Hne Hot Hnt). rewrite Nat.eqb_refl. reflexivity. }
  split; [reflexivity|].
  split; [unfold side_same; repeat split | unfold frame_user; repeat split].
Qed.

(** The same theorem with the premise "[e] is located in table [otid]" said directly. *)
Corollary exchange_table_spec_located : forall s otid ntid ot nt oa na, St s -> otid <> ntid ->
  nth_error (w_tables s) otid = Some ot -> nth_error (w_tables s) ntid = Some nt ->
  nth_error (w_archs s) (t_arch ot) = Some oa -> nth_error (w_archs s) (t_arch nt) = Some na ->
  exists s', exchange_table otid ntid [] s = Ok (t_len nt, t_len ot) s' /\ St s' /\
    (forall e, live s e = true -> (exists r, loc s e = Some (otid, r)) ->
       live s' e = true /\
       forall c, val s' e c = if mk_get (a_mask na) c then (if mk_get (a_mask oa) c then val s e c else Some 0%Z) else None) /\
    (forall e, live s e = true -> (forall r, loc s e <> Some (otid, r)) -> live s' e = true /\ forall c, val s' e c = val s e c) /\
    (forall e, live s e = false -> live s' e = false) /\
    (exists ot', nth_error (w_tables s') otid = Some ot' /\ t_len ot' = 0) /\
    w_pool s' = w_pool s /\ side_same s s' /\ frame_user s s'.
Proof.
  intros s otid ntid ot nt oa na HSt Hne Hot Hnt Hoa Hna.
  destruct (exchange_table_spec s otid ntid ot nt oa na HSt Hne Hot Hnt Hoa Hna) as (s' & H1 & H2 & H3 & H4).
  exists s'. split; [exact H1|]. split; [exact H2|]. split; [|exact H4].
  intros e Hlive (r & Hloc). apply H3; [exact Hlive|]. rewrite Hloc. reflexivity.
Qed.

(** ** Assumption audit *)
Print Assumptions create_entities_spec.
Print Assumptions new_entities_spec_partial.
Print Assumptions new_entities_spec_refuted.
Print Assumptions exchange_table_spec.
Print Assumptions exchange_table_spec_located.
