(** * StorageA: structure creation (archetypes, tables) and the pool, against the invariant.
    Layer A of the storage proofs, for worlds without relation components ([St s]). To be filled. *)
From Ark Require Import Model.Base Model.Mask Model.Pool Model.Util Model.World Model.Run.
From Ark Require Import Proofs.TableProofs Proofs.MaskProofs Proofs.Hoare Proofs.WF.
From RecordUpdate Require Import RecordSet.
Import RecordSetNotations.

(** Everything outside the storage proper: lock, callback log, observer manager. Structure creation
    and row moves never touch these; callbacks touch only these. *)
Definition side_same (s s' : W) : Prop :=
  w_lock s' = w_lock s /\ w_log s' = w_log s /\ w_obs s' = w_obs s /\ w_olists s' = w_olists s /\
  w_oagg s' = w_oagg s /\ w_opool s' = w_opool s /\ w_ototal s' = w_ototal s /\ w_omax s' = w_omax s.

(** The storage proper (everything [WF], [NoRel], [loc], [abs] talk about). *)
Definition storage_same (s s' : W) : Prop :=
  w_cfg s' = w_cfg s /\ w_reg s' = w_reg s /\ w_pool s' = w_pool s /\ w_index s' = w_index s /\
  w_istarget s' = w_istarget s /\ w_archs s' = w_archs s /\ w_tables s' = w_tables s /\
  w_relarchs s' = w_relarchs s /\ w_compindex s' = w_compindex s /\ w_archcount s' = w_archcount s /\
  w_version s' = w_version s /\ w_cheap s' = w_cheap s /\ w_centries s' = w_centries s /\
  w_cpool s' = w_cpool s /\ w_filters s' = w_filters s /\ w_queries s' = w_queries s /\
  w_res s' = w_res s /\ w_issued s' = w_issued s.

Lemma same_rows_refl : forall s, same_rows s s.
Admitted.
Lemma same_rows_trans : forall s1 s2 s3, same_rows s1 s2 -> same_rows s2 s3 -> same_rows s1 s3.
Admitted.
Lemma storage_same_St : forall s s', storage_same s s' -> St s -> St s'.
Admitted.
Lemma storage_same_rows : forall s s', storage_same s s' -> same_rows s s'.
Admitted.

(** [live s e]: [e] is the current incarnation of an entity stored in a row (boolean form of
    [present]); [val s e c]: the value of component [c] of [e], [None] if [e] is not live or lacks [c].
    Together they are the Spec-level content of the world: which handles exist, which components
    each has, and their values. *)
Definition live (s : W) (e : ent) : bool :=
  match loc s e with
  | Some (tid, r) =>
      match nth_error (w_tables s) tid with
      | Some t => (Nat.ltb r (t_len t) && ent_eqb (row_ent t r) e)%bool
      | None => false
      end
  | None => false
  end.
Definition val (s : W) (e : ent) (c : nat) : option Z := if live s e then value_of s e c else None.

Definition content_same (s s' : W) : Prop :=
  forall e, live s' e = live s e /\ forall c, val s' e c = val s e c.

Lemma live_present : forall s e, live s e = true <-> present s e.
Admitted.

(** Under [same_rows] the content of the world is unchanged. *)
Lemma same_rows_content : forall s s', WF s -> same_rows s s' -> content_same s s'.
Admitted.

(** Consequences of the invariant used everywhere. *)
Lemma live_alive : forall s e, WF s -> live s e = true -> alive s e = true /\ 2 <= fst e.
Admitted.
Lemma live_unique : forall s e e', WF s -> live s e = true -> live s e' = true -> fst e = fst e' -> e = e'.
Admitted.
(** Rows are bounded by the pool (distinct rows hold distinct IDs). *)
Lemma rows_le_pool : forall s tid t, WF s -> nth_error (w_tables s) tid = Some t -> t_len t <= length (pe (w_pool s)).
Admitted.
(** The component set of a live entity is the mask of its archetype: [val] is defined exactly on it. *)
Lemma val_defined_iff_mask : forall s e tid r t a, WF s -> live s e = true -> loc s e = Some (tid, r) ->
  nth_error (w_tables s) tid = Some t -> nth_error (w_archs s) (t_arch t) = Some a ->
  forall c, (val s e c <> None <-> mk_get (a_mask a) c = true).
Admitted.

(** The initial world (any capacities >= 1, any registered kinds without relations that fit the mask). *)
Lemma St_init : forall c, 1 <= sc_cap c -> 1 <= sc_caprel c -> length (sc_kinds c) <= sc_bits c ->
  Forall (fun k => ck_rel k = false) (sc_kinds c) -> St (init_world c).
Admitted.

(** find_or_create_arch: returns the archetype with exactly that mask; only appends archetypes. *)
Lemma find_or_create_arch_spec : forall s m,
  St s -> (forall j, mk_get m j = true -> j < length (w_reg s)) ->
  exists aid s', find_or_create_arch m s = Ok aid s' /\ St s' /\ same_rows s s' /\ side_same s s' /\
                 frame_user s s' /\ w_tables s' = w_tables s /\
                 (exists a, nth_error (w_archs s') aid = Some a /\ a_mask a = m).
Admitted.

(** get_or_create_table in a relation-free world: with no relation targets given it succeeds and
    returns the (single) table of the archetype; in every case invariant and [same_rows]. *)
Lemma get_or_create_table_spec : forall s aid a rels,
  St s -> nth_error (w_archs s) aid = Some a ->
  match get_or_create_table aid rels s with
  | Ok tid s' => St s' /\ same_rows s s' /\ side_same s s' /\ frame_user s s' /\
                 (exists t, nth_error (w_tables s') tid = Some t /\ t_arch t = aid) /\
                 (exists a', nth_error (w_archs s') aid = Some a' /\ a_mask a' = a_mask a)
  | Err _ s' => St s' /\ same_rows s s' /\ side_same s s' /\ frame_user s s' /\ rels <> []
  end.
Admitted.

(** The table finders: resulting mask = old mask plus / minus the components; the returned table
    belongs to the archetype with that mask. [rels = []] throughout (relation-free tier). *)
Definition finder_post (s : W) (m : mask) (tid aid : nat) (s' : W) : Prop :=
  St s' /\ same_rows s s' /\ side_same s s' /\ frame_user s s' /\
  (exists t a, nth_error (w_tables s') tid = Some t /\ t_arch t = aid /\
               nth_error (w_archs s') aid = Some a /\ a_mask a = m).
Definition finder_err (s s' : W) : Prop := St s' /\ same_rows s s' /\ side_same s s' /\ frame_user s s'.

Lemma find_or_create_table_add_spec : forall s old ot add m0,
  St s -> nth_error (w_tables s) old = Some ot ->
  (forall j, mk_get m0 j = true -> j < length (w_reg s)) -> (forall c, In c add -> c < length (w_reg s)) ->
  match find_or_create_table_add old add [] m0 s with
  | Ok (tid, aid, m) s' =>
      finder_post s m tid aid s' /\
      (forall j, mk_get m j = (mk_get m0 j || memb j add)%bool) /\
      NoDup add /\ (forall c, In c add -> mk_get m0 c = false)
  | Err _ s' => finder_err s s' /\ ~ (NoDup add /\ forall c, In c add -> mk_get m0 c = false)
  end.
Admitted.

Lemma find_or_create_table_remove_spec : forall s old ot rem m0,
  St s -> nth_error (w_tables s) old = Some ot ->
  (forall j, mk_get m0 j = true -> j < length (w_reg s)) ->
  match find_or_create_table_remove old rem m0 s with
  | Ok (tid, aid, m, rr) s' =>
      finder_post s m tid aid s' /\ rr = false /\
      (forall j, mk_get m j = (mk_get m0 j && negb (memb j rem))%bool) /\
      NoDup rem /\ (forall c, In c rem -> mk_get m0 c = true)
  | Err _ s' => finder_err s s' /\ ~ (NoDup rem /\ forall c, In c rem -> mk_get m0 c = true)
  end.
Admitted.

Lemma find_or_create_table_spec : forall s old ot add rem m0,
  St s -> nth_error (w_tables s) old = Some ot ->
  (forall j, mk_get m0 j = true -> j < length (w_reg s)) -> (forall c, In c add -> c < length (w_reg s)) ->
  match find_or_create_table old add rem [] m0 s with
  | Ok (tid, aid, m, rr) s' =>
      finder_post s m tid aid s' /\ rr = false /\
      (forall j, mk_get m j = ((mk_get m0 j && negb (memb j rem)) || memb j add)%bool) /\
      NoDup add /\ NoDup rem /\ (forall c, In c rem -> mk_get m0 c = true) /\
      (forall c, In c add -> mk_get m0 c = false)
  | Err _ s' => finder_err s s'
  end.
Admitted.

(** Pool operations against the invariant's free list. *)
Lemma pool_get_spec : forall p fl, pool_ok p fl ->
  let '(e, p') := pool_get p in
  2 <= fst e /\
  ((pavail p = 0 /\ fl = [] /\ e = (length (pe p), 0%N) /\ pe p' = pe p ++ [e] /\ pool_ok p' []) \/
   (exists rest, fl = fst e :: rest /\ fst e < length (pe p) /\ length (pe p') = length (pe p) /\
                 pool_ok p' rest /\ nth_error (pe p') (fst e) = Some e /\
                 (forall i, i <> fst e -> nth_error (pe p') i = nth_error (pe p) i))).
Admitted.

Lemma pool_recycle_spec : forall p fl e, pool_ok p fl -> 2 <= fst e -> nth_error (pe p) (fst e) = Some e -> ~ In (fst e) fl ->
  exists p', pool_recycle p e = Some p' /\ pool_ok p' (fst e :: fl) /\ length (pe p') = length (pe p) /\
             (forall i, i <> fst e -> nth_error (pe p') i = nth_error (pe p) i) /\
             (exists l, nth_error (pe p') (fst e) = Some (l, N.modulo (snd e + 1) 4294967296)).
Admitted.

(** Callbacks and event dispatch never touch the storage (they lock/unlock, log, and may
    unregister observers); they may fail (lock bits exhausted). *)
Lemma run_callback_storage : forall oi e s, storage_same s (state_of (run_callback oi e s)).
Admitted.
Lemma fire_storage : forall evt early pred e eo s, storage_same s (state_of (fire evt early pred e eo s)).
Admitted.
Lemma fire_remove_events_storage : forall e old new rr s, storage_same s (state_of (fire_remove_events e old new rr s)).
Admitted.
Lemma fire_add_if_has_storage : forall evt e old new s, storage_same s (state_of (fire_add_if_has evt e old new s)).
Admitted.
Lemma fire_create_entity_if_has_storage : forall e m s, storage_same s (state_of (fire_create_entity_if_has e m s)).
Admitted.
