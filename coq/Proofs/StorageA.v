(** * StorageA: structure creation (archetypes, tables) and the pool, against the invariant.
    Layer A of the storage proofs, for worlds without relation components ([St s]). Helper lemmas carry the prefix [sa_]. *)
From Ark Require Import Model.Base Model.Mask Model.Pool Model.Util Model.World Model.Run.
From Ark Require Import Proofs.TableProofs Proofs.MaskProofs Proofs.Hoare Proofs.WF.
From RecordUpdate Require Import RecordSet.
Import RecordSetNotations.

(** Everything outside the storage proper: lock, callback log, observer manager. Structure creation
    and row moves never touch these; callbacks touch only these. *)
Definition side_same (s s' : W) : Prop :=
  w_lock s' = w_lock s /\ w_log s' = w_log s /\ w_obs s' = w_obs s /\ w_olists s' = w_olists s /\
  w_oagg s' = w_oagg s /\ w_opool s' = w_opool s /\ w_ototal s' = w_ototal s /\ w_omax s' = w_omax s.

(** The storage proper (everything [WF], [NoRel], [loc], [abs] talk about). *)
Definition storage_same (s s' : W) : Prop :=
  w_cfg s' = w_cfg s /\ w_reg s' = w_reg s /\ w_pool s' = w_pool s /\ w_index s' = w_index s /\
  w_istarget s' = w_istarget s /\ w_archs s' = w_archs s /\ w_tables s' = w_tables s /\
  w_relarchs s' = w_relarchs s /\ w_compindex s' = w_compindex s /\ w_archcount s' = w_archcount s /\
  w_version s' = w_version s /\ w_cheap s' = w_cheap s /\ w_centries s' = w_centries s /\
  w_cpool s' = w_cpool s /\ w_filters s' = w_filters s /\ w_queries s' = w_queries s /\
  w_res s' = w_res s /\ w_issued s' = w_issued s.

Lemma same_rows_refl : forall s, same_rows s s.
Proof.
  intros s. unfold same_rows. repeat split; auto.
  - intros tid t H. exists t. unfold table_same_data. repeat split; auto.
  - intros aid a H. exists a. auto.
Qed.
Lemma same_rows_trans : forall s1 s2 s3, same_rows s1 s2 -> same_rows s2 s3 -> same_rows s1 s3.
Proof.
  intros s1 s2 s3 (A1 & A2 & A3 & A4 & A5 & A6 & A7 & A8) (B1 & B2 & B3 & B4 & B5 & B6 & B7 & B8).
  unfold same_rows. repeat split; try congruence.
  - intros tid t H. destruct (A7 tid t H) as (t' & H' & D & T).
    destruct (B7 tid t' H') as (t'' & H'' & D' & T').
    exists t''. split; [exact H''|]. unfold table_same_data in *.
    destruct D as (D1 & D2 & D3 & D4 & D5 & D6 & D7). destruct D' as (E1 & E2 & E3 & E4 & E5 & E6 & E7).
    split; [repeat split; congruence|].
    intros L. destruct (T L) as (T1 & T2 & T3). assert (L' : 0 < t_len t') by lia.
    destruct (T' L') as (U1 & U2 & U3). repeat split; congruence.
  - intros aid a H. destruct (A8 aid a H) as (a' & H' & M). destruct (B8 aid a' H') as (a'' & H'' & M').
    exists a''. split; congruence.
Qed.
(** *** Extensionality of the invariant in the fields it mentions *)
Lemma sa_kind_of_ext : forall s s', w_reg s' = w_reg s -> forall c, kind_of s' c = kind_of s c.
Proof. intros s s' E c. unfold kind_of. rewrite E. reflexivity. Qed.

Lemma sa_loc_ext : forall s s', w_index s' = w_index s -> forall e, loc s' e = loc s e.
Proof. intros s s' E e. unfold loc. rewrite E. reflexivity. Qed.

Lemma sa_WF_ext : forall s s',
  w_cfg s' = w_cfg s -> w_reg s' = w_reg s -> w_pool s' = w_pool s -> w_index s' = w_index s ->
  w_istarget s' = w_istarget s -> w_archs s' = w_archs s -> w_tables s' = w_tables s ->
  w_compindex s' = w_compindex s -> w_archcount s' = w_archcount s ->
  w_cheap s' = w_cheap s -> w_centries s' = w_centries s -> w_filters s' = w_filters s ->
  WF s -> WF s'.
Proof.
  intros s s' E1 E2 E3 E4 E5 E6 E7 E8 E9 E10 E11 E12 H.
  assert (K : forall c, kind_of s' c = kind_of s c) by (apply sa_kind_of_ext; auto).
  assert (L : forall e, loc s' e = loc s e) by (apply sa_loc_ext; auto).
  assert (KM : forall l, map (kind_of s') l = map (kind_of s) l) by (intros; apply map_ext; auto).
  destruct H. constructor; rewrite ?E1, ?E2, ?E3, ?E4, ?E5, ?E6, ?E7, ?E8, ?E9, ?E10, ?E11, ?E12; auto.
  - intros tid t Ht. destruct (wf_layout tid t Ht) as (a & A1 & A2 & A3 & A4). exists a. rewrite KM. auto.
  - intros aid a Ha. destruct (wf_arch_comps aid a Ha) as (A1 & A2 & A3 & A4 & A5).
    repeat split; auto. rewrite A3. apply map_ext. intros c. rewrite K. reflexivity.
  - intros tid t r Ht Hr. rewrite L. auto.
Qed.

Lemma sa_NoRel_ext : forall s s',
  w_reg s' = w_reg s -> w_archs s' = w_archs s -> w_tables s' = w_tables s -> w_relarchs s' = w_relarchs s ->
  NoRel s -> NoRel s'.
Proof.
  intros s s' E1 E2 E3 E4 (N1 & N2 & N3 & N4). unfold NoRel. rewrite E2, E3, E4.
  split; [|split; [|split]]; auto. intros c. rewrite (sa_kind_of_ext s s' E1). auto.
Qed.

Lemma storage_same_St : forall s s', storage_same s s' -> St s -> St s'.
Proof.
  intros s s' (E1 & E2 & E3 & E4 & E5 & E6 & E7 & E8 & E9 & E10 & E11 & E12 & E13 & E14 & E15 & E16 & E17 & E18) [HW HN].
  split.
  - apply (sa_WF_ext s s'); auto.
  - apply (sa_NoRel_ext s s'); auto.
Qed.
Lemma storage_same_rows : forall s s', storage_same s s' -> same_rows s s'.
Proof.
  intros s s' (E1 & E2 & E3 & E4 & E5 & E6 & E7 & E8 & E9 & E10 & E11 & E12 & E13 & E14 & E15 & E16 & E17 & E18).
  unfold same_rows. rewrite E6, E7. repeat split; auto.
  - intros tid t H. exists t. unfold table_same_data. repeat split; auto.
  - intros aid a H. exists a. auto.
Qed.

(** [live s e]: [e] is the current incarnation of an entity stored in a row (boolean form of
    [present]); [val s e c]: the value of component [c] of [e], [None] if [e] is not live or lacks [c].
    Together they are the Spec-level content of the world: which handles exist, which components
    each has, and their values. *)
Definition live (s : W) (e : ent) : bool :=
  match loc s e with
  | Some (tid, r) =>
      match nth_error (w_tables s) tid with
      | Some t => (Nat.ltb r (t_len t) && ent_eqb (row_ent t r) e)%bool
      | None => false
      end
  | None => false
  end.
Definition val (s : W) (e : ent) (c : nat) : option Z := if live s e then value_of s e c else None.

Definition content_same (s s' : W) : Prop :=
  forall e, live s' e = live s e /\ forall c, val s' e c = val s e c.

Lemma sa_ent_eqb_eq : forall a b : ent, ent_eqb a b = true <-> a = b.
Proof.
  intros [a1 a2] [b1 b2]. unfold ent_eqb; simpl. rewrite andb_true_iff, Nat.eqb_eq, N.eqb_eq.
  split; [intros [-> ->]; reflexivity | intros H; inversion H; auto].
Qed.

Lemma sa_ent_eqb_refl : forall a : ent, ent_eqb a a = true.
Proof. intros a. apply sa_ent_eqb_eq. reflexivity. Qed.

Lemma live_present : forall s e, live s e = true <-> present s e.
Proof.
  intros s e. unfold live, present. split.
  - intros H. destruct (loc s e) as [[tid r]|] eqn:L; [|discriminate].
    destruct (nth_error (w_tables s) tid) as [t|] eqn:T; [|discriminate].
    apply andb_true_iff in H. destruct H as [H1 H2]. apply Nat.ltb_lt in H1. apply sa_ent_eqb_eq in H2.
    exists tid, r, t. auto.
  - intros (tid & r & t & L & T & R & E). rewrite L, T. apply andb_true_iff. split.
    + apply Nat.ltb_lt; exact R.
    + apply sa_ent_eqb_eq; exact E.
Qed.

(** Under [same_rows] the content of the world is unchanged. *)
Lemma same_rows_content : forall s s', WF s -> same_rows s s' -> content_same s s'.
Proof.
  intros s s' HW (A1 & A2 & A3 & A4 & A5 & A6 & A7 & A8) e.
  assert (L : loc s' e = loc s e) by (apply sa_loc_ext; auto).
  unfold val, live, value_of. rewrite L.
  destruct (loc s e) as [[tid r]|] eqn:Le; [|auto].
  unfold loc in Le. destruct (nth_error (w_index s) (fst e)) as [[[tid'|] r']|] eqn:Ix; try discriminate.
  inversion Le; subst tid' r'.
  destruct (wf_index _ HW _ _ _ Ix) as (t & T & R & F).
  destruct (A7 tid t T) as (t' & T' & (D1 & D2 & D3 & D4 & D5 & D6 & D7) & _).
  rewrite T, T'. unfold row_ent, tbl_colidx, cell. rewrite D1, D3, D4, D5. auto.
Qed.

(** Consequences of the invariant used everywhere. *)
Lemma live_alive : forall s e, WF s -> live s e = true -> alive s e = true /\ 2 <= fst e.
Proof.
  intros s e HW H. apply live_present in H. destruct H as (tid & r & t & L & T & R & E).
  destruct (wf_rows _ HW tid t r T R) as (_ & P). rewrite E in P. split.
  - unfold alive, pool_alive. rewrite P. destruct e; simpl. apply N.eqb_refl.
  - unfold loc in L. destruct (wf_reserved _ HW) as ((r0 & I0) & (r1 & I1) & _).
    destruct (fst e) as [|[|n]]; [rewrite I0 in L; discriminate | rewrite I1 in L; discriminate | lia].
Qed.
Lemma live_unique : forall s e e', WF s -> live s e = true -> live s e' = true -> fst e = fst e' -> e = e'.
Proof.
  intros s e e' HW H H' F. apply live_present in H, H'.
  destruct H as (tid & r & t & L & T & R & E). destruct H' as (tid' & r' & t' & L' & T' & R' & E').
  unfold loc in L, L'. rewrite <- F in L'. rewrite L' in L.
  destruct (nth_error (w_index s) (fst e)) as [[[x|] y]|]; try discriminate.
  inversion L; subst. rewrite T in T'. inversion T'; subst. reflexivity.
Qed.
(** Rows are bounded by the pool (distinct rows hold distinct IDs). *)
Lemma sa_NoDup_map_inj : forall A B (f : A -> B) l,
  (forall x y, In x l -> In y l -> f x = f y -> x = y) -> NoDup l -> NoDup (map f l).
Proof.
  induction l as [|a l IH]; intros Inj ND; simpl; [constructor|].
  inversion ND as [|? ? Na Nl]; subst. constructor.
  - intros H. apply in_map_iff in H. destruct H as (y & E & Hy).
    assert (y = a) by (apply Inj; simpl; auto). subst. contradiction.
  - apply IH; auto. intros x y Hx Hy. apply Inj; simpl; auto.
Qed.

Lemma rows_le_pool : forall s tid t, WF s -> nth_error (w_tables s) tid = Some t -> t_len t <= length (pe (w_pool s)).
Proof.
  intros s tid t HW T.
  set (f := fun r => fst (row_ent t r)).
  assert (ND : NoDup (map f (seq 0 (t_len t)))).
  { apply sa_NoDup_map_inj; [|apply seq_NoDup].
    intros x y Hx Hy E. apply in_seq in Hx, Hy.
    destruct (wf_rows _ HW tid t x T) as (Lx & _); [lia|]. destruct (wf_rows _ HW tid t y T) as (Ly & _); [lia|].
    unfold loc in Lx, Ly. unfold f in E. rewrite E in Lx. rewrite Ly in Lx. inversion Lx; auto. }
  assert (IN : incl (map f (seq 0 (t_len t))) (seq 0 (length (pe (w_pool s))))).
  { intros x Hx. apply in_map_iff in Hx. destruct Hx as (r & <- & Hr). apply in_seq in Hr.
    destruct (wf_rows _ HW tid t r T) as (_ & P); [lia|]. apply in_seq. split; [lia|]. simpl.
    unfold f. apply nth_error_Some. rewrite P. discriminate. }
  pose proof (NoDup_incl_length ND IN) as H. rewrite map_length, !seq_length in H. exact H.
Qed.
(** The component set of a live entity is the mask of its archetype: [val] is defined exactly on it. *)
Lemma sa_index_of_some_in : forall x l i, index_of x l = Some i -> In x l.
Proof.
  intros x l i H. apply index_of_split in H. destruct H as (l1 & l2 & -> & _). apply in_or_app. right. left. reflexivity.
Qed.

Lemma sa_in_index_of : forall x l, In x l -> exists i, index_of x l = Some i.
Proof.
  intros x l H. destruct (index_of x l) eqn:E; [eauto|]. apply index_of_none in E. contradiction.
Qed.

Lemma val_defined_iff_mask : forall s e tid r t a, WF s -> live s e = true -> loc s e = Some (tid, r) ->
  nth_error (w_tables s) tid = Some t -> nth_error (w_archs s) (t_arch t) = Some a ->
  forall c, (val s e c <> None <-> mk_get (a_mask a) c = true).
Proof.
  intros s e tid r t a HW Hl L T A c. unfold val. rewrite Hl. unfold value_of. rewrite L, T.
  destruct (wf_layout _ HW tid t T) as (a' & A' & I & _). rewrite A in A'. inversion A'; subst a'.
  destruct (wf_arch_comps _ HW _ _ A) as (C & B & _).
  unfold tbl_colidx. rewrite I, C. split.
  - intros H. destruct (index_of c (mk_to_list (a_mask a) (length (w_reg s)))) eqn:E; [|congruence].
    apply sa_index_of_some_in in E. apply mk_to_list_spec in E. tauto.
  - intros H. assert (In c (mk_to_list (a_mask a) (length (w_reg s)))) as Hin by (apply mk_to_list_spec; auto).
    apply sa_in_index_of in Hin. destruct Hin as (i & ->). discriminate.
Qed.

(** The initial world (any capacities >= 1, any registered kinds without relations that fit the mask). *)
Lemma sa_mk_get_0 : forall j, mk_get 0%N j = false.
Proof. intros j. unfold mk_get. apply N.bits_0. Qed.

Lemma sa_mk_to_list_0 : forall n, mk_to_list 0%N n = [].
Proof. intros n. unfold mk_to_list. apply mk_to_list_from_nil. intros. apply sa_mk_get_0. Qed.

Lemma sa_small_2 : 2 < Nat.pow 2 31.
Proof.
  rewrite (Nat.pow_succ_r' 2 30), (Nat.pow_succ_r' 2 29).
  pose proof (Nat.pow_nonzero 2 29). lia.
Qed.

Lemma St_init : forall c, 1 <= sc_cap c -> 1 <= sc_caprel c -> length (sc_kinds c) <= sc_bits c ->
  Forall (fun k => ck_rel k = false) (sc_kinds c) -> St (init_world c).
Proof.
  intros c C1 C2 C3 C4. split.
  - constructor; unfold init_world; cbn [w_tables w_archs w_reg w_cfg w_compindex w_archcount w_index w_pool w_istarget w_centries w_cheap w_filters].
    + constructor; [|constructor]. apply new_table_ok. reflexivity.
    + intros [|tid] t H; [|destruct tid; discriminate]. inversion H; subst t. cbn.
      eexists. split; [reflexivity|]. cbn. auto.
    + intros [|aid] a H; [|destruct aid; discriminate]. inversion H; subst a. cbn.
      rewrite sa_mk_to_list_0. repeat split; auto. intros j Hj. discriminate.
    + intros [|i] [|j] a b Hi Hj; auto; try (destruct j; discriminate); destruct i; discriminate.
    + intros [|aid] a tid H; [|destruct aid; discriminate]. inversion H; subst a. cbn.
      intros [[<-|[]]|[[]|[(i & m & k & l & Hn & _)|(k & l & Hn & _)]]].
      * eexists. split; reflexivity.
      * destruct i; discriminate.
      * discriminate.
    + intros [|aid] a H; [|destruct aid; discriminate]. inversion H; subst a. cbn. lia.
    + eexists. split; [reflexivity|]. split; [reflexivity|]. eexists. split; reflexivity.
    + rewrite !repeat_length. cbn. auto.
    + cbn. auto.
    + intros [|tid] t r H; [|destruct tid; discriminate]. inversion H; subst t. cbn. lia.
    + intros [|[|id]] tid r H; cbn in H; try discriminate. destruct id; discriminate.
    + exists []. split; [|split].
      * unfold pool_ok, pool_new. cbn. repeat split; auto; try constructor; try (intros ? []); try lia.
      * intros i [].
      * cbn. intros i Hi. lia.
    + cbn. repeat split; eauto.
    + exact sa_small_2.
    + intros addr [].
  - unfold NoRel, init_world; cbn [w_tables w_archs w_reg w_relarchs]. split; [|split; [|split]]; auto.
    + intros k. unfold kind_of. cbn [w_reg]. destruct (nth_error (sc_kinds c) k) eqn:E; [|reflexivity].
      rewrite Forall_forall in C4. apply C4. eapply nth_error_In; eauto.
    + intros [|tid] t H; [|destruct tid; discriminate]. inversion H; subst t. cbn. auto.
    + intros [|aid] a H; [|destruct aid; discriminate]. inversion H; subst a. cbn. auto.
Qed.

(** find_or_create_arch: returns the archetype with exactly that mask; only appends archetypes. *)
(** *** Frames compose *)
Lemma sa_side_same_refl : forall s, side_same s s.
Proof. intros s. unfold side_same. repeat split. Qed.
Lemma sa_side_same_trans : forall s1 s2 s3, side_same s1 s2 -> side_same s2 s3 -> side_same s1 s3.
Proof.
  intros s1 s2 s3 (A1 & A2 & A3 & A4 & A5 & A6 & A7 & A8) (B1 & B2 & B3 & B4 & B5 & B6 & B7 & B8).
  unfold side_same. repeat split; congruence.
Qed.
Lemma sa_frame_user_refl : forall s, frame_user s s.
Proof. intros s. unfold frame_user. repeat split. Qed.
Lemma sa_frame_user_trans : forall s1 s2 s3, frame_user s1 s2 -> frame_user s2 s3 -> frame_user s1 s3.
Proof.
  intros s1 s2 s3 (A1 & A2 & A3 & A4 & A5 & A6) (B1 & B2 & B3 & B4 & B5 & B6).
  unfold frame_user. repeat split; congruence.
Qed.

(** *** Lists *)
Lemma sa_nth_error_snoc : forall A (l : list A) a i x, nth_error (l ++ [a]) i = Some x ->
  (i < length l /\ nth_error l i = Some x) \/ (i = length l /\ x = a).
Proof.
  intros A l a i x H. destruct (Nat.lt_ge_cases i (length l)) as [L|L].
  - rewrite nth_error_app1 in H by exact L. auto.
  - rewrite nth_error_app2 in H by exact L. destruct (i - length l) as [|k] eqn:E.
    + simpl in H. inversion H. right. split; [lia|reflexivity].
    + simpl in H. destruct k; discriminate.
Qed.

Lemma sa_nth_error_snoc_old : forall A (l : list A) a i x, nth_error l i = Some x -> nth_error (l ++ [a]) i = Some x.
Proof.
  intros A l a i x H. rewrite nth_error_app1; [exact H|]. apply nth_error_Some. rewrite H. discriminate.
Qed.

Lemma sa_nth_error_snoc_new : forall A (l : list A) a, nth_error (l ++ [a]) (length l) = Some a.
Proof. intros. rewrite nth_error_app2 by lia. rewrite Nat.sub_diag. reflexivity. Qed.

Lemma sa_nth_error_lt : forall A (l : list A) i x, nth_error l i = Some x -> i < length l.
Proof. intros A l i x H. apply nth_error_Some. rewrite H. discriminate. Qed.

Lemma sa_fold_length : forall A B (g : list A -> B -> list A) cs l,
  (forall l c, length (g l c) = length l) -> length (fold_left g cs l) = length l.
Proof.
  intros A B g cs. induction cs as [|c cs IH]; intros l H; simpl; [reflexivity|].
  rewrite IH by exact H. apply H.
Qed.

Lemma sa_filter_map_false : forall A (f : A -> bool) l, (forall x, f x = false) ->
  filter (fun b : bool => b) (map f l) = [].
Proof. intros A f l H. induction l; simpl; [reflexivity|]. rewrite H. exact IHl. Qed.

(** *** find_arch *)
Definition sa_find_go (m : mask) : list arch -> nat -> option nat :=
  fix go (l : list arch) (i : nat) : option nat :=
  match l with
  | [] => None
  | a :: t => if N.eqb (a_mask a) m then Some i else go t (S i)
  end.

Lemma sa_find_go_cons : forall m a l i,
  sa_find_go m (a :: l) i = if N.eqb (a_mask a) m then Some i else sa_find_go m l (S i).
Proof. reflexivity. Qed.

Lemma sa_find_arch_go : forall s m, find_arch s m = sa_find_go m (w_archs s) 0.
Proof. reflexivity. Qed.

Lemma sa_find_go_some : forall m l i k, sa_find_go m l i = Some k ->
  i <= k /\ exists a, nth_error l (k - i) = Some a /\ a_mask a = m.
Proof.
  intros m l. induction l as [|a l IH]; intros i k H; [discriminate|]. rewrite sa_find_go_cons in H.
  destruct (N.eqb_spec (a_mask a) m) as [E|E].
  - inversion H; subst. split; [lia|]. rewrite Nat.sub_diag. exists a. auto.
  - apply IH in H. destruct H as (L & b & Hb & Mb). split; [lia|].
    replace (k - i) with (S (k - S i)) by lia. exists b. auto.
Qed.

Lemma sa_find_go_none : forall m l i, sa_find_go m l i = None ->
  forall j a, nth_error l j = Some a -> a_mask a <> m.
Proof.
  intros m l. induction l as [|a l IH]; intros i H j b Hj; [destruct j; discriminate|].
  rewrite sa_find_go_cons in H. destruct (N.eqb_spec (a_mask a) m) as [E|E]; [discriminate|].
  destruct j; simpl in Hj; [inversion Hj; subst; exact E|]. eapply IH; eauto.
Qed.

(** *** Appending an archetype without tables preserves the invariant *)
Lemma sa_append_arch_St : forall s s' a,
  St s ->
  w_archs s' = w_archs s ++ [a] ->
  w_cfg s' = w_cfg s -> w_reg s' = w_reg s -> w_pool s' = w_pool s -> w_index s' = w_index s ->
  w_istarget s' = w_istarget s -> w_tables s' = w_tables s -> w_relarchs s' = w_relarchs s ->
  length (w_compindex s') = length (w_compindex s) -> length (w_archcount s') = length (w_archcount s) ->
  w_cheap s' = w_cheap s -> w_centries s' = w_centries s -> w_filters s' = w_filters s ->
  (forall j, mk_get (a_mask a) j = true -> j < length (w_reg s)) ->
  a_comps a = mk_to_list (a_mask a) (length (w_reg s)) ->
  a_isrel a = map (fun c => ck_rel (kind_of s c)) (a_comps a) ->
  a_numrel a = 0 -> a_tables a = [] -> a_free a = [] -> a_tgttabs a = [] ->
  a_reltabs a = map (fun _ => []) (a_comps a) ->
  (forall i b, nth_error (w_archs s) i = Some b -> a_mask b <> a_mask a) ->
  St s'.
Proof.
  intros s s' a [HW HN] EA E1 E2 E3 E4 E5 E6 E7 E8 E9 E10 E11 E12 Hm Hc Hi Hn Ht Hf Hg Hr Hu.
  assert (K : forall c, kind_of s' c = kind_of s c) by (apply sa_kind_of_ext; auto).
  assert (L : forall e, loc s' e = loc s e) by (apply sa_loc_ext; auto).
  assert (KM : forall l, map (kind_of s') l = map (kind_of s) l) by (intros; apply map_ext; auto).
  destruct HN as (N1 & N2 & N3 & N4).
  split.
  - destruct HW. constructor; rewrite ?EA, ?E1, ?E2, ?E3, ?E4, ?E5, ?E6, ?E10, ?E11, ?E12; auto.
    + intros tid t T. destruct (wf_layout tid t T) as (b & B1 & B2 & B3 & B4). exists b.
      rewrite KM. split; [apply sa_nth_error_snoc_old; exact B1|auto].
    + intros aid b Hb. apply sa_nth_error_snoc in Hb. destruct Hb as [[_ Hb]|[_ ->]].
      * destruct (wf_arch_comps aid b Hb) as (A1 & A2 & A3 & A4 & A5). repeat split; auto.
        rewrite A3. apply map_ext. intros c. rewrite K. reflexivity.
      * repeat split; auto.
        -- rewrite Hi. apply map_ext. intros c. rewrite K. reflexivity.
        -- rewrite Hn, Hi. rewrite sa_filter_map_false; [reflexivity|]. intros c; apply N1.
        -- rewrite Hr. apply map_length.
    + intros i j x y Hx Hy M. apply sa_nth_error_snoc in Hx, Hy.
      destruct Hx as [[Li Hx]|[Li ->]], Hy as [[Lj Hy]|[Lj ->]].
      * eapply wf_arch_unique; eauto.
      * exfalso. eapply Hu; eauto.
      * exfalso. eapply Hu; eauto.
      * lia.
    + intros aid b tid Hb. apply sa_nth_error_snoc in Hb. destruct Hb as [[_ Hb]|[_ ->]].
      * apply wf_arch_tables. exact Hb.
      * rewrite Ht, Hf, Hg, Hr. intros [[]|[[]|[(i & m & k & l & Hm' & Hk & _)|(k & l & Hk & _)]]].
        -- rewrite nth_error_map in Hm'. destruct (nth_error (a_comps a) i); simpl in Hm'; [|discriminate].
           inversion Hm'; subst m. discriminate.
        -- discriminate.
    + intros aid b Hb. apply sa_nth_error_snoc in Hb. destruct Hb as [[_ Hb]|[_ ->]].
      * apply wf_arch_norel_table with (aid := aid). exact Hb.
      * intros _. rewrite Ht. simpl. lia.
    + destruct wf_arch0 as (a0 & A0 & M0 & T0). exists a0. split; [apply sa_nth_error_snoc_old; exact A0|auto].
    + rewrite E8, E9. exact wf_index_lists.
    + intros tid t r T R. rewrite L. auto.
  - unfold NoRel. rewrite EA, E6, E7. split; [|split; [|split]]; auto.
    + intros c. rewrite K. apply N1.
    + intros aid b Hb. apply sa_nth_error_snoc in Hb. destruct Hb as [[_ Hb]|[_ ->]].
      * eapply N3; eauto.
      * repeat split; auto. rewrite Hr. apply Forall_forall. intros x Hx. apply in_map_iff in Hx.
        destruct Hx as (? & <- & _). reflexivity.
Qed.

Lemma sa_append_arch_rows : forall s s' a,
  w_archs s' = w_archs s ++ [a] ->
  w_cfg s' = w_cfg s -> w_reg s' = w_reg s -> w_pool s' = w_pool s -> w_index s' = w_index s ->
  w_istarget s' = w_istarget s -> w_tables s' = w_tables s -> w_issued s' = w_issued s ->
  same_rows s s'.
Proof.
  intros s s' a EA E1 E2 E3 E4 E5 E6 E7. unfold same_rows. rewrite EA, E6. repeat split; auto.
  - intros tid t H. exists t. unfold table_same_data. repeat split; auto.
  - intros aid b H. exists b. split; [apply sa_nth_error_snoc_old; exact H|reflexivity].
Qed.

(** The archetype record alone ([create_archetype_bare]): appended without table. *)
Lemma sa_create_archetype_bare_spec : forall s m,
  St s -> (forall j, mk_get m j = true -> j < length (w_reg s)) ->
  (forall j a, nth_error (w_archs s) j = Some a -> a_mask a <> m) ->
  exists s1 a, create_archetype_bare m s = Ok (length (w_archs s)) s1 /\ St s1 /\ same_rows s s1 /\
    side_same s s1 /\ frame_user s s1 /\ w_tables s1 = w_tables s /\ w_archs s1 = w_archs s ++ [a] /\
    a_mask a = m /\ a_tables a = [] /\ a_numrel a = 0.
Proof.
  intros s m HS Hm Hu.
  unfold create_archetype_bare, bind, get, put, ret. eexists. eexists. split; [reflexivity|].
  destruct HS as [HW HN]. pose proof HN as (N1 & _).
  assert (Hnr : length (filter (fun b : bool => b) (map (fun c => ck_rel (kind_of s c)) (mk_to_list m (length (w_reg s))))) = 0).
  { rewrite sa_filter_map_false by (intros c; apply N1). reflexivity. }
  split; [|split; [|split; [|split; [|split; [|split; [|split; [|split]]]]]]].
  - eapply sa_append_arch_St with (s := s); try reflexivity; try (split; assumption); cbn; auto;
      try (apply sa_fold_length; intros; apply updf_length); rewrite ?Hnr; reflexivity.
  - eapply sa_append_arch_rows; reflexivity.
  - unfold side_same. cbn. repeat split.
  - unfold frame_user. cbn. repeat split.
  - reflexivity.
  - reflexivity.
  - reflexivity.
  - reflexivity.
  - exact Hnr.
Qed.

(** get_or_create_table in a relation-free world: with no relation targets given it succeeds and
    returns the (single) table of the archetype; in every case invariant and [same_rows]. *)
(** *** Symbolic execution helpers *)
Lemma sa_bind_ok : forall S A B (m : M S A) (k : A -> M S B) s a s', m s = Ok a s' -> bind m k s = k a s'.
Proof. intros. unfold bind. rewrite H. reflexivity. Qed.
Lemma sa_bind_err : forall S A B (m : M S A) (k : A -> M S B) s e s', m s = Err e s' -> bind m k s = Err e s'.
Proof. intros. unfold bind. rewrite H. reflexivity. Qed.
Arguments sa_bind_ok {S A B m k s a s'} _.
Arguments sa_bind_err {S A B m k s e s'} _.
Lemma sa_getA_eq : forall s i a, nth_error (w_archs s) i = Some a -> getA i s = Ok a s.
Proof. intros s i a H. unfold getA, bind, get, of_opt. rewrite H. reflexivity. Qed.
Lemma sa_getT_eq : forall s i t, nth_error (w_tables s) i = Some t -> getT i s = Ok t s.
Proof. intros s i t H. unfold getT, bind, get, of_opt. rewrite H. reflexivity. Qed.

Lemma sa_is_rel_comp_false : forall s c, NoRel s -> is_rel_comp s c = false.
Proof.
  intros s c (N1 & _). specialize (N1 c). unfold kind_of in N1. unfold is_rel_comp.
  destruct (nth_error (w_reg s) c); auto.
Qed.

Lemma sa_set_cheap_id : forall s : W, s <| w_cheap := w_cheap s |> = s.
Proof. intros s. destruct s. reflexivity. Qed.

(** *** cache_add_table only appends to [ce_tables] of existing entries *)
Definition sa_cheap_rel (l l' : list centry) : Prop :=
  forall i e, nth_error l i = Some e -> exists e', nth_error l' i = Some e' /\ ce_filter e' = ce_filter e.

Lemma sa_cheap_rel_refl : forall l, sa_cheap_rel l l.
Proof. intros l i e H. exists e. auto. Qed.
Lemma sa_cheap_rel_trans : forall l1 l2 l3, sa_cheap_rel l1 l2 -> sa_cheap_rel l2 l3 -> sa_cheap_rel l1 l3.
Proof.
  intros l1 l2 l3 A B i e H. destruct (A i e H) as (e' & H' & F'). destruct (B i e' H') as (e'' & H'' & F'').
  exists e''. split; congruence.
Qed.

Definition sa_cache_body (tid : nat) (t : table) (am : mask) (addr : nat) : MW unit :=
    s <- get ;;
    match nth_error (w_cheap s) addr with
    | None => fail EIndex
    | Some e =>
        match nth_error (w_filters s) (ce_filter e) with
        | None => fail EIndex
        | Some f =>
            if negb (filter_matches f am) then ret tt
            else
              mt <- (if tbl_has_rels t then of_opt (tbl_matches t (ce_rels e)) ENil else ret true) ;;
              whenM mt (modify (fun s => s <| w_cheap ::= updf addr (fun e => e <| ce_tables ::= fun l => l ++ [tid] |>) |>))
        end
    end.

Lemma sa_cache_add_table_unfold : forall tid t am,
  cache_add_table tid t am = (s <- get ;; forM_ (w_centries s) (sa_cache_body tid t am)).
Proof. reflexivity. Qed.

Lemma sa_cache_body_step : forall tid t am addr s e,
  t_rels t = [] -> nth_error (w_cheap s) addr = Some e -> ce_filter e < length (w_filters s) ->
  sa_cache_body tid t am addr s = Ok tt s \/
  sa_cache_body tid t am addr s =
    Ok tt (s <| w_cheap ::= updf addr (fun e => e <| ce_tables ::= fun l => l ++ [tid] |>) |>).
Proof.
  intros tid t am addr s e Ht He Hf.
  destruct (nth_error (w_filters s) (ce_filter e)) as [f|] eqn:E; [|apply nth_error_None in E; lia].
  unfold sa_cache_body, bind, get. rewrite He, E. unfold tbl_has_rels. rewrite Ht.
  destruct (negb (filter_matches f am)); [left; reflexivity|right; reflexivity].
Qed.

Lemma sa_cache_loop : forall tid t am L s,
  t_rels t = [] ->
  (forall addr, In addr L -> exists e, nth_error (w_cheap s) addr = Some e /\ ce_filter e < length (w_filters s)) ->
  exists l', forM_ L (sa_cache_body tid t am) s = Ok tt (s <| w_cheap := l' |>) /\ sa_cheap_rel (w_cheap s) l'.
Proof.
  intros tid t am L. induction L as [|addr L IH]; intros s Ht H.
  - exists (w_cheap s). cbn [forM_]. unfold ret. rewrite sa_set_cheap_id. split; [reflexivity|apply sa_cheap_rel_refl].
  - cbn [forM_]. destruct (H addr (or_introl eq_refl)) as (e & He & Hf).
    destruct (sa_cache_body_step tid t am addr s e Ht He Hf) as [E|E]; rewrite (sa_bind_ok E).
    + apply IH; auto. intros a Ha. apply H. right; exact Ha.
    + set (s1 := s <| w_cheap ::= updf addr (fun e0 => e0 <| ce_tables ::= fun l => l ++ [tid] |>) |>).
      assert (R : sa_cheap_rel (w_cheap s) (w_cheap s1)).
      { intros i x Hx. unfold s1. cbn. rewrite nth_error_updf. destruct (Nat.eqb_spec addr i).
        - rewrite Hx. simpl. eexists. split; [reflexivity|]. reflexivity.
        - exists x. auto. }
      destruct (IH s1 Ht) as (l' & E' & R').
      { intros a Ha. destruct (H a (or_intror Ha)) as (x & Hx & Fx). destruct (R a x Hx) as (x' & Hx' & Fx').
        exists x'. split; [exact Hx'|]. rewrite Fx'. exact Fx. }
      exists l'. split; [rewrite E'; reflexivity|]. eapply sa_cheap_rel_trans; eauto.
Qed.

Lemma sa_cache_add_table_spec : forall tid t am s,
  t_rels t = [] ->
  (forall addr, In addr (w_centries s) -> exists e, nth_error (w_cheap s) addr = Some e /\ ce_filter e < length (w_filters s)) ->
  exists l', cache_add_table tid t am s = Ok tt (s <| w_cheap := l' |>) /\ sa_cheap_rel (w_cheap s) l'.
Proof.
  intros tid t am s Ht H. rewrite sa_cache_add_table_unfold. unfold bind at 1. unfold get at 1.
  apply sa_cache_loop; auto.
Qed.

(** *** Appending the first table of a relation-free archetype *)
Definition sa_arch_add (tid : nat) (a : arch) : arch := a <| a_tables ::= fun l => l ++ [tid] |>.

Lemma sa_archs_after_add : forall (l : list arch) aid a tid i b',
  nth_error l aid = Some a -> a_tables a = [] ->
  nth_error (updf aid (sa_arch_add tid) l) i = Some b' ->
  exists b, nth_error l i = Some b /\ a_mask b' = a_mask b /\ a_comps b' = a_comps b /\
    a_isrel b' = a_isrel b /\ a_free b' = a_free b /\ a_reltabs b' = a_reltabs b /\
    a_tgttabs b' = a_tgttabs b /\ a_numrel b' = a_numrel b /\
    ((i <> aid /\ b' = b) \/ (i = aid /\ b = a /\ a_tables b' = [tid])).
Proof.
  intros l aid a tid i b' Ha Ht H. rewrite nth_error_updf in H. destruct (Nat.eqb_spec aid i) as [E|E].
  - subst i. rewrite Ha in H. simpl in H. inversion H; subst b'. exists a. unfold sa_arch_add. cbn.
    rewrite Ht. repeat split; auto.
  - exists b'. repeat split; auto.
Qed.

Lemma sa_archs_after_add_old : forall (l : list arch) aid tid i b,
  nth_error l i = Some b ->
  exists b', nth_error (updf aid (sa_arch_add tid) l) i = Some b' /\ a_mask b' = a_mask b.
Proof.
  intros l aid tid i b H. rewrite nth_error_updf. destruct (Nat.eqb_spec aid i) as [E|E].
  - rewrite H. simpl. eexists. split; [reflexivity|reflexivity].
  - exists b. auto.
Qed.

Lemma sa_append_table_St : forall s s' aid a t cap,
  St s -> nth_error (w_archs s) aid = Some a -> a_tables a = [] ->
  w_tables s' = w_tables s ++ [t] ->
  w_archs s' = updf aid (sa_arch_add (length (w_tables s))) (w_archs s) ->
  sa_cheap_rel (w_cheap s) (w_cheap s') ->
  w_cfg s' = w_cfg s -> w_reg s' = w_reg s -> w_pool s' = w_pool s -> w_index s' = w_index s ->
  w_istarget s' = w_istarget s -> w_relarchs s' = w_relarchs s ->
  w_compindex s' = w_compindex s -> w_archcount s' = w_archcount s ->
  w_centries s' = w_centries s -> w_filters s' = w_filters s ->
  t = new_table aid a (map (kind_of s) (a_comps a)) cap (repeat zero_ent (length (a_comps a))) [] ->
  St s'.
Proof.
  intros s s' aid a t cap [HW HN] Ha Hta ET EA RC E1 E2 E3 E4 E5 E7 E8 E9 E11 E12 Et.
  assert (K : forall c, kind_of s' c = kind_of s c) by (apply sa_kind_of_ext; auto).
  assert (L : forall e, loc s' e = loc s e) by (apply sa_loc_ext; auto).
  assert (KM : forall l, map (kind_of s') l = map (kind_of s) l) by (intros; apply map_ext; auto).
  destruct HN as (N1 & N2 & N3 & N4).
  set (tid := length (w_tables s)) in *.
  assert (AA := fun i b' => sa_archs_after_add (w_archs s) aid a tid i b' Ha Hta).
  assert (T1 : t_arch t = aid) by (subst t; reflexivity).
  assert (T2 : t_ids t = a_comps a) by (subst t; reflexivity).
  assert (T3 : t_len t = 0) by (subst t; reflexivity).
  assert (Anew : exists a', nth_error (updf aid (sa_arch_add tid) (w_archs s)) aid = Some a' /\ a_comps a' = a_comps a /\ a_tables a' = [tid]).
  { rewrite nth_error_updf, Nat.eqb_refl, Ha. simpl. eexists. split; [reflexivity|].
    unfold sa_arch_add; cbn. rewrite Hta. auto. }
  split.
  - destruct HW. constructor; rewrite ?ET, ?EA, ?E1, ?E2, ?E3, ?E4, ?E5, ?E8, ?E9, ?E11, ?E12; auto.
    + apply Forall_app. split; [exact wf_tables|]. constructor; [|constructor].
      subst t. apply new_table_ok. apply map_length.
    + intros i x Hx. apply sa_nth_error_snoc in Hx. destruct Hx as [[_ Hx]|[_ ->]].
      * destruct (wf_layout i x Hx) as (b & B1 & B2 & B3 & B4).
        destruct (sa_archs_after_add_old (w_archs s) aid tid _ _ B1) as (b' & B1' & _).
        destruct (AA _ _ B1') as (b0 & B0 & _ & C & _). rewrite B1 in B0. inversion B0; subst b0.
        exists b'. rewrite KM. rewrite C. auto.
      * destruct Anew as (a' & A1 & A2 & A3). exists a'. rewrite T1, T2, KM. subst t. cbn.
        rewrite repeat_length. auto.
    + intros i b' Hb'. destruct (AA _ _ Hb') as (b & Hb & M & C & I & F & R & G & Nn & _).
      destruct (wf_arch_comps i b Hb) as (A1 & A2 & A3 & A4 & A5).
      rewrite M, C, I, R, Nn. repeat split; auto. rewrite A3. apply map_ext. intros c. rewrite K. reflexivity.
    + intros i j x y Hx Hy Mxy. destruct (AA _ _ Hx) as (x0 & Hx0 & Mx & _). destruct (AA _ _ Hy) as (y0 & Hy0 & My & _).
      apply (wf_arch_unique i j x0 y0 Hx0 Hy0). congruence.
    + intros i b' tid0 Hb'. destruct (AA _ _ Hb') as (b & Hb & M & C & I & F & R & G & Nn & D).
      rewrite F, R, G. destruct D as [[Ne ->]|[-> [-> Tb]]].
      * intros Hin. destruct (wf_arch_tables i b tid0 Hb Hin) as (x & Hx & Ax). exists x.
        split; [apply sa_nth_error_snoc_old; exact Hx|exact Ax].
      * rewrite Tb. intros [[<-|[]]|Hin].
        -- exists t. split; [apply sa_nth_error_snoc_new|exact T1].
        -- destruct (wf_arch_tables aid a tid0 Hb) as (x & Hx & Ax); [right; exact Hin|]. exists x.
           split; [apply sa_nth_error_snoc_old; exact Hx|exact Ax].
    + intros i b' Hb'. destruct (AA _ _ Hb') as (b & Hb & M & C & I & F & R & G & Nn & D).
      rewrite Nn. destruct D as [[Ne ->]|[-> [-> Tb]]].
      * apply wf_arch_norel_table with (aid := i). exact Hb.
      * rewrite Tb. simpl. lia.
    + destruct wf_arch0 as (a0 & A0 & M0 & t0 & T0 & TA0).
      destruct (sa_archs_after_add_old (w_archs s) aid tid _ _ A0) as (b' & B1' & Mb).
      exists b'. split; [exact B1'|]. split; [congruence|]. exists t0. split; [apply sa_nth_error_snoc_old; exact T0|exact TA0].
    + intros i x r Hx Hr. rewrite L. apply sa_nth_error_snoc in Hx. destruct Hx as [[_ Hx]|[_ ->]]; [auto|lia].
    + intros id i r Hi. destruct (wf_index id i r Hi) as (x & Hx & P). exists x.
      split; [apply sa_nth_error_snoc_old; exact Hx|exact P].
    + intros addr Hin. destruct (wf_cache addr Hin) as (e & He & Fe). destruct (RC _ _ He) as (e' & He' & Fe').
      exists e'. split; [exact He'|]. rewrite Fe'. exact Fe.
  - unfold NoRel. rewrite ET, EA, E7. split; [|split; [|split]]; auto.
    + intros c. rewrite K. apply N1.
    + intros i x Hx. apply sa_nth_error_snoc in Hx. destruct Hx as [[_ Hx]|[_ ->]]; [eauto|]. subst t. auto.
    + intros i b' Hb'. destruct (AA _ _ Hb') as (b & Hb & M & C & I & F & R & G & Nn & D).
      rewrite F, R, G, Nn. eapply N3; eauto.
Qed.

Lemma sa_append_table_rows : forall s s' aid t,
  w_tables s' = w_tables s ++ [t] ->
  w_archs s' = updf aid (sa_arch_add (length (w_tables s))) (w_archs s) ->
  w_cfg s' = w_cfg s -> w_reg s' = w_reg s -> w_pool s' = w_pool s -> w_index s' = w_index s ->
  w_istarget s' = w_istarget s -> w_issued s' = w_issued s ->
  same_rows s s'.
Proof.
  intros s s' aid t ET EA E1 E2 E3 E4 E5 E6. unfold same_rows. rewrite ET, EA. repeat split; auto.
  - intros tid x H. exists x. split; [apply sa_nth_error_snoc_old; exact H|]. unfold table_same_data. repeat split; auto.
  - intros i b H. apply sa_archs_after_add_old. exact H.
Qed.

Lemma sa_check_rel_fails : forall s r, NoRel s -> check_rel r s = Err ENotRelation s.
Proof.
  intros s r HN. unfold check_rel, bind, get. rewrite sa_is_rel_comp_false by exact HN. reflexivity.
Qed.

(** create_table for an archetype without tables, no relation targets *)
Lemma sa_create_table_nil_full : forall s aid a,
  St s -> nth_error (w_archs s) aid = Some a -> a_tables a = [] ->
  exists s' t, create_table aid [] s = Ok (length (w_tables s)) s' /\
    St s' /\ same_rows s s' /\ side_same s s' /\ frame_user s s' /\
    w_tables s' = w_tables s ++ [t] /\ t_arch t = aid /\
    w_archs s' = updf aid (sa_arch_add (length (w_tables s))) (w_archs s).
Proof.
  intros s aid a HS Ha Hta. pose proof HS as [HW HN]. pose proof HN as (N1 & N2 & N3 & N4).
  destruct (N3 aid a Ha) as (Hf & Hn & Hg & Hr).
  unfold create_table.
  rewrite (sa_bind_ok (sa_getA_eq _ _ _ Ha)). rewrite Hn. cbn [length Nat.ltb Nat.leb negb guard].
  rewrite (sa_bind_ok (m := ret tt) (s := s) eq_refl).
  cbn [rels_distinct guard]. rewrite (sa_bind_ok (m := ret tt) (s := s) eq_refl).
  cbn [place_targets of_opt]. rewrite (sa_bind_ok (m := ret _) (s := s) eq_refl).
  cbn [forM_]. rewrite (sa_bind_ok (m := ret tt) (s := s) eq_refl).
  unfold register_targets; cbn [forM_]. rewrite (sa_bind_ok (m := ret tt) (s := s) eq_refl).
  rewrite (sa_bind_ok (m := get) (s := s) eq_refl).
  rewrite Hf. cbn [rev].
  unfold arch_has_rels. rewrite Hn. cbn [Nat.eqb negb].
  set (t := new_table aid a (map (kind_of s) (a_comps a)) (cf_cap (w_cfg s)) (repeat zero_ent (length (a_comps a))) []).
  set (tid := length (w_tables s)).
  set (s1 := s <| w_tables ::= fun l => l ++ [t] |>).
  assert (E1 : (modify (fun s0 : wstate => s0 <| w_tables ::= fun l => l ++ [t] |>) ;;; ret tid) s = Ok tid s1) by reflexivity.
  rewrite (sa_bind_ok E1).
  assert (T1 : nth_error (w_tables s1) tid = Some t) by (unfold s1; cbn; apply sa_nth_error_snoc_new).
  rewrite (sa_bind_ok (sa_getT_eq _ _ _ T1)).
  set (s2 := s1 <| w_archs ::= updf aid (fun a0 => arch_add_table a0 tid t) |>).
  assert (E2 : modA aid (fun a0 => arch_add_table a0 tid t) s1 = Ok tt s2) by reflexivity.
  rewrite (sa_bind_ok E2).
  assert (EA : w_archs s2 = updf aid (sa_arch_add tid) (w_archs s)).
  { unfold s2, s1. cbn. unfold updf. rewrite Ha. f_equal. unfold arch_add_table, arch_has_rels. rewrite Hn. reflexivity. }
  destruct (sa_cache_add_table_spec tid t (a_mask a) s2) as (l' & E3 & RC).
  { reflexivity. }
  { intros addr Hin. apply (wf_cache _ HW addr Hin). }
  rewrite (sa_bind_ok E3). unfold ret.
  set (s3 := s2 <| w_cheap := l' |>).
  exists s3, t. split; [reflexivity|].
  assert (EA3 : w_archs s3 = updf aid (sa_arch_add tid) (w_archs s)) by exact EA.
  assert (ET3 : w_tables s3 = w_tables s ++ [t]) by reflexivity.
  split; [|split; [|split; [|split; [|split; [|split]]]]].
  - eapply (sa_append_table_St s s3 aid a t); eauto; reflexivity.
  - eapply (sa_append_table_rows s s3 aid t); eauto; reflexivity.
  - unfold side_same. cbn. repeat split.
  - unfold frame_user. cbn. repeat split.
  - exact ET3.
  - reflexivity.
  - exact EA3.
Qed.

Lemma sa_create_table_nil : forall s aid a,
  St s -> nth_error (w_archs s) aid = Some a -> a_tables a = [] ->
  exists s', create_table aid [] s = Ok (length (w_tables s)) s' /\
    St s' /\ same_rows s s' /\ side_same s s' /\ frame_user s s' /\
    (exists t, nth_error (w_tables s') (length (w_tables s)) = Some t /\ t_arch t = aid) /\
    (exists a', nth_error (w_archs s') aid = Some a' /\ a_mask a' = a_mask a).
Proof.
  intros s aid a HS Ha Hta.
  destruct (sa_create_table_nil_full s aid a HS Ha Hta) as (s' & t & E & HS' & R & D & F & ET & At & EA).
  exists s'. split; [exact E|]. split; [exact HS'|]. split; [exact R|]. split; [exact D|]. split; [exact F|]. split.
  - exists t. rewrite ET. split; [apply sa_nth_error_snoc_new|exact At].
  - rewrite EA. destruct (sa_archs_after_add_old (w_archs s) aid (length (w_tables s)) aid a Ha) as (b' & B1 & B2). exists b'. auto.
Qed.

(** *** createArchetype (as repaired) and find_or_create_arch

    An archetype of a relation-free world is created together with its table. *)
Lemma sa_updf_last : forall A (f : A -> A) (l : list A) a, updf (length l) f (l ++ [a]) = l ++ [f a].
Proof.
  intros A f l a. unfold updf. rewrite sa_nth_error_snoc_new. apply upd_app.
Qed.

Lemma sa_create_archetype_spec : forall s m,
  St s -> (forall j, mk_get m j = true -> j < length (w_reg s)) ->
  (forall j a, nth_error (w_archs s) j = Some a -> a_mask a <> m) ->
  exists s' a t, create_archetype m s = Ok (length (w_archs s)) s' /\ St s' /\ same_rows s s' /\
    side_same s s' /\ frame_user s s' /\
    w_archs s' = w_archs s ++ [a] /\ w_tables s' = w_tables s ++ [t] /\
    a_mask a = m /\ a_tables a = [length (w_tables s)] /\ t_arch t = length (w_archs s).
Proof.
  intros s m HS Hm Hu.
  destruct (sa_create_archetype_bare_spec s m HS Hm Hu) as (s1 & a0 & E1 & HS1 & R1 & D1 & F1 & T1 & A1 & M1 & Tb1 & Nr1).
  assert (Ha0 : nth_error (w_archs s1) (length (w_archs s)) = Some a0) by (rewrite A1; apply sa_nth_error_snoc_new).
  destruct (sa_create_table_nil_full s1 _ a0 HS1 Ha0 Tb1) as (s2 & t & E2 & HS2 & R2 & D2 & F2 & ET & At & EA).
  exists s2, (sa_arch_add (length (w_tables s)) a0), t. split.
  - unfold create_archetype. rewrite (sa_bind_ok E1), (sa_bind_ok (sa_getA_eq _ _ _ Ha0)). rewrite Nr1. cbn [Nat.eqb].
    unfold bind. rewrite E2. reflexivity.
  - split; [exact HS2|]. split; [eapply same_rows_trans; eauto|]. split; [eapply sa_side_same_trans; eauto|].
    split; [eapply sa_frame_user_trans; eauto|].
    split; [rewrite EA, A1, T1; apply sa_updf_last|]. split; [rewrite ET, T1; reflexivity|].
    split; [exact M1|]. split; [unfold sa_arch_add; cbn; rewrite Tb1; reflexivity|exact At].
Qed.

(** What [find_or_create_arch] does: nothing (the archetype exists), or it appends the archetype
    together with its table. *)
Lemma find_or_create_arch_shape : forall s m,
  St s -> (forall j, mk_get m j = true -> j < length (w_reg s)) ->
  exists aid s', find_or_create_arch m s = Ok aid s' /\
    ((s' = s /\ exists a, nth_error (w_archs s) aid = Some a /\ a_mask a = m) \/
     (find_arch s m = None /\ aid = length (w_archs s) /\
      exists a t, w_archs s' = w_archs s ++ [a] /\ w_tables s' = w_tables s ++ [t] /\
        a_mask a = m /\ a_tables a = [length (w_tables s)] /\ t_arch t = length (w_archs s))).
Proof.
  intros s m HS Hm. unfold find_or_create_arch, bind, get. rewrite sa_find_arch_go.
  destruct (sa_find_go m (w_archs s) 0) as [i|] eqn:F.
  - apply sa_find_go_some in F. destruct F as (_ & a & Ha & Ma). rewrite Nat.sub_0_r in Ha.
    exists i, s. unfold ret. split; [reflexivity|]. left. split; [reflexivity|]. exists a. auto.
  - pose proof (sa_find_go_none _ _ _ F) as Hu.
    destruct (sa_create_archetype_spec s m HS Hm Hu) as (s' & a & t & E & _ & _ & _ & _ & EA & ET & Ma & Ta & At).
    exists (length (w_archs s)), s'. split; [exact E|]. right. split; [reflexivity|]. split; [reflexivity|].
    exists a, t. auto.
Qed.

Lemma find_or_create_arch_spec : forall s m,
  St s -> (forall j, mk_get m j = true -> j < length (w_reg s)) ->
  exists aid s', find_or_create_arch m s = Ok aid s' /\ St s' /\ same_rows s s' /\ side_same s s' /\
                 frame_user s s' /\
                 (forall tid t, nth_error (w_tables s) tid = Some t -> nth_error (w_tables s') tid = Some t) /\
                 (exists a, nth_error (w_archs s') aid = Some a /\ a_mask a = m).
Proof.
  intros s m HS Hm. unfold find_or_create_arch, bind, get. rewrite sa_find_arch_go.
  destruct (sa_find_go m (w_archs s) 0) as [i|] eqn:F.
  - apply sa_find_go_some in F. destruct F as (_ & a & Ha & Ma). rewrite Nat.sub_0_r in Ha.
    exists i, s. unfold ret.
    split; [reflexivity|]. split; [exact HS|]. split; [apply same_rows_refl|].
    split; [apply sa_side_same_refl|]. split; [apply sa_frame_user_refl|]. split; [auto|].
    exists a. auto.
  - pose proof (sa_find_go_none _ _ _ F) as Hu.
    destruct (sa_create_archetype_spec s m HS Hm Hu) as (s' & a & t & E & HS' & R & D & Fu & EA & ET & Ma & Ta & At).
    exists (length (w_archs s)), s'. split; [exact E|]. split; [exact HS'|]. split; [exact R|]. split; [exact D|].
    split; [exact Fu|]. split.
    + intros tid x Hx. rewrite ET. apply sa_nth_error_snoc_old. exact Hx.
    + exists a. rewrite EA. split; [apply sa_nth_error_snoc_new|exact Ma].
Qed.

(** The new invariant clause: in a relation-free world every archetype has its table. It holds
    initially and is kept by the structure creation ([find_or_create_arch] creates the table together
    with the archetype; [get_or_create_table] then finds it). *)
Lemma archs_tabled_init : forall c, archs_tabled_norel (init_world c).
Proof.
  intros c [|aid] a H _; [|destruct aid; discriminate]. unfold init_world in H. cbn [w_archs nth_error] in H.
  inversion H; subst a. cbn. discriminate.
Qed.

Lemma find_or_create_arch_tabled : forall s m aid s',
  St s -> (forall j, mk_get m j = true -> j < length (w_reg s)) ->
  find_or_create_arch m s = Ok aid s' -> archs_tabled_norel s -> archs_tabled_norel s'.
Proof.
  intros s m aid s' HS Hm E HT.
  destruct (find_or_create_arch_shape s m HS Hm) as (aid' & s1 & E1 & Sh).
  rewrite E in E1. injection E1 as <- <-.
  destruct Sh as [[Es _]|(_ & _ & a & t & EA & _ & _ & Ta & _)]; [rewrite Es; exact HT|].
  intros i b Hb Nb. rewrite EA in Hb. apply sa_nth_error_snoc in Hb. destruct Hb as [[_ Hb]|[_ ->]].
  - eapply HT; eauto.
  - rewrite Ta. discriminate.
Qed.

(** After [find_or_create_arch] the returned archetype has its table, also if the starting state had
    archetypes without table elsewhere (a state that is no longer reachable). *)
Lemma find_or_create_arch_new_tabled : forall s m aid s',
  St s -> (forall j, mk_get m j = true -> j < length (w_reg s)) ->
  find_or_create_arch m s = Ok aid s' -> find_arch s m = None ->
  exists a, nth_error (w_archs s') aid = Some a /\ a_tables a = [length (w_tables s)].
Proof.
  intros s m aid s' HS Hm E Fn.
  destruct (find_or_create_arch_shape s m HS Hm) as (aid' & s1 & E1 & Sh).
  rewrite E in E1. injection E1 as <- <-.
  destruct Sh as [[Es (a & Ha & Ma)]|(_ & Ea & a & t & EA & _ & _ & Ta & _)].
  - exfalso. rewrite sa_find_arch_go in Fn. eapply sa_find_go_none; eauto.
  - exists a. rewrite EA, Ea. split; [apply sa_nth_error_snoc_new|exact Ta].
Qed.

Lemma get_or_create_table_spec : forall s aid a rels,
  St s -> nth_error (w_archs s) aid = Some a ->
  match get_or_create_table aid rels s with
  | Ok tid s' => St s' /\ same_rows s s' /\ side_same s s' /\ frame_user s s' /\
                 (exists t, nth_error (w_tables s') tid = Some t /\ t_arch t = aid) /\
                 (exists a', nth_error (w_archs s') aid = Some a' /\ a_mask a' = a_mask a)
  | Err _ s' => St s' /\ same_rows s s' /\ side_same s s' /\ frame_user s s' /\ rels <> []
  end.
Proof.
  intros s aid a rels HS Ha. pose proof HS as [HW HN]. pose proof HN as (N1 & N2 & N3 & N4).
  destruct (N3 aid a Ha) as (Hf & Hn & Hg & Hr).
  unfold get_or_create_table. rewrite (sa_bind_ok (sa_getA_eq _ _ _ Ha)).
  unfold arch_get_table. destruct (a_tables a) as [|t0 tl] eqn:Hta.
  - rewrite (sa_bind_ok (m := ret None) (s := s) eq_refl).
    destruct rels as [|r rest].
    + destruct (sa_create_table_nil s aid a HS Ha Hta) as (s' & E & P). rewrite E. exact P.
    + assert (E : exists e, create_table aid (r :: rest) s = Err e s).
      { unfold create_table. rewrite (sa_bind_ok (sa_getA_eq _ _ _ Ha)). rewrite Hn.
        cbn [Nat.ltb Nat.leb negb guard]. rewrite (sa_bind_ok (m := ret tt) (s := s) eq_refl).
        destruct (rels_distinct (r :: rest)); cbn [guard]; [|exists ERelUnspec; reflexivity].
        rewrite (sa_bind_ok (m := ret tt) (s := s) eq_refl).
        destruct (place_targets a (r :: rest) (repeat zero_ent (length (a_comps a)))) as [tg|].
        - cbn [of_opt]. rewrite (sa_bind_ok (m := ret tg) (s := s) eq_refl).
          cbn [forM_]. exists ENotRelation. apply sa_bind_err. apply sa_bind_err. apply sa_check_rel_fails. exact HN.
        - exists EIndex. reflexivity. }
      destruct E as (e & ->).
      split; [exact HS|]. split; [apply same_rows_refl|]. split; [apply sa_side_same_refl|].
      split; [apply sa_frame_user_refl|]. discriminate.
  - unfold arch_has_rels. rewrite Hn. cbn [Nat.eqb negb]. rewrite (sa_bind_ok (m := ret (Some t0)) (s := s) eq_refl).
    unfold ret.
    split; [exact HS|]. split; [apply same_rows_refl|]. split; [apply sa_side_same_refl|].
    split; [apply sa_frame_user_refl|]. split.
    + apply (wf_arch_tables _ HW aid a t0 Ha). left. rewrite Hta. left. reflexivity.
    + exists a. auto.
Qed.

(** The table finders: resulting mask = old mask plus / minus the components; the returned table
    belongs to the archetype with that mask. [rels = []] throughout (relation-free tier). *)
Definition finder_post (s : W) (m : mask) (tid aid : nat) (s' : W) : Prop :=
  St s' /\ same_rows s s' /\ side_same s s' /\ frame_user s s' /\
  (exists t a, nth_error (w_tables s') tid = Some t /\ t_arch t = aid /\
               nth_error (w_archs s') aid = Some a /\ a_mask a = m).
Definition finder_err (s s' : W) : Prop := St s' /\ same_rows s s' /\ side_same s s' /\ frame_user s s'.

(** *** The graph walks *)
Lemma sa_memb_cons : forall j c t, memb j (c :: t) = (Nat.eqb c j || memb j t)%bool.
Proof.
  intros j c t. unfold memb. simpl. destruct (Nat.eqb c j); [reflexivity|].
  destruct (index_of j t); reflexivity.
Qed.

Lemma sa_memb_in : forall x l, memb x l = true <-> In x l.
Proof.
  intros x l. unfold memb. split.
  - destruct (index_of x l) eqn:E; [|discriminate]. intros _. eapply sa_index_of_some_in; eauto.
  - intros H. apply sa_in_index_of in H. destruct H as (i & ->). reflexivity.
Qed.

Lemma sa_gf_add_spec : forall start ids m s,
  match gf_add start ids m s with
  | Ok m' s' => s' = s /\ (forall j, mk_get m' j = (mk_get m j || memb j ids)%bool) /\ NoDup ids /\
                (forall c, In c ids -> mk_get m c = false) /\
                (forall st, start = Some st -> forall c, In c ids -> mk_get st c = false)
  | Err _ s' => s' = s /\ (start = None -> ~ (NoDup ids /\ forall c, In c ids -> mk_get m c = false))
  end.
Proof.
  intros start ids. induction ids as [|c t IH]; intros m s.
  - simpl. unfold ret. split; [reflexivity|]. split; [intros j; rewrite orb_false_r; reflexivity|].
    split; [constructor|]. split; [intros c []|intros st _ c []].
  - cbn [gf_add]. destruct (mk_get m c) eqn:Gc.
    + unfold fail. split; [reflexivity|]. intros _ [_ H]. rewrite H in Gc by (left; reflexivity). discriminate.
    + destruct (match start with Some st => mk_get st c | None => false end) eqn:Sc.
      * unfold fail. split; [reflexivity|]. intros ->. discriminate.
      * specialize (IH (mk_set m c) s). destruct (gf_add start t (mk_set m c) s) as [m' s'|e s'].
        -- destruct IH as (-> & Hm & ND & Hf & Hs). split; [reflexivity|].
           assert (Hnc : forall c', In c' t -> c' <> c /\ mk_get m c' = false).
           { intros c' Hc'. specialize (Hf c' Hc'). rewrite mk_get_set in Hf. apply orb_false_iff in Hf.
             destruct Hf as [Hf1 Hf2]. apply Nat.eqb_neq in Hf1. split; [congruence|exact Hf2]. }
           split; [|split; [|split]].
           ++ intros j. rewrite Hm, mk_get_set, sa_memb_cons.
              destruct (Nat.eqb c j), (mk_get m j), (memb j t); reflexivity.
           ++ constructor; [|exact ND]. intros Hin. apply Hnc in Hin. destruct Hin as [Hin _]. congruence.
           ++ intros c' [<-|Hc']; [exact Gc|apply Hnc; exact Hc'].
           ++ intros st -> c' [<-|Hc']; [exact Sc|eapply Hs; eauto].
        -- destruct IH as (-> & Hn). split; [reflexivity|]. intros Hs [ND Hf]. apply (Hn Hs).
           inversion ND; subst. split; [assumption|]. intros c' Hc'. rewrite mk_get_set.
           apply orb_false_iff. split; [apply Nat.eqb_neq; intros ->; contradiction|apply Hf; right; exact Hc'].
Qed.

Lemma sa_gf_remove_spec : forall ids m s,
  match gf_remove ids m s with
  | Ok m' s' => s' = s /\ (forall j, mk_get m' j = (mk_get m j && negb (memb j ids))%bool) /\ NoDup ids /\
                (forall c, In c ids -> mk_get m c = true)
  | Err _ s' => s' = s /\ ~ (NoDup ids /\ forall c, In c ids -> mk_get m c = true)
  end.
Proof.
  intros ids. induction ids as [|c t IH]; intros m s.
  - simpl. unfold ret. split; [reflexivity|]. split; [intros j; rewrite andb_true_r; reflexivity|].
    split; [constructor|intros c []].
  - cbn [gf_remove]. destruct (mk_get m c) eqn:Gc.
    + specialize (IH (mk_clear m c) s). destruct (gf_remove t (mk_clear m c) s) as [m' s'|e s'].
      * destruct IH as (-> & Hm & ND & Hf). split; [reflexivity|].
        assert (Hnc : forall c', In c' t -> c' <> c /\ mk_get m c' = true).
        { intros c' Hc'. specialize (Hf c' Hc'). rewrite mk_get_clear in Hf. apply andb_true_iff in Hf.
          destruct Hf as [Hf1 Hf2]. apply negb_true_iff, Nat.eqb_neq in Hf1. split; [congruence|exact Hf2]. }
        split; [|split].
        -- intros j. rewrite Hm, mk_get_clear, sa_memb_cons.
           destruct (Nat.eqb c j), (mk_get m j), (memb j t); reflexivity.
        -- constructor; [|exact ND]. intros Hin. apply Hnc in Hin. destruct Hin as [Hin _]. congruence.
        -- intros c' [<-|Hc']; [exact Gc|apply Hnc; exact Hc'].
      * destruct IH as (-> & Hn). split; [reflexivity|]. intros [ND Hf]. apply Hn.
        inversion ND; subst. split; [assumption|]. intros c' Hc'. rewrite mk_get_clear.
        apply andb_true_iff. split; [apply negb_true_iff, Nat.eqb_neq; intros ->; contradiction|apply Hf; right; exact Hc'].
    + unfold fail. split; [reflexivity|]. intros [_ H]. rewrite H in Gc by (left; reflexivity). discriminate.
Qed.

Lemma sa_finder_err_refl : forall s, St s -> finder_err s s.
Proof.
  intros s HS. split; [exact HS|]. split; [apply same_rows_refl|]. split; [apply sa_side_same_refl|apply sa_frame_user_refl].
Qed.

(** The common tail of the three finders *)
Lemma sa_finder_tail : forall s old ot m,
  St s -> nth_error (w_tables s) old = Some ot -> (forall j, mk_get m j = true -> j < length (w_reg s)) ->
  t_rels ot = [] /\
  exists aid s1 a, find_or_create_arch m s = Ok aid s1 /\ getA aid s1 = Ok a s1 /\ a_mask a = m /\
    getT old s1 = Ok ot s1 /\
    exists tid s2, get_or_create_table aid [] s1 = Ok tid s2 /\ finder_post s m tid aid s2.
Proof.
  intros s old ot m HS Hot Hm. split; [apply HS in Hot; apply Hot|].
  destruct (find_or_create_arch_spec s m HS Hm) as (aid & s1 & E1 & HS1 & R1 & D1 & F1 & T1 & a & Ha & Ma).
  exists aid, s1, a. split; [exact E1|]. split; [apply sa_getA_eq; exact Ha|]. split; [exact Ma|].
  split; [apply sa_getT_eq; apply T1; exact Hot|].
  pose proof (get_or_create_table_spec s1 aid a [] HS1 Ha) as G.
  destruct (get_or_create_table aid [] s1) as [tid s2|e s2].
  - destruct G as (HS2 & R2 & D2 & F2 & (t & Ht & At) & (a' & Ha' & Ma')).
    exists tid, s2. split; [reflexivity|]. unfold finder_post.
    split; [exact HS2|]. split; [eapply same_rows_trans; eauto|]. split; [eapply sa_side_same_trans; eauto|].
    split; [eapply sa_frame_user_trans; eauto|]. exists t, a'. repeat split; auto. congruence.
  - destruct G as (_ & _ & _ & _ & G). congruence.
Qed.

Lemma find_or_create_table_add_spec : forall s old ot add m0,
  St s -> nth_error (w_tables s) old = Some ot ->
  (forall j, mk_get m0 j = true -> j < length (w_reg s)) -> (forall c, In c add -> c < length (w_reg s)) ->
  match find_or_create_table_add old add [] m0 s with
  | Ok (tid, aid, m) s' =>
      finder_post s m tid aid s' /\
      (forall j, mk_get m j = (mk_get m0 j || memb j add)%bool) /\
      NoDup add /\ (forall c, In c add -> mk_get m0 c = false)
  | Err _ s' => finder_err s s' /\ ~ (NoDup add /\ forall c, In c add -> mk_get m0 c = false)
  end.
Proof.
  intros s old ot add m0 HS Hot Hm0 Hadd. unfold find_or_create_table_add.
  pose proof (sa_gf_add_spec None add m0 s) as G.
  destruct (gf_add None add m0 s) as [m s0|e s0] eqn:EG.
  - destruct G as (-> & Hm & ND & Hf & _). rewrite (sa_bind_ok EG).
    assert (Hb : forall j, mk_get m j = true -> j < length (w_reg s)).
    { intros j Hj. rewrite Hm in Hj. apply orb_true_iff in Hj. destruct Hj as [Hj|Hj]; [auto|apply Hadd, sa_memb_in; exact Hj]. }
    destruct (sa_finder_tail s old ot m HS Hot Hb) as (Hr & aid & s1 & a & E1 & E2 & Ma & E3 & tid & s2 & E4 & P).
    rewrite (sa_bind_ok E1), (sa_bind_ok E3). rewrite Hr. rewrite (sa_bind_ok E4). unfold ret. auto.
  - destruct G as (-> & Hn). rewrite (sa_bind_err EG). split; [apply sa_finder_err_refl; exact HS|auto].
Qed.

Lemma find_or_create_table_remove_spec : forall s old ot rem m0,
  St s -> nth_error (w_tables s) old = Some ot ->
  (forall j, mk_get m0 j = true -> j < length (w_reg s)) ->
  match find_or_create_table_remove old rem m0 s with
  | Ok (tid, aid, m, rr) s' =>
      finder_post s m tid aid s' /\ rr = false /\
      (forall j, mk_get m j = (mk_get m0 j && negb (memb j rem))%bool) /\
      NoDup rem /\ (forall c, In c rem -> mk_get m0 c = true)
  | Err _ s' => finder_err s s' /\ ~ (NoDup rem /\ forall c, In c rem -> mk_get m0 c = true)
  end.
Proof.
  intros s old ot rem m0 HS Hot Hm0. unfold find_or_create_table_remove.
  pose proof (sa_gf_remove_spec rem m0 s) as G.
  destruct (gf_remove rem m0 s) as [m s0|e s0] eqn:EG.
  - destruct G as (-> & Hm & ND & Hf). rewrite (sa_bind_ok EG).
    assert (Hb : forall j, mk_get m j = true -> j < length (w_reg s)).
    { intros j Hj. rewrite Hm in Hj. apply andb_true_iff in Hj. destruct Hj as [Hj _]. auto. }
    destruct (sa_finder_tail s old ot m HS Hot Hb) as (Hr & aid & s1 & a & E1 & E2 & Ma & E3 & tid & s2 & E4 & P).
    rewrite (sa_bind_ok E1), (sa_bind_ok E2), (sa_bind_ok E3). rewrite Hr. cbn [surviving_rels filter existsb].
    rewrite (sa_bind_ok E4). unfold ret. auto.
  - destruct G as (-> & Hn). rewrite (sa_bind_err EG). split; [apply sa_finder_err_refl; exact HS|auto].
Qed.

Lemma find_or_create_table_spec : forall s old ot add rem m0,
  St s -> nth_error (w_tables s) old = Some ot ->
  (forall j, mk_get m0 j = true -> j < length (w_reg s)) -> (forall c, In c add -> c < length (w_reg s)) ->
  match find_or_create_table old add rem [] m0 s with
  | Ok (tid, aid, m, rr) s' =>
      finder_post s m tid aid s' /\ rr = false /\
      (forall j, mk_get m j = ((mk_get m0 j && negb (memb j rem)) || memb j add)%bool) /\
      NoDup add /\ NoDup rem /\ (forall c, In c rem -> mk_get m0 c = true) /\
      (forall c, In c add -> mk_get m0 c = false)
  | Err _ s' => finder_err s s'
  end.
Proof.
  intros s old ot add rem m0 HS Hot Hm0 Hadd. unfold find_or_create_table.
  pose proof (sa_gf_remove_spec rem m0 s) as G.
  destruct (gf_remove rem m0 s) as [m1 s0|e s0] eqn:EG.
  - destruct G as (-> & Hm1 & NDr & Hfr). rewrite (sa_bind_ok EG).
    pose proof (sa_gf_add_spec (Some m0) add m1 s) as G.
    destruct (gf_add (Some m0) add m1 s) as [m s0|e s0] eqn:EG2.
    + destruct G as (-> & Hm & NDa & Hfa & Hsa). rewrite (sa_bind_ok EG2).
      assert (Hb : forall j, mk_get m j = true -> j < length (w_reg s)).
      { intros j Hj. rewrite Hm, Hm1 in Hj. apply orb_true_iff in Hj. destruct Hj as [Hj|Hj].
        - apply andb_true_iff in Hj. destruct Hj as [Hj _]. auto.
        - apply Hadd, sa_memb_in; exact Hj. }
      destruct (sa_finder_tail s old ot m HS Hot Hb) as (Hr & aid & s1 & a & E1 & E2 & Ma & E3 & tid & s2 & E4 & P).
      rewrite (sa_bind_ok E1), (sa_bind_ok E2), (sa_bind_ok E3). rewrite Hr.
      assert (X : (match rem with
                   | [] => (@nil rel, false)
                   | _ :: _ => let '(sv, rm) := surviving_rels a [] in (sv ++ [], rm)
                   end) = ([], false)) by (destruct rem; reflexivity).
      rewrite X. rewrite (sa_bind_ok E4). unfold ret.
      split; [exact P|]. split; [reflexivity|]. split; [|split; [|split; [|split]]]; auto.
      intros j. rewrite Hm, Hm1. reflexivity.
    + destruct G as (-> & _). rewrite (sa_bind_err EG2). apply sa_finder_err_refl; exact HS.
  - destruct G as (-> & Hn). rewrite (sa_bind_err EG). apply sa_finder_err_refl; exact HS.
Qed.

(** The finders keep the clause "every archetype has its table" ([archs_tabled_norel]): the archetype
    step creates the table together with the archetype, the table step then finds it. Since
    [init_world] has the clause, no reachable state of a relation-free world has an archetype without
    table, whatever operations were rejected on the way. *)
Lemma get_or_create_table_tabled : forall s aid a rels,
  St s -> nth_error (w_archs s) aid = Some a -> a_tables a <> [] ->
  get_or_create_table aid rels s = Ok (hd 0 (a_tables a)) s.
Proof.
  intros s aid a rels HS Ha Hta. pose proof HS as [HW HN]. pose proof HN as (N1 & N2 & N3 & N4).
  destruct (N3 aid a Ha) as (Hf & Hn & Hg & Hr).
  unfold get_or_create_table. rewrite (sa_bind_ok (sa_getA_eq _ _ _ Ha)).
  unfold arch_get_table. destruct (a_tables a) as [|t0 tl] eqn:Et; [congruence|].
  unfold arch_has_rels. rewrite Hn. cbn [Nat.eqb negb]. reflexivity.
Qed.

Lemma sa_finder_tail_tabled : forall s m aid s1 rels tid s2,
  St s -> (forall j, mk_get m j = true -> j < length (w_reg s)) -> archs_tabled_norel s ->
  find_or_create_arch m s = Ok aid s1 -> get_or_create_table aid rels s1 = Ok tid s2 ->
  s2 = s1 /\ archs_tabled_norel s1.
Proof.
  intros s m aid s1 rels tid s2 HS Hm HT E1 E2.
  pose proof (find_or_create_arch_tabled s m aid s1 HS Hm E1 HT) as HT1.
  destruct (find_or_create_arch_spec s m HS Hm) as (aid' & s1' & E1' & HS1 & _ & _ & _ & _ & a & Ha & _).
  rewrite E1 in E1'. injection E1' as <- <-.
  assert (Hta : a_tables a <> []) by (apply (HT1 aid a Ha); apply HS1 in Ha; apply Ha).
  rewrite (get_or_create_table_tabled s1 aid a rels HS1 Ha Hta) in E2. injection E2 as _ <-. auto.
Qed.

(** The two halves of a finder, regrouped. [find_or_create_arch] (archetype, with its table if it is
    new) followed by [get_or_create_table] reaches the same state and returns the same table as the
    archetype step alone ([find_or_create_arch_bare]: the archetype record without table) followed by
    [get_or_create_table], which then creates the table. Proofs that follow a finder through the
    intermediate state "archetype appended, table not yet created" (StorageD) use this regrouping. *)
Definition find_or_create_arch_bare (m : mask) : MW nat :=
  s <- get ;;
  match find_arch s m with
  | Some i => ret i
  | None => create_archetype_bare m
  end.

Lemma sa_finder_tail_bare : forall s m aid s1 tid s2,
  St s -> (forall j, mk_get m j = true -> j < length (w_reg s)) ->
  find_or_create_arch m s = Ok aid s1 -> get_or_create_table aid [] s1 = Ok tid s2 ->
  exists s0 a, find_or_create_arch_bare m s = Ok aid s0 /\ St s0 /\
    nth_error (w_archs s0) aid = Some a /\ a_mask a = m /\
    get_or_create_table aid [] s0 = Ok tid s2.
Proof.
  intros s m aid s1 tid s2 HS Hm E1 E4.
  unfold find_or_create_arch, bind, get in E1. unfold find_or_create_arch_bare, bind, get.
  rewrite sa_find_arch_go in *.
  destruct (sa_find_go m (w_archs s) 0) as [i|] eqn:F.
  - unfold ret in E1. injection E1 as <- <-.
    apply sa_find_go_some in F. destruct F as (_ & a & Ha & Ma). rewrite Nat.sub_0_r in Ha.
    exists s, a. unfold ret. auto.
  - pose proof (sa_find_go_none _ _ _ F) as Hu.
    destruct (sa_create_archetype_bare_spec s m HS Hm Hu) as (s0 & a0 & E0 & HS0 & _ & _ & _ & T0 & A0 & M0 & Tb0 & Nr0).
    assert (Ha0 : nth_error (w_archs s0) (length (w_archs s)) = Some a0) by (rewrite A0; apply sa_nth_error_snoc_new).
    destruct (sa_create_table_nil_full s0 _ a0 HS0 Ha0 Tb0) as (s1' & t & E2 & HS1 & _ & _ & _ & ET & At & EA).
    assert (Ec : create_archetype m s = Ok (length (w_archs s)) s1').
    { unfold create_archetype. rewrite (sa_bind_ok E0), (sa_bind_ok (sa_getA_eq _ _ _ Ha0)). rewrite Nr0. cbn [Nat.eqb].
      unfold bind. rewrite E2. reflexivity. }
    rewrite Ec in E1. injection E1 as <- <-.
    exists s0, a0. split; [exact E0|]. split; [exact HS0|]. split; [exact Ha0|]. split; [exact M0|].
    assert (Ha1 : nth_error (w_archs s1') (length (w_archs s)) = Some (sa_arch_add (length (w_tables s0)) a0)).
    { rewrite EA, nth_error_updf, Nat.eqb_refl, Ha0. reflexivity. }
    rewrite (get_or_create_table_tabled s1' _ _ [] HS1 Ha1) in E4
      by (unfold sa_arch_add; cbn; rewrite Tb0; discriminate).
    unfold sa_arch_add in E4. cbn in E4. rewrite Tb0 in E4. cbn in E4. injection E4 as <- <-.
    unfold get_or_create_table. rewrite (sa_bind_ok (sa_getA_eq _ _ _ Ha0)).
    unfold arch_get_table. rewrite Tb0. rewrite (sa_bind_ok (m := ret None) (s := s0) eq_refl). exact E2.
Qed.

Lemma find_or_create_table_add_tabled : forall s old ot add m0,
  St s -> nth_error (w_tables s) old = Some ot ->
  (forall j, mk_get m0 j = true -> j < length (w_reg s)) -> (forall c, In c add -> c < length (w_reg s)) ->
  archs_tabled_norel s -> archs_tabled_norel (state_of (find_or_create_table_add old add [] m0 s)).
Proof.
  intros s old ot add m0 HS Hot Hm0 Hadd HT. unfold find_or_create_table_add.
  pose proof (sa_gf_add_spec None add m0 s) as G.
  destruct (gf_add None add m0 s) as [m s0|e s0] eqn:EG.
  - destruct G as (-> & Hm & ND & Hf & _). rewrite (sa_bind_ok EG).
    assert (Hb : forall j, mk_get m j = true -> j < length (w_reg s)).
    { intros j Hj. rewrite Hm in Hj. apply orb_true_iff in Hj. destruct Hj as [Hj|Hj]; [auto|apply Hadd, sa_memb_in; exact Hj]. }
    destruct (sa_finder_tail s old ot m HS Hot Hb) as (Hr & aid & s1 & a & E1 & E2 & Ma & E3 & tid & s2 & E4 & P).
    rewrite (sa_bind_ok E1), (sa_bind_ok E3). rewrite Hr. rewrite (sa_bind_ok E4). unfold ret, state_of.
    destruct (sa_finder_tail_tabled s m aid s1 [] tid s2 HS Hb HT E1 E4) as [-> HT1]. exact HT1.
  - destruct G as (-> & Hn). rewrite (sa_bind_err EG). exact HT.
Qed.

Lemma find_or_create_table_remove_tabled : forall s old ot rem m0,
  St s -> nth_error (w_tables s) old = Some ot ->
  (forall j, mk_get m0 j = true -> j < length (w_reg s)) ->
  archs_tabled_norel s -> archs_tabled_norel (state_of (find_or_create_table_remove old rem m0 s)).
Proof.
  intros s old ot rem m0 HS Hot Hm0 HT. unfold find_or_create_table_remove.
  pose proof (sa_gf_remove_spec rem m0 s) as G.
  destruct (gf_remove rem m0 s) as [m s0|e s0] eqn:EG.
  - destruct G as (-> & Hm & ND & Hf). rewrite (sa_bind_ok EG).
    assert (Hb : forall j, mk_get m j = true -> j < length (w_reg s)).
    { intros j Hj. rewrite Hm in Hj. apply andb_true_iff in Hj. destruct Hj as [Hj _]. auto. }
    destruct (sa_finder_tail s old ot m HS Hot Hb) as (Hr & aid & s1 & a & E1 & E2 & Ma & E3 & tid & s2 & E4 & P).
    rewrite (sa_bind_ok E1), (sa_bind_ok E2), (sa_bind_ok E3). rewrite Hr. cbn [surviving_rels filter existsb].
    rewrite (sa_bind_ok E4). unfold ret, state_of.
    destruct (sa_finder_tail_tabled s m aid s1 [] tid s2 HS Hb HT E1 E4) as [-> HT1]. exact HT1.
  - destruct G as (-> & Hn). rewrite (sa_bind_err EG). exact HT.
Qed.

Lemma find_or_create_table_tabled : forall s old ot add rem m0,
  St s -> nth_error (w_tables s) old = Some ot ->
  (forall j, mk_get m0 j = true -> j < length (w_reg s)) -> (forall c, In c add -> c < length (w_reg s)) ->
  archs_tabled_norel s -> archs_tabled_norel (state_of (find_or_create_table old add rem [] m0 s)).
Proof.
  intros s old ot add rem m0 HS Hot Hm0 Hadd HT. unfold find_or_create_table.
  pose proof (sa_gf_remove_spec rem m0 s) as G.
  destruct (gf_remove rem m0 s) as [m1 s0|e s0] eqn:EG.
  - destruct G as (-> & Hm1 & NDr & Hfr). rewrite (sa_bind_ok EG).
    pose proof (sa_gf_add_spec (Some m0) add m1 s) as G.
    destruct (gf_add (Some m0) add m1 s) as [m s0|e s0] eqn:EG2.
    + destruct G as (-> & Hm & NDa & Hfa & Hsa). rewrite (sa_bind_ok EG2).
      assert (Hb : forall j, mk_get m j = true -> j < length (w_reg s)).
      { intros j Hj. rewrite Hm, Hm1 in Hj. apply orb_true_iff in Hj. destruct Hj as [Hj|Hj].
        - apply andb_true_iff in Hj. destruct Hj as [Hj _]. auto.
        - apply Hadd, sa_memb_in; exact Hj. }
      destruct (sa_finder_tail s old ot m HS Hot Hb) as (Hr & aid & s1 & a & E1 & E2 & Ma & E3 & tid & s2 & E4 & P).
      rewrite (sa_bind_ok E1), (sa_bind_ok E2), (sa_bind_ok E3). rewrite Hr.
      assert (X : (match rem with
                   | [] => (@nil rel, false)
                   | _ :: _ => let '(sv, rm) := surviving_rels a [] in (sv ++ [], rm)
                   end) = ([], false)) by (destruct rem; reflexivity).
      rewrite X. rewrite (sa_bind_ok E4). unfold ret, state_of.
      destruct (sa_finder_tail_tabled s m aid s1 [] tid s2 HS Hb HT E1 E4) as [-> HT1]. exact HT1.
    + destruct G as (-> & _). rewrite (sa_bind_err EG2). exact HT.
  - destruct G as (-> & Hn). rewrite (sa_bind_err EG). exact HT.
Qed.

(** Pool operations against the invariant's free list. *)
(** *** The pool's free list *)
Lemma sa_nth_error_upd_eq : forall A (l : list A) i x, i < length l -> nth_error (upd i x l) i = Some x.
Proof.
  intros A l i x H. rewrite nth_error_upd, Nat.eqb_refl.
  destruct (nth_error l i) eqn:E; [reflexivity|]. apply nth_error_None in E. lia.
Qed.

Lemma sa_nth_error_upd_ne : forall A (l : list A) i j x, i <> j -> nth_error (upd i x l) j = nth_error l j.
Proof. intros A l i j x H. rewrite nth_error_upd. apply Nat.eqb_neq in H. rewrite H. reflexivity. Qed.

Lemma sa_chain_upd_other : forall l i x fl nx, ~ In i fl -> chain l nx fl -> chain (upd i x l) nx fl.
Proof.
  intros l i x fl. induction fl as [|k rest IH]; intros nx Hn H; [exact I|].
  simpl in H |- *. destruct H as (E & H1 & H2). split; [exact E|]. split.
  - destruct rest as [|j r]; [exact I|]. destruct H1 as (g & Hg). exists g.
    rewrite sa_nth_error_upd_ne; [exact Hg|]. intros ->. apply Hn. left; reflexivity.
  - apply IH; [|exact H2]. intros Hin. apply Hn. right; exact Hin.
Qed.

Lemma pool_get_spec : forall p fl, pool_ok p fl ->
  let '(e, p') := pool_get p in
  2 <= fst e /\
  ((pavail p = 0 /\ fl = [] /\ e = (length (pe p), 0%N) /\ pe p' = pe p ++ [e] /\ pool_ok p' []) \/
   (exists rest, fl = fst e :: rest /\ fst e < length (pe p) /\ length (pe p') = length (pe p) /\
                 pool_ok p' rest /\ nth_error (pe p') (fst e) = Some e /\
                 (forall i, i <> fst e -> nth_error (pe p') i = nth_error (pe p) i))).
Proof.
  intros p fl (H1 & H2 & H3 & H4 & H5). unfold pool_get. destruct (Nat.eqb_spec (pavail p) 0) as [E|E].
  - simpl. split; [exact H1|]. left. split; [exact E|]. destruct fl; [|simpl in H2; lia].
    split; [reflexivity|]. split; [reflexivity|]. split; [reflexivity|].
    unfold pool_ok; simpl. rewrite app_length. simpl. repeat split; try lia; try constructor; try (intros ? []); try contradiction.
  - destruct fl as [|i rest]; [simpl in H2; lia|]. simpl in H5. destruct H5 as (Ei & Hl & Hc). subst i.
    destruct (H4 (pnext p) (or_introl eq_refl)) as [B1 B2].
    destruct (nth_error (pe p) (pnext p)) as [[nid g]|] eqn:En; [|apply nth_error_None in En; lia].
    simpl. split; [exact B1|]. right. exists rest. split; [reflexivity|]. split; [exact B2|].
    split; [apply upd_length|]. inversion H3; subst. split.
    + unfold pool_ok; simpl. rewrite upd_length. split; [exact H1|]. split; [simpl in H2; lia|].
      split; [assumption|]. split; [intros i Hi; apply H4; right; exact Hi|].
      destruct rest as [|j r]; [exact I|]. destruct Hl as (g' & Hg'). inversion Hg'; subst.
      apply sa_chain_upd_other; assumption.
    + split; [apply sa_nth_error_upd_eq; exact B2|]. intros i Hi. apply sa_nth_error_upd_ne. congruence.
Qed.

Lemma pool_recycle_spec : forall p fl e, pool_ok p fl -> 2 <= fst e -> nth_error (pe p) (fst e) = Some e -> ~ In (fst e) fl ->
  exists p', pool_recycle p e = Some p' /\ pool_ok p' (fst e :: fl) /\ length (pe p') = length (pe p) /\
             (forall i, i <> fst e -> nth_error (pe p') i = nth_error (pe p) i) /\
             (exists l, nth_error (pe p') (fst e) = Some (l, N.modulo (snd e + 1) 4294967296)).
Proof.
  intros p fl e (H1 & H2 & H3 & H4 & H5) He Hn Hnin. unfold pool_recycle, reserved.
  destruct (Nat.ltb_spec (fst e) 2) as [L|L]; [lia|]. rewrite Hn. destruct e as [id g]. simpl in *.
  assert (Hlt : id < length (pe p)) by (apply nth_error_Some; rewrite Hn; discriminate).
  eexists. split; [reflexivity|]. simpl. split; [|split; [apply upd_length|split]].
  - unfold pool_ok; simpl. rewrite upd_length. split; [exact H1|]. split; [lia|].
    split; [constructor; assumption|]. split; [intros i [<-|Hi]; [split; assumption|apply H4; exact Hi]|].
    split; [reflexivity|]. split.
    + destruct fl as [|j r]; [exact I|]. simpl in H5. destruct H5 as (-> & _). eexists.
      apply sa_nth_error_upd_eq. exact Hlt.
    + destruct fl as [|j r]; [exact I|]. apply sa_chain_upd_other; [exact Hnin|].
      pose proof H5 as H5'. simpl in H5'. destruct H5' as (-> & _). exact H5.
  - intros i Hi. apply sa_nth_error_upd_ne. congruence.
  - eexists. apply sa_nth_error_upd_eq. exact Hlt.
Qed.

(** Callbacks and event dispatch never touch the storage (they lock/unlock, log, and may
    unregister observers); they may fail (lock bits exhausted). *)
(** *** Computations that leave the storage alone *)
Lemma sa_storage_same_refl : forall s, storage_same s s.
Proof. intros s. unfold storage_same. repeat split. Qed.

Lemma sa_storage_same_trans : forall s1 s2 s3, storage_same s1 s2 -> storage_same s2 s3 -> storage_same s1 s3.
Proof.
  intros s1 s2 s3 (A1 & A2 & A3 & A4 & A5 & A6 & A7 & A8 & A9 & A10 & A11 & A12 & A13 & A14 & A15 & A16 & A17 & A18)
    (B1 & B2 & B3 & B4 & B5 & B6 & B7 & B8 & B9 & B10 & B11 & B12 & B13 & B14 & B15 & B16 & B17 & B18).
  unfold storage_same. repeat split; congruence.
Qed.

Definition sa_sp {A} (m : MW A) : Prop := forall s, storage_same s (state_of (m s)).

Lemma sa_sp_ret : forall A (a : A), sa_sp (ret a).
Proof. intros A a s. apply sa_storage_same_refl. Qed.
Lemma sa_sp_fail : forall A e, sa_sp (@fail W A e).
Proof. intros A e s. apply sa_storage_same_refl. Qed.
Lemma sa_sp_get : sa_sp (@get W).
Proof. intros s. apply sa_storage_same_refl. Qed.
Lemma sa_sp_guard : forall b e, sa_sp (@guard W b e).
Proof. intros b e s. destruct b; apply sa_storage_same_refl. Qed.
Lemma sa_sp_of_opt : forall A (o : option A) e, sa_sp (@of_opt W A o e).
Proof. intros A o e s. destruct o; apply sa_storage_same_refl. Qed.
Lemma sa_sp_bind : forall A B (m : MW A) (k : A -> MW B), sa_sp m -> (forall a, sa_sp (k a)) -> sa_sp (bind m k).
Proof.
  intros A B m k Hm Hk s. unfold bind. specialize (Hm s). destruct (m s) as [a s'|e s']; simpl in Hm.
  - eapply sa_storage_same_trans; [exact Hm|apply Hk].
  - exact Hm.
Qed.
Lemma sa_sp_modify : forall f : W -> W, (forall s, storage_same s (f s)) -> sa_sp (modify f).
Proof. intros f H s. apply H. Qed.
Lemma sa_sp_whenM : forall b m, sa_sp m -> sa_sp (whenM b m).
Proof. intros b m H. destruct b; [exact H|apply sa_sp_ret]. Qed.

Lemma sa_sp_lockM : sa_sp lockM.
Proof.
  intros s. unfold lockM, bind, get, put, ret, fail. destruct (lock_lock (w_lock s)) as [[b l']|]; simpl;
    unfold storage_same; repeat split.
Qed.
Lemma sa_sp_unlockM : forall b, sa_sp (unlockM b).
Proof.
  intros b s. unfold unlockM, bind, get, put, fail. destruct (lock_unlock (w_lock s) b) as [l'|]; simpl;
    unfold storage_same; repeat split.
Qed.
Lemma sa_sp_log : forall l, sa_sp (log l).
Proof. intros l. apply sa_sp_modify. intros s. unfold storage_same; repeat split. Qed.
Lemma sa_sp_getO : forall oi, sa_sp (getO oi).
Proof. intros oi. unfold getO. apply sa_sp_bind; [apply sa_sp_get|intros; apply sa_sp_of_opt]. Qed.
Lemma sa_sp_modO : forall oi f, sa_sp (modO oi f).
Proof. intros oi f. apply sa_sp_modify. intros s. unfold storage_same; repeat split. Qed.
Lemma sa_sp_mod_agg : forall evt f, sa_sp (mod_agg evt f).
Proof. intros evt f. apply sa_sp_modify. intros s. unfold storage_same; repeat split. Qed.

Ltac sa_sp_step :=
  lazymatch goal with
  | |- sa_sp (ret _) => apply sa_sp_ret
  | |- sa_sp (fail _) => apply sa_sp_fail
  | |- sa_sp get => apply sa_sp_get
  | |- sa_sp (guard _ _) => apply sa_sp_guard
  | |- sa_sp (of_opt _ _) => apply sa_sp_of_opt
  | |- sa_sp lockM => apply sa_sp_lockM
  | |- sa_sp (unlockM _) => apply sa_sp_unlockM
  | |- sa_sp (log _) => apply sa_sp_log
  | |- sa_sp (getO _) => apply sa_sp_getO
  | |- sa_sp (modO _ _) => apply sa_sp_modO
  | |- sa_sp (mod_agg _ _) => apply sa_sp_mod_agg
  | |- sa_sp (modify _) => apply sa_sp_modify; intros ?; unfold storage_same; repeat split
  | |- sa_sp (whenM _ _) => apply sa_sp_whenM
  | |- sa_sp (bind _ _) => apply sa_sp_bind; [|intros ?]
  | |- sa_sp (match ?x with _ => _ end) => destruct x
  end.
Ltac sa_sp_tac := repeat sa_sp_step.

Lemma sa_sp_remove_observer : forall oi, sa_sp (remove_observer oi).
Proof. intros oi. unfold remove_observer. sa_sp_tac. Qed.

Lemma sa_sp_run_callback : forall oi e, sa_sp (run_callback oi e).
Proof.
  intros oi e. unfold run_callback. sa_sp_tac; apply sa_sp_remove_observer.
Qed.

Lemma sa_sp_fire_loop : forall cb pred e, (forall oi e, sa_sp (cb oi e)) ->
  forall l found, sa_sp (fire_loop cb pred e l found).
Proof.
  intros cb pred e Hcb l. induction l as [|oi rest IH]; intros found; cbn [fire_loop].
  - apply sa_sp_ret.
  - apply sa_sp_bind; [apply sa_sp_getO|]. intros o. destruct (pred o); [|apply IH].
    apply sa_sp_bind; [apply Hcb|intros; apply IH].
Qed.

Lemma sa_sp_fire : forall evt early pred e eo, sa_sp (fire evt early pred e eo).
Proof.
  intros. unfold fire, fire_with. apply sa_sp_bind; [apply sa_sp_get|]. intros s.
  destruct (_ && _)%bool; [apply sa_sp_ret|]. apply sa_sp_fire_loop. apply sa_sp_run_callback.
Qed.

Lemma run_callback_storage : forall oi e s, storage_same s (state_of (run_callback oi e s)).
Proof. intros oi e. apply sa_sp_run_callback. Qed.
Lemma fire_storage : forall evt early pred e eo s, storage_same s (state_of (fire evt early pred e eo s)).
Proof. intros evt early pred e eo. apply sa_sp_fire. Qed.
Lemma fire_remove_events_storage : forall e old new rr s, storage_same s (state_of (fire_remove_events e old new rr s)).
Proof.
  intros e old new rr. change (sa_sp (fire_remove_events e old new rr)). unfold fire_remove_events, fire_remove.
  sa_sp_tac; apply sa_sp_fire.
Qed.
Lemma fire_add_if_has_storage : forall evt e old new s, storage_same s (state_of (fire_add_if_has evt e old new s)).
Proof.
  intros evt e old new. change (sa_sp (fire_add_if_has evt e old new)). unfold fire_add_if_has, fire_add.
  sa_sp_tac; apply sa_sp_fire.
Qed.
Lemma fire_create_entity_if_has_storage : forall e m s, storage_same s (state_of (fire_create_entity_if_has e m s)).
Proof.
  intros e m. change (sa_sp (fire_create_entity_if_has e m)). unfold fire_create_entity_if_has, fire_create_entity.
  sa_sp_tac; apply sa_sp_fire.
Qed.
