(** * BuildEquiv: the four build configurations (tags tiny, debug, both, neither) — property C20.

    In the model the build configuration is the [debug] argument of [step_op] (the error kind in
    [cell_of] and the cursor checks in [query_next] / [query_entity]; script field [sc_debug]) and
    the mask width [cf_bits] (script field [sc_bits]; used by [mk_not] for exclusive filters and
    exclusive observers).

    Results, all for arbitrary histories (arbitrary lists of operation lines, including panicking
    operations, operations inside callbacks, queries used after Close):
    - [debug_irrelevant]: the complete observation trace (results, failure flags, callback logs,
      API views, dumps) is the same with and without the debug tag. Proof: (i) [be_sim], results
      equal up to the error kind; (ii) the cursor invariant [be_W] (a closed cursor has no row
      window and no current table, a cursor before its first table has no current table), which
      holds initially and is kept by EVERY operation in BOTH outcomes ([be_step_op_sim]): the
      non-query operations never touch [w_queries] (frame [be_kq], compositional over the whole
      model including callbacks), the query operations keep it also when they panic half way
      ([be_ok_next] etc.); under it the debug checks reject exactly the calls that panic anyway
      ([be_sim_next], [be_sim_entity]); (iii) induction over the lines.
      History: on earlier versions of the model (and of the Go code) the statement was false; the
      scripts [be_cex0], [be_cexA], [be_cexB] made [Entity()] panic in the debug build only, after
      a [Next] that had panicked in the middle of the archetype walk. They are kept as regression
      examples ([be_regressions]).
    - [bits_irrelevant] (and [bits_irrelevant_gen] for any two widths >= 64): for all histories whose
      operations stay within 64 component types ([be_op_small]: the component lists that flow
      into masks are below 64) the complete traces of the 64-bit and the 256-bit build are equal;
      nothing in the trace prints the width. Proof: the 64-bit run is the image of the 256-bit run
      under [be_T] (width 64, [without] masks cut to 64 bits), operation by operation ([be_hom]).
      [bits_irrelevant_refuted_large_ids]: without the restriction the traces differ (the model
      does not check that component ids are registered).
    - [build_tags_irrelevant]: both together. *)
From Ark Require Import Model.Base Model.Mask Model.Pool Model.Util Model.World Model.Run.
From Ark Require Import Proofs.MaskProofs Proofs.StorageA Proofs.LockWorld Proofs.Hoare Proofs.QueryProofs.
From RecordUpdate Require Import RecordSet.
Import RecordSetNotations.
From Coq Require Import Lia.

(** ** Sanity checks by evaluation: the four traces of two scripts with queries opened, advanced,
    closed, used after close, and failing operations (complete traces, with dumps). *)
Definition be_cfg (b : nat) (d : bool) : script_cfg :=
  {| sc_cap := 2; sc_caprel := 1; sc_bits := b; sc_debug := d; sc_kinds := map kind_of_code [0; 1; 2; 7; 8; 4; 6; 9]%Z |}.
Definition be_script1 : list (list Z) :=
  [[1;2;0;1]; [1;1;0]; [0]; [2;2;0;3;1;3;2]; [15;0;1;0;0;0;0]; [15;0;1;0;0;1;0]; [15;0;1;0;1;1;0;0];
   [25;249;0;0;0;0;0]; [26;0];
   [19;0;0]; [22;0]; [20;0]; [24;0]; [23;0;1]; [20;0]; [24;0]; [20;0]; [24;0]; [20;0]; [20;0]; [24;0]; [22;0]; [23;0;0]; [21;0];
   [1;1;1];
   [19;1;0]; [24;1]; [20;1]; [24;1]; [0]; [21;1]; [21;1]; [20;1];
   [9;0;0;42]; [37;0;0]; [37;0;2]; [9;2;0;1]; [35;3;3]; [35;0;3];
   [18;2;0]; [18;7;0]; [16;0]; [19;0;0]; [20;2]; [24;2]; [21;2]; [22;2]; [24;2];
   [11;0]; [38]; [20;9]; [18;0;0]]%Z.
Definition be_script2 : list (list Z) :=
  [[30;3;2;0;1;0;2;0;7;1;7]; [15;0;1;0;0;0;0]; [31;0;0;1;2;1;0;0;0];
   [25;250;0;1;1;0;1;0]; [26;0]; [25;249;1;2;0;1;0;0;3]; [26;1];
   [15;1;0;0;0;0]; [19;1;0]; [20;0]; [24;0]; [12;0;0]; [20;0]; [20;0]; [20;0]; [24;0]; [21;0]; [24;0]; [20;0];
   [0]; [2;1;3;1;3;3]; [2;2;3;4;2;3;3;4;3]; [15;1;0;0;0;1;3;3]; [19;2;0]; [20;1]; [24;1]; [20;1]; [24;1]; [21;1];
   [12;0;0;1]; [1;1;2]; [27;0]; [12;1;0]; [13]; [20;1]; [24;0]; [14;0]; [38]]%Z.

Example be_four_traces_1 :
  let t b d := run_lines d true (init_world (be_cfg b d)) be_script1 in
  t 64 true = t 256 false /\ t 64 false = t 256 false /\ t 256 true = t 256 false.
Proof. vm_compute. repeat split. Qed.
Example be_four_traces_2 :
  let t b d := run_lines d true (init_world (be_cfg b d)) be_script2 in
  t 64 true = t 256 false /\ t 64 false = t 256 false /\ t 256 true = t 256 false.
Proof. vm_compute. repeat split. Qed.

(** ** Part 1: the debug flag *)

(** *** Regression scripts. Each of these made the debug and the non-debug build disagree on an
    earlier version of the model and of the library (a [Next] that panics in the middle of the
    archetype walk used to leave [cursor.table = -1] together with a stale current table, so that
    the following [Entity()] panicked in the debug build only); confirmed on the Go builds and
    repaired there ([nextArchetype] clears the current table when it resets the cursor). *)
Definition be_cex_cfg (b : nat) (d : bool) (ks : list Z) : script_cfg :=
  {| sc_cap := 1; sc_caprel := 1; sc_bits := b; sc_debug := d; sc_kinds := map kind_of_code ks |}.
(** relation match on a component the table lacks (UnsafeFilter relations) *)
Definition be_cex0 : list (list Z) :=
  [[0]; [2; 1; 1; 1; 1; 0]; [15; 1; 0; 0; 0; 2; 1; 0; 2; 0]; [19; 0; 0]; [20; 0]; [24; 0]; [20; 0]; [24; 0]; [20; 0]; [24; 0]]%Z.
(** class A: archetypes without a table (states admitted by [St]; before the repair of createArchetype they
    were left behind by creations that panicked, now they are unreachable: [archs_tabled_norel]); ordinary filter *)
Definition be_cexA : list (list Z) :=
  [[0]; [1;1;1]; [2;1;0;1;1;0]; [15;0;0;0;0;0]; [19;0;0]; [20;0]; [24;0]; [20;0]; [24;0]; [20;0]; [24;0]]%Z.
(** class B: UnsafeFilter relation on a component that a later relation archetype lacks *)
Definition be_cexB : list (list Z) :=
  [[0]; [0]; [2;1;1;1;1;0]; [2;1;2;1;2;0]; [15;1;0;0;0;1;1;1]; [19;0;0]; [20;0]; [24;0]; [20;0]; [24;0]; [20;0]; [24;0]; [20;0]; [24;0]]%Z.
Example be_regressions :
  let t ks b d l := run_lines d true (init_world (be_cex_cfg b d ks)) l in
  let k3 := [0;7;8]%Z in let k2 := [0;7]%Z in
  (t k3 64 true be_cex0 = t k3 256 false be_cex0 /\ t k3 256 true be_cex0 = t k3 256 false be_cex0) /\
  (t k2 64 true be_cexA = t k2 256 false be_cexA /\ t k2 256 true be_cexA = t k2 256 false be_cexA) /\
  (t k3 64 true be_cexB = t k3 256 false be_cexB /\ t k3 256 true be_cexB = t k3 256 false be_cexB).
Proof. vm_compute. repeat split. Qed.

(** *** Results that agree up to the error kind *)
Definition be_sim {A} (r1 r2 : res W A) : Prop :=
  match r1, r2 with
  | Ok a s, Ok b t => a = b /\ s = t
  | Err _ s, Err _ t => s = t
  | _, _ => False
  end.

Lemma be_sim_refl : forall A (r : res W A), be_sim r r.
Proof. intros A [a s|e s]; cbn; auto. Qed.

(** *** The cursor invariant that survives panics.
    [be_W q]: a closed cursor has no row window and no current table; a cursor positioned before
    the first table of its list has no current table. Weaker than [cursor_ok] of QueryProofs (which
    fails after a panic in the middle of [Next]); it holds in every reachable state, and under it
    the cursor checks of the debug build reject exactly the calls that panic anyway. *)
Definition be_W (q : qobj) : Prop :=
  (q_tab q = 0 -> q_max q = None /\ q_table q = None) /\ (q_tab q = 1 -> q_table q = None).
Definition be_QW (s : W) : Prop := forall k q, nth_error (w_queries s) k = Some q -> be_W q.
(** During an advance of cursor [qi]: additionally the cursor is not closed. *)
Definition be_WI (qi : nat) (s : W) : Prop :=
  be_QW s /\ forall q, nth_error (w_queries s) qi = Some q -> 1 <= q_tab q.

(** [be_simF m1 m2]: from every state satisfying the invariant the two computations agree up to
    the error kind, and the invariant holds afterwards (in both outcomes). *)
Definition be_simF {A} (m1 m2 : MW A) : Prop :=
  forall s, be_QW s -> be_sim (m1 s) (m2 s) /\ be_QW (state_of (m2 s)).

Lemma be_simF_bind : forall A B (m1 m2 : MW A) (k1 k2 : A -> MW B),
  be_simF m1 m2 -> (forall a, be_simF (k1 a) (k2 a)) -> be_simF (bind m1 k1) (bind m2 k2).
Proof.
  intros A B m1 m2 k1 k2 Hm Hk s Hs. destruct (Hm s Hs) as [Hsim Hinv]. unfold bind.
  destruct (m1 s) as [a s1|e s1], (m2 s) as [b s2|e' s2]; cbn in Hsim; try contradiction.
  - destruct Hsim as [-> ->]. apply Hk. exact Hinv.
  - split; [exact Hsim | exact Hinv].
Qed.

Lemma be_simF_same : forall A (m : MW A), hoare be_QW m (fun _ => be_QW) be_QW -> be_simF m m.
Proof.
  intros A m H s Hs. split; [apply be_sim_refl|]. specialize (H s Hs). destruct (m s); exact H.
Qed.

Lemma be_simF_ro : forall A (m : MW A), readonly m -> be_simF m m.
Proof. intros A m H s Hs. split; [apply be_sim_refl | rewrite H; exact Hs]. Qed.

Lemma be_simF_ret : forall A (a : A), be_simF (ret a) (ret a).
Proof. intros. apply be_simF_ro, readonly_ret. Qed.

(** *** The local loops of the operations as top-level fixpoints (folded back with [fold]) *)
Definition be_etu_go (t : table) : list rel -> list ent -> MW (list ent) :=
  fix go (rels : list rel) (tg : list ent) : MW (list ent) :=
    match rels with
    | [] => ret tg
    | (c, x) :: rest =>
        match tbl_colidx t c with
        | Some i => go rest (upd i x tg)
        | None => fail ENil
        end
    end.
Definition be_et_go (t : table) : list rel -> list ent -> mask -> bool -> MW (list ent * mask * bool) :=
  fix go (rels : list rel) (tg : list ent) (cm : mask) (changed : bool) : MW (list ent * mask * bool) :=
    match rels with
    | [] => ret (tg, cm, changed)
    | (c, x) :: rest =>
        match tbl_colidx t c with
        | None => fail EMissingComp
        | Some i =>
            if negb (ck_rel (nth i (t_kinds t) (Build_ckind false false true))) then fail ENotRelation
            else
            match nth_error tg i with
            | None => fail EIndex
            | Some cur => if ent_eqb x cur then go rest tg cm changed
                          else go rest (upd i x tg) (mk_set cm c) true
            end
        end
    end.
Definition be_ut_go (f : fobj) (rels : list rel) : list arch -> list nat -> MW (list nat) :=
  fix go (l : list arch) (acc : list nat) : MW (list nat) :=
     match l with
     | [] => ret acc
     | a :: rest =>
         if negb (filter_matches f (a_mask a)) then go rest acc
         else if negb (arch_has_rels a) then
           match a_tables a with
           | t0 :: _ => go rest (acc ++ [t0])
           | [] => fail EIndex
           end
         else
           cand <- of_opt (arch_get_tables a rels) EIndex ;;
           ts <- (fun s => tables_matching s cand rels false) ;;
           go rest (acc ++ ts)
     end.
Definition be_re_rows : list ent -> list ent -> MW (list ent) :=
  fix rows (es : list ent) (acc : list ent) : MW (list ent) :=
    match es with
    | [] => ret acc
    | e :: more =>
        s <- get ;;
        let acc1 := if nth (fst e) (w_istarget s) false then acc ++ [e] else acc in
        modify (fun s => s <| w_index ::= updf (fst e) (fun ix => (None, snd ix)) |>) ;;;
        pool_recycleM e ;;;
        rows more acc1
    end.
Definition be_re_tabs : list nat -> list ent -> MW (list ent) :=
  fix go (tabs : list nat) (acc : list ent) : MW (list ent) :=
    match tabs with
    | [] => ret acc
    | tid :: rest =>
        t <- getT tid ;;
        acc' <- be_re_rows (firstn (t_len t) (t_ents t)) acc ;;
        modT tid tbl_reset ;;;
        go rest acc'
    end.
Definition be_xb_go (add rem : list nat) (rels : list rel) :
  list nat -> list (nat * nat * nat) -> bool -> MW (list (nat * nat * nat) * bool) :=
  fix go (tabs : list nat) (acc : list (nat * nat * nat)) (rr : bool) : MW (list (nat * nat * nat) * bool) :=
    match tabs with
    | [] => ret (acc, rr)
    | tid :: rest =>
        t <- getT tid ;;
        if Nat.eqb (t_len t) 0 then go rest acc rr
        else
          om <- arch_mask_of_table tid ;;
          r <- find_or_create_table tid add rem rels om ;;
          let '(ntid, _, _, removed) := r in
          go rest (acc ++ [(tid, ntid, t_len t)]) (rr || removed)%bool
    end.
Definition be_sh_go_clock (clock : nat -> bool) : nat -> nat -> bool -> MW (nat * bool) :=
  fix go (fuel : nat) (idx : nat) (any : bool) : MW (nat * bool) :=
    match fuel with
    | O => ret (idx, any)
    | S f =>
        t <- getT idx ;;
        s <- get ;;
        any1 <- (if negb (tbl_has_rels t) then
                   if tbl_can_shrink t (cf_cap (w_cfg s))
                   then modT idx (fun t => tbl_adjust t (tbl_shrink_target t (cf_cap (w_cfg s)))) ;;; ret true
                   else ret any
                 else
                   a1 <- (if tbl_can_shrink t (cf_caprel (w_cfg s))
                          then modT idx (fun t => tbl_adjust t (tbl_shrink_target t (cf_caprel (w_cfg s)))) ;;; ret true
                          else ret any) ;;
                   t <- getT idx ;;
                   if (negb (t_free t) && Nat.eqb (t_len t) 0)%bool then
                     free_table (t_arch t) idx ;;;
                     modA (t_arch t) (fun a => remove_from_targets_cols idx 0 (t_kinds t) (t_targets t) a) ;;;
                     cache_remove_table idx ;;;
                     ret true
                   else ret a1) ;;
        if (any1 && clock idx)%bool then ret (idx, any1)
        else match f with O => ret (idx, any1) | _ => go f (S idx) any1 end
    end.
Definition be_sh_go (stop0 : bool) : nat -> nat -> bool -> MW (nat * bool) := be_sh_go_clock (fun _ => stop0).
Definition be_drain_go (debug : bool) (qi : nat) : nat -> list ent -> MW (list ent) :=
  fix go (fuel : nat) (acc : list ent) : MW (list ent) :=
    match fuel with
    | O => ret acc
    | S fu =>
        more <- query_next debug qi ;;
        if more then e <- query_entity debug qi ;; go fu (acc ++ [e]) else ret acc
    end.

Lemma be_exchange_targets_unchecked_eq : forall t rels, exchange_targets_unchecked t rels =
  (targets <- be_etu_go t rels (t_targets t) ;;
   ret (map (fun p => (fst (fst p), snd p))
           (filter (fun p => ck_rel (snd (fst p))) (combine (combine (t_ids t) (t_kinds t)) targets)))).
Proof. reflexivity. Qed.
Lemma be_uncached_tables_eq : forall f rels, uncached_tables f rels = (s <- get ;; be_ut_go f rels (w_archs s) []).
Proof. reflexivity. Qed.

(** *** Frame: everything except the query operations leaves [w_queries] alone
    (in both outcomes, including everything that runs inside callbacks). *)
Definition be_kq (Qv : list qobj) {A} (m : MW A) : Prop :=
  forall s, w_queries s = Qv -> w_queries (state_of (m s)) = Qv.

Lemma be_kq_ret : forall Qv A (a : A), be_kq Qv (ret a).
Proof. intros Qv A a s H. exact H. Qed.
Lemma be_kq_fail : forall Qv A e, be_kq Qv (@fail W A e).
Proof. intros Qv A e s H. exact H. Qed.
Lemma be_kq_get : forall Qv, be_kq Qv (@get W).
Proof. intros Qv s H. exact H. Qed.
Lemma be_kq_guard : forall Qv b e, be_kq Qv (@guard W b e).
Proof. intros Qv b e s H. destruct b; exact H. Qed.
Lemma be_kq_of_opt : forall Qv A (o : option A) e, be_kq Qv (@of_opt W A o e).
Proof. intros Qv A o e s H. destruct o; exact H. Qed.
Lemma be_kq_bind : forall Qv A B (m : MW A) (k : A -> MW B),
  be_kq Qv m -> (forall a, be_kq Qv (k a)) -> be_kq Qv (bind m k).
Proof.
  intros Qv A B m k Hm Hk s H. unfold bind. specialize (Hm s H).
  destruct (m s) as [a s'|e s']; cbn in Hm; [apply Hk; exact Hm | exact Hm].
Qed.
Lemma be_kq_get_bind : forall Qv B (k : W -> MW B),
  (forall a, w_queries a = Qv -> be_kq Qv (k a)) -> be_kq Qv (bind get k).
Proof. intros Qv B k Hk s H. unfold bind, get. apply Hk; exact H. Qed.
Lemma be_kq_put : forall Qv (s' : W), w_queries s' = Qv -> be_kq Qv (put s').
Proof. intros Qv s' H s _. exact H. Qed.
Lemma be_kq_modify : forall Qv (f : W -> W), (forall s, w_queries (f s) = w_queries s) -> be_kq Qv (modify f).
Proof. intros Qv f Hf s H. cbn. rewrite Hf. exact H. Qed.
Lemma be_kq_whenM : forall Qv b m, be_kq Qv m -> be_kq Qv (whenM b m).
Proof. intros Qv b m H. destruct b; [exact H | apply be_kq_ret]. Qed.
Lemma be_kq_forM : forall Qv A (l : list A) (f : A -> MW unit), (forall a, be_kq Qv (f a)) -> be_kq Qv (forM_ l f).
Proof.
  intros Qv A l f Hf. induction l as [|x l IH]; cbn [forM_]; [apply be_kq_ret|].
  apply be_kq_bind; [apply Hf | intros _; exact IH].
Qed.
Lemma be_kq_mapM : forall Qv A B (l : list A) (f : A -> MW B), (forall a, be_kq Qv (f a)) -> be_kq Qv (mapM l f).
Proof.
  intros Qv A B l f Hf. induction l as [|x l IH]; cbn [mapM]; [apply be_kq_ret|].
  apply be_kq_bind; [apply Hf | intros y]. apply be_kq_bind; [exact IH | intros ys; apply be_kq_ret].
Qed.
Lemma be_kq_on_err : forall Qv A (m : MW A) h, be_kq Qv m -> (forall s, w_queries (h s) = w_queries s) -> be_kq Qv (on_err m h).
Proof.
  intros Qv A m h Hm Hh s H. specialize (Hm s H). unfold on_err. destruct (m s); cbn in *; [exact Hm | rewrite Hh; exact Hm].
Qed.
Lemma be_release_bit_queries : forall b s, w_queries (release_bit b s) = w_queries s.
Proof. intros. unfold release_bit. destruct (lock_unlock (w_lock s) b); reflexivity. Qed.
Lemma be_kq_with_deferred_unlock : forall Qv A b (m : MW A), be_kq Qv m -> be_kq Qv (with_deferred_unlock b m).
Proof. intros. unfold with_deferred_unlock. apply be_kq_on_err; [assumption | apply be_release_bit_queries]. Qed.
Lemma be_kq_ro : forall Qv A (m : MW A), readonly m -> be_kq Qv m.
Proof. intros Qv A m Hm s H. rewrite Hm. exact H. Qed.

Lemma be_ro_find_exact : forall tabs rels, readonly (fun s => find_exact s tabs rels).
Proof.
  intros tabs rels s. induction tabs as [|t rest IH]; cbn [find_exact]; [reflexivity|].
  destruct (nth_error (w_tables s) t); [|reflexivity].
  destruct (tbl_matches_exact _ _); [reflexivity | exact IH | reflexivity].
Qed.
Lemma be_kq_find_exact : forall Qv tabs rels, be_kq Qv (fun s => find_exact s tabs rels).
Proof. intros. apply be_kq_ro, be_ro_find_exact. Qed.
Lemma be_ro_tables_matching : forall tabs rels ne, readonly (fun s => tables_matching s tabs rels ne).
Proof. intros tabs rels ne s. rewrite q_tables_matching_eq. apply q_ro_tm_go. Qed.
Lemma be_kq_tables_matching : forall Qv tabs rels ne, be_kq Qv (fun s => tables_matching s tabs rels ne).
Proof. intros. apply be_kq_ro, be_ro_tables_matching. Qed.
Create HintDb be_kq discriminated.
#[export] Hint Constants Opaque : be_kq.
#[export] Hint Transparent mask ent rel hrel MW W M : be_kq.

Ltac be_kq_step :=
  lazymatch goal with
  | |- be_kq _ (ret _) => apply be_kq_ret
  | |- be_kq _ (fail _) => apply be_kq_fail
  | |- be_kq _ get => apply be_kq_get
  | |- be_kq _ (guard _ _) => apply be_kq_guard
  | |- be_kq _ (of_opt _ _) => apply be_kq_of_opt
  | |- be_kq _ (put _) => apply be_kq_put; cbn; assumption
  | |- be_kq _ (modify _) => apply be_kq_modify; intros ?; try reflexivity
  | |- be_kq _ (whenM _ _) => apply be_kq_whenM
  | |- be_kq _ (with_deferred_unlock _ _) => apply be_kq_with_deferred_unlock
  | |- be_kq _ (forM_ _ _) => apply be_kq_forM; intros ?
  | |- be_kq _ (mapM _ _) => apply be_kq_mapM; intros ?
  | |- be_kq _ (bind get _) => apply be_kq_get_bind; intros ? ?
  | |- be_kq _ (bind _ _) => apply be_kq_bind; [| intros ?]
  | |- be_kq _ (fun s => find_exact s _ _) => apply be_kq_find_exact
  | |- be_kq _ (fun s => tables_matching s _ _ _) => apply be_kq_tables_matching
  | |- be_kq _ (match ?x with _ => _ end) => destruct x
  | |- be_kq _ _ => solve [typeclasses eauto 3 with be_kq]
  end.
Ltac be_kq_tac := repeat be_kq_step.

Lemma be_kq_getT : forall Qv i, be_kq Qv (getT i).
Proof. intros. unfold getT. be_kq_tac. Qed.
Lemma be_kq_modT : forall Qv i f, be_kq Qv (modT i f).
Proof. intros. unfold modT. be_kq_tac. Qed.
Lemma be_kq_setT : forall Qv i t, be_kq Qv (setT i t).
Proof. intros. unfold setT. apply be_kq_modT. Qed.
Lemma be_kq_getA : forall Qv i, be_kq Qv (getA i).
Proof. intros. unfold getA. be_kq_tac. Qed.
Lemma be_kq_modA : forall Qv i f, be_kq Qv (modA i f).
Proof. intros. unfold modA. be_kq_tac. Qed.
#[export] Hint Resolve be_kq_getT be_kq_modT be_kq_setT be_kq_getA be_kq_modA : be_kq.
Lemma be_kq_check_locked : forall Qv, be_kq Qv check_locked.
Proof. intros. unfold check_locked. be_kq_tac. Qed.
Lemma be_kq_lockM : forall Qv, be_kq Qv lockM.
Proof. intros. unfold lockM. be_kq_tac. Qed.
Lemma be_kq_unlockM : forall Qv b, be_kq Qv (unlockM b).
Proof. intros. unfold unlockM. be_kq_tac. Qed.
#[export] Hint Resolve be_kq_check_locked be_kq_lockM be_kq_unlockM : be_kq.


Lemma be_kq_arch_get_table : forall Qv a rels, be_kq Qv (arch_get_table a rels).
Proof. intros. unfold arch_get_table. be_kq_tac. Qed.
Lemma be_kq_cache_add_table : forall Qv tid t am, be_kq Qv (cache_add_table tid t am).
Proof. intros. unfold cache_add_table. be_kq_tac. Qed.
Lemma be_kq_cache_remove_table : forall Qv tid, be_kq Qv (cache_remove_table tid).
Proof. intros. unfold cache_remove_table. be_kq_tac. Qed.
Lemma be_kq_create_archetype_bare : forall Qv m, be_kq Qv (create_archetype_bare m).
Proof. intros. unfold create_archetype_bare. be_kq_tac. Qed.
#[export] Hint Resolve be_kq_arch_get_table be_kq_cache_add_table be_kq_cache_remove_table be_kq_create_archetype_bare : be_kq.
Lemma be_kq_check_rel : forall Qv r, be_kq Qv (check_rel r).
Proof. intros. unfold check_rel. be_kq_tac. Qed.
#[export] Hint Resolve be_kq_check_rel : be_kq.
Lemma be_kq_register_targets : forall Qv rels, be_kq Qv (register_targets rels).
Proof. intros. unfold register_targets. be_kq_tac. Qed.
#[export] Hint Resolve be_kq_register_targets : be_kq.
Lemma be_kq_create_table : forall Qv aid rels, be_kq Qv (create_table aid rels).
Proof. intros. unfold create_table. be_kq_tac. Qed.
#[export] Hint Resolve be_kq_create_table : be_kq.
(* createArchetype (as repaired) creates the table of a relation-free archetype itself *)
Lemma be_kq_create_archetype : forall Qv m, be_kq Qv (create_archetype m).
Proof. intros. unfold create_archetype. be_kq_tac. Qed.
#[export] Hint Resolve be_kq_create_archetype : be_kq.
Lemma be_kq_find_or_create_arch : forall Qv m, be_kq Qv (find_or_create_arch m).
Proof. intros. unfold find_or_create_arch. be_kq_tac. Qed.
#[export] Hint Resolve be_kq_find_or_create_arch : be_kq.
Lemma be_kq_get_or_create_table : forall Qv aid rels, be_kq Qv (get_or_create_table aid rels).
Proof. intros. unfold get_or_create_table. be_kq_tac. Qed.
Lemma be_kq_gf_remove : forall Qv ids m, be_kq Qv (gf_remove ids m).
Proof. intros Qv ids. induction ids as [|c t IH]; intros m; cbn [gf_remove]; be_kq_tac; apply IH. Qed.
Lemma be_kq_gf_add : forall Qv st ids m, be_kq Qv (gf_add st ids m).
Proof. intros Qv st ids. induction ids as [|c t IH]; intros m; cbn [gf_add]; be_kq_tac; apply IH. Qed.
#[export] Hint Resolve be_kq_get_or_create_table be_kq_gf_remove be_kq_gf_add : be_kq.
Lemma be_kq_find_or_create_table_add : forall Qv old add rels m0, be_kq Qv (find_or_create_table_add old add rels m0).
Proof. intros. unfold find_or_create_table_add. be_kq_tac. Qed.
Lemma be_kq_find_or_create_table_remove : forall Qv old rem m0, be_kq Qv (find_or_create_table_remove old rem m0).
Proof. intros. unfold find_or_create_table_remove. be_kq_tac. Qed.
Lemma be_kq_find_or_create_table : forall Qv old add rem rels m0, be_kq Qv (find_or_create_table old add rem rels m0).
Proof. intros. unfold find_or_create_table. be_kq_tac. Qed.
#[export] Hint Resolve be_kq_find_or_create_table_add be_kq_find_or_create_table_remove be_kq_find_or_create_table : be_kq.

Lemma be_kq_set_index : forall Qv id v, be_kq Qv (set_index id v).
Proof. intros. unfold set_index. be_kq_tac. destruct (Nat.eqb _ _); reflexivity. Qed.
Lemma be_kq_get_index : forall Qv e, be_kq Qv (get_index e).
Proof. intros. unfold get_index. be_kq_tac. Qed.
Lemma be_kq_pool_getM : forall Qv, be_kq Qv pool_getM.
Proof. intros. unfold pool_getM. be_kq_tac. Qed.
Lemma be_kq_pool_recycleM : forall Qv e, be_kq Qv (pool_recycleM e).
Proof. intros. unfold pool_recycleM. be_kq_tac. Qed.
Lemma be_kq_tbl_addM : forall Qv tid e, be_kq Qv (tbl_addM tid e).
Proof. intros. unfold tbl_addM. be_kq_tac. Qed.
Lemma be_kq_remove_row : forall Qv tid row, be_kq Qv (remove_row tid row).
Proof. intros. unfold remove_row. be_kq_tac. Qed.
Lemma be_kq_copy_row : forall Qv old new m row nidx, be_kq Qv (copy_row old new m row nidx).
Proof. intros. unfold copy_row. be_kq_tac. Qed.
Lemma be_kq_move_entities : forall Qv src dst count, be_kq Qv (move_entities src dst count).
Proof. intros. unfold move_entities. be_kq_tac. Qed.
#[export] Hint Resolve be_kq_set_index be_kq_get_index be_kq_pool_getM be_kq_pool_recycleM
  be_kq_tbl_addM be_kq_remove_row be_kq_copy_row be_kq_move_entities : be_kq.

Lemma be_kq_etu_go : forall Qv t rels tg, be_kq Qv (be_etu_go t rels tg).
Proof.
  intros Qv t rels. induction rels as [|[c x] rest IH]; intros tg; unfold be_etu_go; fold (be_etu_go t); [be_kq_tac|].
  destruct (tbl_colidx t c); [apply IH | be_kq_tac].
Qed.
Lemma be_kq_et_go : forall Qv t rels tg cm ch, be_kq Qv (be_et_go t rels tg cm ch).
Proof.
  intros Qv t rels. induction rels as [|[c x] rest IH]; intros tg cm ch; unfold be_et_go; fold (be_et_go t); [be_kq_tac|].
  destruct (tbl_colidx t c); [|be_kq_tac].
  destruct (negb (ck_rel (nth n (t_kinds t) (Build_ckind false false true)))); [be_kq_tac|].
  destruct (nth_error tg n); [|be_kq_tac].
  destruct (ent_eqb x e); apply IH.
Qed.
#[export] Hint Resolve be_kq_etu_go be_kq_et_go : be_kq.
Lemma be_kq_exchange_targets_unchecked : forall Qv t rels, be_kq Qv (exchange_targets_unchecked t rels).
Proof. intros. unfold exchange_targets_unchecked. fold (be_etu_go t). be_kq_tac. Qed.
Lemma be_kq_exchange_targets : forall Qv t rels, be_kq Qv (exchange_targets t rels).
Proof. intros. unfold exchange_targets. fold (be_et_go t). be_kq_tac. Qed.
#[export] Hint Resolve be_kq_exchange_targets_unchecked be_kq_exchange_targets : be_kq.

Lemma be_kq_mod_agg : forall Qv evt f, be_kq Qv (mod_agg evt f).
Proof. intros. unfold mod_agg. be_kq_tac. Qed.
Lemma be_kq_getO : forall Qv oi, be_kq Qv (getO oi).
Proof. intros. unfold getO. be_kq_tac. Qed.
Lemma be_kq_modO : forall Qv oi f, be_kq Qv (modO oi f).
Proof. intros. unfold modO. be_kq_tac. Qed.
#[export] Hint Resolve be_kq_mod_agg be_kq_getO be_kq_modO : be_kq.
Lemma be_kq_add_observer : forall Qv oi, be_kq Qv (add_observer oi).
Proof. intros. unfold add_observer. be_kq_tac. Qed.
Lemma be_kq_remove_observer : forall Qv oi, be_kq Qv (remove_observer oi).
Proof. intros. unfold remove_observer. be_kq_tac. Qed.
Lemma be_kq_reset_observers : forall Qv, be_kq Qv reset_observers.
Proof. intros. unfold reset_observers. be_kq_tac. Qed.
Lemma be_kq_log : forall Qv l, be_kq Qv (log l).
Proof. intros. unfold log. be_kq_tac. Qed.
#[export] Hint Resolve be_kq_add_observer be_kq_remove_observer be_kq_reset_observers be_kq_log : be_kq.
Lemma be_kq_run_callback : forall Qv oi e, be_kq Qv (run_callback oi e).
Proof. intros. unfold run_callback. be_kq_tac. Qed.
#[export] Hint Resolve be_kq_run_callback : be_kq.
Lemma be_kq_fire_loop : forall Qv cb pred e l found,
  (forall oi x, be_kq Qv (cb oi x)) -> be_kq Qv (fire_loop cb pred e l found).
Proof.
  intros Qv cb pred e l found Hcb. revert found. induction l as [|oi rest IH]; intros found; cbn [fire_loop]; be_kq_tac; try apply Hcb; try apply IH.
Qed.
Lemma be_kq_fire : forall Qv evt early pred e eo, be_kq Qv (fire evt early pred e eo).
Proof.
  intros. unfold fire, fire_with. be_kq_tac. apply be_kq_fire_loop. intros; apply be_kq_run_callback.
Qed.
#[export] Hint Resolve be_kq_fire : be_kq.
Lemma be_kq_fire_create_entity : forall Qv e m eo, be_kq Qv (fire_create_entity e m eo).
Proof. intros. apply be_kq_fire. Qed.
Lemma be_kq_fire_remove_entity : forall Qv e m eo, be_kq Qv (fire_remove_entity e m eo).
Proof. intros. apply be_kq_fire. Qed.
Lemma be_kq_fire_create_entity_rel : forall Qv e m eo, be_kq Qv (fire_create_entity_rel e m eo).
Proof. intros. apply be_kq_fire. Qed.
Lemma be_kq_fire_remove_entity_rel : forall Qv e m eo, be_kq Qv (fire_remove_entity_rel e m eo).
Proof. intros. apply be_kq_fire. Qed.
Lemma be_kq_fire_add : forall Qv evt e old new eo, be_kq Qv (fire_add evt e old new eo).
Proof. intros. apply be_kq_fire. Qed.
Lemma be_kq_fire_remove : forall Qv evt e old new eo, be_kq Qv (fire_remove evt e old new eo).
Proof. intros. apply be_kq_fire. Qed.
Lemma be_kq_fire_set : forall Qv evt e cm em eo, be_kq Qv (fire_set evt e cm em eo).
Proof. intros. apply be_kq_fire. Qed.
#[export] Hint Resolve be_kq_fire_create_entity be_kq_fire_remove_entity be_kq_fire_create_entity_rel
  be_kq_fire_remove_entity_rel be_kq_fire_add be_kq_fire_remove be_kq_fire_set : be_kq.
Lemma be_kq_fire_create_entity_if_has : forall Qv e m, be_kq Qv (fire_create_entity_if_has e m).
Proof. intros. unfold fire_create_entity_if_has. be_kq_tac. Qed.
Lemma be_kq_fire_create_entity_rel_if_has : forall Qv e m, be_kq Qv (fire_create_entity_rel_if_has e m).
Proof. intros. unfold fire_create_entity_rel_if_has. be_kq_tac. Qed.
Lemma be_kq_fire_add_if_has : forall Qv evt e old new, be_kq Qv (fire_add_if_has evt e old new).
Proof. intros. unfold fire_add_if_has. be_kq_tac. Qed.
Lemma be_kq_fire_rows : forall Qv (f : ent -> bool -> MW bool) es eo,
  (forall e b, be_kq Qv (f e b)) -> be_kq Qv (fire_rows f es eo).
Proof.
  intros Qv f es eo Hf. revert eo. induction es as [|e rest IH]; intros eo; cbn [fire_rows]; be_kq_tac; try apply Hf; try apply IH.
Qed.
#[export] Hint Resolve be_kq_fire_create_entity_if_has be_kq_fire_create_entity_rel_if_has be_kq_fire_add_if_has : be_kq.

Lemma be_kq_set_index_direct : forall Qv e tid row, be_kq Qv (set_index_direct e tid row).
Proof. intros. unfold set_index_direct. be_kq_tac. Qed.
#[export] Hint Resolve be_kq_set_index_direct : be_kq.
Lemma be_kq_new_entity : forall Qv ids rels, be_kq Qv (new_entity ids rels).
Proof. intros. unfold new_entity. be_kq_tac. Qed.
Lemma be_kq_create_entity : forall Qv tid, be_kq Qv (create_entity tid).
Proof. intros. unfold create_entity. be_kq_tac. Qed.
Lemma be_kq_create_entities : forall Qv tid count, be_kq Qv (create_entities tid count).
Proof. intros. unfold create_entities. be_kq_tac. Qed.
#[export] Hint Resolve be_kq_new_entity be_kq_create_entity be_kq_create_entities : be_kq.
Lemma be_kq_new_entities : forall Qv count ids rels, be_kq Qv (new_entities count ids rels).
Proof. intros. unfold new_entities. be_kq_tac. Qed.
Lemma be_kq_rows_of : forall Qv tid start n, be_kq Qv (rows_of tid start n).
Proof. intros. unfold rows_of. be_kq_tac. Qed.
Lemma be_kq_arch_mask_of_table : forall Qv tid, be_kq Qv (arch_mask_of_table tid).
Proof. intros. unfold arch_mask_of_table. be_kq_tac. Qed.
#[export] Hint Resolve be_kq_new_entities be_kq_rows_of be_kq_arch_mask_of_table : be_kq.
Lemma be_kq_w_add : forall Qv e add rels, be_kq Qv (w_add e add rels).
Proof. intros. unfold w_add. be_kq_tac. Qed.
Lemma be_kq_fire_remove_events : forall Qv e old new rr, be_kq Qv (fire_remove_events e old new rr).
Proof. intros. unfold fire_remove_events. be_kq_tac. Qed.
#[export] Hint Resolve be_kq_w_add be_kq_fire_remove_events : be_kq.
Lemma be_kq_w_remove : forall Qv e rem, be_kq Qv (w_remove e rem).
Proof. intros. unfold w_remove. be_kq_tac. Qed.
Lemma be_kq_w_exchange : forall Qv e add rem rels, be_kq Qv (w_exchange e add rem rels).
Proof. intros. unfold w_exchange. be_kq_tac. Qed.
Lemma be_kq_copy_all : forall Qv src dst row nidx, be_kq Qv (copy_all src dst row nidx).
Proof. intros. unfold copy_all. be_kq_tac. Qed.
#[export] Hint Resolve be_kq_w_remove be_kq_w_exchange be_kq_copy_all : be_kq.
Lemma be_kq_w_set_relations : forall Qv e rels, be_kq Qv (w_set_relations e rels).
Proof. intros. unfold w_set_relations. be_kq_tac. Qed.
Lemma be_kq_free_table : forall Qv aid tid, be_kq Qv (free_table aid tid).
Proof. intros. unfold free_table. be_kq_tac. Qed.
#[export] Hint Resolve be_kq_w_set_relations be_kq_free_table : be_kq.
Lemma be_kq_cleanup_archetypes : forall Qv target, be_kq Qv (cleanup_archetypes target).
Proof. intros. unfold cleanup_archetypes. be_kq_tac. Qed.
#[export] Hint Resolve be_kq_cleanup_archetypes : be_kq.
Lemma be_kq_storage_remove_entity : forall Qv e, be_kq Qv (storage_remove_entity e).
Proof. intros. unfold storage_remove_entity. be_kq_tac. Qed.
Lemma be_kq_w_copy_entity : forall Qv e, be_kq Qv (w_copy_entity e).
Proof. intros. unfold w_copy_entity. be_kq_tac. Qed.
Lemma be_kq_getF : forall Qv fi, be_kq Qv (getF fi).
Proof. intros. unfold getF. be_kq_tac. Qed.
Lemma be_kq_to_relations : forall Qv m rels, be_kq Qv (to_relations m rels).
Proof. intros. unfold to_relations. be_kq_tac. Qed.
#[export] Hint Resolve be_kq_storage_remove_entity be_kq_w_copy_entity be_kq_getF be_kq_to_relations : be_kq.


Lemma be_kq_ut_go : forall Qv f rels l acc, be_kq Qv (be_ut_go f rels l acc).
Proof.
  intros Qv f rels l. induction l as [|a rest IH]; intros acc; unfold be_ut_go; fold (be_ut_go f rels); [be_kq_tac|].
  destruct (negb (filter_matches f (a_mask a))); [apply IH|].
  destruct (negb (arch_has_rels a)).
  - destruct (a_tables a); [be_kq_tac | apply IH].
  - do 2 (be_kq_step; [be_kq_tac|]). apply IH.
Qed.
#[export] Hint Resolve be_kq_ut_go : be_kq.
Lemma be_kq_uncached_tables : forall Qv f rels, be_kq Qv (uncached_tables f rels).
Proof. intros. rewrite be_uncached_tables_eq. be_kq_tac. Qed.
#[export] Hint Resolve be_kq_uncached_tables : be_kq.
Lemma be_kq_get_batch_tables : forall Qv fi rels, be_kq Qv (get_batch_tables fi rels).
Proof. intros. unfold get_batch_tables. be_kq_tac. Qed.
Lemma be_kq_filter_register : forall Qv fi, be_kq Qv (filter_register fi).
Proof. intros. unfold filter_register. be_kq_tac. Qed.
Lemma be_kq_filter_unregister : forall Qv fi, be_kq Qv (filter_unregister fi).
Proof. intros. unfold filter_unregister. be_kq_tac. Qed.
Lemma be_kq_cache_reset : forall Qv, be_kq Qv cache_reset.
Proof. intros. unfold cache_reset. be_kq_tac. Qed.
Lemma be_kq_batch_callback : forall Qv tid vals row, be_kq Qv (batch_callback tid vals row).
Proof. intros. unfold batch_callback. be_kq_tac. Qed.
#[export] Hint Resolve be_kq_get_batch_tables be_kq_filter_register be_kq_filter_unregister be_kq_cache_reset
  be_kq_batch_callback : be_kq.

Ltac be_kq_rows :=
  apply be_kq_fire_rows; intros ? ?; typeclasses eauto 3 with be_kq.

Lemma be_kq_w_new_entities : forall Qv count fn, be_kq Qv (w_new_entities count fn).
Proof. intros. unfold w_new_entities. be_kq_tac; try be_kq_rows. Qed.
Lemma be_kq_w_new_batch : forall Qv count ids rels vals fn, be_kq Qv (w_new_batch count ids rels vals fn).
Proof. intros. unfold w_new_batch. be_kq_tac; try be_kq_rows. Qed.

Lemma be_kq_re_rows : forall Qv es acc, be_kq Qv (be_re_rows es acc).
Proof.
  intros Qv es. induction es as [|e more IH]; intros acc; unfold be_re_rows; fold be_re_rows; [be_kq_tac|].
  be_kq_step. cbv zeta. do 2 (be_kq_step; [be_kq_tac|]). apply IH.
Qed.
#[export] Hint Resolve be_kq_re_rows : be_kq.
Lemma be_kq_re_tabs : forall Qv tabs acc, be_kq Qv (be_re_tabs tabs acc).
Proof.
  intros Qv tabs. induction tabs as [|tid rest IH]; intros acc; unfold be_re_tabs; fold be_re_tabs; [be_kq_tac|].
  do 3 (be_kq_step; [be_kq_tac|]). apply IH.
Qed.
#[export] Hint Resolve be_kq_re_tabs : be_kq.
Lemma be_kq_w_remove_entities : forall Qv fi rels fn, be_kq Qv (w_remove_entities fi rels fn).
Proof.
  intros. unfold w_remove_entities. fold be_re_rows. fold be_re_tabs. be_kq_tac; try be_kq_rows.
Qed.
#[export] Hint Resolve be_kq_w_new_entities be_kq_w_new_batch be_kq_w_remove_entities : be_kq.

Lemma be_kq_exchange_table : forall Qv otid ntid rels, be_kq Qv (exchange_table otid ntid rels).
Proof. intros. unfold exchange_table. be_kq_tac. Qed.
#[export] Hint Resolve be_kq_exchange_table : be_kq.

Lemma be_kq_xb_go : forall Qv add rem rels tabs acc rr, be_kq Qv (be_xb_go add rem rels tabs acc rr).
Proof.
  intros Qv add rem rels tabs. induction tabs as [|tid rest IH]; intros acc rr;
    unfold be_xb_go; fold (be_xb_go add rem rels); [be_kq_tac|].
  be_kq_step; [be_kq_tac|]. destruct (Nat.eqb _ _); [apply IH|].
  do 2 (be_kq_step; [be_kq_tac|]). destruct a1 as [[[? ?] ?] ?]. apply IH.
Qed.
#[export] Hint Resolve be_kq_xb_go : be_kq.
Lemma be_kq_w_exchange_batch : forall Qv fi brels add rem rels vals, be_kq Qv (w_exchange_batch fi brels add rem rels vals).
Proof.
  intros. unfold w_exchange_batch. fold (be_xb_go add rem rels). be_kq_tac; try be_kq_rows.
Qed.

Lemma be_kq_set_relations_plan : forall Qv otid rels, be_kq Qv (set_relations_plan otid rels).
Proof. intros. unfold set_relations_plan. be_kq_tac. Qed.
Lemma be_kq_set_relations_fire_removes : forall Qv plans, be_kq Qv (set_relations_fire_removes plans).
Proof.
  intros. unfold set_relations_fire_removes. apply be_kq_forM. intros p. destruct p as [[[otid ntid] len] cm].
  be_kq_tac; try be_kq_rows.
Qed.
Lemma be_kq_set_relations_move : forall Qv p, be_kq Qv (set_relations_move p).
Proof. intros Qv p. destruct p as [[[otid ntid] len] cm]. unfold set_relations_move. be_kq_tac. Qed.
Lemma be_kq_set_relations_fire_adds : forall Qv moved, be_kq Qv (set_relations_fire_adds moved).
Proof.
  intros. unfold set_relations_fire_adds. apply be_kq_forM. intros p. destruct p as [[[ntid start] len] cm].
  be_kq_tac; try be_kq_rows.
Qed.
#[export] Hint Resolve be_kq_w_exchange_batch be_kq_set_relations_plan be_kq_set_relations_fire_removes
  be_kq_set_relations_move be_kq_set_relations_fire_adds : be_kq.
Lemma be_kq_w_set_relations_batch : forall Qv fi brels rels, be_kq Qv (w_set_relations_batch fi brels rels).
Proof. intros. unfold w_set_relations_batch. be_kq_tac. Qed.
Lemma be_kq_arch_reset : forall Qv aid, be_kq Qv (arch_reset aid).
Proof. intros. unfold arch_reset. be_kq_tac. Qed.
#[export] Hint Resolve be_kq_w_set_relations_batch be_kq_arch_reset : be_kq.
Lemma be_kq_w_reset : forall Qv, be_kq Qv w_reset.
Proof. intros. unfold w_reset. be_kq_tac. Qed.
Lemma be_kq_sh_go_clock : forall Qv clock fuel idx any, be_kq Qv (be_sh_go_clock clock fuel idx any).
Proof.
  intros Qv clock fuel. induction fuel as [|fu IH]; intros idx any; unfold be_sh_go_clock; fold (be_sh_go_clock clock); [be_kq_tac|].
  be_kq_step; [be_kq_tac|]. be_kq_step. be_kq_step; [be_kq_tac|].
  match goal with |- be_kq _ (if ?b then _ else _) => destruct b; [be_kq_tac|] end. destruct fu; [be_kq_tac | apply IH].
Qed.
Lemma be_kq_sh_go : forall Qv stop0 fuel idx any, be_kq Qv (be_sh_go stop0 fuel idx any).
Proof. intros Qv stop0 fuel idx any. exact (be_kq_sh_go_clock Qv (fun _ => stop0) fuel idx any). Qed.
#[export] Hint Resolve be_kq_sh_go_clock be_kq_sh_go : be_kq.
(** Shrink under every clock (every time budget) leaves the queries alone. *)
Lemma be_kq_w_shrink_timed : forall Qv clock, be_kq Qv (w_shrink_timed clock).
Proof. intros. unfold w_shrink_timed, w_shrink_clock. fold (be_sh_go_clock clock). be_kq_tac. Qed.
Lemma be_kq_w_shrink : forall Qv stop0, be_kq Qv (w_shrink stop0).
Proof. intros Qv stop0. exact (be_kq_w_shrink_timed Qv (fun _ => stop0)). Qed.
#[export] Hint Resolve be_kq_w_reset be_kq_w_shrink_timed be_kq_w_shrink : be_kq.

Lemma be_kq_resolveH : forall Qv h, be_kq Qv (resolveH h).
Proof. intros. unfold resolveH. be_kq_tac. Qed.
#[export] Hint Resolve be_kq_resolveH : be_kq.
Lemma be_kq_resolveR : forall Qv rels, be_kq Qv (resolveR rels).
Proof. intros. unfold resolveR. be_kq_tac. Qed.
Lemma be_kq_cell_of : forall Qv d e c, be_kq Qv (cell_of d e c).
Proof. intros. unfold cell_of. be_kq_tac. Qed.
Lemma be_kq_write_cell : forall Qv tid ci row v, be_kq Qv (write_cell tid ci row v).
Proof. intros. unfold write_cell. be_kq_tac. Qed.
Lemma be_kq_batch_rels : forall Qv fi brels, be_kq Qv (batch_rels fi brels).
Proof. intros. unfold batch_rels. be_kq_tac. Qed.
#[export] Hint Resolve be_kq_resolveR be_kq_cell_of be_kq_write_cell be_kq_batch_rels : be_kq.

(** The operations that touch query objects. *)
Definition be_query_op (o : op) : bool :=
  match o with
  | OQueryAll _ _ | OQueryOpen _ _ | OQueryNext _ | OQueryClose _ | OQueryCount _ | OQueryEntityAt _ _ | OQueryEntity _ => true
  | _ => false
  end.

Theorem be_kq_step_op : forall d o Qv, be_query_op o = false -> be_kq Qv (step_op d o).
Proof.
  intros d o Qv Hq. destruct o; try discriminate Hq; cbn [step_op]; be_kq_tac.
Qed.

(** *** The query operations keep the invariant, in both outcomes *)
Lemma be_h_ro : forall A (m : MW A) (P E : W -> Prop),
  readonly m -> (forall s, P s -> E s) -> hoare P m (fun _ => P) E.
Proof.
  intros A m P E H HE s Hs. specialize (H s). destruct (m s); cbn in H; subst; [exact Hs | apply HE, Hs].
Qed.
Lemma be_h_getQ : forall qi (P E : W -> Prop), (forall s, P s -> E s) ->
  hoare P (getQ qi) (fun q s => P s /\ nth_error (w_queries s) qi = Some q) E.
Proof.
  intros qi P E HE s Hs. unfold getQ, bind, get. destruct (nth_error (w_queries s) qi) eqn:Eq; cbn; [auto | apply HE, Hs].
Qed.
Lemma be_h_modQ : forall qi f (P : W -> Prop) (Q : unit -> W -> Prop) (E : W -> Prop),
  (forall s, P s -> Q tt (s <| w_queries ::= updf qi f |>)) -> hoare P (modQ qi f) Q E.
Proof. intros qi f P Q E H s Hs. unfold modQ, modify. apply H. exact Hs. Qed.
Lemma be_h_kq : forall A (m : MW A), (forall Qv, be_kq Qv m) -> hoare be_QW m (fun _ => be_QW) be_QW.
Proof.
  intros A m H s Hs. specialize (H (w_queries s) s eq_refl).
  assert (Hq : be_QW (state_of (m s))) by (unfold be_QW; rewrite H; exact Hs).
  destruct (m s); exact Hq.
Qed.
Lemma be_h_on_err : forall A (m : MW A) h (P : W -> Prop) (Q : A -> W -> Prop) (E' E : W -> Prop),
  hoare P m Q E' -> (forall s, E' s -> E (h s)) -> hoare P (on_err m h) Q E.
Proof.
  intros A m h P Q E' E H Hh s Hs. specialize (H s Hs). unfold on_err. destruct (m s); [exact H | apply Hh, H].
Qed.

Lemma be_WI_QW : forall qi s, be_WI qi s -> be_QW s.
Proof. intros qi s [H _]. exact H. Qed.

Lemma be_QW_modQ : forall qi f s, be_QW s ->
  (forall q, nth_error (w_queries s) qi = Some q -> be_W q -> be_W (f q)) ->
  be_QW (s <| w_queries ::= updf qi f |>).
Proof.
  intros qi f s Hs Hf k q Hn. cbn in Hn. destruct (Nat.eq_dec k qi) as [->|Hk].
  - apply q_nth_error_updf_eq in Hn. destruct Hn as (x & Hx & ->). apply Hf; [exact Hx | eapply Hs; exact Hx].
  - rewrite q_nth_error_updf_ne in Hn by exact Hk. eapply Hs; exact Hn.
Qed.
Lemma be_WI_modQ : forall qi f s, be_WI qi s ->
  (forall q, nth_error (w_queries s) qi = Some q -> be_W q -> 1 <= q_tab q -> be_W (f q) /\ 1 <= q_tab (f q)) ->
  be_WI qi (s <| w_queries ::= updf qi f |>).
Proof.
  intros qi f s [Hs H1] Hf. split.
  - apply be_QW_modQ; [exact Hs|]. intros q Hq Hw. apply Hf; [exact Hq | exact Hw | apply H1, Hq].
  - intros q Hn. cbn in Hn. apply q_nth_error_updf_eq in Hn. destruct Hn as (x & Hx & ->).
    apply Hf; [exact Hx | eapply Hs; exact Hx | apply H1, Hx].
Qed.

Lemma be_W_ge2 : forall q, 2 <= q_tab q -> be_W q.
Proof. intros q H. split; intros E; lia. Qed.

Lemma be_ok_set_table : forall qi pos tid, hoare (be_WI qi) (query_set_table qi pos tid) (fun _ => be_QW) be_QW.
Proof.
  intros. unfold query_set_table.
  eapply hoare_bind; [apply be_h_ro; [apply readonly_getT | apply be_WI_QW] | intros t].
  apply be_h_modQ. intros s Hs. apply be_QW_modQ; [apply (be_WI_QW _ _ Hs)|].
  intros q _ _. apply be_W_ge2. cbn. lia.
Qed.

Lemma be_ok_unlockM : forall b, hoare be_QW (unlockM b) (fun _ => be_QW) be_QW.
Proof. intros. apply be_h_kq. intros. apply be_kq_unlockM. Qed.

Lemma be_ok_close : forall qi, hoare be_QW (query_close qi) (fun _ => be_QW) be_QW.
Proof.
  intros qi. unfold query_close.
  eapply hoare_bind; [apply be_h_getQ; auto | intros q].
  destruct (Nat.ltb (q_tab q) 1).
  - apply hoare_ret. intros s [Hs _]. exact Hs.
  - eapply hoare_bind; [|intros ?; apply be_ok_unlockM].
    apply be_h_modQ. intros s [Hs _]. apply be_QW_modQ; [exact Hs|].
    intros x _ _. split; cbn; intros; [split; reflexivity | discriminate].
Qed.

Lemma be_ok_next_table : forall qi L cached,
  hoare (be_WI qi) (query_next_table qi L cached)
        (fun r s => if r then be_QW s else if cached then be_QW s else be_WI qi s) be_QW.
Proof.
  intros. rewrite q_next_table_eq.
  eapply hoare_bind; [apply be_h_ro; [apply q_ro_getQ | apply be_WI_QW] | intros q].
  eapply hoare_bind.
  { eapply be_h_on_err; [apply be_h_ro with (E := be_WI qi); [apply q_ro_nt_go | auto]|].
    intros s Hs. apply be_QW_modQ; [apply (be_WI_QW _ _ Hs)|]. intros x _ _. apply be_W_ge2. cbn. lia. }
  intros r. destruct r as [[pos tid]|].
  - eapply hoare_bind with (R := fun _ => be_QW); [apply be_ok_set_table | intros ?; apply hoare_ret; auto].
  - eapply hoare_bind with (R := fun _ => be_WI qi).
    + apply be_h_modQ. intros s Hs. apply be_WI_modQ; [exact Hs|]. intros x _ Hw Hx. cbn. split; [|lia].
      split; cbn; intros E; [lia|]. apply Hw. lia.
    + intros ?. destruct cached; cbn [whenM].
      * eapply hoare_bind with (R := fun _ => be_QW); [|intros ?; apply hoare_ret; auto].
        eapply hoare_conseq; [apply be_ok_close | apply be_WI_QW | auto | auto].
      * eapply hoare_bind with (R := fun _ => be_WI qi); [apply hoare_ret; auto | intros ?; apply hoare_ret; auto].
Qed.

Lemma be_ok_na_go : forall qi archs f fuel pos,
  hoare (be_WI qi) (q_na_go qi archs f fuel pos) (fun r s => if r then be_QW s else be_WI qi s) be_QW.
Proof.
  intros qi archs f fuel. induction fuel as [|fu IH]; intros pos;
    [rewrite q_na_go_0; apply hoare_ret; auto | rewrite q_na_go_S].
  destruct (nth_error archs pos) as [aid|]; [|apply hoare_ret; auto].
  eapply hoare_bind with (R := fun _ => be_WI qi).
  { apply be_h_modQ. intros s Hs. apply be_WI_modQ; [exact Hs|]. intros x _ Hw Hx. split; [exact Hw | exact Hx]. }
  intros ?. eapply hoare_bind; [apply be_h_ro; [apply q_ro_getA | apply be_WI_QW] | intros ar].
  destruct (negb (filter_matches f (a_mask ar))); [apply IH|].
  destruct (negb (arch_has_rels ar)).
  - destruct (a_tables ar) as [|t0 ?]; [apply hoare_fail; apply be_WI_QW|].
    eapply hoare_bind; [apply be_h_ro; [apply readonly_getT | apply be_WI_QW] | intros t].
    destruct (Nat.ltb 0 (t_len t)); [|apply IH].
    eapply hoare_bind with (R := fun _ => be_QW); [apply be_ok_set_table | intros ?; apply hoare_ret; auto].
  - eapply hoare_bind; [apply be_h_ro; [apply q_ro_getQ | apply be_WI_QW] | intros q].
    eapply hoare_bind; [apply be_h_ro; [apply readonly_of_opt | apply be_WI_QW] | intros tabs].
    eapply hoare_bind with (R := fun _ => be_WI qi).
    { apply be_h_modQ. intros s Hs. apply be_WI_modQ; [exact Hs|]. intros x _ _ _. cbn. split; [|lia].
      split; cbn; intros E; [discriminate | reflexivity]. }
    intros ?. eapply hoare_bind; [apply be_ok_next_table | intros found].
    destruct found; [apply hoare_ret; auto | apply IH].
Qed.

Lemma be_ok_next_archetype : forall qi, hoare (be_WI qi) (query_next_archetype qi) (fun _ => be_QW) be_QW.
Proof.
  intros. rewrite q_next_archetype_eq.
  eapply hoare_bind with (R := fun _ => be_WI qi).
  { apply be_h_modQ. intros s Hs. apply be_WI_modQ; [exact Hs|]. intros x _ Hw Hx. split; [exact Hw | exact Hx]. }
  intros ?. eapply hoare_bind; [apply be_h_ro; [apply q_ro_getQ | apply be_WI_QW] | intros q].
  eapply hoare_bind; [apply be_h_ro; [apply readonly_guard | apply be_WI_QW] | intros ?].
  eapply hoare_bind; [apply be_h_ro; [apply readonly_get | apply be_WI_QW] | intros s0].
  eapply hoare_bind; [apply be_h_ro; [apply readonly_getF | apply be_WI_QW] | intros f].
  eapply hoare_bind; [apply be_ok_na_go | intros r].
  destruct r; [apply hoare_ret; auto|].
  eapply hoare_bind with (R := fun _ => be_QW); [|intros ?; apply hoare_ret; auto].
  eapply hoare_conseq; [apply be_ok_close | apply be_WI_QW | auto | auto].
Qed.

Lemma be_ok_next_toa : forall qi, hoare be_QW (query_next_table_or_archetype qi) (fun _ => be_QW) be_QW.
Proof.
  intros. unfold query_next_table_or_archetype.
  eapply hoare_bind; [apply be_h_getQ; auto | intros q].
  eapply hoare_bind with (R := fun _ => be_WI qi).
  { apply hoare_guard; [|intros s [Hs _] _; exact Hs]. intros s [HF Hq] Hg. apply Nat.leb_le in Hg.
    split; [exact HF|]. intros x Hx. congruence. }
  intros ?. destruct (q_cache q) as [addr|].
  - eapply hoare_bind; [apply be_h_ro; [apply readonly_get | apply be_WI_QW] | intros s0].
    eapply hoare_bind; [apply be_h_ro; [apply readonly_of_opt | apply be_WI_QW] | intros e].
    eapply hoare_conseq; [apply be_ok_next_table | auto | | auto].
    intros r s Hr. destruct r; exact Hr.
  - destruct (Nat.leb 2 (q_arch q)); [|apply be_ok_next_archetype].
    eapply hoare_bind; [apply be_ok_next_table | intros found].
    destruct found; [apply hoare_ret; auto | apply be_ok_next_archetype].
Qed.

Lemma be_ok_next : forall d qi, hoare be_QW (query_next d qi) (fun _ => be_QW) be_QW.
Proof.
  intros. unfold query_next.
  eapply hoare_bind; [apply be_h_getQ; auto | intros q].
  eapply hoare_bind with (R := fun _ s => be_QW s /\ nth_error (w_queries s) qi = Some q).
  { destruct d; cbn [whenM]; [|apply hoare_ret; auto]. apply hoare_guard; [auto | intros s [Hs _] _; exact Hs]. }
  intros ?.
  assert (Htoa : hoare (fun s => be_QW s /\ nth_error (w_queries s) qi = Some q)
                       (query_next_table_or_archetype qi) (fun _ => be_QW) be_QW).
  { eapply hoare_conseq; [apply be_ok_next_toa | | auto | auto]. intros s [H _]; exact H. }
  destruct (q_max q) as [mx|] eqn:Em; [|exact Htoa].
  destruct (Nat.ltb (q_index q) mx); [|exact Htoa].
  eapply hoare_bind; [|intros ?; apply hoare_ret; intros s Hs; exact Hs].
  apply be_h_modQ. intros s [HF Hq]. apply be_QW_modQ; [exact HF|].
  intros x _ Hw. exact Hw.
Qed.

Lemma be_ok_open : forall fi rels, hoare be_QW (query_open fi rels) (fun _ => be_QW) be_QW.
Proof.
  intros. unfold query_open.
  eapply hoare_bind; [apply be_h_kq; intros; apply be_kq_getF | intros f].
  eapply hoare_bind; [apply be_h_kq; intros; be_kq_tac | intros ?].
  eapply hoare_bind; [apply be_h_kq; intros; apply be_kq_get | intros s0].
  eapply hoare_bind; [apply be_h_kq; intros; be_kq_tac | intros cache].
  cbv zeta.
  eapply hoare_bind; [apply be_h_kq; intros; apply be_kq_lockM | intros b].
  intros s Hs. unfold bind, get, put, ret. cbn [state_of].
  intros k q Hn. cbn in Hn.
  destruct (sa_nth_error_snoc _ _ _ _ _ Hn) as [[_ Hold]|[_ ->]]; [eapply Hs; exact Hold|].
  split; cbn; intros E; [discriminate | reflexivity].
Qed.

(** *** The debug checks reject exactly the calls that panic anyway *)
Lemma be_simF_kq : forall A (m : MW A), (forall Qv, be_kq Qv m) -> be_simF m m.
Proof. intros A m H. apply be_simF_same, be_h_kq, H. Qed.

Lemma be_getQ_none : forall s qi B (k : qobj -> MW B),
  nth_error (w_queries s) qi = None -> bind (getQ qi) k s = Err EIndex s.
Proof. intros s qi B k H. cbv beta iota delta [bind getQ get]. rewrite H. reflexivity. Qed.

Lemma be_sim_next : forall qi, be_simF (query_next true qi) (query_next false qi).
Proof.
  intros qi s Hs. split; [|pose proof (be_ok_next false qi s Hs) as H; destruct (query_next false qi s); exact H].
  unfold query_next. destruct (nth_error (w_queries s) qi) as [q|] eqn:Hq.
  - rewrite !(sa_bind_ok (q_getQ_eq s qi q Hq)). cbn [whenM].
    destruct (Nat.leb 1 (q_tab q)) eqn:E.
    + cbn [guard]. rewrite !q_bind_ret. apply be_sim_refl.
    + apply Nat.leb_gt in E. assert (E0 : q_tab q = 0) by lia.
      destruct (Hs _ _ Hq) as (H0 & _). destruct (H0 E0) as (Hm & _). rewrite Hm.
      unfold query_next_table_or_archetype.
      cbn [guard]. rewrite q_bind_ret, q_bind_fail.
      rewrite !(sa_bind_ok (q_getQ_eq s qi q Hq)). rewrite E0. cbn. reflexivity.
  - rewrite !(be_getQ_none s qi _ _ Hq). cbn. reflexivity.
Qed.

Lemma be_sim_entity : forall qi, be_simF (query_entity true qi) (query_entity false qi).
Proof.
  intros qi s Hs. split; [|rewrite query_entity_readonly; exact Hs].
  unfold query_entity. destruct (nth_error (w_queries s) qi) as [q|] eqn:Hq.
  - rewrite !(sa_bind_ok (q_getQ_eq s qi q Hq)). cbn [whenM].
    destruct (Nat.leb 2 (q_tab q)) eqn:E.
    + cbn [guard]. rewrite !q_bind_ret. apply be_sim_refl.
    + apply Nat.leb_gt in E. destruct (Hs _ _ Hq) as (H0 & H1).
      assert (Ht : q_table q = None).
      { destruct (Nat.eq_dec (q_tab q) 0) as [E0|E0]; [apply H0; exact E0 | apply H1; lia]. }
      rewrite Ht. cbn. reflexivity.
  - rewrite !(be_getQ_none s qi _ _ Hq). cbn. reflexivity.
Qed.

Lemma be_sim_cell_of : forall e c, be_simF (cell_of true e c) (cell_of false e c).
Proof.
  intros e c. unfold cell_of.
  apply be_simF_bind; [apply be_simF_ro, readonly_get | intros s0].
  apply be_simF_bind; [apply be_simF_ro, readonly_guard | intros _].
  apply be_simF_bind; [apply be_simF_ro, readonly_get_index | intros [tid row]].
  apply be_simF_bind; [apply be_simF_ro, readonly_getT | intros t].
  destruct (tbl_colidx t c); [apply be_simF_ret|].
  intros s Hs. split; [cbn; reflexivity | exact Hs].
Qed.

Lemma be_sim_drain : forall qi fuel acc, be_simF (be_drain_go true qi fuel acc) (be_drain_go false qi fuel acc).
Proof.
  intros qi fuel. induction fuel as [|fu IH]; intros acc; unfold be_drain_go;
    fold (be_drain_go true qi); fold (be_drain_go false qi); [apply be_simF_ret|].
  apply be_simF_bind; [apply be_sim_next | intros more].
  destruct more; [|apply be_simF_ret].
  apply be_simF_bind; [apply be_sim_entity | intros e]. apply IH.
Qed.

Lemma be_step_op_QueryAll : forall d f hrels, step_op d (OQueryAll f hrels) =
  (rels <- resolveR hrels ;;
   rels <- resolve_relidx f rels ;;
   check_unsafe_rels f rels ;;;
   qi <- query_open f rels ;;
   cnt <- query_count qi ;;
   es <- be_drain_go d qi (S cnt) [] ;;
   query_close qi ;;;
   ret (Zn cnt :: Zn (length es) :: flat_map Zent es)).
Proof. reflexivity. Qed.

Ltac be_sim_kq := apply be_simF_kq; intros ?; be_kq_tac.

(** Every operation: the debug and the non-debug build agree up to the panic message, and the
    invariant is kept (also when the operation panics). *)
Theorem be_step_op_sim : forall o, be_simF (step_op true o) (step_op false o).
Proof.
  intros o. destruct (be_query_op o) eqn:Hq.
  - destruct o; try discriminate Hq; [rewrite !be_step_op_QueryAll | cbn [step_op] ..].
    + (* QueryAll *)
      apply be_simF_bind; [be_sim_kq | intros ?].
      apply be_simF_bind; [apply be_simF_ro, readonly_resolve_relidx | intros ?].
      apply be_simF_bind; [apply be_simF_ro, readonly_check_unsafe_rels | intros ?].
      apply be_simF_bind; [apply be_simF_same, be_ok_open | intros ?].
      apply be_simF_bind; [apply be_simF_ro; intros s; apply query_count_readonly | intros ?].
      apply be_simF_bind; [apply be_sim_drain | intros ?].
      apply be_simF_bind; [apply be_simF_same, be_ok_close | intros ?]. apply be_simF_ret.
    + apply be_simF_bind; [be_sim_kq | intros ?].
      apply be_simF_bind; [apply be_simF_ro, readonly_resolve_relidx | intros ?].
      apply be_simF_bind; [apply be_simF_ro, readonly_check_unsafe_rels | intros ?].
      apply be_simF_bind; [apply be_simF_same, be_ok_open | intros ?]. apply be_simF_ret.
    + apply be_simF_bind; [apply be_sim_next | intros ?]. apply be_simF_ret.
    + apply be_simF_bind; [apply be_simF_same, be_ok_close | intros ?]. apply be_simF_ret.
    + apply be_simF_bind; [apply be_simF_ro; intros s; apply query_count_readonly | intros ?]. apply be_simF_ret.
    + apply be_simF_bind; [apply be_simF_ro; intros s; apply query_entity_at_readonly | intros ?]. apply be_simF_ret.
    + apply be_simF_bind; [apply be_sim_entity | intros ?]. apply be_simF_ret.
  - destruct o; try discriminate Hq;
      try (apply be_simF_kq; intros Qv; apply be_kq_step_op; exact Hq); cbn [step_op].
    + (* Write *)
      apply be_simF_bind; [be_sim_kq | intros ?].
      apply be_simF_bind; [apply be_sim_cell_of | intros [[tid ci] row]]. be_sim_kq.
    + (* MapSet *)
      apply be_simF_bind; [be_sim_kq | intros ?].
      apply be_simF_bind; [apply be_sim_cell_of | intros [[tid ci] row]]. be_sim_kq.
    + (* GetRel *)
      apply be_simF_bind; [be_sim_kq | intros ?].
      apply be_simF_bind; [apply be_sim_cell_of | intros [[tid ci] row]]. be_sim_kq.
    + (* Get *)
      apply be_simF_bind; [be_sim_kq | intros ?].
      apply be_simF_bind; [apply be_sim_cell_of | intros [[tid ci] row]]. be_sim_kq.
Qed.

Lemma be_QW_queries : forall s s', w_queries s' = w_queries s -> be_QW s -> be_QW s'.
Proof. intros s s' H Hs. unfold be_QW. rewrite H. exact Hs. Qed.

(** One script step: identical output line and identical next state. *)
Lemma be_step_debug : forall wd s l, be_QW s ->
  step true wd s l = step false wd s l /\ be_QW (fst (step false wd s l)).
Proof.
  intros wd s l Hs. unfold step. destruct (decode_op l) as [o|]; [|split; [reflexivity | exact Hs]].
  assert (Hs0 : be_QW (s <| w_log := [] |>)) by (apply (be_QW_queries s); [reflexivity | exact Hs]).
  destruct (be_step_op_sim o _ Hs0) as [Hsim Hinv].
  destruct (step_op true o (s <| w_log := [] |>)) as [a s1|e s1],
           (step_op false o (s <| w_log := [] |>)) as [b s2|e' s2]; cbn in Hsim; try contradiction.
  - destruct Hsim as [-> ->]. split; [reflexivity|].
    cbn [state_of is_err negb fst] in *. 
    eapply be_QW_queries; [|exact Hinv].
    destruct (issues_from_log o && true)%bool; destruct b as [|i [|g ?]]; try destruct (returns_entity o); reflexivity.
  - subst s2. split; [reflexivity|].
    cbn [state_of is_err negb fst] in *. rewrite Bool.andb_false_r. eapply be_QW_queries; [|exact Hinv]. reflexivity.
Qed.

Lemma be_run_debug : forall wd lines s, be_QW s -> run_lines true wd s lines = run_lines false wd s lines.
Proof.
  intros wd lines. induction lines as [|l rest IH]; intros s Hs; [reflexivity|].
  cbn [run_lines]. destruct (be_step_debug wd s l Hs) as [E Hinv]. rewrite E.
  destruct (step false wd s l) as [s' out]. cbn [fst] in Hinv. rewrite (IH s' Hinv). reflexivity.
Qed.

Lemma be_QW_init : forall c, be_QW (init_world c).
Proof. intros c k q H. cbn in H. destruct k; discriminate H. Qed.

(** The complete observation trace (results, failure flags, callback logs, API views, dumps) of
    every script is the same with and without the debug tag. *)
Theorem debug_irrelevant : forall c wd lines,
  run_lines true wd (init_world c) lines = run_lines false wd (init_world c) lines.
Proof. intros. apply be_run_debug, be_QW_init. Qed.

(** The script-level form: the [sc_debug] field of the configuration line is irrelevant. *)
Corollary debug_irrelevant_cfg : forall c c' wd lines,
  sc_cap c' = sc_cap c -> sc_caprel c' = sc_caprel c -> sc_bits c' = sc_bits c -> sc_kinds c' = sc_kinds c ->
  run_lines (sc_debug c') wd (init_world c') lines = run_lines (sc_debug c) wd (init_world c) lines.
Proof.
  intros c c' wd lines H1 H2 H3 H4.
  assert (E : init_world c' = init_world c) by (unfold init_world; rewrite H1, H2, H3, H4; reflexivity).
  rewrite E. destruct (sc_debug c'), (sc_debug c); try reflexivity;
    [apply debug_irrelevant | symmetry; apply debug_irrelevant].
Qed.

(** ** Part 2: the mask width *)

(** *** Masks below 64 *)
Definition be_M64 : N := N.ones 64.
Definition be_small (m : mask) : Prop := forall j, mk_get m j = true -> j < 64.
Definition be_lt64 (l : list nat) : Prop := Forall (fun c => c < 64) l.

Lemma be_get_ones : forall b j, mk_get (N.ones (N.of_nat b)) j = Nat.ltb j b.
Proof.
  intros b j. unfold mk_get. destruct (Nat.ltb_spec j b) as [H|H].
  - apply N.ones_spec_low. lia.
  - apply N.ones_spec_high. lia.
Qed.
Lemma be_get_land : forall a b j, mk_get (N.land a b) j = (mk_get a j && mk_get b j)%bool.
Proof. intros. unfold mk_get. apply N.land_spec. Qed.
Lemma be_get_M64 : forall j, mk_get be_M64 j = Nat.ltb j 64.
Proof. intros j. exact (be_get_ones 64 j). Qed.
Lemma be_get_not : forall b m j, mk_get (mk_not b m) j = xorb (mk_get m j) (Nat.ltb j b).
Proof. intros. unfold mk_not, mk_get. rewrite N.lxor_spec. f_equal. apply be_get_ones. Qed.

Lemma be_land_small : forall m, be_small m -> N.land m be_M64 = m.
Proof.
  intros m H. apply mk_eq_ext. intros j. rewrite be_get_land, be_get_M64.
  destruct (mk_get m j) eqn:E; [|reflexivity]. apply H in E. apply Nat.ltb_lt in E. rewrite E. reflexivity.
Qed.
Lemma be_land_idem : forall w, N.land (N.land w be_M64) be_M64 = N.land w be_M64.
Proof. intros. rewrite <- N.land_assoc, N.land_diag. reflexivity. Qed.
Lemma be_cany_T : forall m w, be_small m -> mk_contains_any m (N.land w be_M64) = mk_contains_any m w.
Proof.
  intros m w H. unfold mk_contains_any.
  rewrite (N.land_comm w), N.land_assoc, (be_land_small m H). reflexivity.
Qed.
Lemma be_not_T : forall b m, be_small m -> 64 <= b -> N.land (mk_not b m) be_M64 = mk_not 64 m.
Proof.
  intros b m H Hb. apply mk_eq_ext. intros j. rewrite be_get_land, be_get_M64, !be_get_not.
  destruct (Nat.ltb_spec j 64) as [L|L].
  - assert (E : Nat.ltb j b = true) by (apply Nat.ltb_lt; lia). rewrite E, Bool.andb_true_r. reflexivity.
  - rewrite Bool.andb_false_r. destruct (mk_get m j) eqn:E; [apply H in E; lia | reflexivity].
Qed.
Lemma be_set_T : forall w c, c < 64 -> N.land (mk_set w c) be_M64 = mk_set (N.land w be_M64) c.
Proof.
  intros w c H. apply mk_eq_ext. intros j. rewrite be_get_land, !mk_get_set, be_get_land, be_get_M64.
  destruct (Nat.eqb_spec c j) as [->|Hne]; cbn [orb]; [|reflexivity].
  apply Nat.ltb_lt in H. rewrite H. reflexivity.
Qed.
Lemma be_small_0 : be_small 0%N.
Proof. intros j H. unfold mk_get in H. rewrite N.bits_0 in H. discriminate. Qed.
Lemma be_small_set : forall m c, be_small m -> c < 64 -> be_small (mk_set m c).
Proof.
  intros m c H Hc j Hj. rewrite mk_get_set in Hj. destruct (Nat.eqb_spec c j) as [->|Hne]; [exact Hc | apply H, Hj].
Qed.
Lemma be_small_clear : forall m c, be_small m -> be_small (mk_clear m c).
Proof. intros m c H j Hj. rewrite mk_get_clear in Hj. apply Bool.andb_true_iff in Hj. apply H, Hj. Qed.
Lemma be_small_of_list : forall l, be_lt64 l -> be_small (mk_of_list l).
Proof. intros l H j Hj. apply mk_get_of_list in Hj. unfold be_lt64 in H. rewrite Forall_forall in H. apply H, Hj. Qed.
Lemma be_small_land : forall w, be_small (N.land w be_M64).
Proof.
  intros w j Hj. rewrite be_get_land, be_get_M64 in Hj. apply Bool.andb_true_iff in Hj. apply Nat.ltb_lt, Hj.
Qed.

(** *** The 64-bit view of a state: width 64, [without] masks cut to 64 bits *)
Definition be_Tf (f : fobj) : fobj := f <| f_without ::= fun w => N.land w be_M64 |>.
Definition be_To (o : oobj) : oobj := o <| o_without ::= fun w => N.land w be_M64 |>.
Definition be_T (s : W) : W :=
  s <| w_cfg := {| cf_cap := cf_cap (w_cfg s); cf_caprel := cf_caprel (w_cfg s); cf_bits := 64 |} |>
    <| w_filters ::= map be_Tf |> <| w_obs ::= map be_To |>.

Definition be_oinv (o : oobj) : Prop :=
  be_small (o_with o) /\ be_lt64 (o_for o) /\ be_lt64 (o_withl o) /\ be_lt64 (o_withoutl o).
Definition be_Inv (s : W) : Prop :=
  64 <= cf_bits (w_cfg s) /\ Forall (fun a => be_small (a_mask a)) (w_archs s) /\ Forall be_oinv (w_obs s).

Lemma be_Inv_frame : forall s s', w_cfg s' = w_cfg s -> w_archs s' = w_archs s -> w_obs s' = w_obs s ->
  be_Inv s -> be_Inv s'.
Proof. intros s s' H1 H2 H3 H. unfold be_Inv. rewrite H1, H2, H3. exact H. Qed.

Lemma be_filter_matches_T : forall f m, be_small m -> filter_matches (be_Tf f) m = filter_matches f m.
Proof. intros f m H. unfold filter_matches. cbn. rewrite be_cany_T by exact H. reflexivity. Qed.
Lemma be_p_with_T : forall m o, be_small m -> p_with m (be_To o) = p_with m o.
Proof. intros m o H. unfold p_with. cbn. rewrite be_cany_T by exact H. reflexivity. Qed.

Definition be_rmap {A} (r : res W A) : res W A :=
  match r with Ok a s => Ok a (be_T s) | Err e s => Err e (be_T s) end.

(** [be_hom RV m1 m2]: running [m1] on the 64-bit view of a state is the 64-bit view of running
    [m2] on the state (values related by [RV], same outcome kind), and the invariant is kept. *)
Definition be_hom {A B} (RV : A -> B -> Prop) (m1 : MW A) (m2 : MW B) : Prop :=
  forall s, be_Inv s ->
  match m1 (be_T s), m2 s with
  | Ok a t, Ok b s' => RV a b /\ t = be_T s' /\ be_Inv s'
  | Err _ t, Err _ s' => t = be_T s' /\ be_Inv s'
  | _, _ => False
  end.
Definition be_eqP {A} (P : A -> Prop) : A -> A -> Prop := fun a b => a = b /\ P b.

Lemma be_hom_ret : forall A B (RV : A -> B -> Prop) a b, RV a b -> be_hom RV (ret a) (ret b).
Proof. intros A B RV a b H s Hs. cbn. auto. Qed.
Lemma be_hom_ret_eq : forall A (a b : A), a = b -> be_hom eq (ret a) (ret b).
Proof. intros. apply be_hom_ret. assumption. Qed.
Lemma be_hom_fail : forall A B (RV : A -> B -> Prop) e1 e2, be_hom RV (fail e1) (fail e2).
Proof. intros A B RV e1 e2 s Hs. cbn. auto. Qed.
Lemma be_hom_bind : forall A1 A2 B1 B2 (RV : A1 -> A2 -> Prop) (RV' : B1 -> B2 -> Prop)
  (m1 : MW A1) (m2 : MW A2) (k1 : A1 -> MW B1) (k2 : A2 -> MW B2),
  be_hom RV m1 m2 -> (forall a b, RV a b -> be_hom RV' (k1 a) (k2 b)) -> be_hom RV' (bind m1 k1) (bind m2 k2).
Proof.
  intros A1 A2 B1 B2 RV RV' m1 m2 k1 k2 Hm Hk s Hs. specialize (Hm s Hs). unfold bind.
  destruct (m1 (be_T s)) as [a t|e t], (m2 s) as [b s'|e' s']; try contradiction.
  - destruct Hm as (Hab & -> & Hs'). apply Hk; assumption.
  - exact Hm.
Qed.
Lemma be_hom_get_bind : forall B1 B2 (RV : B1 -> B2 -> Prop) (k1 : W -> MW B1) (k2 : W -> MW B2),
  (forall s0, be_Inv s0 -> be_hom RV (k1 (be_T s0)) (k2 s0)) -> be_hom RV (bind get k1) (bind get k2).
Proof. intros B1 B2 RV k1 k2 H s Hs. unfold bind, get. apply H; exact Hs. Qed.
Lemma be_hom_put : forall t1 t2, t1 = be_T t2 -> be_Inv t2 -> be_hom eq (put t1) (put t2).
Proof. intros t1 t2 H1 H2 s Hs. cbn. auto. Qed.
Lemma be_hom_modify : forall f1 f2 : W -> W,
  (forall s, be_Inv s -> f1 (be_T s) = be_T (f2 s) /\ be_Inv (f2 s)) -> be_hom eq (modify f1) (modify f2).
Proof. intros f1 f2 H s Hs. cbn. destruct (H s Hs) as [H1 H2]. auto. Qed.
Lemma be_hom_guard : forall b1 b2 e1 e2, b1 = b2 -> be_hom eq (guard b1 e1) (guard b2 e2).
Proof. intros b1 b2 e1 e2 -> s Hs. destruct b2; cbn; auto. Qed.
Lemma be_hom_of_opt : forall A (o1 o2 : option A) e1 e2, o1 = o2 -> be_hom eq (of_opt o1 e1) (of_opt o2 e2).
Proof. intros A o1 o2 e1 e2 -> s Hs. destruct o2; cbn; auto. Qed.
Lemma be_hom_whenM : forall b1 b2 m1 m2, b1 = b2 -> be_hom eq m1 m2 -> be_hom eq (whenM b1 m1) (whenM b2 m2).
Proof. intros b1 b2 m1 m2 -> H. destruct b2; cbn [whenM]; [exact H | apply be_hom_ret; reflexivity]. Qed.
Lemma be_hom_forM : forall A (l1 l2 : list A) (f1 f2 : A -> MW unit), l1 = l2 ->
  (forall x, In x l2 -> be_hom eq (f1 x) (f2 x)) -> be_hom eq (forM_ l1 f1) (forM_ l2 f2).
Proof.
  intros A l1 l2 f1 f2 -> H. induction l2 as [|x l IH]; cbn [forM_]; [apply be_hom_ret; reflexivity|].
  eapply be_hom_bind; [apply H; left; reflexivity | intros _ _ _]. apply IH. intros y Hy. apply H. right. exact Hy.
Qed.
Lemma be_hom_mapM : forall A B (l1 l2 : list A) (f1 f2 : A -> MW B), l1 = l2 ->
  (forall x, In x l2 -> be_hom eq (f1 x) (f2 x)) -> be_hom eq (mapM l1 f1) (mapM l2 f2).
Proof.
  intros A B l1 l2 f1 f2 -> H. induction l2 as [|x l IH]; cbn [mapM]; [apply be_hom_ret; reflexivity|].
  eapply be_hom_bind; [apply H; left; reflexivity | intros y1 y2 ->].
  eapply be_hom_bind; [apply IH; intros z Hz; apply H; right; exact Hz | intros ys1 ys2 ->].
  apply be_hom_ret. reflexivity.
Qed.
Lemma be_hom_weaken : forall A B (RV RV' : A -> B -> Prop) m1 m2,
  be_hom RV m1 m2 -> (forall a b, RV a b -> RV' a b) -> be_hom RV' m1 m2.
Proof.
  intros A B RV RV' m1 m2 H HR s Hs. specialize (H s Hs).
  destruct (m1 (be_T s)), (m2 s); try contradiction; [|exact H]. destruct H as (H1 & H2 & H3). auto.
Qed.
(** State-reading pure functions written as [fun s => ...] that return the state unchanged. *)
Lemma be_hom_pure : forall A (g : W -> res W A),
  (forall s, g (be_T s) = be_rmap (g s)) -> (forall s, state_of (g s) = s) -> be_hom eq g g.
Proof.
  intros A g H Hro s Hs. rewrite H. specialize (Hro s). destruct (g s); cbn in *; subst; auto.
Qed.

Lemma be_find_exact_T : forall s tabs rels, find_exact (be_T s) tabs rels = be_rmap (find_exact s tabs rels).
Proof.
  intros s tabs rels. induction tabs as [|t rest IH]; cbn [find_exact]; [reflexivity|].
  change (w_tables (be_T s)) with (w_tables s).
  destruct (nth_error (w_tables s) t); [|reflexivity].
  destruct (tbl_matches_exact _ _); [reflexivity | exact IH | reflexivity].
Qed.
Lemma be_hom_find_exact : forall tabs rels, be_hom eq (fun s => find_exact s tabs rels) (fun s => find_exact s tabs rels).
Proof. intros. apply be_hom_pure; [intros; apply be_find_exact_T | apply be_ro_find_exact]. Qed.
Lemma be_tm_go_T : forall s rels ne l acc, q_tm_go (be_T s) rels ne l acc = be_rmap (q_tm_go s rels ne l acc).
Proof.
  intros s rels ne l. induction l as [|tid rest IH]; intros acc; [reflexivity|].
  rewrite !q_tm_go_cons. change (w_tables (be_T s)) with (w_tables s).
  destruct (nth_error (w_tables s) tid); [|reflexivity].
  destruct (ne && Nat.eqb (t_len t) 0)%bool; [apply IH|].
  destruct (tbl_matches t rels) as [[|]|]; [apply IH | apply IH | reflexivity].
Qed.
Lemma be_tables_matching_T : forall s tabs rels ne,
  tables_matching (be_T s) tabs rels ne = be_rmap (tables_matching s tabs rels ne).
Proof. intros. rewrite !q_tables_matching_eq. apply be_tm_go_T. Qed.
Lemma be_hom_tables_matching : forall tabs rels ne,
  be_hom eq (fun s => tables_matching s tabs rels ne) (fun s => tables_matching s tabs rels ne).
Proof. intros. apply be_hom_pure; [intros; apply be_tables_matching_T | apply be_ro_tables_matching]. Qed.
Lemma be_count_tables_T : forall s tabs rels ne,
  count_tables (be_T s) tabs rels ne = be_rmap (count_tables s tabs rels ne).
Proof.
  intros. unfold count_tables. rewrite be_tables_matching_T.
  destruct (tables_matching s tabs rels ne); reflexivity.
Qed.
Lemma be_hom_count_tables : forall tabs rels ne,
  be_hom eq (fun s => count_tables s tabs rels ne) (fun s => count_tables s tabs rels ne).
Proof. intros. apply be_hom_pure; [intros; apply be_count_tables_T | apply q_ro_count_tables]. Qed.

Lemma be_hom_on_err : forall A (m1 m2 : MW A) (h1 h2 : W -> W),
  be_hom eq m1 m2 -> (forall s, be_Inv s -> h1 (be_T s) = be_T (h2 s) /\ be_Inv (h2 s)) ->
  be_hom eq (on_err m1 h1) (on_err m2 h2).
Proof.
  intros A m1 m2 h1 h2 Hm Hh s Hs. specialize (Hm s Hs). unfold on_err.
  destruct (m1 (be_T s)) as [a t|e t], (m2 s) as [b s'|e' s']; try contradiction; [exact Hm|].
  destruct Hm as [-> Hs']. destruct (Hh s' Hs') as [E Hi]. split; assumption.
Qed.
Lemma be_hom_with_deferred_unlock : forall A b (m1 m2 : MW A),
  be_hom eq m1 m2 -> be_hom eq (with_deferred_unlock b m1) (with_deferred_unlock b m2).
Proof.
  intros A b m1 m2 H. unfold with_deferred_unlock. apply be_hom_on_err; [exact H|].
  intros s Hs. unfold release_bit. change (w_lock (be_T s)) with (w_lock s).
  destruct (lock_unlock (w_lock s) b); (split; [reflexivity | apply (be_Inv_frame s); [reflexivity..|exact Hs]]).
Qed.

(** *** Proof automation for [be_hom] *)
Ltac be_T_norm s0 :=
  change (w_reg (be_T s0)) with (w_reg s0);
  change (w_pool (be_T s0)) with (w_pool s0);
  change (w_index (be_T s0)) with (w_index s0);
  change (w_istarget (be_T s0)) with (w_istarget s0);
  change (w_archs (be_T s0)) with (w_archs s0);
  change (w_tables (be_T s0)) with (w_tables s0);
  change (w_relarchs (be_T s0)) with (w_relarchs s0);
  change (w_compindex (be_T s0)) with (w_compindex s0);
  change (w_archcount (be_T s0)) with (w_archcount s0);
  change (w_version (be_T s0)) with (w_version s0);
  change (w_cheap (be_T s0)) with (w_cheap s0);
  change (w_centries (be_T s0)) with (w_centries s0);
  change (w_cpool (be_T s0)) with (w_cpool s0);
  change (w_lock (be_T s0)) with (w_lock s0);
  change (w_olists (be_T s0)) with (w_olists s0);
  change (w_oagg (be_T s0)) with (w_oagg s0);
  change (w_opool (be_T s0)) with (w_opool s0);
  change (w_ototal (be_T s0)) with (w_ototal s0);
  change (w_omax (be_T s0)) with (w_omax s0);
  change (w_queries (be_T s0)) with (w_queries s0);
  change (w_res (be_T s0)) with (w_res s0);
  change (w_issued (be_T s0)) with (w_issued s0);
  change (w_log (be_T s0)) with (w_log s0);
  change (w_filters (be_T s0)) with (map be_Tf (w_filters s0));
  change (w_obs (be_T s0)) with (map be_To (w_obs s0));
  change (cf_cap (w_cfg (be_T s0))) with (cf_cap (w_cfg s0));
  change (cf_caprel (w_cfg (be_T s0))) with (cf_caprel (w_cfg s0));
  change (cf_bits (w_cfg (be_T s0))) with 64;
  change (alive (be_T s0)) with (alive s0);
  change (is_locked (be_T s0)) with (is_locked s0);
  change (is_rel_comp (be_T s0)) with (is_rel_comp s0);
  change (kind_of (be_T s0)) with (kind_of s0);
  change (find_arch (be_T s0)) with (find_arch s0);
  change (get_agg (be_T s0)) with (get_agg s0);
  change (olist (be_T s0)) with (olist s0);
  change (has_obs (be_T s0)) with (has_obs s0);
  change (count_in_world (be_T s0)) with (count_in_world s0);
  change (snapshot_entity (be_T s0)) with (snapshot_entity s0);
  change (world_view (be_T s0)) with (world_view s0);
  change (handle (be_T s0)) with (handle s0);
  change (rare_component (be_T s0)) with (rare_component s0);
  change (entry_addr (be_T s0)) with (entry_addr s0);
  change (query_archetypes (be_T s0)) with (query_archetypes s0);
  change (stats_vec (be_T s0)) with (stats_vec s0).

Ltac be_Tf_norm f :=
  change (f_ids (be_Tf f)) with (f_ids f);
  change (f_mask (be_Tf f)) with (f_mask f);
  change (f_haswithout (be_Tf f)) with (f_haswithout f);
  change (f_cache (be_Tf f)) with (f_cache f);
  change (f_rels (be_Tf f)) with (f_rels f);
  change (f_unsafe (be_Tf f)) with (f_unsafe f).

Ltac be_To_norm o :=
  change (o_event (be_To o)) with (o_event o);
  change (o_for (be_To o)) with (o_for o);
  change (o_withl (be_To o)) with (o_withl o);
  change (o_withoutl (be_To o)) with (o_withoutl o);
  change (o_excl (be_To o)) with (o_excl o);
  change (o_comps (be_To o)) with (o_comps o);
  change (o_with (be_To o)) with (o_with o);
  change (o_hascomps (be_To o)) with (o_hascomps o);
  change (o_haswith (be_To o)) with (o_haswith o);
  change (o_haswithout (be_To o)) with (o_haswithout o);
  change (o_id (be_To o)) with (o_id o);
  change (o_cb (be_To o)) with (o_cb o).

Ltac be_inv_frame :=
  match goal with H : be_Inv ?s |- be_Inv _ => apply (be_Inv_frame s); [reflexivity | reflexivity | reflexivity | exact H] end.

Create HintDb be_hom discriminated.
#[export] Hint Constants Opaque : be_hom.
#[export] Hint Transparent mask ent rel hrel MW W M : be_hom.
#[export] Hint Extern 0 (be_small _) => assumption : be_hom.
#[export] Hint Extern 0 (be_lt64 _) => assumption : be_hom.
Lemma be_lt64_nil : be_lt64 [].
Proof. constructor. Qed.
#[export] Hint Resolve be_small_0 be_small_of_list be_lt64_nil : be_hom.

Ltac be_rv Hab :=
  cbv beta in Hab; unfold be_eqP in Hab;
  try first
    [ match type of Hab with ?a = be_Tf ?b => subst a; be_Tf_norm b end
    | match type of Hab with ?a = ?b => subst a end
    | match type of Hab with ?a = be_To ?b /\ _ => let H := fresh "Ho" in destruct Hab as [-> H]; be_To_norm b end
    | match type of Hab with ?a = ?b /\ _ =>
        let H := fresh "Hp" in destruct Hab as [-> H]; cbn [fst snd] in H;
        try (let H1 := fresh "Hp" in let H2 := fresh "Hp" in destruct H as [H1 H2])
      end ].

Ltac be_hom_step :=
  lazymatch goal with
  | |- be_hom _ (let x := _ in _) (let y := _ in _) => cbv zeta
  | |- be_hom _ (ret _) (ret _) =>
      first [ apply be_hom_ret_eq; reflexivity
            | apply be_hom_ret; unfold be_eqP; cbv beta; try (split; [reflexivity | cbn [fst snd]; auto]) ]
  | |- be_hom _ (fail _) (fail _) => apply be_hom_fail
  | |- be_hom _ (guard _ _) (guard _ _) => apply be_hom_guard; reflexivity
  | |- be_hom _ (of_opt _ _) (of_opt _ _) => apply be_hom_of_opt; reflexivity
  | |- be_hom _ (put _) (put _) => apply be_hom_put; [reflexivity | be_inv_frame]
  | |- be_hom _ (modify _) (modify _) =>
      first [ apply be_hom_modify; let sx := fresh "sx" in let HI := fresh "HI" in intros sx HI; split; [reflexivity | be_inv_frame]
            | solve [typeclasses eauto 4 with be_hom] ]
  | |- be_hom _ (whenM _ _) (whenM _ _) => apply be_hom_whenM; [reflexivity|]
  | |- be_hom _ (with_deferred_unlock _ _) (with_deferred_unlock _ _) => apply be_hom_with_deferred_unlock
  | |- be_hom _ (forM_ _ _) (forM_ _ _) => apply be_hom_forM; [reflexivity | intros ? ?]
  | |- be_hom _ (mapM _ _) (mapM _ _) => apply be_hom_mapM; [reflexivity | intros ? ?]
  | |- be_hom _ (bind get _) (bind get _) =>
      apply be_hom_get_bind; let s0 := fresh "s0" in let HI := fresh "HI" in intros s0 HI; cbv beta; be_T_norm s0
  | |- be_hom _ (bind _ _) (bind _ _) =>
      eapply be_hom_bind;
        [ try solve [repeat be_hom_step]
        | let a := fresh "a" in let b := fresh "b" in let Hab := fresh "Hab" in intros a b Hab; be_rv Hab ]
  | |- be_hom _ (fun s1 => find_exact s1 _ _) (fun s2 => find_exact s2 _ _) => apply be_hom_find_exact
  | |- be_hom _ (fun s1 => tables_matching s1 _ _ _) (fun s2 => tables_matching s2 _ _ _) => apply be_hom_tables_matching
  | |- be_hom _ (fun s1 => count_tables s1 _ _ _) (fun s2 => count_tables s2 _ _ _) => apply be_hom_count_tables
  | |- be_hom _ (match ?x with _ => _ end) (match ?y with _ => _ end) => change x with y; destruct y
  | |- be_hom _ _ _ => solve [typeclasses eauto 4 with be_hom]
  end.
Ltac be_hom_tac := repeat be_hom_step.

(** *** Every operation commutes with the 64-bit view *)
Lemma be_hom_getT : forall i, be_hom eq (getT i) (getT i).
Proof. intros. unfold getT. be_hom_tac. Qed.
Lemma be_hom_modT : forall i f, be_hom eq (modT i f) (modT i f).
Proof. intros. unfold modT. be_hom_tac. Qed.
Lemma be_hom_setT : forall i t, be_hom eq (setT i t) (setT i t).
Proof. intros. unfold setT. apply be_hom_modT. Qed.
#[export] Hint Resolve be_hom_getT be_hom_modT be_hom_setT : be_hom.

Lemma be_Forall_nth : forall A (P : A -> Prop) l i x, Forall P l -> nth_error l i = Some x -> P x.
Proof. intros A P l i x H Hn. rewrite Forall_forall in H. apply H. eapply nth_error_In. exact Hn. Qed.
Lemma be_Forall_upd : forall A (P : A -> Prop) l i x, Forall P l -> P x -> Forall P (upd i x l).
Proof.
  intros A P l. induction l as [|h t IH]; intros i x H Hx; [destruct i; cbn; constructor|].
  inversion H; subst. destruct i; cbn; constructor; auto.
Qed.
Lemma be_Forall_updf : forall A (P : A -> Prop) (f : A -> A) l i, Forall P l -> (forall x, P x -> P (f x)) -> Forall P (updf i f l).
Proof.
  intros A P f l i H Hf. unfold updf. destruct (nth_error l i) eqn:E; [|exact H].
  apply be_Forall_upd; [exact H|]. apply Hf. eapply be_Forall_nth; eassumption.
Qed.

Lemma be_hom_getA : forall i, be_hom (be_eqP (fun a => be_small (a_mask a))) (getA i) (getA i).
Proof.
  intros i s Hs. unfold getA, bind, get. change (w_archs (be_T s)) with (w_archs s).
  destruct (nth_error (w_archs s) i) as [a|] eqn:E; cbn; [|auto].
  split; [|auto]. unfold be_eqP. split; [reflexivity|]. unfold be_Inv in Hs. destruct Hs as (_ & Ha & _). exact (be_Forall_nth _ (fun a => be_small (a_mask a)) _ _ _ Ha E).
Qed.
Lemma be_hom_modA : forall i f, (forall a, a_mask (f a) = a_mask a) -> be_hom eq (modA i f) (modA i f).
Proof.
  intros i f Hf. unfold modA. apply be_hom_modify. intros s (H1 & H2 & H3). split; [reflexivity|].
  split; [exact H1|]. split; [|exact H3]. cbn. apply be_Forall_updf; [exact H2|]. intros a Ha. rewrite Hf. exact Ha.
Qed.
#[export] Hint Resolve be_hom_getA : be_hom.
Lemma be_mask_add_table_cols : forall tid kinds i targets a, a_mask (add_table_cols tid i kinds targets a) = a_mask a.
Proof.
  intros tid kinds. induction kinds as [|k ks IH]; intros i targets a; [reflexivity|].
  destruct targets as [|tg tgs]; [reflexivity|]. cbn [add_table_cols]. rewrite IH. destruct (ck_rel k); reflexivity.
Qed.
Lemma be_mask_arch_add_table : forall a tid t, a_mask (arch_add_table a tid t) = a_mask a.
Proof.
  intros. unfold arch_add_table. destruct (negb (arch_has_rels a)); [reflexivity|]. rewrite be_mask_add_table_cols. reflexivity.
Qed.
Lemma be_mask_arch_free_table : forall a tid, a_mask (arch_free_table a tid) = a_mask a.
Proof. intros. unfold arch_free_table. destruct (Nat.leb (a_numrel a) 1); reflexivity. Qed.
Lemma be_mask_remove_from_targets_cols : forall tid kinds i targets a,
  a_mask (remove_from_targets_cols tid i kinds targets a) = a_mask a.
Proof.
  intros tid kinds. induction kinds as [|k ks IH]; intros i targets a; [reflexivity|].
  destruct targets as [|tg tgs]; [reflexivity|]. cbn [remove_from_targets_cols]. rewrite IH. destruct (ck_rel k); reflexivity.
Qed.
#[export] Hint Extern 1 (be_hom _ (modA _ _) (modA _ _)) =>
  apply be_hom_modA; intros ?;
  solve [ reflexivity | apply be_mask_arch_add_table | apply be_mask_arch_free_table
        | apply be_mask_remove_from_targets_cols ] : be_hom.

Lemma be_hom_check_locked : be_hom eq check_locked check_locked.
Proof. unfold check_locked. be_hom_tac. Qed.
Lemma be_hom_lockM : be_hom eq lockM lockM.
Proof. unfold lockM. be_hom_tac. Qed.
Lemma be_hom_unlockM : forall b, be_hom eq (unlockM b) (unlockM b).
Proof. intros. unfold unlockM. be_hom_tac. Qed.
#[export] Hint Resolve be_hom_check_locked be_hom_lockM be_hom_unlockM : be_hom.

Lemma be_hom_arch_get_table : forall a rels, be_hom eq (arch_get_table a rels) (arch_get_table a rels).
Proof. intros. unfold arch_get_table. be_hom_tac. Qed.
#[export] Hint Resolve be_hom_arch_get_table : be_hom.

Lemma be_hom_cache_add_table : forall tid t am, be_small am -> be_hom eq (cache_add_table tid t am) (cache_add_table tid t am).
Proof.
  intros tid t am Ham. unfold cache_add_table. do 4 be_hom_step; [|be_hom_tac].
  rewrite nth_error_map. destruct (nth_error (w_filters s1) (ce_filter c)) as [f|]; cbn [option_map]; [|be_hom_tac].
  rewrite be_filter_matches_T by exact Ham. be_hom_tac.
Qed.
Lemma be_hom_cache_remove_table : forall tid, be_hom eq (cache_remove_table tid) (cache_remove_table tid).
Proof. intros. unfold cache_remove_table. be_hom_tac. Qed.
Lemma be_hom_create_archetype_bare : forall m, be_small m -> be_hom eq (create_archetype_bare m) (create_archetype_bare m).
Proof.
  intros m Hm. unfold create_archetype_bare. be_hom_step. be_hom_step; [|be_hom_tac].
  apply be_hom_put; [reflexivity|]. unfold be_Inv in *. destruct HI as (H1 & H2 & H3). cbn.
  split; [exact H1|]. split; [|exact H3]. apply Forall_app. split; [exact H2|]. constructor; [exact Hm | constructor].
Qed.
#[export] Hint Resolve be_hom_cache_add_table be_hom_cache_remove_table be_hom_create_archetype_bare : be_hom.
Lemma be_hom_check_rel : forall r, be_hom eq (check_rel r) (check_rel r).
Proof. intros. unfold check_rel. be_hom_tac. Qed.
#[export] Hint Resolve be_hom_check_rel : be_hom.
Lemma be_hom_register_targets : forall rels, be_hom eq (register_targets rels) (register_targets rels).
Proof. intros. unfold register_targets. be_hom_tac. Qed.
#[export] Hint Resolve be_hom_register_targets : be_hom.
Lemma be_hom_create_table : forall aid rels, be_hom eq (create_table aid rels) (create_table aid rels).
Proof. intros. unfold create_table. be_hom_tac. Qed.
#[export] Hint Resolve be_hom_create_table : be_hom.
(* createArchetype (as repaired): the archetype record, then the table of a relation-free archetype *)
Lemma be_hom_create_archetype : forall m, be_small m -> be_hom eq (create_archetype m) (create_archetype m).
Proof. intros m Hm. unfold create_archetype. be_hom_tac. Qed.
#[export] Hint Resolve be_hom_create_archetype : be_hom.
Lemma be_hom_find_or_create_arch : forall m, be_small m -> be_hom eq (find_or_create_arch m) (find_or_create_arch m).
Proof. intros. unfold find_or_create_arch. be_hom_tac. Qed.
#[export] Hint Resolve be_hom_find_or_create_arch : be_hom.
Lemma be_hom_get_or_create_table : forall aid rels, be_hom eq (get_or_create_table aid rels) (get_or_create_table aid rels).
Proof. intros. unfold get_or_create_table. be_hom_tac. Qed.
#[export] Hint Resolve be_hom_get_or_create_table : be_hom.
Lemma be_hom_gf_remove : forall ids m, be_small m -> be_hom (be_eqP be_small) (gf_remove ids m) (gf_remove ids m).
Proof.
  intros ids. induction ids as [|c t IH]; intros m Hm; cbn [gf_remove]; [be_hom_tac|].
  destruct (mk_get m c); [apply IH, be_small_clear, Hm | be_hom_tac].
Qed.
Lemma be_hom_gf_add : forall st ids m, be_small m -> be_lt64 ids ->
  be_hom (be_eqP be_small) (gf_add st ids m) (gf_add st ids m).
Proof.
  intros st ids. induction ids as [|c t IH]; intros m Hm Hl; cbn [gf_add]; [be_hom_tac|].
  inversion Hl; subst. destruct (mk_get m c); [be_hom_tac|].
  destruct (match st with Some st0 => mk_get st0 c | None => false end); [be_hom_tac|].
  apply IH; [apply be_small_set; assumption | assumption].
Qed.
#[export] Hint Resolve be_hom_gf_remove be_hom_gf_add : be_hom.
Lemma be_hom_find_or_create_table_add : forall old add rels m0, be_small m0 -> be_lt64 add ->
  be_hom (be_eqP (fun r => be_small (snd r))) (find_or_create_table_add old add rels m0) (find_or_create_table_add old add rels m0).
Proof. intros. unfold find_or_create_table_add. be_hom_tac. Qed.
Lemma be_hom_find_or_create_table_remove : forall old rem m0, be_small m0 ->
  be_hom (be_eqP (fun r => be_small (snd (fst r)))) (find_or_create_table_remove old rem m0) (find_or_create_table_remove old rem m0).
Proof. intros. unfold find_or_create_table_remove. be_hom_tac. Qed.
Lemma be_hom_find_or_create_table : forall old add rem rels m0, be_small m0 -> be_lt64 add ->
  be_hom (be_eqP (fun r => be_small (snd (fst r)))) (find_or_create_table old add rem rels m0) (find_or_create_table old add rem rels m0).
Proof. intros. unfold find_or_create_table. be_hom_tac. Qed.
#[export] Hint Resolve be_hom_find_or_create_table_add be_hom_find_or_create_table_remove be_hom_find_or_create_table : be_hom.

Lemma be_hom_set_index : forall id v, be_hom eq (set_index id v) (set_index id v).
Proof.
  intros. unfold set_index. apply be_hom_modify. intros s HI. change (w_index (be_T s)) with (w_index s).
  destruct (Nat.eqb id (length (w_index s))); (split; [reflexivity | be_inv_frame]).
Qed.
Lemma be_hom_get_index : forall e, be_hom eq (get_index e) (get_index e).
Proof. intros. unfold get_index. be_hom_tac. Qed.
Lemma be_hom_pool_getM : be_hom eq pool_getM pool_getM.
Proof. unfold pool_getM. be_hom_tac. Qed.
Lemma be_hom_pool_recycleM : forall e, be_hom eq (pool_recycleM e) (pool_recycleM e).
Proof. intros. unfold pool_recycleM. be_hom_tac. Qed.
Lemma be_hom_tbl_addM : forall tid e, be_hom eq (tbl_addM tid e) (tbl_addM tid e).
Proof. intros. unfold tbl_addM. be_hom_tac. Qed.
Lemma be_hom_remove_row : forall tid row, be_hom eq (remove_row tid row) (remove_row tid row).
Proof. intros. unfold remove_row. be_hom_tac. Qed.
Lemma be_hom_copy_row : forall old new m row nidx, be_hom eq (copy_row old new m row nidx) (copy_row old new m row nidx).
Proof. intros. unfold copy_row. be_hom_tac. Qed.
Lemma be_hom_move_entities : forall src dst count, be_hom eq (move_entities src dst count) (move_entities src dst count).
Proof. intros. unfold move_entities. be_hom_tac. Qed.
#[export] Hint Resolve be_hom_set_index be_hom_get_index be_hom_pool_getM be_hom_pool_recycleM
  be_hom_tbl_addM be_hom_remove_row be_hom_copy_row be_hom_move_entities : be_hom.

Lemma be_hom_etu_go : forall t rels tg, be_hom eq (be_etu_go t rels tg) (be_etu_go t rels tg).
Proof.
  intros t rels. induction rels as [|[c x] rest IH]; intros tg; unfold be_etu_go; fold (be_etu_go t); [be_hom_tac|].
  destruct (tbl_colidx t c); [apply IH | be_hom_tac].
Qed.
Lemma be_hom_et_go : forall t rels tg cm ch, be_hom eq (be_et_go t rels tg cm ch) (be_et_go t rels tg cm ch).
Proof.
  intros t rels. induction rels as [|[c x] rest IH]; intros tg cm ch; unfold be_et_go; fold (be_et_go t); [be_hom_tac|].
  destruct (tbl_colidx t c); [|be_hom_tac].
  destruct (negb (ck_rel (nth n (t_kinds t) (Build_ckind false false true)))); [be_hom_tac|].
  destruct (nth_error tg n); [|be_hom_tac].
  destruct (ent_eqb x e); apply IH.
Qed.
#[export] Hint Resolve be_hom_etu_go be_hom_et_go : be_hom.
Lemma be_hom_exchange_targets_unchecked : forall t rels, be_hom eq (exchange_targets_unchecked t rels) (exchange_targets_unchecked t rels).
Proof. intros. unfold exchange_targets_unchecked. fold (be_etu_go t). be_hom_tac. Qed.
Lemma be_hom_exchange_targets : forall t rels, be_hom eq (exchange_targets t rels) (exchange_targets t rels).
Proof. intros. unfold exchange_targets. fold (be_et_go t). be_hom_tac. Qed.
#[export] Hint Resolve be_hom_exchange_targets_unchecked be_hom_exchange_targets : be_hom.

Lemma be_hom_mod_agg : forall evt f, be_hom eq (mod_agg evt f) (mod_agg evt f).
Proof. intros. unfold mod_agg. be_hom_tac. Qed.
Lemma be_hom_getO : forall oi, be_hom (fun o1 o2 => o1 = be_To o2 /\ be_oinv o2) (getO oi) (getO oi).
Proof.
  intros oi s Hs. unfold getO, bind, get. change (w_obs (be_T s)) with (map be_To (w_obs s)).
  rewrite nth_error_map. destruct (nth_error (w_obs s) oi) as [o|] eqn:E; cbn; [|auto].
  split; [|auto]. split; [reflexivity|]. unfold be_Inv in Hs. destruct Hs as (_ & _ & Ho).
  exact (be_Forall_nth _ be_oinv _ _ _ Ho E).
Qed.
Lemma be_map_updf : forall A (g : A -> A) (f1 f2 : A -> A) l i,
  (forall x, In x l -> f1 (g x) = g (f2 x)) -> updf i f1 (map g l) = map g (updf i f2 l).
Proof.
  intros A g f1 f2 l i H. unfold updf. rewrite nth_error_map.
  destruct (nth_error l i) as [x|] eqn:E; cbn [option_map]; [|reflexivity].
  rewrite H by (eapply nth_error_In; exact E). clear H. revert i E.
  induction l as [|h t IH]; intros i E; [destruct i; discriminate|].
  destruct i; cbn; [reflexivity|]. f_equal. apply IH. exact E.
Qed.
Lemma be_T_set_obs : forall s (g1 g2 : list oobj -> list oobj),
  g1 (map be_To (w_obs s)) = map be_To (g2 (w_obs s)) -> be_T s <| w_obs ::= g1 |> = be_T (s <| w_obs ::= g2 |>).
Proof.
  intros s g1 g2 H. change (be_T s <| w_obs ::= g1 |>) with (be_T s <| w_obs := g1 (map be_To (w_obs s)) |>).
  rewrite H. reflexivity.
Qed.
Lemma be_T_set_filters : forall s (g1 g2 : list fobj -> list fobj),
  g1 (map be_Tf (w_filters s)) = map be_Tf (g2 (w_filters s)) -> be_T s <| w_filters ::= g1 |> = be_T (s <| w_filters ::= g2 |>).
Proof.
  intros s g1 g2 H. change (be_T s <| w_filters ::= g1 |>) with (be_T s <| w_filters := g1 (map be_Tf (w_filters s)) |>).
  rewrite H. reflexivity.
Qed.
Lemma be_hom_modO : forall oi f1 f2,
  (forall o, be_oinv o -> f1 (be_To o) = be_To (f2 o) /\ be_oinv (f2 o)) -> be_hom eq (modO oi f1) (modO oi f2).
Proof.
  intros oi f1 f2 H. unfold modO. apply be_hom_modify. intros s HI. unfold be_Inv in HI. destruct HI as (H1 & H2 & H3).
  split.
  - apply be_T_set_obs. apply be_map_updf. intros x Hx. apply H. rewrite Forall_forall in H3. apply H3, Hx.
  - split; [exact H1|]. split; [exact H2|]. cbn. apply be_Forall_updf; [exact H3|]. intros x Hx. apply H, Hx.
Qed.
#[export] Hint Resolve be_hom_mod_agg be_hom_getO : be_hom.

Lemma be_oinv_for : forall o c, be_oinv o -> In c (o_for o) -> c < 64.
Proof. intros o c (_ & H & _) Hc. unfold be_lt64 in H. rewrite Forall_forall in H. apply H, Hc. Qed.
Lemma be_oinv_withl : forall o c, be_oinv o -> In c (o_withl o) -> c < 64.
Proof. intros o c (_ & _ & H & _) Hc. unfold be_lt64 in H. rewrite Forall_forall in H. apply H, Hc. Qed.
Lemma be_oinv_withoutl : forall o c, be_oinv o -> In c (o_withoutl o) -> c < 64.
Proof. intros o c (_ & _ & _ & H) Hc. unfold be_lt64 in H. rewrite Forall_forall in H. apply H, Hc. Qed.

Lemma be_To_with_set : forall o c, c < 64 ->
  (be_To o) <| o_with ::= fun m => mk_set m c |> <| o_haswith := true |> = be_To (o <| o_with ::= fun m => mk_set m c |> <| o_haswith := true |>).
Proof. intros. reflexivity. Qed.
Lemma be_To_without_set : forall o c, c < 64 ->
  (be_To o) <| o_without ::= fun m => mk_set m c |> <| o_haswithout := true |> =
  be_To (o <| o_without ::= fun m => mk_set m c |> <| o_haswithout := true |>).
Proof. intros o c H. destruct o. unfold be_To, set. cbn. rewrite be_set_T by exact H. reflexivity. Qed.
Lemma be_To_without_not : forall o b, be_small (o_with o) -> 64 <= b ->
  (be_To o) <| o_without := mk_not 64 (o_with o) |> <| o_haswithout := true |> =
  be_To (o <| o_without := mk_not b (o_with o) |> <| o_haswithout := true |>).
Proof. intros o b H Hb. destruct o. unfold be_To, set. cbn in *. rewrite be_not_T by assumption. reflexivity. Qed.

(** [modO] with an update that does not involve [o_without] and keeps [o_with] and the lists *)
Ltac be_modO_plain :=
  apply be_hom_modO; let o := fresh "o" in let Ho := fresh "Ho" in intros o Ho; split; [reflexivity | exact Ho].
#[export] Hint Extern 2 (be_hom _ (modO _ _) (modO _ _)) => be_modO_plain : be_hom.

Lemma be_hom_modO_with : forall oi c, c < 64 ->
  be_hom eq (modO oi (fun o => o <| o_with ::= fun m => mk_set m c |> <| o_haswith := true |>))
            (modO oi (fun o => o <| o_with ::= fun m => mk_set m c |> <| o_haswith := true |>)).
Proof.
  intros oi c Hc. apply be_hom_modO. intros o (H1 & H2 & H3 & H4). split; [reflexivity|].
  split; [cbn; apply be_small_set; assumption|]. repeat split; assumption.
Qed.
Lemma be_hom_modO_without : forall oi c, c < 64 ->
  be_hom eq (modO oi (fun o => o <| o_without ::= fun m => mk_set m c |> <| o_haswithout := true |>))
            (modO oi (fun o => o <| o_without ::= fun m => mk_set m c |> <| o_haswithout := true |>)).
Proof.
  intros oi c Hc. apply be_hom_modO. intros o Ho. split; [apply be_To_without_set; exact Hc | exact Ho].
Qed.
Lemma be_hom_modO_excl : forall oi b, 64 <= b ->
  be_hom eq (modO oi (fun o => o <| o_without := mk_not 64 (o_with o) |> <| o_haswithout := true |>))
            (modO oi (fun o => o <| o_without := mk_not b (o_with o) |> <| o_haswithout := true |>)).
Proof.
  intros oi b Hb. apply be_hom_modO. intros o Ho. split; [|exact Ho].
  change (o_with (be_To o)) with (o_with o). apply be_To_without_not; [apply Ho | exact Hb].
Qed.

Ltac be_modO_finish :=
  first [ apply be_hom_modO_with; first [eapply be_oinv_for; eassumption | eapply be_oinv_withl; eassumption]
        | apply be_hom_modO_without; eapply be_oinv_withoutl; eassumption
        | apply be_hom_modO_excl; match goal with H : be_Inv ?s |- 64 <= cf_bits (w_cfg ?s) => apply H end ].

Lemma be_hom_add_observer : forall oi, be_hom eq (add_observer oi) (add_observer oi).
Proof. intros. unfold add_observer. be_hom_tac; be_modO_finish. Qed.

Lemma be_objs_of_T : forall s l, objs_of (be_T s) l = map be_To (objs_of s l).
Proof.
  intros s l. unfold objs_of. change (w_obs (be_T s)) with (map be_To (w_obs s)).
  induction l as [|oi rest IH]; [reflexivity|]. cbn [flat_map]. rewrite IH, nth_error_map, map_app.
  destruct (nth_error (w_obs s) oi); reflexivity.
Qed.
Lemma be_recompute_with_T : forall objs acc, recompute_with (map be_To objs) acc = recompute_with objs acc.
Proof. intros objs. induction objs as [|o t IH]; intros acc; [reflexivity|]. cbn. rewrite IH. reflexivity. Qed.
Lemma be_recompute_comps_T : forall objs acc, recompute_comps (map be_To objs) acc = recompute_comps objs acc.
Proof. intros objs. induction objs as [|o t IH]; intros acc; [reflexivity|]. cbn. rewrite IH. reflexivity. Qed.

Lemma be_hom_remove_observer : forall oi, be_hom eq (remove_observer oi) (remove_observer oi).
Proof.
  intros. unfold remove_observer. be_hom_tac.
  rewrite !be_objs_of_T, be_recompute_with_T, be_recompute_comps_T. be_hom_tac.
Qed.
#[export] Hint Resolve be_hom_add_observer be_hom_remove_observer : be_hom.
Lemma be_hom_reset_observers : be_hom eq reset_observers reset_observers.
Proof. unfold reset_observers. be_hom_tac. Qed.
Lemma be_hom_log : forall l, be_hom eq (log l) (log l).
Proof. intros. unfold log. be_hom_tac. Qed.
#[export] Hint Resolve be_hom_reset_observers be_hom_log : be_hom.
Lemma be_hom_run_callback : forall oi e, be_hom eq (run_callback oi e) (run_callback oi e).
Proof.
  intros. unfold run_callback. be_hom_tac.
  rewrite nth_error_map. destruct (nth_error (w_obs s2) n) as [ok|]; cbn [option_map]; [|be_hom_tac].
  be_To_norm ok. be_hom_tac.
Qed.
#[export] Hint Resolve be_hom_run_callback : be_hom.

Lemma be_hom_fire_loop : forall cb pred e l found,
  (forall o, pred (be_To o) = pred o) -> (forall oi x, be_hom eq (cb oi x) (cb oi x)) ->
  be_hom eq (fire_loop cb pred e l found) (fire_loop cb pred e l found).
Proof.
  intros cb pred e l found Hp Hcb. revert found. induction l as [|oi rest IH]; intros found; cbn [fire_loop]; [be_hom_tac|].
  eapply be_hom_bind; [apply be_hom_getO | intros o1 o2 [-> Ho]]. rewrite Hp.
  destruct (pred o2); [|apply IH]. eapply be_hom_bind; [apply Hcb | intros ? ? _; apply IH].
Qed.
Lemma be_hom_fire : forall evt early pred e eo, (forall o, pred (be_To o) = pred o) ->
  be_hom eq (fire evt early pred e eo) (fire evt early pred e eo).
Proof.
  intros evt early pred e eo Hp. unfold fire, fire_with. be_hom_step.
  destruct (eo && early (get_agg s0 evt))%bool; [be_hom_tac|].
  apply be_hom_fire_loop; [exact Hp | intros; apply be_hom_run_callback].
Qed.

Lemma be_p_entity_rel_T : forall m o, be_small m -> p_entity_rel m (be_To o) = p_entity_rel m o.
Proof. intros m o H. unfold p_entity_rel. rewrite be_p_with_T by exact H. reflexivity. Qed.
Lemma be_p_add_T : forall old new o, be_small old -> p_add old new (be_To o) = p_add old new o.
Proof. intros old new o H. unfold p_add. rewrite be_p_with_T by exact H. reflexivity. Qed.
Lemma be_p_remove_T : forall old new o, be_small old -> p_remove old new (be_To o) = p_remove old new o.
Proof. intros old new o H. unfold p_remove. rewrite be_p_with_T by exact H. reflexivity. Qed.
Lemma be_p_set_T : forall cm em o, be_small em -> p_set cm em (be_To o) = p_set cm em o.
Proof. intros cm em o H. unfold p_set. rewrite be_p_with_T by exact H. reflexivity. Qed.

Lemma be_hom_fire_create_entity : forall e m eo, be_small m -> be_hom eq (fire_create_entity e m eo) (fire_create_entity e m eo).
Proof. intros. apply be_hom_fire. intros; apply be_p_with_T; assumption. Qed.
Lemma be_hom_fire_remove_entity : forall e m eo, be_small m -> be_hom eq (fire_remove_entity e m eo) (fire_remove_entity e m eo).
Proof. intros. apply be_hom_fire. intros; apply be_p_with_T; assumption. Qed.
Lemma be_hom_fire_create_entity_rel : forall e m eo, be_small m ->
  be_hom eq (fire_create_entity_rel e m eo) (fire_create_entity_rel e m eo).
Proof. intros. apply be_hom_fire. intros; apply be_p_entity_rel_T; assumption. Qed.
Lemma be_hom_fire_remove_entity_rel : forall e m eo, be_small m ->
  be_hom eq (fire_remove_entity_rel e m eo) (fire_remove_entity_rel e m eo).
Proof. intros. apply be_hom_fire. intros; apply be_p_entity_rel_T; assumption. Qed.
Lemma be_hom_fire_add : forall evt e old new eo, be_small old -> be_hom eq (fire_add evt e old new eo) (fire_add evt e old new eo).
Proof. intros. apply be_hom_fire. intros; apply be_p_add_T; assumption. Qed.
Lemma be_hom_fire_remove : forall evt e old new eo, be_small old ->
  be_hom eq (fire_remove evt e old new eo) (fire_remove evt e old new eo).
Proof. intros. apply be_hom_fire. intros; apply be_p_remove_T; assumption. Qed.
Lemma be_hom_fire_set : forall evt e cm em eo, be_small em -> be_hom eq (fire_set evt e cm em eo) (fire_set evt e cm em eo).
Proof. intros. apply be_hom_fire. intros; apply be_p_set_T; assumption. Qed.
#[export] Hint Resolve be_hom_fire_create_entity be_hom_fire_remove_entity be_hom_fire_create_entity_rel
  be_hom_fire_remove_entity_rel be_hom_fire_add be_hom_fire_remove be_hom_fire_set : be_hom.
Lemma be_hom_fire_create_entity_if_has : forall e m, be_small m ->
  be_hom eq (fire_create_entity_if_has e m) (fire_create_entity_if_has e m).
Proof. intros. unfold fire_create_entity_if_has. be_hom_tac. Qed.
Lemma be_hom_fire_create_entity_rel_if_has : forall e m, be_small m ->
  be_hom eq (fire_create_entity_rel_if_has e m) (fire_create_entity_rel_if_has e m).
Proof. intros. unfold fire_create_entity_rel_if_has. be_hom_tac. Qed.
Lemma be_hom_fire_add_if_has : forall evt e old new, be_small old ->
  be_hom eq (fire_add_if_has evt e old new) (fire_add_if_has evt e old new).
Proof. intros. unfold fire_add_if_has. be_hom_tac. Qed.
#[export] Hint Resolve be_hom_fire_create_entity_if_has be_hom_fire_create_entity_rel_if_has be_hom_fire_add_if_has : be_hom.
Lemma be_hom_fire_rows : forall (f : ent -> bool -> MW bool) es eo,
  (forall e b, be_hom eq (f e b) (f e b)) -> be_hom eq (fire_rows f es eo) (fire_rows f es eo).
Proof.
  intros f es eo Hf. revert eo. induction es as [|e rest IH]; intros eo; cbn [fire_rows]; [be_hom_tac|].
  eapply be_hom_bind; [apply Hf | intros ? found ->]. destruct found; [apply IH | be_hom_tac].
Qed.
Ltac be_hom_rows := apply be_hom_fire_rows; intros ? ?; solve [typeclasses eauto 4 with be_hom].

Lemma be_hom_set_index_direct : forall e tid row, be_hom eq (set_index_direct e tid row) (set_index_direct e tid row).
Proof. intros. unfold set_index_direct. be_hom_tac. Qed.
#[export] Hint Resolve be_hom_set_index_direct : be_hom.
Lemma be_hom_new_entity : forall ids rels, be_lt64 ids ->
  be_hom (be_eqP (fun r => be_small (snd r))) (new_entity ids rels) (new_entity ids rels).
Proof. intros. unfold new_entity. be_hom_tac. Qed.
Lemma be_hom_create_entity : forall tid, be_hom eq (create_entity tid) (create_entity tid).
Proof. intros. unfold create_entity. be_hom_tac. Qed.
Lemma be_hom_create_entities : forall tid count, be_hom eq (create_entities tid count) (create_entities tid count).
Proof. intros. unfold create_entities. be_hom_tac. Qed.
#[export] Hint Resolve be_hom_new_entity be_hom_create_entity be_hom_create_entities : be_hom.
Lemma be_hom_new_entities : forall count ids rels, be_lt64 ids -> be_hom eq (new_entities count ids rels) (new_entities count ids rels).
Proof. intros. unfold new_entities. be_hom_tac. Qed.
Lemma be_hom_rows_of : forall tid start n, be_hom eq (rows_of tid start n) (rows_of tid start n).
Proof. intros. unfold rows_of. be_hom_tac. Qed.
Lemma be_hom_arch_mask_of_table : forall tid, be_hom (be_eqP be_small) (arch_mask_of_table tid) (arch_mask_of_table tid).
Proof. intros. unfold arch_mask_of_table. be_hom_tac. Qed.
#[export] Hint Resolve be_hom_new_entities be_hom_rows_of be_hom_arch_mask_of_table : be_hom.
Lemma be_hom_w_add : forall e add rels, be_lt64 add ->
  be_hom (be_eqP (fun r => be_small (fst r) /\ be_small (snd r))) (w_add e add rels) (w_add e add rels).
Proof. intros. unfold w_add. be_hom_tac. Qed.
Lemma be_hom_fire_remove_events : forall e old new rr, be_small old ->
  be_hom eq (fire_remove_events e old new rr) (fire_remove_events e old new rr).
Proof. intros. unfold fire_remove_events. be_hom_tac. Qed.
#[export] Hint Resolve be_hom_w_add be_hom_fire_remove_events : be_hom.
Lemma be_hom_w_remove : forall e rem, be_hom eq (w_remove e rem) (w_remove e rem).
Proof. intros. unfold w_remove. be_hom_tac. Qed.
Lemma be_hom_w_exchange : forall e add rem rels, be_lt64 add ->
  be_hom (be_eqP (fun r => be_small (fst r) /\ be_small (snd r))) (w_exchange e add rem rels) (w_exchange e add rem rels).
Proof. intros. unfold w_exchange. be_hom_tac. Qed.
Lemma be_hom_copy_all : forall src dst row nidx, be_hom eq (copy_all src dst row nidx) (copy_all src dst row nidx).
Proof. intros. unfold copy_all. be_hom_tac. Qed.
#[export] Hint Resolve be_hom_w_remove be_hom_w_exchange be_hom_copy_all : be_hom.
Lemma be_hom_w_set_relations : forall e rels, be_hom eq (w_set_relations e rels) (w_set_relations e rels).
Proof. intros. unfold w_set_relations. be_hom_tac. Qed.
Lemma be_hom_free_table : forall aid tid, be_hom eq (free_table aid tid) (free_table aid tid).
Proof. intros. unfold free_table. be_hom_tac. Qed.
#[export] Hint Resolve be_hom_w_set_relations be_hom_free_table : be_hom.
Lemma be_hom_cleanup_archetypes : forall target, be_hom eq (cleanup_archetypes target) (cleanup_archetypes target).
Proof. intros. unfold cleanup_archetypes. be_hom_tac. Qed.
#[export] Hint Resolve be_hom_cleanup_archetypes : be_hom.
Lemma be_hom_storage_remove_entity : forall e, be_hom eq (storage_remove_entity e) (storage_remove_entity e).
Proof. intros. unfold storage_remove_entity. be_hom_tac. Qed.
Lemma be_hom_w_copy_entity : forall e, be_hom eq (w_copy_entity e) (w_copy_entity e).
Proof. intros. unfold w_copy_entity. be_hom_tac. Qed.
#[export] Hint Resolve be_hom_storage_remove_entity be_hom_w_copy_entity : be_hom.

Lemma be_hom_getF : forall fi, be_hom (fun f1 f2 => f1 = be_Tf f2) (getF fi) (getF fi).
Proof.
  intros fi s Hs. unfold getF, bind, get. change (w_filters (be_T s)) with (map be_Tf (w_filters s)).
  rewrite nth_error_map. destruct (nth_error (w_filters s) fi) as [f|]; cbn; auto.
Qed.
Lemma be_hom_to_relations : forall m rels, be_hom eq (to_relations m rels) (to_relations m rels).
Proof. intros. unfold to_relations. be_hom_tac. Qed.
#[export] Hint Resolve be_hom_getF be_hom_to_relations : be_hom.

Lemma be_hom_resolve_relidx : forall fi rels, be_hom eq (resolve_relidx fi rels) (resolve_relidx fi rels).
Proof.
  intros fi rels. unfold resolve_relidx. destruct (no_relidx rels); [apply be_hom_ret; reflexivity|].
  eapply be_hom_bind; [apply be_hom_getF|]. intros f1 f2 Hf. cbv beta in Hf. subst f1.
  change (f_unsafe (be_Tf f2)) with (f_unsafe f2). change (f_ids (be_Tf f2)) with (f_ids f2).
  destruct (f_unsafe f2); [apply be_hom_fail|].
  apply be_hom_mapM; [reflexivity|]. intros r _. destruct (Nat.ltb (fst r) 1000); [apply be_hom_ret; reflexivity|].
  eapply be_hom_bind; [apply be_hom_of_opt; reflexivity|]. intros c1 c2 Hc. cbv beta in Hc. subst c1. apply be_hom_ret. reflexivity.
Qed.
#[export] Hint Resolve be_hom_resolve_relidx : be_hom.

Lemma be_hom_check_unsafe_rels : forall fi rels, be_hom eq (check_unsafe_rels fi rels) (check_unsafe_rels fi rels).
Proof.
  intros fi rels. unfold check_unsafe_rels. destruct (is_nil rels); [apply be_hom_ret; reflexivity|].
  eapply be_hom_bind; [apply be_hom_getF|]. intros f1 f2 Hf. cbv beta in Hf. subst f1.
  change (f_unsafe (be_Tf f2)) with (f_unsafe f2). change (f_mask (be_Tf f2)) with (f_mask f2).
  destruct (f_unsafe f2); cbn [whenM]; [|apply be_hom_ret; reflexivity].
  be_hom_tac.
Qed.
#[export] Hint Resolve be_hom_check_unsafe_rels : be_hom.

Lemma be_hom_ut_go : forall f rels l acc, Forall (fun a => be_small (a_mask a)) l ->
  be_hom eq (be_ut_go (be_Tf f) rels l acc) (be_ut_go f rels l acc).
Proof.
  intros f rels l. induction l as [|a rest IH]; intros acc Hl; unfold be_ut_go;
    fold (be_ut_go (be_Tf f) rels); fold (be_ut_go f rels); [be_hom_tac|].
  inversion Hl; subst. rewrite be_filter_matches_T by assumption.
  destruct (negb (filter_matches f (a_mask a))); [apply IH; assumption|].
  destruct (negb (arch_has_rels a)).
  - destruct (a_tables a); [be_hom_tac | apply IH; assumption].
  - do 2 be_hom_step. apply IH; assumption.
Qed.
Lemma be_hom_uncached_tables : forall f rels, be_hom eq (uncached_tables (be_Tf f) rels) (uncached_tables f rels).
Proof.
  intros. rewrite !be_uncached_tables_eq. be_hom_step. apply be_hom_ut_go. apply HI.
Qed.
#[export] Hint Resolve be_hom_uncached_tables : be_hom.
Lemma be_hom_get_batch_tables : forall fi rels, be_hom eq (get_batch_tables fi rels) (get_batch_tables fi rels).
Proof. intros. unfold get_batch_tables. be_hom_tac. Qed.

Lemma be_Tf_cache : forall f c, (be_Tf f) <| f_cache := c |> = be_Tf (f <| f_cache := c |>).
Proof. reflexivity. Qed.
Lemma be_hom_mod_filter_cache : forall fi c,
  be_hom eq (modify (fun s => s <| w_filters ::= updf fi (fun f => f <| f_cache := c |>) |>))
            (modify (fun s => s <| w_filters ::= updf fi (fun f => f <| f_cache := c |>) |>)).
Proof.
  intros. apply be_hom_modify. intros s HI. split; [|be_inv_frame].
  apply be_T_set_filters. apply be_map_updf. intros; reflexivity.
Qed.
#[export] Hint Resolve be_hom_get_batch_tables be_hom_mod_filter_cache : be_hom.
Lemma be_hom_filter_register : forall fi, be_hom eq (filter_register fi) (filter_register fi).
Proof. intros. unfold filter_register. be_hom_tac. Qed.
Lemma be_hom_filter_unregister : forall fi, be_hom eq (filter_unregister fi) (filter_unregister fi).
Proof. intros. unfold filter_unregister. be_hom_tac. Qed.
Lemma be_hom_cache_reset : be_hom eq cache_reset cache_reset.
Proof. unfold cache_reset. be_hom_tac. Qed.
Lemma be_hom_batch_callback : forall tid vals row, be_hom eq (batch_callback tid vals row) (batch_callback tid vals row).
Proof. intros. unfold batch_callback. be_hom_tac. Qed.
#[export] Hint Resolve be_hom_filter_register be_hom_filter_unregister be_hom_cache_reset be_hom_batch_callback : be_hom.

Lemma be_hom_w_new_entities : forall count fn, be_hom eq (w_new_entities count fn) (w_new_entities count fn).
Proof. intros. unfold w_new_entities. be_hom_tac; try be_hom_rows. Qed.
Lemma be_hom_w_new_batch : forall count ids rels vals fn, be_lt64 ids ->
  be_hom eq (w_new_batch count ids rels vals fn) (w_new_batch count ids rels vals fn).
Proof. intros. unfold w_new_batch. be_hom_tac; try be_hom_rows. Qed.

Lemma be_hom_re_rows : forall es acc, be_hom eq (be_re_rows es acc) (be_re_rows es acc).
Proof.
  intros es. induction es as [|e more IH]; intros acc; unfold be_re_rows; fold be_re_rows; [be_hom_tac|].
  be_hom_tac; try apply IH.
Qed.
#[export] Hint Resolve be_hom_re_rows : be_hom.
Lemma be_hom_re_tabs : forall tabs acc, be_hom eq (be_re_tabs tabs acc) (be_re_tabs tabs acc).
Proof.
  intros tabs. induction tabs as [|tid rest IH]; intros acc; unfold be_re_tabs; fold be_re_tabs; [be_hom_tac|].
  be_hom_tac; try apply IH.
Qed.
#[export] Hint Resolve be_hom_re_tabs : be_hom.
Lemma be_hom_w_remove_entities : forall fi rels fn, be_hom eq (w_remove_entities fi rels fn) (w_remove_entities fi rels fn).
Proof.
  intros. unfold w_remove_entities. fold be_re_rows. fold be_re_tabs. be_hom_tac; try be_hom_rows.
Qed.
#[export] Hint Resolve be_hom_w_new_entities be_hom_w_new_batch be_hom_w_remove_entities : be_hom.

Lemma be_hom_exchange_table : forall otid ntid rels, be_hom eq (exchange_table otid ntid rels) (exchange_table otid ntid rels).
Proof. intros. unfold exchange_table. be_hom_tac. Qed.
#[export] Hint Resolve be_hom_exchange_table : be_hom.
Lemma be_hom_xb_go : forall add rem rels tabs acc rr, be_lt64 add ->
  be_hom eq (be_xb_go add rem rels tabs acc rr) (be_xb_go add rem rels tabs acc rr).
Proof.
  intros add rem rels tabs acc rr Hadd. revert acc rr. induction tabs as [|tid rest IH]; intros acc rr;
    unfold be_xb_go; fold (be_xb_go add rem rels); [be_hom_tac|].
  be_hom_tac; try apply IH.
Qed.
#[export] Hint Resolve be_hom_xb_go : be_hom.
Lemma be_hom_w_exchange_batch : forall fi brels add rem rels vals, be_lt64 add ->
  be_hom eq (w_exchange_batch fi brels add rem rels vals) (w_exchange_batch fi brels add rem rels vals).
Proof.
  intros. unfold w_exchange_batch. fold (be_xb_go add rem rels). be_hom_tac; try be_hom_rows.
Qed.
Lemma be_hom_set_relations_plan : forall otid rels,
  be_hom eq (set_relations_plan otid rels) (set_relations_plan otid rels).
Proof. intros. unfold set_relations_plan. be_hom_tac. Qed.
Lemma be_hom_set_relations_fire_removes : forall plans,
  be_hom eq (set_relations_fire_removes plans) (set_relations_fire_removes plans).
Proof.
  intros. unfold set_relations_fire_removes. apply be_hom_forM; [reflexivity|]. intros p _.
  destruct p as [[[otid ntid] len] cm]. be_hom_tac; try be_hom_rows.
Qed.
Lemma be_hom_set_relations_move : forall p, be_hom eq (set_relations_move p) (set_relations_move p).
Proof. intros p. destruct p as [[[otid ntid] len] cm]. unfold set_relations_move. be_hom_tac. Qed.
Lemma be_hom_set_relations_fire_adds : forall moved,
  be_hom eq (set_relations_fire_adds moved) (set_relations_fire_adds moved).
Proof.
  intros. unfold set_relations_fire_adds. apply be_hom_forM; [reflexivity|]. intros p _.
  destruct p as [[[ntid start] len] cm]. be_hom_tac; try be_hom_rows.
Qed.
#[export] Hint Resolve be_hom_w_exchange_batch be_hom_set_relations_plan be_hom_set_relations_fire_removes
  be_hom_set_relations_move be_hom_set_relations_fire_adds : be_hom.
Lemma be_hom_w_set_relations_batch : forall fi brels rels,
  be_hom eq (w_set_relations_batch fi brels rels) (w_set_relations_batch fi brels rels).
Proof. intros. unfold w_set_relations_batch. be_hom_tac. Qed.
Lemma be_hom_arch_reset : forall aid, be_hom eq (arch_reset aid) (arch_reset aid).
Proof. intros. unfold arch_reset. be_hom_tac. Qed.
#[export] Hint Resolve be_hom_w_set_relations_batch be_hom_arch_reset : be_hom.
Lemma be_hom_w_reset : be_hom eq w_reset w_reset.
Proof. unfold w_reset. be_hom_tac. Qed.
Lemma be_hom_sh_go_clock : forall clock fuel idx any,
  be_hom eq (be_sh_go_clock clock fuel idx any) (be_sh_go_clock clock fuel idx any).
Proof.
  intros clock fuel. induction fuel as [|fu IH]; intros idx any; unfold be_sh_go_clock; fold (be_sh_go_clock clock); [be_hom_tac|].
  be_hom_tac; try apply IH.
Qed.
Lemma be_hom_sh_go : forall stop0 fuel idx any, be_hom eq (be_sh_go stop0 fuel idx any) (be_sh_go stop0 fuel idx any).
Proof. intros stop0 fuel idx any. exact (be_hom_sh_go_clock (fun _ => stop0) fuel idx any). Qed.
#[export] Hint Resolve be_hom_sh_go_clock be_hom_sh_go : be_hom.
(** Shrink under every clock (every time budget) behaves identically in the 64-bit and the wide-mask build. *)
Lemma be_hom_w_shrink_timed : forall clock, be_hom eq (w_shrink_timed clock) (w_shrink_timed clock).
Proof. intros. unfold w_shrink_timed, w_shrink_clock. fold (be_sh_go_clock clock). be_hom_tac. Qed.
Lemma be_hom_w_shrink : forall stop0, be_hom eq (w_shrink stop0) (w_shrink stop0).
Proof. intros stop0. exact (be_hom_w_shrink_timed (fun _ => stop0)). Qed.
#[export] Hint Resolve be_hom_w_reset be_hom_w_shrink_timed be_hom_w_shrink : be_hom.

Lemma be_hom_getQ : forall qi, be_hom eq (getQ qi) (getQ qi).
Proof. intros. unfold getQ. be_hom_tac. Qed.
Lemma be_hom_modQ : forall qi f, be_hom eq (modQ qi f) (modQ qi f).
Proof. intros. unfold modQ. be_hom_tac. Qed.
#[export] Hint Resolve be_hom_getQ be_hom_modQ : be_hom.
Lemma be_hom_query_open : forall fi rels, be_hom eq (query_open fi rels) (query_open fi rels).
Proof. intros. unfold query_open. be_hom_tac. Qed.
Lemma be_hom_query_close : forall qi, be_hom eq (query_close qi) (query_close qi).
Proof. intros. unfold query_close. be_hom_tac. Qed.
Lemma be_hom_query_set_table : forall qi pos tid, be_hom eq (query_set_table qi pos tid) (query_set_table qi pos tid).
Proof. intros. unfold query_set_table. be_hom_tac. Qed.
#[export] Hint Resolve be_hom_query_open be_hom_query_close be_hom_query_set_table : be_hom.

Lemma be_nt_fail_pos_T : forall s rels tables fuel pos,
  nt_fail_pos (be_T s) rels tables fuel pos = nt_fail_pos s rels tables fuel pos.
Proof.
  intros s rels tables fuel. induction fuel as [|fu IH]; intros pos; [reflexivity|]. cbn [nt_fail_pos].
  change (w_tables (be_T s)) with (w_tables s).
  destruct (nth_error tables pos); [|reflexivity]. destruct (nth_error (w_tables s) n); [|reflexivity].
  rewrite !IH. reflexivity.
Qed.
Lemma be_hom_nt_go : forall q tables fuel pos, be_hom eq (q_nt_go q tables fuel pos) (q_nt_go q tables fuel pos).
Proof.
  intros q tables fuel. induction fuel as [|fu IH]; intros pos; [rewrite q_nt_go_0; be_hom_tac | rewrite q_nt_go_S].
  be_hom_tac; try apply IH.
Qed.
#[export] Hint Resolve be_hom_nt_go : be_hom.
Lemma be_hom_query_next_table : forall qi tables cached,
  be_hom eq (query_next_table qi tables cached) (query_next_table qi tables cached).
Proof.
  intros. rewrite q_next_table_eq. be_hom_step.
  eapply be_hom_bind; [|intros ? ? ->; be_hom_tac].
  apply be_hom_on_err; [apply be_hom_nt_go|]. intros s HI. split; [rewrite be_nt_fail_pos_T; reflexivity | be_inv_frame].
Qed.
#[export] Hint Resolve be_hom_query_next_table : be_hom.
Lemma be_hom_na_go : forall qi archs f fuel pos,
  be_hom eq (q_na_go qi archs (be_Tf f) fuel pos) (q_na_go qi archs f fuel pos).
Proof.
  intros qi archs f fuel. induction fuel as [|fu IH]; intros pos; [rewrite !q_na_go_0; be_hom_tac | rewrite !q_na_go_S].
  destruct (nth_error archs pos); [|be_hom_tac].
  do 2 be_hom_step. rewrite be_filter_matches_T by assumption.
  be_hom_tac; try apply IH.
Qed.
#[export] Hint Resolve be_hom_na_go : be_hom.
Lemma be_hom_query_next_archetype : forall qi, be_hom eq (query_next_archetype qi) (query_next_archetype qi).
Proof. intros. rewrite q_next_archetype_eq. be_hom_tac. Qed.
#[export] Hint Resolve be_hom_query_next_archetype : be_hom.
Lemma be_hom_query_next_toa : forall qi, be_hom eq (query_next_table_or_archetype qi) (query_next_table_or_archetype qi).
Proof. intros. unfold query_next_table_or_archetype. be_hom_tac. Qed.
#[export] Hint Resolve be_hom_query_next_toa : be_hom.
Lemma be_hom_query_next : forall d qi, be_hom eq (query_next d qi) (query_next d qi).
Proof. intros. unfold query_next. be_hom_tac. Qed.
Lemma be_hom_query_entity : forall d qi, be_hom eq (query_entity d qi) (query_entity d qi).
Proof. intros. unfold query_entity. be_hom_tac. Qed.
#[export] Hint Resolve be_hom_query_next be_hom_query_entity : be_hom.
Lemma be_hom_walk_go : forall f q l acc, be_hom eq (q_walk_go (be_Tf f) q l acc) (q_walk_go f q l acc).
Proof.
  intros f q l. induction l as [|aid rest IH]; intros acc; [rewrite !q_walk_go_nil; be_hom_tac | rewrite !q_walk_go_cons].
  be_hom_step. rewrite be_filter_matches_T by assumption.
  be_hom_tac; try apply IH.
Qed.
#[export] Hint Resolve be_hom_walk_go : be_hom.
Lemma be_hom_query_walk : forall qi, be_hom eq (query_walk qi) (query_walk qi).
Proof. intros. rewrite q_walk_eq. be_hom_tac. Qed.
#[export] Hint Resolve be_hom_query_walk : be_hom.
Lemma be_hom_query_count : forall qi, be_hom eq (query_count qi) (query_count qi).
Proof. intros. unfold query_count. be_hom_tac. Qed.
Lemma be_hom_eat_go : forall index l count, be_hom eq (q_eat_go index l count) (q_eat_go index l count).
Proof.
  intros index l. induction l as [|[tid len] rest IH]; intros count; [rewrite q_eat_go_nil; be_hom_tac | rewrite q_eat_go_cons].
  be_hom_tac; try apply IH.
Qed.
#[export] Hint Resolve be_hom_query_count be_hom_eat_go : be_hom.
Lemma be_hom_eat_tables : forall index rels ne l count,
  be_hom eq (entity_at_tables index rels ne l count) (entity_at_tables index rels ne l count).
Proof.
  intros index rels ne l. induction l as [|tid rest IH]; intros count;
    [rewrite q_eat_tables_nil; be_hom_tac | rewrite q_eat_tables_cons].
  be_hom_tac; try apply IH.
Qed.
#[export] Hint Resolve be_hom_eat_tables : be_hom.
Lemma be_hom_eatl_go : forall index f q l count,
  be_hom eq (q_eatl_go index (be_Tf f) q l count) (q_eatl_go index f q l count).
Proof.
  intros index f q l. induction l as [|aid rest IH]; intros count;
    [rewrite !q_eatl_go_nil; be_hom_tac | rewrite !q_eatl_go_cons].
  be_hom_step. rewrite be_filter_matches_T by assumption.
  be_hom_tac; try apply IH.
Qed.
#[export] Hint Resolve be_hom_eatl_go : be_hom.
Lemma be_hom_query_entity_at : forall qi i, be_hom eq (query_entity_at qi i) (query_entity_at qi i).
Proof. intros. rewrite q_entity_at_eq. be_hom_tac. Qed.
Lemma be_hom_drain_go : forall d qi fuel acc, be_hom eq (be_drain_go d qi fuel acc) (be_drain_go d qi fuel acc).
Proof.
  intros d qi fuel. induction fuel as [|fu IH]; intros acc; unfold be_drain_go; fold (be_drain_go d qi); [be_hom_tac|].
  be_hom_tac; try apply IH.
Qed.
#[export] Hint Resolve be_hom_query_entity_at be_hom_drain_go : be_hom.

Lemma be_hom_resolveH : forall h, be_hom eq (resolveH h) (resolveH h).
Proof. intros. unfold resolveH. be_hom_tac. Qed.
#[export] Hint Resolve be_hom_resolveH : be_hom.
Lemma be_hom_resolveR : forall rels, be_hom eq (resolveR rels) (resolveR rels).
Proof. intros. unfold resolveR. be_hom_tac. Qed.
Lemma be_hom_cell_of : forall d e c, be_hom eq (cell_of d e c) (cell_of d e c).
Proof. intros. unfold cell_of. be_hom_tac. Qed.
Lemma be_hom_write_cell : forall tid ci row v, be_hom eq (write_cell tid ci row v) (write_cell tid ci row v).
Proof. intros. unfold write_cell. be_hom_tac. Qed.
Lemma be_hom_batch_rels : forall fi brels, be_hom eq (batch_rels fi brels) (batch_rels fi brels).
Proof. intros. unfold batch_rels. be_hom_tac. Qed.
#[export] Hint Resolve be_hom_resolveR be_hom_cell_of be_hom_write_cell be_hom_batch_rels : be_hom.

(** *** The operations of the script language *)

(** The component lists of an operation that end up in masks compared against [without] masks. *)
Definition be_op_ids (o : op) : list nat :=
  match o with
  | OUNew ids | OUNewRel ids _ | OUAdd _ ids | OUAddRel _ ids _ | ONewBatch _ ids _ _ _ => ids
  | OUExchange _ add _ _ | OExchangeBatch _ _ add _ _ _ => add
  | OFilterNew _ ids without _ _ => ids ++ without
  | OObsNew _ for_ with_ without _ _ => for_ ++ with_ ++ without
  | _ => []
  end.
(** "The operation stays within 64 component types." *)
Definition be_op_small (o : op) : Prop := be_lt64 (be_op_ids o).

Lemma be_lt64_app : forall l1 l2, be_lt64 (l1 ++ l2) -> be_lt64 l1 /\ be_lt64 l2.
Proof. intros l1 l2 H. apply Forall_app in H. exact H. Qed.

Theorem be_hom_step_op : forall d o, be_op_small o -> be_hom eq (step_op d o) (step_op d o).
Proof.
  intros d o Hs. destruct o; unfold be_op_small, be_op_ids in Hs;
    try (cbn [step_op]; solve [be_hom_tac]).
  - (* FilterNew *)
    apply be_lt64_app in Hs. destruct Hs as [Hi Hw]. cbn [step_op].
    do 3 be_hom_step.
    eapply be_hom_bind; [|intros ? ? _; rewrite map_length; be_hom_tac].
    apply be_hom_modify. intros s HIs. split; [|be_inv_frame].
    apply be_T_set_filters. rewrite map_app. cbn [map]. f_equal. f_equal.
    unfold be_Tf, set. cbn. f_equal. destruct excl.
    + symmetry. apply be_not_T; [apply be_small_of_list; exact Hi | apply HI].
    + symmetry. apply be_land_small, be_small_of_list, Hw.
  - (* QueryAll *) rewrite be_step_op_QueryAll. be_hom_tac.
  - (* ObsNew *)
    apply be_lt64_app in Hs. destruct Hs as [Hf Hs]. apply be_lt64_app in Hs. destruct Hs as [Hw Hwo]. cbn [step_op].
    be_hom_step.
    eapply be_hom_bind; [|intros ? ? _; rewrite map_length; be_hom_tac].
    apply be_hom_modify. intros s HIs. split.
    + apply be_T_set_obs. rewrite map_app. reflexivity.
    + unfold be_Inv in *. destruct HIs as (H1 & H2 & H3). split; [exact H1|]. split; [exact H2|]. cbn.
      apply Forall_app. split; [exact H3|]. constructor; [|constructor].
      unfold be_oinv. cbn. repeat split; try assumption. apply be_small_0.
Qed.

(** *** Observations do not depend on the width *)
Lemma be_obs_api_T : forall s, obs_api (be_T s) = obs_api s.
Proof. reflexivity. Qed.
Lemma be_dump_T : forall s, dump (be_T s) = dump s.
Proof.
  intros s. unfold dump. be_T_norm s.
  assert (E : forall l, flat_map (fun oi => match nth_error (map be_To (w_obs s)) oi with
                                       | Some o => match o_id o with Some i => [i] | None => [] end
                                       | None => [] end) l =
                        flat_map (fun oi => match nth_error (w_obs s) oi with
                                       | Some o => match o_id o with Some i => [i] | None => [] end
                                       | None => [] end) l).
  { intros l. apply flat_map_ext. intros oi. rewrite nth_error_map. destruct (nth_error (w_obs s) oi); reflexivity. }
  cbv zeta.
  match goal with |- _ = ?rhs =>
    match rhs with context [flat_map ?G (filter ?p ?l0)] =>
      match goal with |- context [flat_map ?F (filter p l0)] =>
        rewrite (flat_map_ext F G); [reflexivity | intros ev; rewrite E; reflexivity]
      end
    end
  end.
Qed.

(** *** Script steps and whole scripts *)
Definition be_line_small (l : list Z) : Prop := forall o, decode_op l = Some o -> be_op_small o.

Ltac be_T_push :=
  repeat match goal with
  | |- context [ (be_T ?s) <| w_issued ::= ?f |> ] =>
      change ((be_T s) <| w_issued ::= f |>) with (be_T (s <| w_issued ::= f |>))
  | |- context [ (be_T ?s) <| w_log := ?l |> ] =>
      change ((be_T s) <| w_log := l |>) with (be_T (s <| w_log := l |>))
  end.

Lemma be_step_bits : forall d wd s l, be_Inv s -> be_line_small l ->
  step d wd (be_T s) l = (be_T (fst (step d wd s l)), snd (step d wd s l)) /\ be_Inv (fst (step d wd s l)).
Proof.
  intros d wd s l Hs Hl. unfold be_line_small in Hl. unfold step.
  destruct (decode_op l) as [o|]; [|split; [reflexivity | exact Hs]].
  specialize (Hl o eq_refl).
  assert (Hs0 : be_Inv (s <| w_log := [] |>)) by (apply (be_Inv_frame s); [reflexivity..|exact Hs]).
  pose proof (be_hom_step_op d o Hl _ Hs0) as H.
  change ((be_T s) <| w_log := [] |>) with (be_T (s <| w_log := [] |>)).
  destruct (step_op d o (be_T (s <| w_log := [] |>))) as [a t|e t],
           (step_op d o (s <| w_log := [] |>)) as [b s1|e' s1]; try contradiction.
  - destruct H as (-> & -> & Hi). cbn [state_of is_err negb fst snd].
    change (w_log (be_T s1)) with (w_log s1).
    assert (Hfin : forall s2, w_cfg s2 = w_cfg s1 -> w_archs s2 = w_archs s1 -> w_obs s2 = w_obs s1 -> be_Inv s2).
    { intros s2 E1 E2 E3. apply (be_Inv_frame s1); assumption. }
    destruct (issues_from_log o && true)%bool; destruct b as [|i [|g ?]]; try destruct (returns_entity o);
      be_T_push; rewrite ?be_obs_api_T, ?be_dump_T; (split; [reflexivity | apply Hfin; reflexivity]).
  - destruct H as (-> & Hi). cbn [state_of is_err negb fst snd]. rewrite Bool.andb_false_r.
    change (w_log (be_T s1)) with (w_log s1).
    be_T_push; rewrite ?be_obs_api_T, ?be_dump_T. split; [reflexivity|].
    apply (be_Inv_frame s1); [reflexivity..|exact Hi].
Qed.

Lemma be_run_bits : forall d wd lines s, be_Inv s -> (forall l, In l lines -> be_line_small l) ->
  run_lines d wd (be_T s) lines = run_lines d wd s lines.
Proof.
  intros d wd lines. induction lines as [|l rest IH]; intros s Hs Hl; [reflexivity|].
  cbn [run_lines]. destruct (be_step_bits d wd s l Hs (Hl l (or_introl eq_refl))) as [E Hi].
  rewrite E. destruct (step d wd s l) as [s' out]. cbn [fst snd] in *.
  rewrite (IH s' Hi); [reflexivity|]. intros l' Hl'. apply Hl. right. exact Hl'.
Qed.

Definition be_with_bits (c : script_cfg) (b : nat) : script_cfg :=
  {| sc_cap := sc_cap c; sc_caprel := sc_caprel c; sc_bits := b; sc_debug := sc_debug c; sc_kinds := sc_kinds c |}.

Lemma be_Inv_init : forall c, 64 <= sc_bits c -> be_Inv (init_world c).
Proof.
  intros c H. unfold be_Inv. cbn. split; [exact H|]. split; [|constructor].
  constructor; [apply be_small_0 | constructor].
Qed.
Lemma be_T_init : forall c b, 64 <= b -> be_T (init_world (be_with_bits c b)) = init_world (be_with_bits c 64).
Proof. reflexivity. Qed.

(** For every history whose operations stay within 64 component types, the complete observation
    trace (results, failure flags, callback logs, API views, dumps; nothing in it depends on the
    width) of the tiny build (64-bit masks) equals that of the default build (256-bit masks), with
    and without the debug tag. (No bound on the number of registered kinds is needed in the model:
    the registry is fixed by the configuration line and the width only enters through [mk_not].) *)
Theorem bits_irrelevant_gen : forall c b1 b2 d wd lines, 64 <= b1 -> 64 <= b2 ->
  (forall l, In l lines -> be_line_small l) ->
  run_lines d wd (init_world (be_with_bits c b1)) lines = run_lines d wd (init_world (be_with_bits c b2)) lines.
Proof.
  intros c b1 b2 d wd lines H1 H2 Hl.
  rewrite <- (be_run_bits d wd lines (init_world (be_with_bits c b1))) by (try apply be_Inv_init; assumption).
  rewrite <- (be_run_bits d wd lines (init_world (be_with_bits c b2))) by (try apply be_Inv_init; assumption).
  rewrite !be_T_init by assumption. reflexivity.
Qed.

Theorem bits_irrelevant : forall c d wd lines,
  length (sc_kinds c) <= 64 ->
  (forall l o, In l lines -> decode_op l = Some o -> be_op_small o) ->
  run_lines d wd (init_world (be_with_bits c 64)) lines = run_lines d wd (init_world (be_with_bits c 256)) lines.
Proof.
  intros c d wd lines _ Hl. apply bits_irrelevant_gen; [lia | lia |]. intros l Hin o Ho. eapply Hl; eassumption.
Qed.

(** All four build configurations at once. *)
Theorem build_tags_irrelevant : forall c d1 d2 b1 b2 wd lines,
  (b1 = 64 \/ b1 = 256) -> (b2 = 64 \/ b2 = 256) ->
  (forall l o, In l lines -> decode_op l = Some o -> be_op_small o) ->
  run_lines d1 wd (init_world (be_with_bits c b1)) lines = run_lines d2 wd (init_world (be_with_bits c b2)) lines.
Proof.
  intros c d1 d2 b1 b2 wd lines H1 H2 Hl.
  transitivity (run_lines d2 wd (init_world (be_with_bits c b1)) lines).
  - destruct d1, d2; try reflexivity; [apply debug_irrelevant | symmetry; apply debug_irrelevant].
  - apply bits_irrelevant_gen; [destruct H1; lia | destruct H2; lia |]. intros l Hin o Ho. eapply Hl; eassumption.
Qed.

(** Without the restriction on the component ids the widths are distinguishable (in the model, which
    does not check that ids are registered): an entity with the unregistered id 100 is matched by an
    exclusive filter on the empty set in the 64-bit build only. *)
Definition be_big_cfg (b : nat) : script_cfg :=
  {| sc_cap := 1; sc_caprel := 1; sc_bits := b; sc_debug := false; sc_kinds := map kind_of_code [0]%Z |}.
Definition be_big : list (list Z) := [[1; 1; 100]; [15; 0; 0; 0; 1; 0]; [18; 0; 0]]%Z.
Theorem bits_irrelevant_refuted_large_ids :
  ~ (forall c d wd lines, length (sc_kinds c) <= 64 ->
       run_lines d wd (init_world (be_with_bits c 64)) lines = run_lines d wd (init_world (be_with_bits c 256)) lines).
Proof.
  intros H. specialize (H (be_big_cfg 0) false false be_big).
  apply (f_equal (fun t => map (firstn 4) t)) in H; [|cbn; lia]. vm_compute in H. discriminate H.
Qed.

Definition be_all := (debug_irrelevant, debug_irrelevant_cfg, bits_irrelevant, bits_irrelevant_gen,
  build_tags_irrelevant, bits_irrelevant_refuted_large_ids, be_step_op_sim, be_hom_step_op, be_kq_step_op,
  be_four_traces_1, be_four_traces_2, be_regressions).
Print Assumptions be_all.
