(** * Rel2HistOLF: the observer manager invariant "as far as it holds" over raw model histories with callbacks:
    the aggregates. Helper prefix [r2olf_].

    ObsLockInv / Rel2HistOL keep of [ObsProofs.MInv0] the clauses a callback needs ([MInvO]). This file adds the clauses
    about the per-event AGGREGATES ([MAgg]: [mi_has], [mi_aggw], [mi_aggc], [mi_max] and the mask facts [Pm] of the
    listed objects): [MInvOF s := MInvO s /\ MAgg s] is everything of [MInv0] except [mi_idl] ("an object with an id is
    listed") and [mi_rel] (For-lists of relation events name relation components) - the two clauses that are FALSE for
    raw histories ([Rel2HistOL.r2ol_rej_MInv_refuted]).

    [MInvOF] reads only the manager fields, and is preserved by EVERY operation of the class [rel_o_op] in both outcomes,
    UNCONDITIONALLY (no storage invariant, no lock invariant; [r2olf_ip_step_op]): the storage computations do not touch
    the manager ([r2ol_sdf]), a dispatch touches it only through [remove_observer] ([r2olf_rem_inv]), Register through
    [add_observer] ([r2olf_add_inv], also when it is rejected half way).

    Consequence (C08 over raw histories, for the REAL callbacks of any kind): in every reachable state the aggregate
    early-out is sound - when it fires no registered observer matches - so a dispatch does not depend on [earlyOut]
    ([reachable_early_out_unobservable_*], for the five dispatch families). *)
From Ark Require Import Model.Base Model.Mask Model.Pool Model.Util Model.World Model.Run.
From Ark Require Import Proofs.TableProofs Proofs.Hoare Proofs.StorageA Proofs.StorageB_sb2 Proofs.LockWorld Proofs.StorageC Proofs.ResetShrinkProofs
  Proofs.Rel2Hist Proofs.Rel2HistQ Proofs.Rel2HistQL Proofs.ObsErase Proofs.Rel2HistO Proofs.ObsLockInv Proofs.Rel2HistOL.
From Ark Require Properties.Common Proofs.Rel2Check Proofs.ObsProofs Proofs.ObsSpec Proofs.StatsProofs Proofs.StorageD.
From RecordUpdate Require Import RecordSet.
Import RecordSetNotations.
From Coq Require Import Lia Permutation.
Close Scope Z_scope.

Local Notation obj := ObsProofs.obj.
Local Notation Pm := ObsProofs.Pm.

(* ================================================================================================ *)
(** * Part 1: the aggregate clauses *)

Record MAgg (s : W) : Prop := {
  ma_pm : forall evt oi o, In oi (olist s evt) -> obj s oi = Some o -> Pm o;
  ma_has : forall evt, g_has (get_agg s evt) = negb (is_nil (olist s evt));
  ma_aggw : forall evt oi o, g_anynowith (get_agg s evt) = false -> In oi (olist s evt) -> obj s oi = Some o ->
            o_haswith o = true /\ mk_contains (g_allwith (get_agg s evt)) (o_with o) = true;
  ma_aggc : forall evt oi o, is_entity_event evt = false -> g_anynocomps (get_agg s evt) = false ->
            In oi (olist s evt) -> obj s oi = Some o ->
            o_hascomps o = true /\ mk_contains (g_allcomps (get_agg s evt)) (o_comps o) = true;
  ma_max : forall evt, olist s evt <> [] -> evt <= w_omax s
}.

Definition MInvOF (s : W) : Prop := MInvO s /\ MAgg s.

Lemma r2olf_MAgg_ext : forall s s', w_obs s' = w_obs s -> w_olists s' = w_olists s -> w_oagg s' = w_oagg s -> w_omax s' = w_omax s ->
  MAgg s -> MAgg s'.
Proof.
  intros s s' E1 E2 E3 E4 [H1 H2 H3 H4 H5]. constructor; unfold obj, olist, get_agg in *; rewrite ?E1, ?E2, ?E3, ?E4; assumption.
Qed.

Lemma r2olf_ext : forall s s', w_obs s' = w_obs s -> w_olists s' = w_olists s -> w_oagg s' = w_oagg s -> w_omax s' = w_omax s ->
  w_ototal s' = w_ototal s -> MInvOF s -> MInvOF s'.
Proof. intros s s' E1 E2 E3 E4 E5 (H1 & H2). split; [apply (ol_MInvO_ext s s' E1 E2 E5 H1)|apply (r2olf_MAgg_ext s s' E1 E2 E3 E4 H2)]. Qed.

Lemma r2olf_side : forall s s', side_same s s' -> MInvOF s -> MInvOF s'.
Proof. intros s s' (_ & _ & E3 & E4 & E5 & _ & E7 & E8). apply r2olf_ext; assumption. Qed.

Lemma r2olf_os : forall s s', StatsProofs.sp_os s s' -> MInvOF s -> MInvOF s'.
Proof. intros s s' (E1 & E2 & E3 & _ & E5 & E6). apply r2olf_ext; assumption. Qed.

(** [MInv] of ObsProofs is [MInvOF] plus the two clauses that fail for raw histories. *)
Theorem r2olf_of_MInv : forall s, ObsProofs.MInv s -> MInvOF s.
Proof.
  intros s HM. split; [apply ol_MInvO_of_MInv; exact HM|]. destruct HM as (HI & _). constructor.
  - intros evt oi o Hin Ho. destruct (ObsProofs.mi_lst _ HI evt oi Hin) as (o' & Ho' & _ & _ & HP). rewrite Ho in Ho'. injection Ho' as <-. exact HP.
  - apply (ObsProofs.mi_has _ HI).
  - apply (ObsProofs.mi_aggw _ HI).
  - apply (ObsProofs.mi_aggc _ HI).
  - apply (ObsProofs.mi_max _ HI).
Qed.

Theorem r2olf_to_MInv : forall s, MInvOF s ->
  (forall oi o, obj s oi = Some o -> o_id o <> None -> In oi (olist s (o_event o))) ->
  (forall oi o, obj s oi = Some o -> is_relation_event (o_event o) = true -> forall c, In c (o_for o) -> is_rel_comp s c = true) ->
  ObsProofs.MInv s.
Proof.
  intros s (HM & HA) Hidl Hrel. split; [|apply (mo_total _ HM)]. constructor.
  - intros evt oi Hin. destruct (mo_lst _ HM evt oi Hin) as (o & Ho & Ev & Hid). exists o. repeat (split; [assumption|]).
    apply (ma_pm _ HA evt oi o Hin Ho).
  - apply (mo_nd _ HM).
  - exact Hidl.
  - apply (ma_has _ HA).
  - apply (ma_aggw _ HA).
  - apply (ma_aggc _ HA).
  - apply (mo_keys _ HM).
  - apply (ma_max _ HA).
  - exact Hrel.
Qed.

Lemma r2olf_init : forall s, w_obs s = [] -> w_olists s = [] -> w_oagg s = [] -> w_ototal s = 0 -> MInvOF s.
Proof.
  intros s E1 E2 E3 E4. split; [apply ol_MInvO_init; assumption|].
  assert (OL : forall e, olist s e = []) by (intros e; unfold olist; rewrite E2; reflexivity).
  assert (G : forall e, get_agg s e = agg0) by (intros e; unfold get_agg; rewrite E3; reflexivity).
  constructor.
  - intros evt oi o Hin. rewrite OL in Hin. destruct Hin.
  - intros evt. rewrite G, OL. reflexivity.
  - intros evt oi o _ Hin. rewrite OL in Hin. destruct Hin.
  - intros evt oi o _ _ Hin. rewrite OL in Hin. destruct Hin.
  - intros evt He. rewrite OL in He. congruence.
Qed.

(* ================================================================================================ *)
(** * Part 2: Unregister *)

Theorem r2olf_rem_inv : forall s oi, MInvOF s -> MInvOF (state_of (remove_observer oi s)).
Proof.
  intros s oi (HM & HA). split; [apply ol_rem_inv; exact HM|].
  destruct (ObsProofs.rem_spec s oi) as [[e E] | (o & s' & l' & g' & E & Ho & Hid & Hperm & V & L & G & Hhas & HW & HC & T & Mx & R)];
    rewrite E; cbn [state_of]; [exact HA|].
  set (evt := o_event o) in *.
  assert (Hnd : NoDup (oi :: l')) by (eapply Permutation_NoDup; [exact Hperm|apply (mo_nd _ HM)]).
  inversion Hnd as [|? ? Hnotin Hnd']; subst.
  assert (Hsub : forall j, In j l' -> In j (olist s evt)).
  { intros j Hj. eapply Permutation_in; [symmetry; exact Hperm|]. right; exact Hj. }
  pose proof (fun e => ObsProofs.olist_aset s s' evt _ e L) as OL. cbv beta in OL.
  assert (Hin' : forall e j, In j (olist s' e) -> j <> oi /\ In j (olist s e)).
  { intros e j Hin. rewrite OL in Hin. destruct (Nat.eqb_spec evt e) as [<-|Hne].
    - split; [intros ->; contradiction|apply Hsub; exact Hin].
    - split; [|exact Hin]. intros ->. destruct (ol_member s e oi o HM Hin Ho) as (He & _). unfold evt in Hne. congruence. }
  assert (V' : forall j, j <> oi -> obj s' j = obj s j).
  { intros j Hne. rewrite V. destruct (Nat.eqb_spec j oi); [contradiction|reflexivity]. }
  constructor.
  - intros e j oj Hin Hj. destruct (Hin' e j Hin) as (Hne & Hin0). rewrite (V' j Hne) in Hj. apply (ma_pm _ HA e j oj Hin0 Hj).
  - intros e. rewrite G, OL. destruct (Nat.eqb evt e); [exact Hhas|apply (ma_has _ HA)].
  - intros e j oj Hany Hin Hj. destruct (Hin' e j Hin) as (Hne & Hin0).
    rewrite G in *. rewrite OL in Hin. destruct (Nat.eqb_spec evt e).
    + apply (HW Hany j oj Hin Hj).
    + rewrite (V' j Hne) in Hj. apply (ma_aggw _ HA e j oj Hany Hin0 Hj).
  - intros e j oj Hent Hany Hin Hj. destruct (Hin' e j Hin) as (Hne & Hin0).
    rewrite G in *. rewrite OL in Hin. destruct (Nat.eqb_spec evt e).
    + subst e. apply (HC Hent Hany j oj Hin Hj).
    + rewrite (V' j Hne) in Hj. apply (ma_aggc _ HA e j oj Hent Hany Hin0 Hj).
  - intros e Hne. rewrite OL in Hne. rewrite Mx. destruct (Nat.eqb_spec evt e) as [Ee|_]; [|apply (ma_max _ HA e Hne)].
    rewrite <- Ee. apply (ma_max _ HA evt). intros H0. rewrite H0 in Hperm. apply Permutation_nil in Hperm. discriminate.
Qed.

(* ================================================================================================ *)
(** * Part 3: Register *)

(** the mask-building phases rewrite the object [oi] only, keeping event, For-list, id and the mask facts [Pm] *)
Definition r2olf_ph (oi : nat) (s s' : W) : Prop :=
  w_olists s' = w_olists s /\ w_oagg s' = w_oagg s /\ w_ototal s' = w_ototal s /\ w_omax s' = w_omax s /\
  (forall j, j <> oi -> obj s' j = obj s j) /\
  (forall o, obj s oi = Some o -> exists o', obj s' oi = Some o' /\ ObsProofs.static o o' /\ (Pm o -> Pm o')).

Lemma r2olf_ph_refl : forall oi s, r2olf_ph oi s s.
Proof.
  intros oi s. repeat (split; [reflexivity|]). intros o Ho. exists o. split; [exact Ho|]. split; [repeat split|auto].
Qed.
Lemma r2olf_ph_trans : forall oi s1 s2 s3, r2olf_ph oi s1 s2 -> r2olf_ph oi s2 s3 -> r2olf_ph oi s1 s3.
Proof.
  intros oi s1 s2 s3 (A1 & A2 & A3 & A4 & A5 & A6) (B1 & B2 & B3 & B4 & B5 & B6).
  split; [congruence|]. split; [congruence|]. split; [congruence|]. split; [congruence|]. split.
  - intros j Hj. rewrite (B5 j Hj). apply (A5 j Hj).
  - intros o Ho. destruct (A6 o Ho) as (o2 & Ho2 & S2 & P2). destruct (B6 o2 Ho2) as (o3 & Ho3 & S3 & P3).
    exists o3. split; [exact Ho3|]. split; [apply (ObsProofs.static_trans _ _ _ S2 S3)|auto].
Qed.

Definition r2olf_php (oi : nat) {A} (m : MW A) : Prop := r2e_pres (r2olf_ph oi) m.

Lemma r2olf_php_ro : forall oi A (m : MW A), readonly m -> r2olf_php oi m.
Proof. intros oi A m H. apply (r2e_pres_ro (r2olf_ph oi) (r2olf_ph_refl oi)). exact H. Qed.
Lemma r2olf_php_bind : forall oi A B (m : MW A) (k : A -> MW B), r2olf_php oi m -> (forall a, r2olf_php oi (k a)) -> r2olf_php oi (bind m k).
Proof. intros oi A B m k. apply (r2e_pres_bind (r2olf_ph oi) (r2olf_ph_trans oi)). Qed.
Lemma r2olf_php_forM : forall oi A (l : list A) (f : A -> MW unit), (forall a, r2olf_php oi (f a)) -> r2olf_php oi (forM_ l f).
Proof. intros oi A l f. apply (r2e_pres_forM (r2olf_ph oi) (r2olf_ph_refl oi) (r2olf_ph_trans oi)). Qed.
Lemma r2olf_php_modO : forall oi (f : oobj -> oobj), ObsProofs.okf f -> r2olf_php oi (modO oi f).
Proof.
  intros oi f Hf s. unfold modO, modify. cbn [state_of]. repeat (split; [reflexivity|]). split.
  - intros j Hj. rewrite ObsProofs.obj_modO. destruct (Nat.eqb_spec j oi); [contradiction|reflexivity].
  - intros o Ho. exists (f o). rewrite ObsProofs.obj_modO, Nat.eqb_refl, Ho. split; [reflexivity|apply Hf].
Qed.

Ltac r2olf_ph_step :=
  lazymatch goal with
  | |- r2olf_php _ (ret _) => apply r2olf_php_ro, readonly_ret
  | |- r2olf_php _ get => apply r2olf_php_ro, readonly_get
  | |- r2olf_php _ (guard _ _) => apply r2olf_php_ro, readonly_guard
  | |- r2olf_php _ (modO _ _) =>
      apply r2olf_php_modO; first [apply ObsProofs.okf_comps|apply ObsProofs.okf_with|apply ObsProofs.okf_without|apply ObsProofs.okf_excl]
  | |- r2olf_php _ (forM_ _ _) => apply r2olf_php_forM; intros ?
  | |- r2olf_php _ (bind _ _) => apply r2olf_php_bind; [|intros ?]
  | |- r2olf_php _ (if ?x then _ else _) => destruct x
  end.

Lemma r2olf_php_hoare : forall oi s0 A (m : MW A), r2olf_php oi m ->
  hoare (r2olf_ph oi s0) m (fun _ => r2olf_ph oi s0) (r2olf_ph oi s0).
Proof.
  intros oi s0 A m Hm s Hs. specialize (Hm s). destruct (m s) as [a s'|e s']; cbn [state_of] in Hm;
    apply (r2olf_ph_trans oi s0 s s' Hs Hm).
Qed.

(** the states [add_observer] can end in, with the aggregates *)
Definition r2olf_added (oi : nat) (s4 : W) (o4 : oobj) (s' : W) : Prop :=
  w_obs s' = w_obs s4 /\
  w_olists s' = aset (o_event o4) (olist s4 (o_event o4) ++ [oi]) (w_olists s4) /\
  (forall e, get_agg s' e = if Nat.eqb (o_event o4) e then ObsProofs.Gadd o4 (get_agg s4 (o_event o4)) else get_agg s4 e) /\
  w_ototal s' = S (w_ototal s4) /\ w_omax s' = Nat.max (w_omax s4) (o_event o4).

Lemma r2olf_add_states : forall s oi, let s' := state_of (add_observer oi s) in
  s' = s \/
  exists o id p', obj s oi = Some o /\ o_id o = None /\
    let s1 := s <| w_opool := p' |> <| w_obs ::= updf oi (ol_f0 id) |> in
    r2olf_ph oi s1 s' \/
    exists s4 o4, r2olf_ph oi s1 s4 /\ obj s4 oi = Some o4 /\ r2olf_added oi s4 o4 s'.
Proof.
  intros s oi. cbv zeta. pattern (state_of (add_observer oi s)).
  match goal with |- ?F _ => set (P := F) end. unfold add_observer.
  unfold bind at 1, getO at 1, bind at 1, get at 1. cbv beta iota. fold (obj s oi).
  destruct (obj s oi) as [o|] eqn:Eo; cbn [of_opt ret fail state_of]; [|left; reflexivity].
  unfold bind at 1. destruct (o_id o) as [i0|] eqn:Eid; cbn [guard ret fail state_of]; [left; reflexivity|].
  unfold bind at 1, get at 1. cbv beta iota.
  destruct (ipool_get None (w_opool s)) as [[id p']|]; [|left; reflexivity].
  unfold bind at 1, put at 1. cbv beta iota. unfold bind at 1, modO at 1, modify at 1. cbv beta iota.
  change (fun o0 : oobj => o0 <| o_id := Some id |> <| o_hascomps := false |> <| o_haswith := false |> <| o_haswithout := false |>) with (ol_f0 id).
  set (s1 := s <| w_opool := p' |> <| w_obs ::= updf oi (ol_f0 id) |>).
  assert (V1 : obj s1 oi = Some (ol_f0 id o)).
  { unfold s1. rewrite ObsProofs.obj_modO, Nat.eqb_refl. change (obj (s <| w_opool := p' |>) oi) with (obj s oi). rewrite Eo. reflexivity. }
  match goal with |- P (state_of ?r) => assert (Y : r2olf_ph oi s1 (state_of r) \/
      exists s4 o4, r2olf_ph oi s1 s4 /\ obj s4 oi = Some o4 /\ r2olf_added oi s4 o4 (state_of r));
    [|right; exists o, id, p'; split; [reflexivity|]; split; [exact Eid|exact Y]] end.
  match goal with |- r2olf_ph oi s1 (state_of ?r) \/ _ => set (R := r) end.
  assert (ER : R = R) by reflexivity. unfold R at 2 in ER. clearbody R. revert ER.
  match goal with |- R = ?m s1 -> _ =>
    assert (X : hoare (r2olf_ph oi s1) m
      (fun _ s' => exists s4 o4, r2olf_ph oi s1 s4 /\ obj s4 oi = Some o4 /\ r2olf_added oi s4 o4 s')
      (r2olf_ph oi s1)) end.
  { eapply hoare_bind.
    { apply r2olf_php_hoare. destruct (is_relation_event (o_event o)); [|destruct (is_entity_event (o_event o))]; repeat r2olf_ph_step. }
    intros u1. cbv beta. eapply hoare_bind; [apply r2olf_php_hoare; repeat r2olf_ph_step|]. intros u2. cbv beta.
    apply ol_hoare_getbind. intros s3 H3.
    match goal with |- match ?r with _ => _ end =>
      change (match r with Ok a s' => (fun _ s' => exists s4 o4, r2olf_ph oi s1 s4 /\ obj s4 oi = Some o4 /\ r2olf_added oi s4 o4 s') a s'
                           | Err _ s' => r2olf_ph oi s1 s' end) end.
    refine ((_ : hoare (r2olf_ph oi s1) _ _ (r2olf_ph oi s1)) s3 H3).
    eapply hoare_bind; [apply (r2olf_php_hoare oi s1); destruct (o_excl o); repeat r2olf_ph_step|].
    intros u3 s4 H4. cbv beta in H4. pose proof H4 as (_ & _ & _ & _ & _ & A6).
    destruct (A6 (ol_f0 id o) V1) as (o4 & Ho4 & _).
    assert (G : getO oi s4 = Ok o4 s4) by (unfold getO, bind, get; fold (obj s4 oi); rewrite Ho4; reflexivity).
    rewrite (sa_bind_ok G).
    destruct (ObsProofs.add_tail s4 oi o4) as (s5 & E5 & T1 & T2 & T3 & T4 & T5 & _). cbv zeta. rewrite E5.
    exists s4, o4. split; [exact H4|]. split; [exact Ho4|]. repeat (split; [assumption|]). exact T5. }
  specialize (X s1 (r2olf_ph_refl oi s1)). intros ER. rewrite <- ER in X.
  destruct R as [a s'|e s']; cbn [state_of]; [right; exact X|left; exact X].
Qed.

Theorem r2olf_add_inv : forall s oi, MInvOF s -> MInvOF (state_of (add_observer oi s)).
Proof.
  intros s oi (HM & HA). split; [apply ol_add_inv; exact HM|].
  destruct (r2olf_add_states s oi) as [->|(o & id & p' & Eo & Eid & H)]; [exact HA|]. cbv zeta in H.
  set (s1 := s <| w_opool := p' |> <| w_obs ::= updf oi (ol_f0 id) |>) in *.
  assert (Hno : forall evt, ~ In oi (olist s evt)) by (apply (ol_noid_notin s oi o HM Eo Eid)).
  assert (V1 : forall j, obj s1 j = if Nat.eqb j oi then Some (ol_f0 id o) else obj s j).
  { intros j. unfold s1. rewrite ObsProofs.obj_modO. change (obj (s <| w_opool := p' |>) j) with (obj s j).
    destruct (Nat.eqb_spec j oi) as [->|_]; [rewrite Eo|]; reflexivity. }
  assert (P1 : Pm (ol_f0 id o)) by (split; cbn; discriminate).
  (* what is known about a state related to [s1] by the phases *)
  assert (PH : forall s2, r2olf_ph oi s1 s2 -> w_olists s2 = w_olists s /\ w_oagg s2 = w_oagg s /\ w_omax s2 = w_omax s /\
            (forall j, j <> oi -> obj s2 j = obj s j) /\
            exists o2, obj s2 oi = Some o2 /\ o_event o2 = o_event o /\ Pm o2).
  { intros s2 (A1 & A2 & _ & A4 & A5 & A6). split; [rewrite A1; reflexivity|]. split; [rewrite A2; reflexivity|].
    split; [rewrite A4; reflexivity|]. split.
    - intros j Hj. rewrite (A5 j Hj), V1. destruct (Nat.eqb_spec j oi); [contradiction|reflexivity].
    - destruct (A6 (ol_f0 id o) ltac:(rewrite V1, Nat.eqb_refl; reflexivity)) as (o2 & Ho2 & (S1 & _) & Q2).
      exists o2. split; [exact Ho2|]. split; [rewrite S1; reflexivity|apply Q2; exact P1]. }
  set (s' := state_of (add_observer oi s)) in *. clearbody s'.
  destruct H as [H|(s4 & o4 & H4 & Ho4 & T1 & T2 & T3 & _ & T5)].
  - (* rejected after the id was assigned: an object that is in no list was rewritten *)
    destruct (PH s' H) as (B1 & B2 & B3 & B4 & _).
    assert (OL : forall e, olist s' e = olist s e) by (intros e; unfold olist; rewrite B1; reflexivity).
    assert (G : forall e, get_agg s' e = get_agg s e) by (intros e; unfold get_agg; rewrite B2; reflexivity).
    assert (V : forall e j, In j (olist s e) -> obj s' j = obj s j).
    { intros e j Hin. apply B4. intros ->. apply (Hno e Hin). }
    constructor.
    + intros e j oj Hin Hj. rewrite OL in Hin. rewrite (V e j Hin) in Hj. apply (ma_pm _ HA e j oj Hin Hj).
    + intros e. rewrite G, OL. apply (ma_has _ HA).
    + intros e j oj Hany Hin Hj. rewrite G in *. rewrite OL in Hin. rewrite (V e j Hin) in Hj. apply (ma_aggw _ HA e j oj Hany Hin Hj).
    + intros e j oj Hent Hany Hin Hj. rewrite G in *. rewrite OL in Hin. rewrite (V e j Hin) in Hj. apply (ma_aggc _ HA e j oj Hent Hany Hin Hj).
    + intros e Hne. rewrite OL in Hne. rewrite B3. apply (ma_max _ HA e Hne).
  - destruct (PH s4 H4) as (B1 & B2 & B3 & B4 & o2 & Ho2 & E2 & Q2). rewrite Ho4 in Ho2. injection Ho2 as <-.
    set (evt := o_event o4) in *.
    assert (OL4 : forall e, olist s4 e = olist s e) by (intros e; unfold olist; rewrite B1; reflexivity).
    assert (G4 : forall e, get_agg s4 e = get_agg s e) by (intros e; unfold get_agg; rewrite B2; reflexivity).
    pose proof (fun e => ObsProofs.olist_aset s4 s' evt _ e T2) as OL. cbv beta in OL.
    assert (V5 : forall j, obj s' j = obj s4 j) by (intros j; unfold obj; rewrite T1; reflexivity).
    assert (V : forall j, j <> oi -> obj s' j = obj s j) by (intros j Hj; rewrite V5; apply (B4 j Hj)).
    assert (Voi : obj s' oi = Some o4) by (rewrite V5; exact Ho4).
    constructor.
    + intros e j oj Hin Hj. rewrite OL in Hin. destruct (Nat.eqb_spec evt e) as [<-|Hne].
      * apply in_app_or in Hin. destruct Hin as [Hin|[<-|[]]].
        -- rewrite OL4 in Hin. assert (Hne : j <> oi) by (intros ->; apply (Hno _ Hin)). rewrite (V j Hne) in Hj.
           apply (ma_pm _ HA evt j oj Hin Hj).
        -- rewrite Voi in Hj. injection Hj as <-. exact Q2.
      * rewrite OL4 in Hin. assert (Hj' : j <> oi) by (intros ->; apply (Hno _ Hin)). rewrite (V j Hj') in Hj.
        apply (ma_pm _ HA e j oj Hin Hj).
    + intros e. rewrite T3, OL. destruct (Nat.eqb evt e); [|rewrite G4, OL4; apply (ma_has _ HA)].
      rewrite ObsProofs.Gadd_has. destruct (olist s4 evt); reflexivity.
    + intros e j oj Hany Hin Hj. rewrite T3 in *. rewrite OL in Hin. destruct (Nat.eqb_spec evt e) as [<-|Hne].
      * destruct (ObsProofs.Gadd_w _ _ Hany) as (Hw & Hg & ->). destruct (Nat.eq_dec j oi) as [->|Hj'].
        -- rewrite Voi in Hj. injection Hj as <-. split; [exact Hw|apply ObsProofs.contains_or_r].
        -- apply in_app_or in Hin. destruct Hin as [Hin|[<-|[]]]; [|congruence]. rewrite OL4 in Hin. rewrite (V j Hj') in Hj.
           rewrite G4 in *. destruct (ma_aggw _ HA evt j oj Hg Hin Hj) as (X1 & X2). split; [exact X1|apply ObsProofs.contains_or_l; exact X2].
      * rewrite OL4 in Hin. assert (Hj' : j <> oi) by (intros ->; apply (Hno _ Hin)). rewrite (V j Hj') in Hj. rewrite G4 in *.
        apply (ma_aggw _ HA e j oj Hany Hin Hj).
    + intros e j oj Hent Hany Hin Hj. rewrite T3 in *. rewrite OL in Hin. destruct (Nat.eqb_spec evt e) as [<-|Hne].
      * destruct (ObsProofs.Gadd_c _ _ Hent Hany) as (Hw & Hg & ->). destruct (Nat.eq_dec j oi) as [->|Hj'].
        -- rewrite Voi in Hj. injection Hj as <-. split; [exact Hw|apply ObsProofs.contains_or_r].
        -- apply in_app_or in Hin. destruct Hin as [Hin|[<-|[]]]; [|congruence]. rewrite OL4 in Hin. rewrite (V j Hj') in Hj.
           rewrite G4 in *. destruct (ma_aggc _ HA evt j oj Hent Hg Hin Hj) as (X1 & X2). split; [exact X1|apply ObsProofs.contains_or_l; exact X2].
      * rewrite OL4 in Hin. assert (Hj' : j <> oi) by (intros ->; apply (Hno _ Hin)). rewrite (V j Hj') in Hj. rewrite G4 in *.
        apply (ma_aggc _ HA e j oj Hent Hany Hin Hj).
    + intros e Hne. rewrite OL in Hne. rewrite T5, B3. destruct (Nat.eqb_spec evt e) as [Ee|_]; [rewrite <- Ee; lia|].
      rewrite OL4 in Hne. pose proof (ma_max _ HA e Hne). lia.
Qed.

(* ================================================================================================ *)
(** * Part 4: every operation of the class keeps [MInvOF], unconditionally *)

Definition r2olf_ip {A} (m : MW A) : Prop := forall s, MInvOF s -> MInvOF (state_of (m s)).

Lemma r2olf_ip_ro : forall A (m : MW A), readonly m -> r2olf_ip m.
Proof. intros A m H s HS. rewrite (H s). exact HS. Qed.
Lemma r2olf_ip_bind : forall A B (m : MW A) (k : A -> MW B), r2olf_ip m -> (forall a, r2olf_ip (k a)) -> r2olf_ip (bind m k).
Proof.
  intros A B m k Hm Hk s HS. unfold bind. specialize (Hm s HS). destruct (m s) as [a s1|er s1]; cbn [state_of] in Hm; [apply Hk; exact Hm|exact Hm].
Qed.
Lemma r2olf_ip_getbind : forall A (k : W -> MW A), (forall s0, r2olf_ip (k s0)) -> r2olf_ip (bind get k).
Proof. intros A k H s HS. unfold bind, get. apply (H s s HS). Qed.
Lemma r2olf_ip_whenM : forall b m, r2olf_ip m -> r2olf_ip (whenM b m).
Proof. intros b m H. destruct b; cbn [whenM]; [exact H|apply r2olf_ip_ro, readonly_ret]. Qed.
Lemma r2olf_ip_forM : forall A (l : list A) (f : A -> MW unit), (forall a, r2olf_ip (f a)) -> r2olf_ip (forM_ l f).
Proof.
  intros A l f H. induction l as [|x l IH]; cbn [forM_]; [apply r2olf_ip_ro, readonly_ret|].
  apply r2olf_ip_bind; [apply H|intros _; exact IH].
Qed.
Lemma r2olf_ip_of_sdp : forall A (m : MW A), r2ol_sdp m -> r2olf_ip m.
Proof. intros A m H s HS. apply (r2olf_side s _ (r2ol_sdp_at _ m s H) HS). Qed.

Lemma r2olf_ip_lockM : r2olf_ip lockM.
Proof. intros s HS. unfold lockM, bind, get. destruct (lock_lock (w_lock s)) as [[b l']|]; cbn [state_of put ret fail]; [|exact HS]. apply (r2olf_ext s); try reflexivity. exact HS. Qed.
Lemma r2olf_ip_unlockM : forall b, r2olf_ip (unlockM b).
Proof. intros b s HS. unfold unlockM, bind, get. destruct (lock_unlock (w_lock s) b) as [l'|]; cbn [state_of put fail]; [|exact HS]. apply (r2olf_ext s); try reflexivity. exact HS. Qed.
Lemma r2olf_ip_log : forall l, r2olf_ip (log l).
Proof. intros l s HS. unfold log, modify. cbn [state_of]. apply (r2olf_ext s); try reflexivity. exact HS. Qed.
Lemma r2olf_ip_getO : forall oi, r2olf_ip (getO oi).
Proof. intros oi. apply r2olf_ip_ro. unfold getO. ro. Qed.
Lemma r2olf_ip_remove_observer : forall oi, r2olf_ip (remove_observer oi).
Proof. intros oi s HS. apply r2olf_rem_inv. exact HS. Qed.
Lemma r2olf_ip_add_observer : forall oi, r2olf_ip (add_observer oi).
Proof. intros oi s HS. apply r2olf_add_inv. exact HS. Qed.

Ltac r2olf_ip_step :=
  lazymatch goal with
  | |- r2olf_ip (let x := _ in _) => cbv zeta
  | |- r2olf_ip (ret _) => apply r2olf_ip_ro, readonly_ret
  | |- r2olf_ip (fail _) => apply r2olf_ip_ro, readonly_fail
  | |- r2olf_ip get => apply r2olf_ip_ro, readonly_get
  | |- r2olf_ip (guard _ _) => apply r2olf_ip_ro, readonly_guard
  | |- r2olf_ip (of_opt _ _) => apply r2olf_ip_ro, readonly_of_opt
  | |- r2olf_ip (getO _) => apply r2olf_ip_getO
  | |- r2olf_ip lockM => apply r2olf_ip_lockM
  | |- r2olf_ip (unlockM _) => apply r2olf_ip_unlockM
  | |- r2olf_ip (log _) => apply r2olf_ip_log
  | |- r2olf_ip (remove_observer _) => apply r2olf_ip_remove_observer
  | |- r2olf_ip (add_observer _) => apply r2olf_ip_add_observer
  | |- r2olf_ip (whenM _ _) => apply r2olf_ip_whenM
  | |- r2olf_ip (bind get _) => apply r2olf_ip_getbind; intros ?
  | |- r2olf_ip (bind _ _) => apply r2olf_ip_bind; [|intros ?]
  | |- r2olf_ip (let '(_, _) := ?x in _) => destruct x
  | |- r2olf_ip (match ?x with _ => _ end) => destruct x
  | |- r2olf_ip (if ?x then _ else _) => destruct x
  end.

Lemma r2olf_ip_run_callback : forall oi e, r2olf_ip (run_callback oi e).
Proof. intros oi e. unfold run_callback. repeat r2olf_ip_step. Qed.

Lemma r2olf_ip_fire_loop : forall pred e l found, r2olf_ip (fire_loop run_callback pred e l found).
Proof.
  intros pred e l. induction l as [|a l IH]; intros found; cbn [fire_loop]; [apply r2olf_ip_ro, readonly_ret|].
  apply r2olf_ip_bind; [apply r2olf_ip_getO|]. intros o. destruct (pred o); [|apply IH].
  apply r2olf_ip_bind; [apply r2olf_ip_run_callback|]. intros _. apply IH.
Qed.

Lemma r2olf_ip_fire : forall evt early pred e eo, r2olf_ip (fire evt early pred e eo).
Proof.
  intros. unfold fire, fire_with. apply r2olf_ip_getbind. intros s0.
  destruct (eo && early (get_agg s0 evt))%bool; [apply r2olf_ip_ro, readonly_ret|apply r2olf_ip_fire_loop].
Qed.

Ltac r2olf_ip_auto :=
  repeat first [ apply r2olf_ip_fire
               | r2olf_ip_step
               | solve [apply r2olf_ip_of_sdp; let s0 := fresh "s0" in intros s0; r2ol_sd_auto] ].

Lemma r2olf_ip_fire_create : forall e m, r2olf_ip (fire_create_entity_if_has e m).
Proof. intros. unfold fire_create_entity_if_has, fire_create_entity. r2olf_ip_auto. Qed.
Lemma r2olf_ip_fire_create_rel : forall e m, r2olf_ip (fire_create_entity_rel_if_has e m).
Proof. intros. unfold fire_create_entity_rel_if_has, fire_create_entity_rel. r2olf_ip_auto. Qed.
Lemma r2olf_ip_fire_add : forall evt e o n, r2olf_ip (fire_add_if_has evt e o n).
Proof. intros. unfold fire_add_if_has, fire_add. r2olf_ip_auto. Qed.
Lemma r2olf_ip_fire_remove_events : forall e o n rr, r2olf_ip (fire_remove_events e o n rr).
Proof. intros. unfold fire_remove_events, fire_remove. r2olf_ip_auto. Qed.

(** Shrink does not touch the side state (unconditionally) *)
Lemma r2olf_sdf_any1 : forall s0 idx any t s1, r2ol_sdf s0 (r_any1 idx any t s1).
Proof. intros. unfold r_any1. r2ol_sd_auto. Qed.
Lemma r2olf_sdf_go_clock : forall s0 clock fuel idx any, r2ol_sdf s0 (r_go_clock clock fuel idx any).
Proof.
  intros s0 clock fuel. induction fuel as [|f IH]; intros idx any; cbn [r_go_clock]; [apply r2ol_sdf_ro, readonly_ret|].
  apply r2ol_sdf_bind; [apply r2ol_sdf_ro, readonly_getT|]. intros t. apply r2ol_sdf_getbind. intros s1 _.
  apply r2ol_sdf_bind; [apply r2olf_sdf_any1|]. intros any1.
  destruct (any1 && clock idx)%bool; [apply r2ol_sdf_ro, readonly_ret|].
  destruct f; [apply r2ol_sdf_ro, readonly_ret|apply IH].
Qed.
Lemma r2olf_sdp_shrink : forall stop0, r2ol_sdp (w_shrink stop0).
Proof.
  intros stop0 s0. unfold w_shrink. apply r2ol_sdf_bind; [apply r2ol_sdf_ro, sc_ro_check_locked|]. intros _.
  unfold w_shrink_core. rewrite r_shrink_unfold_clock. apply r2ol_sdf_getbind. intros s1 _.
  apply r2ol_sdf_bind; [apply r2olf_sdf_go_clock|]. intros [last any]. apply r2ol_sdf_getbind. intros s2 _. apply r2ol_sdf_ro, readonly_ret.
Qed.

(** the structural operations *)
Lemma r2olf_ip_struct : forall debug o, oe_struct_op o = true -> r2olf_ip (step_op debug o).
Proof.
  intros debug o H. destruct o; try discriminate H; cbn [step_op].
  - r2olf_ip_auto. apply r2olf_ip_fire_create.
  - r2olf_ip_auto. apply r2olf_ip_fire_create.
  - r2olf_ip_auto; [apply r2olf_ip_fire_create|apply r2olf_ip_fire_create_rel].
  - unfold w_copy_entity. r2olf_ip_auto; [apply r2olf_ip_fire_create|apply r2olf_ip_fire_create_rel].
  - r2olf_ip_auto. apply r2olf_ip_fire_add.
  - r2olf_ip_auto; apply r2olf_ip_fire_add.
  - unfold w_remove. r2olf_ip_auto. apply r2olf_ip_fire_remove_events.
  - unfold w_exchange. r2olf_ip_auto; first [apply r2olf_ip_fire_remove_events|apply r2olf_ip_fire_add].
  - unfold w_set_relations, fire_set. r2olf_ip_auto.
  - unfold storage_remove_entity, fire_remove_entity, fire_remove_entity_rel. r2olf_ip_auto.
  - apply r2olf_ip_bind; [apply r2olf_ip_of_sdp, r2olf_sdp_shrink|]. intros b. apply r2olf_ip_ro, readonly_ret.
Qed.

(** the other operations of the class *)
Lemma r2olf_ip_OObsNew : forall debug evt f w wo ex cb, r2olf_ip (step_op debug (OObsNew evt f w wo ex cb)).
Proof.
  intros debug evt f w wo ex cb s (HM & HA). cbn [step_op]. rewrite sb2_bind_get. unfold bind, modify, ret. cbn [state_of].
  match goal with |- MInvOF ?x => set (s' := x) end.
  assert (V : forall j o, obj s j = Some o -> obj s' j = Some o).
  { intros j o Ho. unfold obj, s'. cbn. apply sa_nth_error_snoc_old. exact Ho. }
  assert (VM : forall e j oj, In j (olist s e) -> obj s' j = Some oj -> obj s j = Some oj).
  { intros e j oj Hin Hj. destruct (mo_lst _ HM e j Hin) as (o & Ho & _). rewrite (V j o Ho) in Hj. congruence. }
  split.
  - destruct HM as [M1 M2 M3 M4]. constructor; [|exact M2|exact M3|exact M4].
    intros e j Hin. destruct (M1 e j Hin) as (o & Ho & H). exists o. split; [apply V; exact Ho|exact H].
  - destruct HA as [A1 A2 A3 A4 A5]. constructor; [| exact A2 | | | exact A5].
    + intros e j oj Hin Hj. apply (A1 e j oj Hin (VM e j oj Hin Hj)).
    + intros e j oj Hany Hin Hj. apply (A3 e j oj Hany Hin (VM e j oj Hin Hj)).
    + intros e j oj Hent Hany Hin Hj. apply (A4 e j oj Hent Hany Hin (VM e j oj Hin Hj)).
Qed.

Lemma r2olf_ip_OEmit : forall debug evt h comps, r2olf_ip (step_op debug (OEmit evt h comps)).
Proof. intros. cbn [step_op]. unfold fire_set. r2olf_ip_auto. Qed.

Theorem r2olf_ip_step_op : forall debug o, rel_o_op o = true -> r2olf_ip (step_op debug o).
Proof.
  intros debug o Hop. destruct (r2o_class_cases o Hop) as [Hs|([Hk|[Hk|[Hk|Hk]]] & _)].
  - apply (r2olf_ip_struct debug o Hs).
  - destruct o; try discriminate Hk.
    + apply r2olf_ip_of_sdp, r2ol_sdp_OWrite.
    + intros s HS. apply (r2olf_os s _ (StatsProofs.sp_os_filter_op debug (OFilterNew unsafe ids without excl rels) s I) HS).
    + intros s HS. apply (r2olf_os s _ (StatsProofs.sp_os_filter_op debug (OFilterRegister f) s I) HS).
    + intros s HS. apply (r2olf_os s _ (StatsProofs.sp_os_filter_op debug (OFilterUnregister f) s I) HS).
  - intros s HS. apply (r2olf_os s _ (StatsProofs.sp_osp_query_op debug o Hk s) HS).
  - destruct o; try discriminate Hk.
    + apply r2olf_ip_OObsNew.
    + cbn [step_op]. r2olf_ip_auto.
    + cbn [step_op]. r2olf_ip_auto.
    + apply r2olf_ip_OEmit.
  - intros s HS. rewrite (r2o_readonly_state debug o s Hk). exact HS.
Qed.

Lemma r2olf_step_same : forall debug wd s line o, decode_op line = Some o ->
  let s1 := state_of (step_op debug o (s <| w_log := [] |>)) in let s' := fst (step debug wd s line) in
  w_obs s' = w_obs s1 /\ w_olists s' = w_olists s1 /\ w_oagg s' = w_oagg s1 /\ w_omax s' = w_omax s1 /\ w_ototal s' = w_ototal s1.
Proof.
  intros debug wd s line o Hd. cbv zeta. unfold step. rewrite Hd. cbv zeta. cbn [fst].
  destruct (issues_from_log o && negb (is_err (step_op debug o (s <| w_log := [] |>))))%bool;
    destruct (step_op debug o (s <| w_log := [] |>)) as [[|i [|g rest]] s1|er s1]; cbn [state_of];
    try destruct (returns_entity o); repeat split.
Qed.

(** One step of a decoded line of the class keeps [MInvOF] - no side condition at all. *)
Theorem step_MInvOF : forall debug wd s line o, MInvOF s -> decode_op line = Some o -> rel_o_op o = true ->
  MInvOF (fst (step debug wd s line)).
Proof.
  intros debug wd s line o HS Hd Hop.
  assert (HS0 : MInvOF (s <| w_log := [] |>)) by (apply (r2olf_ext s); try reflexivity; exact HS).
  pose proof (r2olf_ip_step_op debug o Hop _ HS0) as H1.
  destruct (r2olf_step_same debug wd s line o Hd) as (E1 & E2 & E3 & E4 & E5). apply (r2olf_ext _ _ E1 E2 E3 E4 E5 H1).
Qed.

Theorem reachable_MInvOF : forall c lines, Forall (rel_o_line (sc_kinds c)) lines -> MInvOF (Properties.Common.exec c lines).
Proof.
  intros c lines. induction lines as [|l lines IH] using rev_ind; intros HF; [apply r2olf_init; reflexivity|].
  apply Forall_app in HF. destruct HF as (HF & Hl). inversion Hl as [|? ? (o & Hd & Hco & _) _]; subst.
  unfold Properties.Common.exec. rewrite fold_left_app. cbn [fold_left].
  apply (step_MInvOF (sc_debug c) false _ l o (IH HF) Hd Hco).
Qed.

(* ================================================================================================ *)
(** * Part 5: the aggregate early-out is sound in every reachable state (C08 over raw histories) *)

Lemma r2olf_reg_w : forall s evt oi o, MAgg s -> g_anynowith (get_agg s evt) = false ->
  In oi (olist s evt) -> obj s oi = Some o ->
  o_haswith o = true /\ o_with o <> 0%N /\ mk_contains (g_allwith (get_agg s evt)) (o_with o) = true.
Proof.
  intros s evt oi o HA Hg Hin Ho. destruct (ma_aggw _ HA _ _ _ Hg Hin Ho) as [Hw Hc].
  destruct (ma_pm _ HA evt oi o Hin Ho) as (HP & _). auto.
Qed.

Lemma r2olf_reg_c : forall s evt oi o, MAgg s -> is_entity_event evt = false -> g_anynocomps (get_agg s evt) = false ->
  In oi (olist s evt) -> obj s oi = Some o ->
  o_hascomps o = true /\ o_comps o <> 0%N /\ mk_contains (g_allcomps (get_agg s evt)) (o_comps o) = true.
Proof.
  intros s evt oi o HA He Hg Hin Ho. destruct (ma_aggc _ HA _ _ _ He Hg Hin Ho) as [Hw Hc].
  destruct (ma_pm _ HA evt oi o Hin Ho) as (_ & HP). auto.
Qed.

Lemma r2olf_early_with_sound : forall s evt m oi o, MAgg s -> early_with m (get_agg s evt) = true ->
  In oi (olist s evt) -> obj s oi = Some o -> p_with m o = false.
Proof.
  intros s evt m oi o HA He Hin Ho. unfold early_with in He. apply andb_true_iff in He. destruct He as [H1 H2].
  apply negb_true_iff in H1, H2. destruct (r2olf_reg_w _ _ _ _ HA H1 Hin Ho) as (Hw & Hnz & Hc).
  unfold p_with. rewrite Hw, (ObsProofs.disjoint_not_contained _ _ _ Hnz Hc H2). reflexivity.
Qed.

Lemma r2olf_early_comps_sound : forall s evt m oi o, MAgg s -> is_entity_event evt = false ->
  early_comps m (get_agg s evt) = true -> In oi (olist s evt) -> obj s oi = Some o ->
  (o_hascomps o && negb (mk_contains m (o_comps o)))%bool = true.
Proof.
  intros s evt m oi o HA Hent He Hin Ho. unfold early_comps in He. apply andb_true_iff in He. destruct He as [H1 H2].
  apply negb_true_iff in H1, H2. destruct (r2olf_reg_c _ _ _ _ HA Hent H1 Hin Ho) as (Hw & Hnz & Hc).
  rewrite Hw, (ObsProofs.disjoint_not_contained _ _ _ Hnz Hc H2). reflexivity.
Qed.

Lemma r2olf_early_set_sound : forall s evt cm em oi o, MAgg s -> is_entity_event evt = false ->
  early_set cm em (get_agg s evt) = true -> In oi (olist s evt) -> obj s oi = Some o -> p_set cm em o = false.
Proof.
  intros s evt cm em oi o HA Hent He Hin Ho. unfold early_set in He. apply orb_true_iff in He. unfold p_set.
  destruct He as [He|He].
  - rewrite (r2olf_early_comps_sound _ _ _ _ _ HA Hent He Hin Ho). reflexivity.
  - rewrite (r2olf_early_with_sound _ _ _ _ _ HA He Hin Ho). apply andb_false_r.
Qed.

Lemma r2olf_early_add_sound : forall s evt old new oi o, MAgg s -> is_entity_event evt = false ->
  early_add old new (get_agg s evt) = true -> In oi (olist s evt) -> obj s oi = Some o -> p_add old new o = false.
Proof.
  intros s evt old new oi o HA Hent He Hin Ho. unfold early_add in He. apply orb_true_iff in He. unfold p_add.
  destruct He as [He|He].
  - apply andb_true_iff in He. destruct He as [H1 H2]. apply negb_true_iff in H1.
    destruct (r2olf_reg_c _ _ _ _ HA Hent H1 Hin Ho) as (Hw & Hnz & Hc). rewrite Hw.
    apply orb_true_iff in H2. destruct H2 as [H2|H2].
    + apply negb_true_iff in H2. rewrite (ObsProofs.disjoint_not_contained _ _ _ Hnz Hc H2). reflexivity.
    + rewrite (ObsProofs.covered_intersects _ _ _ Hnz Hc H2). rewrite orb_true_r. reflexivity.
  - rewrite (r2olf_early_with_sound _ _ _ _ _ HA He Hin Ho). apply andb_false_r.
Qed.

Lemma r2olf_early_remove_sound : forall s evt old new oi o, MAgg s -> is_entity_event evt = false ->
  early_remove old new (get_agg s evt) = true -> In oi (olist s evt) -> obj s oi = Some o -> p_remove old new o = false.
Proof.
  intros s evt old new oi o HA Hent He Hin Ho. unfold early_remove in He. apply orb_true_iff in He. unfold p_remove.
  destruct He as [He|He].
  - apply andb_true_iff in He. destruct He as [H1 H2]. apply negb_true_iff in H1.
    destruct (r2olf_reg_c _ _ _ _ HA Hent H1 Hin Ho) as (Hw & Hnz & Hc). rewrite Hw.
    apply orb_true_iff in H2. destruct H2 as [H2|H2].
    + apply negb_true_iff in H2. rewrite (ObsProofs.disjoint_not_contained _ _ _ Hnz Hc H2). reflexivity.
    + rewrite (ObsProofs.covered_intersects _ _ _ Hnz Hc H2). rewrite orb_true_r. reflexivity.
  - rewrite (r2olf_early_with_sound _ _ _ _ _ HA He Hin Ho). apply andb_false_r.
Qed.

(** a dispatch loop over observers none of which matches calls nobody - whatever the callback is *)
Lemma r2olf_fire_loop_nomatch : forall cb pred e l s found,
  (forall oi, In oi l -> exists o, obj s oi = Some o /\ pred o = false) -> fire_loop cb pred e l found s = Ok found s.
Proof.
  intros cb pred e l s found. induction l as [|a l IH]; intros H; [reflexivity|]. cbn [fire_loop].
  destruct (H a (or_introl eq_refl)) as (o & Ho & Hp).
  assert (G : getO a s = Ok o s) by (unfold getO, bind, get; fold (obj s a); rewrite Ho; reflexivity).
  rewrite (sa_bind_ok G), Hp. apply IH. intros oi Hin. apply H. right. exact Hin.
Qed.

(** If the early-out condition implies that no listed observer matches, [earlyOut] is unobservable - for ANY callback. *)
Theorem r2olf_early_unobservable : forall cb evt early pred e eo s, MInvOF s ->
  (early (get_agg s evt) = true -> forall oi o, In oi (olist s evt) -> obj s oi = Some o -> pred o = false) ->
  fire_with cb evt early pred e eo s = fire_with cb evt early pred e false s.
Proof.
  intros cb evt early pred e eo s (HM & _) He. unfold fire_with. rewrite !sb2_bind_get. cbn [andb].
  destruct eo; [|reflexivity]. cbn [andb]. destruct (early (get_agg s evt)) eqn:Ee; [|reflexivity].
  symmetry. apply r2olf_fire_loop_nomatch. intros oi Hin. destruct (mo_lst _ HM evt oi Hin) as (o & Ho & _).
  exists o. split; [exact Ho|apply (He eq_refl oi o Hin Ho)].
Qed.

Section r2olf_reach.
Variables (c : script_cfg) (lines : list (list Z)).
Hypothesis Hl : Forall (rel_o_line (sc_kinds c)) lines.
Let s := Properties.Common.exec c lines.
Let HF : MInvOF s := reachable_MInvOF c lines Hl.

(** In every reachable state, for the REAL callbacks (any kind), the five dispatch families do not depend on [earlyOut]. *)
Theorem reachable_early_out_unobservable_entity : forall evt e m eo,
  fire evt (early_with m) (p_with m) e eo s = fire evt (early_with m) (p_with m) e false s.
Proof.
  intros evt e m eo. apply (r2olf_early_unobservable run_callback evt _ _ e eo s HF).
  intros He oi o Hin Ho. apply (r2olf_early_with_sound s evt m oi o (proj2 HF) He Hin Ho).
Qed.

Theorem reachable_early_out_unobservable_entity_rel : forall evt e m eo, is_entity_event evt = false ->
  fire evt (fun g => (early_comps m g || early_with m g)%bool) (p_entity_rel m) e eo s =
  fire evt (fun g => (early_comps m g || early_with m g)%bool) (p_entity_rel m) e false s.
Proof.
  intros evt e m eo Hent. apply (r2olf_early_unobservable run_callback evt _ _ e eo s HF).
  intros He oi o Hin Ho. exact (r2olf_early_set_sound s evt m m oi o (proj2 HF) Hent He Hin Ho).
Qed.

Theorem reachable_early_out_unobservable_add : forall evt e old new eo, is_entity_event evt = false ->
  fire_add evt e old new eo s = fire_add evt e old new false s.
Proof.
  intros evt e old new eo Hent. unfold fire_add. apply (r2olf_early_unobservable run_callback evt _ _ e eo s HF).
  intros He oi o Hin Ho. apply (r2olf_early_add_sound s evt old new oi o (proj2 HF) Hent He Hin Ho).
Qed.

Theorem reachable_early_out_unobservable_remove : forall evt e old new eo, is_entity_event evt = false ->
  fire_remove evt e old new eo s = fire_remove evt e old new false s.
Proof.
  intros evt e old new eo Hent. unfold fire_remove. apply (r2olf_early_unobservable run_callback evt _ _ e eo s HF).
  intros He oi o Hin Ho. apply (r2olf_early_remove_sound s evt old new oi o (proj2 HF) Hent He Hin Ho).
Qed.

Theorem reachable_early_out_unobservable_set : forall evt e cm em eo, is_entity_event evt = false ->
  fire_set evt e cm em eo s = fire_set evt e cm em false s.
Proof.
  intros evt e cm em eo Hent. unfold fire_set. apply (r2olf_early_unobservable run_callback evt _ _ e eo s HF).
  intros He oi o Hin Ho. apply (r2olf_early_set_sound s evt cm em oi o (proj2 HF) Hent He Hin Ho).
Qed.

(** ... and the [has_obs] shortcut taken by every operation is exact: "no observer for the event" iff its list is empty. *)
Theorem reachable_has_obs_exact : forall evt, has_obs s evt = negb (is_nil (olist s evt)).
Proof. intros evt. apply (ma_has _ (proj2 HF)). Qed.
End r2olf_reach.

(** with passive observers ([cb_stable] callbacks) the dispatch is the specification of ObsSpec, in every reachable state *)
Theorem reachable_dispatch_exact_set : forall c lines cb evt e cm em eo, Forall (rel_o_line (sc_kinds c)) lines ->
  ObsSpec.cb_stable cb -> is_entity_event evt = false ->
  let s := Properties.Common.exec c lines in
  fire_with cb evt (early_set cm em) (p_set cm em) e eo s = ObsSpec.dispatch_spec cb s evt (p_set cm em) e.
Proof.
  intros c lines cb evt e cm em eo Hl Hcb Hent s. pose proof (reachable_MInvOF c lines Hl) as HF. fold s in HF.
  rewrite (r2olf_early_unobservable cb evt _ _ e eo s HF).
  - unfold fire_with. rewrite sb2_bind_get. cbn [andb].
    rewrite (ObsProofs.fire_loop_spec cb (p_set cm em) e Hcb (w_obs s) (olist s evt) s false eq_refl); [reflexivity|].
    intros oi Hin. destruct (mo_lst _ (proj1 HF) evt oi Hin) as (o & Ho & _). unfold obj in Ho. congruence.
  - intros He oi o Hin Ho. apply (r2olf_early_set_sound s evt cm em oi o (proj2 HF) Hent He Hin Ho).
Qed.

(** the combined invariant of Rel2HistOL with the aggregates *)
Theorem reachable_inv2OL_agg : forall c lines,
  cfg_ok2 c -> Forall (rel_o_line (sc_kinds c)) lines -> length lines + 4 < Nat.pow 2 31 ->
  Inv2OL (Properties.Common.exec c lines) (length lines) /\ MAgg (Properties.Common.exec c lines).
Proof. intros c lines Hc Hl Hb. split; [apply (reachable_inv2OL c lines Hc Hl Hb)|apply (reachable_MInvOF c lines Hl)]. Qed.

(* ================================================================================================ *)
(** * Part 6: non-vacuity *)

Example r2olf_script_inv : MInvOF (Properties.Common.exec Rel2Check.r2_cfg r2o_script).
Proof. apply reachable_MInvOF. exact r2o_script_lines. Qed.

Example r2olf_mid_inv : MInvOF r2o_mid.
Proof. apply (reachable_MInvOF Rel2Check.r2_cfg (firstn 17 r2o_script)). apply r2o_firstn_lines. Qed.

(** the rejected registration: [MInvOF] holds (by the theorem) where [MInv] fails *)
Example r2olf_rej_inv : MInvOF r2ol_rej /\ ~ ObsProofs.MInv r2ol_rej.
Proof.
  split; [|apply r2ol_rej_MInv_refuted]. apply (reachable_MInvOF Rel2Check.r2_cfg (firstn 2 r2ol_rej_script)).
  apply Forall_forall. intros l Hl. pose proof (rel_o_line_b_sound _ _ r2ol_rej_covered) as H. rewrite Forall_forall in H.
  apply H. rewrite <- (firstn_skipn 2 r2ol_rej_script). apply in_or_app. left. exact Hl.
Qed.

(** in the state after 17 steps (observers 1, 2, 3 listed for the events 249, 7, 255) the Emit of the script is dispatched the
    same way with and without early-out, and its aggregates are the ones the lists determine *)
Example r2olf_mid_early :
  fire_set 7 zero_ent 0%N 0%N true r2o_mid = fire_set 7 zero_ent 0%N 0%N false r2o_mid /\
  map (fun ev => (has_obs r2o_mid ev, olist r2o_mid ev)) [7; 249; 254; 255; 250] =
  [(true, [2]); (true, [1]); (false, []); (true, [3]); (false, [])].
Proof.
  split; [|vm_compute; reflexivity].
  apply (reachable_early_out_unobservable_set Rel2Check.r2_cfg (firstn 17 r2o_script) (r2o_firstn_lines 17)). reflexivity.
Qed.

(** ** Assumption audit *)
Definition r2olf_all :=
  (r2olf_of_MInv, r2olf_to_MInv, r2olf_rem_inv, r2olf_add_inv, r2olf_ip_step_op, step_MInvOF, reachable_MInvOF,
   r2olf_early_unobservable, reachable_early_out_unobservable_entity, reachable_early_out_unobservable_entity_rel,
   reachable_early_out_unobservable_add, reachable_early_out_unobservable_remove, reachable_early_out_unobservable_set,
   reachable_has_obs_exact, reachable_dispatch_exact_set, reachable_inv2OL_agg,
   r2olf_script_inv, r2olf_mid_inv, r2olf_rej_inv, r2olf_mid_early).
Print Assumptions r2olf_all.
