(** * LockProofs: proofs of the C07 statements about lock bits (to be filled). *)
From Ark Require Import Model.Base Model.Mask Model.Pool Proofs.LockSpec.

(** The mask holds exactly the held bits; held bits are distinct and below 64. *)
Theorem lock_mask_exact :
  forall ops b, let g := lrun ops in
  mk_get (lk_mask (lg_lock g)) b = true <-> In b (lg_held g).
Admitted.

Theorem lock_held_nodup :
  forall ops, let g := lrun ops in NoDup (lg_held g) /\ (forall b, In b (lg_held g) -> b < 64).
Admitted.

(** IsLocked iff some bit is held. *)
Theorem lock_is_locked_iff :
  forall ops, let g := lrun ops in lock_is_locked (lg_lock g) = true <-> lg_held g <> [].
Admitted.

(** Lock succeeds with a bit that was not held, unless all 64 are held, in which case it fails. *)
Theorem lock_lock_fresh :
  forall ops, let g := lrun ops in
  match lock_lock (lg_lock g) with
  | Some (b, _) => ~ In b (lg_held g) /\ b < 64 /\ length (lg_held g) < 64
  | None => length (lg_held g) = 64
  end.
Admitted.

(** Unlock of a bit that is not held is rejected (and [lstep] leaves the lock unchanged);
    unlock of a held bit succeeds. *)
Theorem lock_unlock_balanced :
  forall ops b, let g := lrun ops in
  (In b (lg_held g) -> lock_unlock (lg_lock g) b <> None) /\
  (~ In b (lg_held g) -> lock_unlock (lg_lock g) b = None).
Admitted.
