(** * LockProofs: proofs of the C07 statements about lock bits. *)
From Ark Require Import Model.Base Model.Mask Model.Pool Proofs.LockSpec.
From Coq Require Import Lia ZifyN ZifyNat ZifyBool.

(** ** Helper lemmas: [upd] *)

Lemma length_upd : forall A (l : list A) i x, length (upd i x l) = length l.
Proof.
  induction l; intros [|i] x; simpl; auto.
Qed.

Lemma nth_error_upd_eq : forall A (l : list A) i x,
  i < length l -> nth_error (upd i x l) i = Some x.
Proof.
  induction l; intros [|i] x H; simpl in *; try lia; auto.
  apply IHl; lia.
Qed.

Lemma nth_error_upd_neq : forall A (l : list A) i j x,
  i <> j -> nth_error (upd i x l) j = nth_error l j.
Proof.
  induction l; intros [|i] [|j] x H; simpl; auto; try congruence.
Qed.

(** ** Helper lemmas: [remove_nat] *)

Lemma in_remove_nat : forall b l x, In x (remove_nat b l) <-> In x l /\ x <> b.
Proof.
  intros b l x. unfold remove_nat. rewrite filter_In.
  rewrite negb_true_iff, Nat.eqb_neq. tauto.
Qed.

Lemma remove_nat_notin : forall b l, ~ In b l -> remove_nat b l = l.
Proof.
  induction l; simpl; intros H; auto.
  destruct (Nat.eqb a b) eqn:E; simpl.
  - apply Nat.eqb_eq in E. tauto.
  - f_equal. apply IHl. tauto.
Qed.

Lemma length_remove_nat : forall b l,
  NoDup l -> In b l -> S (length (remove_nat b l)) = length l.
Proof.
  induction l; simpl; intros Hnd Hin; [tauto|].
  inversion Hnd; subst.
  destruct (Nat.eqb a b) eqn:E; simpl.
  - apply Nat.eqb_eq in E; subst. rewrite remove_nat_notin; auto.
  - apply Nat.eqb_neq in E. destruct Hin; [congruence|].
    f_equal. apply IHl; auto.
Qed.

Lemma NoDup_remove_nat : forall b l, NoDup l -> NoDup (remove_nat b l).
Proof.
  intros b l H. induction H; simpl.
  - constructor.
  - destruct (Nat.eqb x b); simpl; auto.
    constructor; auto. rewrite in_remove_nat. tauto.
Qed.

(** ** Helper lemmas: mask bits *)

Lemma mk_get_set : forall m b x,
  mk_get (mk_set m b) x = true <-> x = b \/ mk_get m x = true.
Proof.
  intros. unfold mk_get, mk_set. rewrite N.setbit_eqb, orb_true_iff, N.eqb_eq.
  split; intros [H|H]; auto.
  left. symmetry. apply Nat2N.inj; auto.
Qed.

Lemma mk_get_clear : forall m b x,
  mk_get (mk_clear m b) x = true <-> x <> b /\ mk_get m x = true.
Proof.
  intros. unfold mk_get, mk_clear.
  rewrite N.clearbit_eqb, andb_true_iff, negb_true_iff, N.eqb_neq.
  split; intros [H1 H2]; split; try assumption; intros H.
  - apply H2. subst; reflexivity.
  - apply Nat2N.inj in H. congruence.
Qed.

(** ** The free list chained through the pool slots *)

Fixpoint chain (l : list nat) (nx : nat) (fl : list nat) : Prop :=
  match fl with
  | [] => True
  | a :: rest => nx = a /\ exists c, nth_error l a = Some c /\ chain l c rest
  end.

Lemma chain_upd : forall l i x fl nx,
  ~ In i fl -> chain l nx fl -> chain (upd i x l) nx fl.
Proof.
  induction fl as [|a rest IH]; simpl; intros nx Hni H; auto.
  destruct H as (-> & c & Hc & Hch). split; auto.
  exists c. split.
  - rewrite nth_error_upd_neq; auto.
  - apply IH; auto.
Qed.

Lemma chain_app : forall l y fl nx, chain l nx fl -> chain (l ++ [y]) nx fl.
Proof.
  induction fl as [|a rest IH]; simpl; intros nx H; auto.
  destruct H as (-> & c & Hc & Hch). split; auto.
  exists c. split; auto.
  rewrite nth_error_app1; auto. apply nth_error_Some. congruence.
Qed.

(** ** The invariant *)

Definition Inv' (ipl : list nat) (nx av : nat) (m : mask) (held : list nat) : Prop :=
  exists fl,
    length ipl <= 64 /\
    length fl = av /\
    NoDup fl /\ NoDup held /\
    (forall b, In b fl -> ~ In b held) /\
    (forall b, In b fl \/ In b held -> b < length ipl) /\
    length held + length fl = length ipl /\
    chain ipl nx fl /\
    (forall b, mk_get m b = true <-> In b held).

Definition Inv (g : lghost) : Prop :=
  let p := lk_pool (lg_lock g) in
  Inv' (ip p) (inext p) (iavail p) (lk_mask (lg_lock g)) (lg_held g).

Lemma Inv_init : Inv lghost0.
Proof.
  unfold Inv, Inv'; simpl. exists []. simpl.
  repeat split; auto; try constructor; try lia; try tauto.
  all: unfold mk_get; rewrite N.bits_0; discriminate.
Qed.

(** What [lock_lock] does in a state satisfying the invariant. *)
Lemma lock_lock_spec : forall ipl nx av m held,
  Inv' ipl nx av m held ->
  match lock_lock {| lk_pool := {| ip := ipl; inext := nx; iavail := av |}; lk_mask := m |} with
  | Some (b, l') =>
      ~ In b held /\ b < 64 /\ length held < 64 /\
      Inv' (ip (lk_pool l')) (inext (lk_pool l')) (iavail (lk_pool l')) (lk_mask l') (b :: held)
  | None => length held = 64
  end.
Proof.
  intros ipl nx av m held (fl & Hlen & Hav & Hndf & Hndh & Hdis & Hlt & Hcnt & Hch & Hm).
  unfold lock_lock, ipool_get.
  cbn [lk_pool lk_mask ip inext iavail].
  destruct (Nat.eqb av 0) eqn:E.
  - apply Nat.eqb_eq in E. subst av.
    destruct fl; [|discriminate]. simpl in Hcnt.
    destruct (Nat.leb 64 (length ipl)) eqn:E2.
    + apply Nat.leb_le in E2. lia.
    + apply Nat.leb_gt in E2.
      cbn [lk_pool lk_mask ip inext iavail].
      assert (Hni : ~ In (length ipl) held).
      { intros H. specialize (Hlt (length ipl) (or_intror H)). lia. }
      repeat split; auto; try lia.
      exists []. rewrite app_length. simpl.
      repeat split; auto; try lia; try tauto.
      * constructor; auto.
      * intros b [H|[H|H]]; [tauto|lia|].
        specialize (Hlt b (or_intror H)). lia.
      * intros H. apply mk_get_set in H. destruct H; [auto|right; apply Hm; auto].
      * intros [H|H]; apply mk_get_set; [auto|right; apply Hm; auto].
  - apply Nat.eqb_neq in E.
    destruct fl as [|a rest]; [simpl in Hav; congruence|].
    simpl in Hch. destruct Hch as (-> & c & Hc & Hch). rewrite Hc.
    cbn [lk_pool lk_mask ip inext iavail].
    inversion Hndf as [|? ? Hna Hndr]; subst.
    assert (Hah : ~ In a held) by (apply Hdis; left; auto).
    assert (Halt : a < length ipl) by (apply Hlt; left; left; auto).
    simpl in Hcnt.
    repeat split; auto; try lia.
    exists rest. rewrite length_upd.
    repeat split; auto; try lia.
    + simpl. lia.
    + constructor; auto.
    + intros b Hb [H|H]; [subst; tauto|]. apply (Hdis b); auto. right; auto.
    + intros b [H|[H|H]]; [|subst; auto|]; apply Hlt; [left; right|right]; auto.
    + simpl. lia.
    + apply chain_upd; auto.
    + intros H. apply mk_get_set in H. destruct H; [left; auto|right; apply Hm; auto].
    + intros [H|H]; apply mk_get_set; [auto|right; apply Hm; auto].
Qed.

(** What [lock_unlock] does in a state satisfying the invariant. *)
Lemma lock_unlock_spec : forall ipl nx av m held b,
  Inv' ipl nx av m held ->
  match lock_unlock {| lk_pool := {| ip := ipl; inext := nx; iavail := av |}; lk_mask := m |} b with
  | Some l' =>
      In b held /\
      Inv' (ip (lk_pool l')) (inext (lk_pool l')) (iavail (lk_pool l')) (lk_mask l')
           (remove_nat b held)
  | None => ~ In b held
  end.
Proof.
  intros ipl nx av m held b (fl & Hlen & Hav & Hndf & Hndh & Hdis & Hlt & Hcnt & Hch & Hm).
  unfold lock_unlock, ipool_recycle.
  cbn [lk_pool lk_mask ip inext iavail].
  destruct (mk_get m b) eqn:E.
  - cbn [lk_pool lk_mask ip inext iavail].
    assert (Hb : In b held) by (apply Hm; auto).
    split; auto.
    assert (Hbf : ~ In b fl) by (intros H; apply (Hdis b); auto).
    assert (Hblt : b < length ipl) by (apply Hlt; auto).
    exists (b :: fl). rewrite length_upd.
    repeat split; auto.
    + simpl. lia.
    + constructor; auto.
    + apply NoDup_remove_nat; auto.
    + intros x [H|H] H2; apply in_remove_nat in H2; destruct H2 as [H2 H3].
      * congruence.
      * apply (Hdis x); auto.
    + intros x [[H|H]|H].
      * subst; auto.
      * apply Hlt; auto.
      * apply in_remove_nat in H. apply Hlt; tauto.
    + pose proof (length_remove_nat _ _ Hndh Hb). simpl. lia.
    + exists nx. split.
      * apply nth_error_upd_eq; auto.
      * apply chain_upd; auto.
    + intros H. apply mk_get_clear in H. apply in_remove_nat. rewrite <- Hm. tauto.
    + intros H. apply in_remove_nat in H. apply mk_get_clear. rewrite Hm. tauto.
  - intros H. apply Hm in H. congruence.
Qed.

Lemma Inv_step : forall g o, Inv g -> Inv (lstep g o).
Proof.
  intros [[[ipl nx av] m] held errs] o. unfold Inv.
  cbn [lg_lock lg_held lk_pool lk_mask ip inext iavail]. intros HI.
  destruct o as [|b]; unfold lstep; cbn [lg_lock lg_held lg_errs].
  - pose proof (lock_lock_spec _ _ _ _ _ HI) as H.
    destruct (lock_lock _) as [[b l']|].
    + cbn [lg_lock lg_held]. tauto.
    + cbn [lg_lock lg_held lk_pool lk_mask ip inext iavail]. auto.
  - pose proof (lock_unlock_spec _ _ _ _ _ b HI) as H.
    destruct (lock_unlock _ _) as [l'|].
    + cbn [lg_lock lg_held]. tauto.
    + cbn [lg_lock lg_held lk_pool lk_mask ip inext iavail]. auto.
Qed.

Lemma Inv_run : forall ops, Inv (lrun ops).
Proof.
  unfold lrun. induction ops as [|o ops IH] using rev_ind; simpl.
  - apply Inv_init.
  - rewrite fold_left_app. simpl. apply Inv_step; auto.
Qed.

(** ** The C07 statements *)

(** The mask holds exactly the held bits; held bits are distinct and below 64. *)
Theorem lock_mask_exact :
  forall ops b, let g := lrun ops in
  mk_get (lk_mask (lg_lock g)) b = true <-> In b (lg_held g).
Proof.
  intros ops b g.
  destruct (Inv_run ops) as (fl & Hlen & Hav & Hndf & Hndh & Hdis & Hlt & Hcnt & Hch & Hm).
  apply Hm.
Qed.

Theorem lock_held_nodup :
  forall ops, let g := lrun ops in NoDup (lg_held g) /\ (forall b, In b (lg_held g) -> b < 64).
Proof.
  intros ops g.
  destruct (Inv_run ops) as (fl & Hlen & Hav & Hndf & Hndh & Hdis & Hlt & Hcnt & Hch & Hm).
  split; auto.
  intros b Hb. subst g. cbv zeta in *. specialize (Hlt b (or_intror Hb)). lia.
Qed.

(** IsLocked iff some bit is held. *)
Theorem lock_is_locked_iff :
  forall ops, let g := lrun ops in lock_is_locked (lg_lock g) = true <-> lg_held g <> [].
Proof.
  intros ops g.
  pose proof (lock_mask_exact ops) as Hm. cbv zeta in Hm. fold g in Hm.
  unfold lock_is_locked, mk_is_zero. rewrite negb_true_iff, N.eqb_neq.
  split; intros H.
  - intros Hnil. apply H. apply N.bits_inj_iff. intros n.
    rewrite N.bits_0.
    destruct (N.testbit (lk_mask (lg_lock g)) n) eqn:E; auto.
    rewrite <- (N2Nat.id n) in E.
    apply (Hm (N.to_nat n)) in E. rewrite Hnil in E. destruct E.
  - intros H0. destruct (lg_held g) as [|b t] eqn:Eh; [congruence|].
    assert (Hb : mk_get (lk_mask (lg_lock g)) b = true) by (apply Hm; left; auto).
    unfold mk_get in Hb. rewrite H0, N.bits_0 in Hb. discriminate.
Qed.

(** Lock succeeds with a bit that was not held, unless all 64 are held, in which case it fails. *)
Theorem lock_lock_fresh :
  forall ops, let g := lrun ops in
  match lock_lock (lg_lock g) with
  | Some (b, _) => ~ In b (lg_held g) /\ b < 64 /\ length (lg_held g) < 64
  | None => length (lg_held g) = 64
  end.
Proof.
  intros ops g.
  pose proof (Inv_run ops) as HI. fold g in HI.
  destruct g as [[[ipl nx av] m] held errs]. unfold Inv in HI.
  cbn [lg_lock lg_held lk_pool lk_mask ip inext iavail] in *.
  pose proof (lock_lock_spec _ _ _ _ _ HI) as H.
  destruct (lock_lock _) as [[b l']|]; tauto.
Qed.

(** Unlock of a bit that is not held is rejected (and [lstep] leaves the lock unchanged);
    unlock of a held bit succeeds. *)
Theorem lock_unlock_balanced :
  forall ops b, let g := lrun ops in
  (In b (lg_held g) -> lock_unlock (lg_lock g) b <> None) /\
  (~ In b (lg_held g) -> lock_unlock (lg_lock g) b = None).
Proof.
  intros ops b g.
  pose proof (lock_mask_exact ops b) as Hm. cbv zeta in Hm. fold g in Hm.
  unfold lock_unlock.
  destruct (mk_get (lk_mask (lg_lock g)) b) eqn:E.
  - split; [discriminate|]. intros H. exfalso. apply H, Hm; auto.
  - split; auto. intros H. apply Hm in H. congruence.
Qed.

