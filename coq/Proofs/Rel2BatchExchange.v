(** * Rel2BatchExchange: ExchangeBatch ([w_exchange_batch]) in the relation tier (worlds WITH relation
    components), against [St2 /\ r2d_KeysLive /\ r2e_noobs]. Helper prefix [r2x_].

    Part 1  [r2x_exchange_table_spec]: the bulk move [exchange_table otid ntid rels] of all rows of one table into
            an active table of a DIFFERENT archetype, against [St2G r2_none P r2_none] ([P]: pending registrations;
            those of [rels] are discharged). Execution [r2x_x_exec] (= [b_x_exec] for [WF] alone, any [rels]);
            post-conditions from section [r2c_mvpost] of Rel2Remove plus [r2x_mv_moved]; invariant by [L_St2G_rows].
    Part 2  [r2x_setcells] (rewriting cells of a table keeps [St2G] and all targets); the batch callbacks with an
            ARBITRARY value list, in both outcomes: [r2x_vals_any], [r2x_cb_any].
    Part 3  the invariant through the whole operation, both outcomes: phase A with arbitrary relation lists
            [r2x_finder_step], [r2x_collect]; phase B [r2x_step_any], [r2x_move_any]; [r2x_xbody_any];
            [r2x_exchange_batch_inv] (no hypothesis about the selection, the lock bits, readiness or [vals]).
    Part 4  success = the per-entity Exchange on exactly the entities of the selected non-empty tables:
            [r2x_step_ok], [r2x_move_ok], [r2x_exchange_batch_spec], "valid calls succeed" [r2x_exchange_batch_ok],
            the aliasing question [r2x_dst_not_src], the selection of an unregistered filter [r2x_selected_uncached],
            [r2x_exchange_batch_by_filter].
    Part 5  non-vacuity: [r2x_exchange_table_by_theorem], [r2x_inv_callback_panics], [r2x_inv_phaseA_fails],
            [r2x_spec_by_theorem]; aliasing on concrete worlds [r2x_alias_selected_dst_fails], [r2x_alias_empty_dst_ok].

    The parameter [V : Prop] of the phase lemmas ("the call is valid", instantiated with [False] for the invariant
    theorem and with [True] for the specification) switches on the clauses that need [r2a_rels_ok]: the relation
    targets of the destination tables and the reason of a failure.

    Findings. None refuted. (1) Aliasing: a destination may itself be a selected table only if it is EMPTY when
    phase A runs (then it is skipped as a source); a non-empty selected table of the destination archetype is not
    ready (it has [add] / lacks [rem]) and makes phase A fail before anything moves, so no row is moved twice or lost.
    (2) With valid arguments the call can only fail in phase A; with [vals] naming a component outside the destination
    the callback panics (ENil) after earlier tables were moved: the invariant still holds and the lock is released.
    (3) What is used about the selected list: its ids name ACTIVE tables (true of [get_batch_tables],
    [r2x_selected_uncached] for unregistered filters); duplicates would be harmless (phase B re-reads the length). *)
From Ark Require Import Model.Base Model.Mask Model.Pool Model.Util Model.World Model.Run.
From Ark Require Import Proofs.TableProofs Proofs.MaskProofs Proofs.Hoare Proofs.WF Proofs.StorageA Proofs.StorageBDefs
  Proofs.StorageB_sb1 Proofs.StorageB_sb2 Proofs.StorageB_sb3 Proofs.ViewProofs Proofs.LockWorld Proofs.StorageC
  Proofs.RelProofs Proofs.BatchProofs Proofs.Rel2Defs Proofs.Rel2Struct Proofs.Rel2Remove Proofs.Rel2SetRel Proofs.Rel2Ops
  Proofs.Rel2Maint Proofs.Rel2Hist Proofs.BatchOps.
From Ark Require Properties.Common Proofs.Rel2Check Proofs.Rel2Cache.
From RecordUpdate Require Import RecordSet.
Import RecordSetNotations.
From Coq Require Import Lia.

(* ================================================================================================ *)
(** * Part 1: exchange_table against the relation invariant *)

(** ** Execution (after [b_x_exec] of BatchProofs, for [WF] alone and with the trailing registration) *)

Lemma r2x_x_exec : forall s otid ntid ot nt oa na (rels : list rel), WF s -> otid <> ntid ->
  nth_error (w_tables s) otid = Some ot -> nth_error (w_tables s) ntid = Some nt ->
  nth_error (w_archs s) (t_arch ot) = Some oa -> nth_error (w_archs s) (t_arch nt) = Some na ->
  exists nt3,
    exchange_table otid ntid rels s =
      (register_targets rels ;;; ret (t_len nt, t_len ot)) (sb2_st s (b_xT' s otid ntid ot nt3) (b_xI' s ntid ot nt)) /\
    b_nt_facts ot nt nt3.
Proof.
  intros s otid ntid ot nt oa na rels HW Hne Hot Hnt Hoa Hna.
  pose proof (sb2_table_ok _ _ _ HW Hot) as Hoko. pose proof (sb2_table_ok _ _ _ HW Hnt) as Hokn.
  destruct (sb2_layout _ _ _ _ HW Hot Hoa) as (Hido & Hko & Hlto).
  destruct (sb2_layout _ _ _ _ HW Hnt Hna) as (Hidn & Hkn & Hltn).
  pose proof (tbl_ok_elim _ Hoko) as (O1 & O2 & O3 & O4 & O5).
  assert (Hroom : t_len nt + t_len ot <= Nat.pow 2 31).
  { pose proof (b_two_tables_room s otid ntid ot nt HW Hne Hot Hnt). pose proof (wf_small _ HW). lia. }
  destruct (b_add_all_entities_facts nt ot (t_len ot) Hokn Hoko (le_n _) Hroom) as (Hok1 & Hlen1 & Hmeta1 & Hz1 & Hc1 & He1 & Hn1).
  set (nt1 := tbl_add_all_entities nt ot (t_len ot)) in *.
  destruct Hmeta1 as (M1 & M2 & M3 & M4 & M5 & M6).
  set (s1 := s <| w_index := b_xI' s ntid ot nt |>).
  set (s2 := sb2_setT s1 (upd ntid nt1 (w_tables s))).
  assert (Hot2 : nth_error (w_tables s2) otid = Some ot).
  { unfold s2. cbn. rewrite sb2_nth_error_upd_ne by auto. exact Hot. }
  assert (Hnt2 : nth_error (w_tables s2) ntid = Some nt1).
  { unfold s2. cbn. eapply sb2_nth_error_upd_eq; eauto. }
  destruct (b_xloop otid ntid (a_mask na) (t_len ot) (t_len nt) ot (t_ids ot) s2 nt1 Hne Hot2 Hnt2 Hok1 Hlen1)
    as (nt3 & Hrun & Hok3 & Hmeta3 & Hlen3 & Hents3 & Hcell3 & Hcopy3).
  { rewrite Hido. apply mk_to_list_sorted. }
  { intros c Hin Hm.
    destruct (sb2_index_of_In _ _ Hin) as (oi & Eoi).
    assert (Hcn : c < length (w_reg s)).
    { rewrite Hido in Hin. apply mk_to_list_spec in Hin. tauto. }
    assert (Hinn : In c (t_ids nt1)).
    { rewrite M2, Hidn. apply mk_to_list_spec. auto. }
    destruct (sb2_index_of_In _ _ Hinn) as (ni & Eni).
    pose proof (sb2_index_of_nth _ _ _ Eoi) as Noi. pose proof (sb2_index_of_nth _ _ _ Eni) as Nni.
    assert (Hoil : oi < length (t_ids ot)) by (apply nth_error_Some; congruence).
    destruct (nth_error (t_cols ot) oi) as [src|] eqn:Esrc.
    2:{ apply nth_error_None in Esrc. lia. }
    destruct (O5 _ _ Esrc) as (L & _ & Zs).
    exists oi, ni, src, (kind_of s c).
    split; [assumption|]. split; [assumption|]. split; [exact Esrc|]. split.
    { rewrite M3, Hkn, nth_error_map. rewrite M2 in Nni. rewrite Nni. reflexivity. }
    split; [lia|].
    intros Hzs. apply (Zs (kind_of s c)); auto.
    rewrite Hko, nth_error_map, Noi. reflexivity. }
  exists nt3. split.
  { rewrite b_exchange_table_eq.
    erewrite sb2_bind_ok by (apply sb2_getT; exact Hot).
    erewrite sb2_bind_ok by (apply sb2_getT; exact Hnt).
    erewrite sb2_bind_ok.
    2:{ unfold arch_mask_of_table. erewrite sb2_bind_ok by (apply sb2_getT; exact Hnt).
        erewrite sb2_bind_ok by (apply sb2_getA; exact Hna). reflexivity. }
    erewrite sb2_bind_ok by (apply b_iloop; cbn; lia).
    rewrite Nat.add_0_r. change (skipn 0 (t_ents ot)) with (t_ents ot). fold (b_xI' s ntid ot nt). fold s1.
    erewrite sb2_bind_ok by (apply (sb2_modT s1 ntid _ nt); exact Hnt).
    change (w_tables s1) with (w_tables s). fold nt1. fold s2.
    erewrite sb2_bind_ok by exact Hrun.
    erewrite sb2_bind_ok.
    2:{ apply (sb2_modT _ otid _ ot). cbn. rewrite sb2_nth_error_upd_ne by auto. exact Hot2. }
    f_equal. unfold sb2_st, sb2_setT, b_xT', s2, s1, sb2_setT.
    apply b_W_ext; cbn; try reflexivity.
    rewrite sb2_upd_upd. reflexivity. }
  destruct Hmeta3 as (N1 & N2 & N3 & N4 & N5 & N6).
  split; [assumption|]. split; [lia|]. split; [repeat split; congruence|].
  split.
  { intros r Hr. split.
    - unfold row_ent in *. rewrite Hents3. apply He1. assumption.
    - intros ci. rewrite Hcell3 by lia. apply Hc1. assumption. }
  split.
  { intros i Hi. unfold row_ent in *. rewrite Hents3. apply Hn1. assumption. }
  intros c ni Eni i Hi. rewrite <- M2 in Eni. rewrite (Hcopy3 c ni Eni i Hi).
  assert (Hm : mk_get (a_mask na) c = true).
  { apply sb2_index_of_some_In in Eni. rewrite M2, Hidn in Eni. apply mk_to_list_spec in Eni. tauto. }
  rewrite Hm, andb_true_r. unfold memb. destruct (index_of c (t_ids ot)); [reflexivity|].
  apply Hz1. lia.
Qed.

(** ** The moved rows (the other post-conditions are those of [r2c_mvpost], which need [WF] only) *)

Lemma r2x_mv_moved : forall s otid ntid ot nt oa na nt3, WF s -> otid <> ntid ->
  nth_error (w_tables s) otid = Some ot -> nth_error (w_tables s) ntid = Some nt ->
  nth_error (w_archs s) (t_arch ot) = Some oa -> nth_error (w_archs s) (t_arch nt) = Some na ->
  b_nt_facts ot nt nt3 ->
  forall e r, live s e = true -> loc s e = Some (otid, r) ->
  loc (sb2_st s (b_xT' s otid ntid ot nt3) (b_xI' s ntid ot nt)) e = Some (ntid, t_len nt + r) /\
  live (sb2_st s (b_xT' s otid ntid ot nt3) (b_xI' s ntid ot nt)) e = true /\
  (forall c, val (sb2_st s (b_xT' s otid ntid ot nt3) (b_xI' s ntid ot nt)) e c =
             if mk_get (a_mask na) c then (if mk_get (a_mask oa) c then val s e c else Some 0%Z) else None) /\
  (forall c, tgt (sb2_st s (b_xT' s otid ntid ot nt3) (b_xI' s ntid ot nt)) e c = tbl_target nt c).
Proof.
  intros s otid ntid ot nt oa na nt3 HW Hne Hot Hnt Hoa Hna Fn e r Hlive Hloc.
  set (s' := sb2_st s (b_xT' s otid ntid ot nt3) (b_xI' s ntid ot nt)).
  destruct Fn as (On & Ln & Mn & Oldn & Newn & Celln). pose proof Mn as (_ & Mids & _).
  destruct (sb2_live_elim _ _ Hlive) as (tid0 & r0 & t0 & L0 & T0 & R0 & E0).
  rewrite Hloc in L0. inversion L0; subst tid0 r0. rewrite Hot in T0. inversion T0; subst t0.
  assert (Hloc' : loc s' e = Some (ntid, t_len nt + r)).
  { unfold s'. rewrite (r2c_mv_loc s otid ntid ot nt nt3 HW Hne Hot). rewrite <- E0.
    rewrite (r2c_mv_idx_row s otid ntid ot HW Hne Hot r R0). reflexivity. }
  assert (Htab' : nth_error (w_tables s') ntid = Some nt3).
  { unfold s'. rewrite (r2c_mv_tab s otid ntid ot nt nt3 Hne Hot Hnt).
    destruct (Nat.eqb_spec otid ntid); [congruence|]. rewrite Nat.eqb_refl. reflexivity. }
  destruct (sb2_live_at _ _ _ _ _ Hloc' Htab') as (Hl' & Hv').
  destruct (sb2_live_at _ _ _ _ _ Hloc Hot) as (_ & Hv).
  assert (Hlive' : live s' e = true).
  { rewrite Hl', Ln, (Newn _ R0), E0, sb2_ent_eqb_refl.
    destruct (Nat.ltb_spec (t_len nt + r) (t_len nt + t_len ot)); [reflexivity|lia]. }
  split; [exact Hloc'|]. split; [exact Hlive'|]. split.
  - intros c. unfold val. rewrite Hlive', Hlive, Hv', Hv.
    unfold tbl_colidx. rewrite Mids.
    destruct (sb2_colidx_mask _ _ _ _ c HW Hnt Hna) as (Nt & Nf).
    destruct (sb2_colidx_mask _ _ _ _ c HW Hot Hoa) as (Ot & Of).
    unfold tbl_colidx in *.
    destruct (mk_get (a_mask na) c).
    + destruct (Nt eq_refl) as (ni & Eni). rewrite Eni. rewrite (Celln c ni Eni r R0).
      destruct (mk_get (a_mask oa) c).
      * destruct (Ot eq_refl) as (oi & Eoi). rewrite Eoi. reflexivity.
      * rewrite (Of eq_refl). reflexivity.
    + rewrite (Nf eq_refl). reflexivity.
  - intros c. rewrite (r2c_tgt_at _ _ _ _ _ Hloc' Htab' c), Hlive'. apply r2c_tbl_target_meta. exact Mn.
Qed.

(** ** exchangeTable: the bulk move of every row of table [otid] into table [ntid] of another
    archetype, in a relation world. [P]: registrations still pending; those of the targets named in
    [rels] are discharged. The capacity side condition of the relation-free theorem
    ([b_two_tables_room]) follows from [WF]. The only way to fail would be a named target id beyond
    the entity index (hypothesis [Hrange]; it holds for the zero entity and for stored entities). *)
Theorem r2x_exchange_table_spec : forall P s otid ntid ot nt oa na (rels : list rel),
  St2G r2_none P r2_none s -> otid <> ntid ->
  nth_error (w_tables s) otid = Some ot -> nth_error (w_tables s) ntid = Some nt ->
  nth_error (w_archs s) (t_arch ot) = Some oa -> nth_error (w_archs s) (t_arch nt) = Some na ->
  t_free nt = false ->
  (forall r, In r rels -> fst (snd r) < length (w_istarget s)) ->
  exists s', exchange_table otid ntid rels s = Ok (t_len nt, t_len ot) s' /\
    St2G r2_none (fun k => P k /\ ~ In k (map (fun r : rel => fst (snd r)) rels)) r2_none s' /\
    (* the rows of [otid] *)
    (forall e r, live s e = true -> loc s e = Some (otid, r) ->
       loc s' e = Some (ntid, t_len nt + r) /\ live s' e = true /\
       (forall c, val s' e c = if mk_get (a_mask na) c then (if mk_get (a_mask oa) c then val s e c else Some 0%Z) else None) /\
       (forall c, tgt s' e c = tbl_target nt c)) /\
    (* everybody else *)
    (forall e, live s e = true -> (forall r, loc s e <> Some (otid, r)) ->
       live s' e = true /\ loc s' e = loc s e /\ (forall c, val s' e c = val s e c) /\ (forall c, tgt s' e c = tgt s e c)) /\
    (forall e, live s e = false -> live s' e = false) /\
    (* the tables *)
    nth_error (w_tables s') otid = Some (tbl_reset ot) /\
    (exists nt', nth_error (w_tables s') ntid = Some nt' /\ tbl_ok nt' /\ sb2_meta nt nt' /\ t_len nt' = t_len nt + t_len ot /\
                 (forall i, i < t_len ot -> row_ent nt' (t_len nt + i) = row_ent ot i)) /\
    (forall x, x <> otid -> x <> ntid -> nth_error (w_tables s') x = nth_error (w_tables s) x) /\
    length (w_tables s') = length (w_tables s) /\
    (* the frame *)
    w_archs s' = w_archs s /\ w_pool s' = w_pool s /\ length (w_istarget s') = length (w_istarget s) /\
    side_same s s' /\ frame_user s s'.
Proof.
  intros P s otid ntid ot nt oa na rels (HW & HR & HT & HC) Hne Hot Hnt Hoa Hna Hfn Hrange.
  destruct (r2x_x_exec s otid ntid ot nt oa na rels HW Hne Hot Hnt Hoa Hna) as (nt3 & Hrun & Fn).
  set (s1 := sb2_st s (b_xT' s otid ntid ot nt3) (b_xI' s ntid ot nt)) in *.
  pose proof (r2c_mv_tab s otid ntid ot nt nt3 Hne Hot Hnt) as Tab. fold s1 in Tab.
  pose proof (r2c_mv_WF s otid ntid ot nt nt3 HW Hne Hot Hnt Fn) as HW1. fold s1 in HW1.
  pose proof Fn as (On & Ln & Mn & Oldn & Newn & Celln).
  assert (Mr : sb2_meta ot (tbl_reset ot)) by (repeat split).
  assert (Hmoved : forall e r, live s e = true -> loc s e = Some (otid, r) ->
            loc s1 e = Some (ntid, t_len nt + r) /\ live s1 e = true /\
            (forall c, val s1 e c = if mk_get (a_mask na) c then (if mk_get (a_mask oa) c then val s e c else Some 0%Z) else None) /\
            (forall c, tgt s1 e c = tbl_target nt c))
    by (apply (r2x_mv_moved s otid ntid ot nt oa na nt3 HW Hne Hot Hnt Hoa Hna Fn)).
  assert (Hother : forall e, live s e = true -> (forall r, loc s e <> Some (otid, r)) ->
            live s1 e = true /\ loc s1 e = loc s e /\ (forall c, val s1 e c = val s e c) /\ (forall c, tgt s1 e c = tgt s e c)).
  { intros e Hl Hnot. destruct (r2c_mv_other s otid ntid ot nt nt3 HW Hne Hot Hnt Fn e Hl Hnot) as (L1 & V1). fold s1 in L1, V1.
    split; [exact L1|]. split; [|split; [exact V1|apply (r2c_mv_other_tgt s otid ntid ot nt nt3 HW Hne Hot Hnt Fn e Hl Hnot)]].
    destruct (sb2_live_elim _ _ Hl) as (tid & r & t & L0 & T0 & R0 & E0).
    assert (Hn : tid <> otid) by (intros ->; apply (Hnot r); exact L0).
    unfold s1. rewrite (r2c_mv_loc s otid ntid ot nt nt3 HW Hne Hot). rewrite <- E0.
    rewrite (r2c_mv_idx_other s otid ntid ot HW Hne Hot tid t r T0 R0 Hn). reflexivity. }
  assert (Hdead : forall e, live s e = false -> live s1 e = false)
    by (apply (r2c_mv_dead s otid ntid ot nt nt3 HW Hne Hot Hnt Fn)).
  assert (Hlive : forall e, live s e = true -> live s1 e = true).
  { intros e Hl. destruct (sb2_live_elim _ _ Hl) as (tid & r & t & L0 & _).
    destruct (Nat.eq_dec tid otid) as [->|Hn].
    - apply (Hmoved e r Hl L0).
    - apply (Hother e Hl). intros r' Hc. rewrite L0 in Hc. congruence. }
  assert (TL : length (w_tables s1) = length (w_tables s)).
  { unfold s1, sb2_st, b_xT'. cbn. rewrite !upd_length. reflexivity. }
  assert (HS1 : St2G r2_none P r2_none s1).
  { apply (L_St2G_rows r2_none P r2_none s s1 (conj HW (conj HR (conj HT HC))) HW1); try reflexivity.
    - intros j tj Hj. rewrite Tab. destruct (Nat.eqb_spec otid j) as [<-|H1].
      + rewrite Hot in Hj. injection Hj as <-. exists (tbl_reset ot). split; [reflexivity|]. split; [exact Mr|]. intros _. reflexivity.
      + destruct (Nat.eqb_spec ntid j) as [<-|H2].
        * rewrite Hnt in Hj. injection Hj as <-. exists nt3. split; [reflexivity|]. split; [exact Mn|]. intros Hc. congruence.
        * exists tj. split; [exact Hj|]. split; [apply sb2_meta_refl|]. intros Hf. apply (r2c_free_len0 r2_none s j tj HR Hj Hf).
    - exact TL.
    - intros x Hx. left. apply Hlive. exact Hx.
    - intros aid a k l _ _ Hk. exact Hk. }
  pose proof (r2_register_targets_spec r2_none P r2_none rels s1 HS1) as Hreg.
  rewrite Hrun.
  destruct (register_targets rels s1) as [[] s2|er s2] eqn:Ereg.
  2:{ exfalso. destruct Hreg as (_ & _ & r & Hr & Hle). specialize (Hrange r Hr).
      change (length (w_istarget s1)) with (length (w_istarget s)) in Hle. lia. }
  destruct Hreg as (HS2 & l' & ->).
  assert (Ll' : length l' = length (w_istarget s)).
  { destruct (r2_register_targets_gen rels s1) as (l0 & S1 & L1 & _). rewrite Ereg in S1. cbn [state_of] in S1.
    apply (f_equal w_istarget) in S1. cbn in S1. rewrite S1. exact L1. }
  exists (s1 <| w_istarget := l' |>). split; [rewrite (sa_bind_ok Ereg); reflexivity|].
  destruct (r2a_flags_obs s1 l') as (L3 & V3 & T3 & P3 & A3 & S3 & F3). cbv zeta in L3, V3, T3, P3, A3, S3, F3.
  split; [exact HS2|].
  split.
  { intros e r Hl Hloc. destruct (Hmoved e r Hl Hloc) as (M1 & M2 & M3 & M4).
    split; [exact M1|]. split; [rewrite L3; exact M2|]. split; [intros c; rewrite V3; apply M3|intros c; rewrite T3; apply M4]. }
  split.
  { intros e Hl Hnot. destruct (Hother e Hl Hnot) as (M1 & M2 & M3 & M4).
    split; [rewrite L3; exact M1|]. split; [exact M2|]. split; [intros c; rewrite V3; apply M3|intros c; rewrite T3; apply M4]. }
  split; [intros e Hd; rewrite L3; apply Hdead; exact Hd|].
  split.
  { change (w_tables (s1 <| w_istarget := l' |>)) with (w_tables s1). rewrite Tab, Nat.eqb_refl. reflexivity. }
  split.
  { exists nt3. change (w_tables (s1 <| w_istarget := l' |>)) with (w_tables s1). rewrite Tab.
    destruct (Nat.eqb_spec otid ntid); [contradiction|]. rewrite Nat.eqb_refl.
    split; [reflexivity|]. split; [exact On|]. split; [exact Mn|]. split; [exact Ln|exact Newn]. }
  split.
  { intros x H1 H2. change (w_tables (s1 <| w_istarget := l' |>)) with (w_tables s1). rewrite Tab.
    destruct (Nat.eqb_spec otid x); [congruence|]. destruct (Nat.eqb_spec ntid x); [congruence|]. reflexivity. }
  split; [exact TL|].
  split; [reflexivity|]. split; [reflexivity|]. split; [exact Ll'|].
  split; [unfold side_same; repeat split|unfold frame_user; repeat split].
Qed.

(* ================================================================================================ *)
(** * Part 2: the batch callbacks *)

(** ** Rewriting the cells of one table (same rows, same entities, same labels); after [bo_setcells] *)

Lemma r2x_setcells : forall D P X s tid T T', St2G D P X s -> nth_error (w_tables s) tid = Some T ->
  tbl_ok T' -> sb2_meta T T' -> t_len T' = t_len T -> t_ents T' = t_ents T ->
  St2G D P X (sb2_setT s (upd tid T' (w_tables s))) /\
  (forall x, live (sb2_setT s (upd tid T' (w_tables s))) x = live s x) /\
  (forall x c, tgt (sb2_setT s (upd tid T' (w_tables s))) x c = tgt s x c) /\
  (forall x r, loc s x = Some (tid, r) -> live s x = true ->
     forall c, val (sb2_setT s (upd tid T' (w_tables s))) x c =
               match tbl_colidx T c with Some ci => Some (cell T' ci r) | None => None end) /\
  (forall x, (forall r, loc s x <> Some (tid, r)) -> forall c, val (sb2_setT s (upd tid T' (w_tables s))) x c = val s x c).
Proof.
  intros D P X s tid t t' HS Ht Hok Hmeta Hlen Hents. pose proof HS as (HW & HR & HT & HC).
  set (s' := sb2_setT s (upd tid t' (w_tables s))).
  assert (Hrow : forall r, row_ent t' r = row_ent t r) by (intros r; unfold row_ent; rewrite Hents; reflexivity).
  assert (Etab : forall j, nth_error (w_tables s') j = if Nat.eqb tid j then Some t' else nth_error (w_tables s) j).
  { intros j. unfold s', sb2_setT. cbn. rewrite nth_error_upd.
    destruct (Nat.eqb_spec tid j); [subst; rewrite Ht|]; reflexivity. }
  assert (Hlive : forall x, live s' x = live s x).
  { intros x. unfold live. change (loc s' x) with (loc s x). destruct (loc s x) as [[j r]|]; [|reflexivity].
    rewrite Etab. destruct (Nat.eqb_spec tid j) as [<-|Hne]; [|reflexivity].
    rewrite Ht, Hlen, Hrow. reflexivity. }
  assert (HW' : WF s').
  { replace s' with (sb2_st s (upd tid t' (w_tables s)) (w_index s)) by apply sb2_st_same_index.
    apply r2c_WF_reindex; auto.
    + intros j x E. change (nth_error (w_tables s') j = Some x) in E. rewrite Etab in E.
      destruct (Nat.eqb_spec tid j) as [<-|Hne].
      * inversion E; subst x. split; [assumption|]. exists t. auto.
      * split; [eapply sb2_table_ok; eauto|]. exists x. split; [assumption|apply sb2_meta_refl].
    + intros j x E. change (exists t'0, nth_error (w_tables s') j = Some t'0 /\ sb2_meta x t'0). rewrite Etab.
      destruct (Nat.eqb_spec tid j) as [<-|Hne].
      * rewrite Ht in E. inversion E; subst x. eauto.
      * exists x. split; [assumption|apply sb2_meta_refl].
    + intros j x r E Hr. change (nth_error (w_tables s') j = Some x) in E. rewrite Etab in E.
      destruct (Nat.eqb_spec tid j) as [<-|Hne].
      * inversion E; subst x. rewrite Hlen in Hr. rewrite Hrow.
        destruct (wf_rows _ HW _ _ _ Ht Hr) as (A & B). split; [apply sb2_loc_iff; exact A|exact B].
      * destruct (wf_rows _ HW _ _ _ E Hr) as (A & B). split; [apply sb2_loc_iff; exact A|exact B].
    + intros id j r E. destruct (wf_index _ HW _ _ _ E) as (x & Ex & Hr & Hf).
      change (exists t'0, nth_error (w_tables s') j = Some t'0 /\ r < t_len t'0 /\ fst (row_ent t'0 r) = id).
      rewrite Etab. destruct (Nat.eqb_spec tid j) as [<-|Hne].
      * rewrite Ht in Ex. inversion Ex; subst x. exists t'. split; [reflexivity|]. split; [lia|].
        rewrite Hrow. assumption.
      * exists x. auto.
    + intros id j r E. eauto. }
  split.
  { apply (L_St2G_rows D P X s s' HS HW'); try reflexivity.
    - intros j tj Hj. rewrite Etab. destruct (Nat.eqb_spec tid j) as [<-|Hne].
      + rewrite Ht in Hj. injection Hj as <-. exists t'. split; [reflexivity|]. split; [exact Hmeta|].
        intros Hf. rewrite Hlen. apply (r2c_free_len0 D s tid t HR Ht Hf).
      + exists tj. split; [exact Hj|]. split; [apply sb2_meta_refl|]. intros Hf. apply (r2c_free_len0 D s j tj HR Hj Hf).
    - unfold s', sb2_setT. cbn. apply upd_length.
    - intros x Hx. left. rewrite Hlive. exact Hx.
    - intros aid a k l _ _ Hk. exact Hk. }
  split; [exact Hlive|]. split; [|split].
  - intros x c. unfold tgt. rewrite Hlive. destruct (live s x); [|reflexivity].
    unfold target_of. change (loc s' x) with (loc s x). destruct (loc s x) as [[j r]|] eqn:El; [|reflexivity].
    rewrite Etab. destruct (Nat.eqb_spec tid j) as [<-|Hne]; [|reflexivity]. rewrite Ht.
    apply r2c_tbl_target_meta. exact Hmeta.
  - intros x r Hloc Hl c. unfold val. rewrite Hlive, Hl. unfold value_of. change (loc s' x) with (loc s x).
    rewrite Hloc, Etab, Nat.eqb_refl. destruct Hmeta as (_ & Hids & _). unfold tbl_colidx. rewrite Hids. reflexivity.
  - intros x Hnot c. unfold val. rewrite Hlive. destruct (live s x); [|reflexivity].
    unfold value_of. change (loc s' x) with (loc s x). destruct (loc s x) as [[j r]|] eqn:El; [|reflexivity].
    rewrite Etab. destruct (Nat.eqb_spec tid j) as [<-|Hne]; [|reflexivity]. exfalso. apply (Hnot r). reflexivity.
Qed.

(** ** The callbacks with an ARBITRARY value list: in both outcomes only cells of the table change
    (rows stay, labels stay, the table stays well-formed) and the log grows. A value for a component
    the table lacks makes the callback panic (ENil) after the stores before it. *)

Lemma r2x_vals_any : forall tid row vals s T,
  nth_error (w_tables s) tid = Some T -> tbl_ok T -> row < t_len T ->
  exists T', state_of (forM_ vals (bo_vbody tid row) s) = sb2_setT s (upd tid T' (w_tables s)) /\
    tbl_ok T' /\ sb2_meta T T' /\ t_len T' = t_len T /\ t_ents T' = t_ents T.
Proof.
  intros tid row vals. induction vals as [|cv rest IH]; intros s T Ht Hok Hrow.
  - exists T. split.
    { cbn [forM_ state_of]. unfold ret. cbn [state_of]. rewrite (sb2_upd_same _ _ _ _ Ht), sb2_setT_id. reflexivity. }
    split; [exact Hok|]. split; [apply sb2_meta_refl|]. split; reflexivity.
  - destruct cv as [c0 v]. cbn [forM_].
    assert (Hstay : sb2_setT s (upd tid T (w_tables s)) = s) by (rewrite (sb2_upd_same _ _ _ _ Ht), sb2_setT_id; reflexivity).
    destruct (tbl_colidx T c0) as [ci0|] eqn:Eci0.
    2:{ assert (Hbody : bo_vbody tid row (c0, v) s = Err ENil s).
        { unfold bo_vbody. rewrite (bo_bind_ok (sb2_getT _ _ _ Ht)). cbn [fst]. rewrite Eci0. reflexivity. }
        rewrite (bo_bind_err Hbody). exists T. cbn [state_of]. split; [symmetry; exact Hstay|].
        split; [exact Hok|]. split; [apply sb2_meta_refl|]. split; reflexivity. }
    destruct (nth_error (t_kinds T) ci0) as [k0|] eqn:Ek0.
    2:{ assert (Hbody : bo_vbody tid row (c0, v) s = Err EIndex s).
        { unfold bo_vbody. rewrite (bo_bind_ok (sb2_getT _ _ _ Ht)). cbn [fst]. rewrite Eci0, Ek0. reflexivity. }
        rewrite (bo_bind_err Hbody). exists T. cbn [state_of]. split; [symmetry; exact Hstay|].
        split; [exact Hok|]. split; [apply sb2_meta_refl|]. split; reflexivity. }
    destruct (ck_zs k0) eqn:Ezs.
    + assert (Hbody : bo_vbody tid row (c0, v) s = Ok tt s).
      { unfold bo_vbody. rewrite (bo_bind_ok (sb2_getT _ _ _ Ht)). cbn [fst snd].
        rewrite Eci0, Ek0. cbn [of_opt]. rewrite (bo_bind_ok (m := ret k0) (s := s) eq_refl). rewrite Ezs. reflexivity. }
      rewrite (bo_bind_ok Hbody). apply (IH s T Ht Hok Hrow).
    + set (T1 := T <| t_cols ::= updf ci0 (upd row v) |>).
      assert (Hbody : bo_vbody tid row (c0, v) s = Ok tt (sb2_setT s (upd tid T1 (w_tables s)))).
      { unfold bo_vbody. rewrite (bo_bind_ok (sb2_getT _ _ _ Ht)). cbn [fst snd].
        rewrite Eci0, Ek0. cbn [of_opt]. rewrite (bo_bind_ok (m := ret k0) (s := s) eq_refl). rewrite Ezs. cbn [negb whenM].
        apply sb2_modT. exact Ht. }
      rewrite (bo_bind_ok Hbody).
      pose proof (col_write_ok T ci0 row v k0 Hok Hrow Ek0 Ezs) as Hok1. fold T1 in Hok1.
      assert (Ht1 : nth_error (w_tables (sb2_setT s (upd tid T1 (w_tables s)))) tid = Some T1).
      { cbn. eapply sb2_nth_error_upd_eq; eauto. }
      destruct (IH _ T1 Ht1 Hok1 Hrow) as (T' & Hrun & Hok' & Hmeta & Hlen & Hents).
      exists T'. split.
      { rewrite Hrun. rewrite sb2_setT_setT.
        change (w_tables (sb2_setT s (upd tid T1 (w_tables s)))) with (upd tid T1 (w_tables s)).
        rewrite sb2_upd_upd. reflexivity. }
      split; [exact Hok'|]. split; [eapply sb2_meta_trans; [|exact Hmeta]; repeat split|].
      split; [exact Hlen|exact Hents].
Qed.

Lemma r2x_cb_any : forall tid vals rows s T,
  nth_error (w_tables s) tid = Some T -> tbl_ok T -> (forall r, In r rows -> r < t_len T) ->
  exists T' L, state_of (forM_ rows (fun i => batch_callback tid vals i) s) =
               b_logged (sb2_setT s (upd tid T' (w_tables s))) L /\
    tbl_ok T' /\ sb2_meta T T' /\ t_len T' = t_len T /\ t_ents T' = t_ents T.
Proof.
  intros tid vals rows. induction rows as [|r0 rows IH]; intros s T Ht Hok Hrows.
  - exists T, []. split.
    { cbn [forM_]. unfold ret. cbn [state_of]. rewrite (sb2_upd_same _ _ _ _ Ht), sb2_setT_id, b_logged_nil. reflexivity. }
    split; [exact Hok|]. split; [apply sb2_meta_refl|]. split; reflexivity.
  - pose proof (tbl_ok_elim _ Hok) as (O1 & O2 & _).
    assert (Hr0 : r0 < t_len T) by (apply Hrows; left; reflexivity).
    assert (He : nth_error (t_ents T) r0 = Some (row_ent T r0)).
    { apply nth_error_nth'. lia. }
    set (s0 := b_logged s [b_entry (row_ent T r0)]).
    assert (Ht0 : nth_error (w_tables s0) tid = Some T) by exact Ht.
    destruct (r2x_vals_any tid r0 vals s0 T Ht0 Hok Hr0) as (T1 & Hrun1 & Hok1 & Hmeta1 & Hlen1 & Hents1).
    set (s1 := sb2_setT s0 (upd tid T1 (w_tables s0))) in *.
    assert (Hcb : batch_callback tid vals r0 s = forM_ vals (bo_vbody tid r0) s0).
    { rewrite bo_batch_callback_eq. rewrite (bo_bind_ok (sb2_getT _ _ _ Ht)). rewrite He. cbn [of_opt].
      rewrite (bo_bind_ok (m := ret (row_ent T r0)) (s := s) eq_refl).
      rewrite (bo_bind_ok (m := log _) (s := s) (a := tt) (s' := s0) eq_refl). reflexivity. }
    cbn [forM_]. unfold bind at 1. rewrite Hcb.
    destruct (forM_ vals (bo_vbody tid r0) s0) as [[] sx|er sx] eqn:Erun; cbn [state_of] in Hrun1; subst sx.
    + assert (Ht1 : nth_error (w_tables s1) tid = Some T1).
      { unfold s1. cbn. eapply sb2_nth_error_upd_eq; eauto. }
      destruct (IH s1 T1 Ht1 Hok1) as (T' & L & Hrun & Hok' & Hmeta & Hlen & Hents).
      { intros r Hr. rewrite Hlen1. apply Hrows. right. exact Hr. }
      exists T', (b_entry (row_ent T r0) :: L). split.
      { rewrite Hrun. unfold b_logged, s1, s0, sb2_setT, b_logged. apply b_W_ext; cbn; try reflexivity.
        - rewrite sb2_upd_upd. reflexivity.
        - rewrite <- app_assoc. reflexivity. }
      split; [exact Hok'|]. split; [eapply sb2_meta_trans; [exact Hmeta1|exact Hmeta]|].
      split; congruence.
    + exists T1, [b_entry (row_ent T r0)]. cbn [state_of]. split.
      { unfold b_logged, s1, s0, sb2_setT, b_logged. apply b_W_ext; cbn; reflexivity. }
      split; [exact Hok1|]. split; [exact Hmeta1|]. split; assumption.
Qed.

(* ================================================================================================ *)
(** * Part 3: the invariant through ExchangeBatch, in both outcomes *)

(** ** Vocabulary *)

(** The invariant of the relation tier without observers. *)
Definition r2x_Q (s : W) : Prop := St2 s /\ r2d_KeysLive s /\ r2e_noobs s.

(** The arguments of a call, as far as the invariant is concerned: added components are registered,
    relation targets are proper handles (zero, stored, or dead) within the entity index. *)
Definition r2x_args (s : W) (add : list nat) (rels : list rel) : Prop :=
  registered s add /\ forall r, In r rels -> r2b_handle_ok s (snd r) /\ fst (snd r) < length (w_istarget s).

(** [r2x_ready s add rem rels m]: a table whose archetype has mask [m] can take part. *)
Definition r2x_ready (s : W) (add rem : list nat) (rels : list rel) (m : mask) : Prop :=
  NoDup add /\ NoDup rem /\ (forall c, In c rem -> mk_get m c = true) /\
  (forall c, In c add -> mk_get m c = false) /\ r2a_rels_complete s add rels.

(** Active tables keep their labels, archetypes their masks (phases A and B). *)
Definition r2x_tk (s s' : W) : Prop :=
  (forall tid t, nth_error (w_tables s) tid = Some t -> t_free t = false ->
     exists t', nth_error (w_tables s') tid = Some t' /\ sb2_meta t t') /\
  (forall aid a, nth_error (w_archs s) aid = Some a -> exists a', nth_error (w_archs s') aid = Some a' /\ a_mask a' = a_mask a).

Lemma r2x_tk_refl : forall s, r2x_tk s s.
Proof. intros s. split; [intros tid t Ht _; exists t; split; [exact Ht|apply sb2_meta_refl]|intros aid a Ha; exists a; auto]. Qed.

Lemma r2x_tk_trans : forall s1 s2 s3, r2x_tk s1 s2 -> r2x_tk s2 s3 -> r2x_tk s1 s3.
Proof.
  intros s1 s2 s3 (A1 & A2) (B1 & B2). split.
  - intros tid t Ht Hf. destruct (A1 tid t Ht Hf) as (t2 & Ht2 & M2).
    assert (Hf2 : t_free t2 = false) by (destruct M2 as (_ & _ & _ & _ & _ & M6); congruence).
    destruct (B1 tid t2 Ht2 Hf2) as (t3 & Ht3 & M3). exists t3. split; [exact Ht3|eapply sb2_meta_trans; eassumption].
  - intros aid a Ha. destruct (A2 aid a Ha) as (a2 & Ha2 & E2). destruct (B2 aid a2 Ha2) as (a3 & Ha3 & E3).
    exists a3. split; [exact Ha3|congruence].
Qed.

Lemma r2x_tk_keeps : forall s s', r2a_keeps s s' -> r2x_tk s s'.
Proof.
  intros s s' (_ & _ & K3 & K4 & _). split; [|exact K4].
  intros tid t Ht Hf. exists t. split; [apply K3; assumption|apply sb2_meta_refl].
Qed.

(** A batch (source, destination, length) as phase A produces it. [V] ("the call is valid") switches on
    the description of the destination's relation targets. *)
Definition r2x_batch_ok (V : Prop) (s : W) (add rem : list nat) (rels : list rel) (b : nat * nat * nat) : Prop :=
  exists ot nt oa na,
    nth_error (w_tables s) (bo_src b) = Some ot /\ nth_error (w_tables s) (bo_dst b) = Some nt /\
    t_free ot = false /\ t_free nt = false /\
    nth_error (w_archs s) (t_arch ot) = Some oa /\ nth_error (w_archs s) (t_arch nt) = Some na /\
    (forall j, mk_get (a_mask na) j = ((mk_get (a_mask oa) j && negb (memb j rem)) || memb j add)%bool) /\
    (forall c, In c rem -> mk_get (a_mask oa) c = true) /\ (forall c, In c add -> mk_get (a_mask oa) c = false) /\
    (V -> forall c, tbl_target nt c = if memb c add then Some (r2a_new_target rels c)
                                     else if mk_get (a_mask na) c then tbl_target ot c else None).

Lemma r2x_batch_ok_bo : forall V s add rem rels b, r2x_batch_ok V s add rem rels b -> bo_batch_ok s add rem b.
Proof.
  intros V s add rem rels b (ot & nt & oa & na & Hot & Hnt & _ & _ & Hoa & Hna & Hm & Hr & Ha & _).
  exists (a_mask oa), (a_mask na). split; [exists ot, oa; auto|]. split; [exists nt, na; auto|]. auto.
Qed.

Lemma r2x_batch_ok_tk : forall V s s' add rem rels b, r2x_tk s s' -> r2x_batch_ok V s add rem rels b ->
  r2x_batch_ok V s' add rem rels b.
Proof.
  intros V s s' add rem rels b (K1 & K2) (ot & nt & oa & na & Hot & Hnt & Hfo & Hfn & Hoa & Hna & Hm & Hr & Ha & Htg).
  destruct (K1 _ _ Hot Hfo) as (ot' & Hot' & Mo). destruct (K1 _ _ Hnt Hfn) as (nt' & Hnt' & Mn).
  destruct (K2 _ _ Hoa) as (oa' & Hoa' & Eo). destruct (K2 _ _ Hna) as (na' & Hna' & En).
  pose proof Mo as (O1 & _ & _ & _ & _ & O6). pose proof Mn as (N1 & _ & _ & _ & _ & N6).
  exists ot', nt', oa', na'. split; [exact Hot'|]. split; [exact Hnt'|]. split; [congruence|]. split; [congruence|].
  split; [rewrite O1; exact Hoa'|]. split; [rewrite N1; exact Hna'|]. rewrite Eo, En.
  split; [exact Hm|]. split; [exact Hr|]. split; [exact Ha|].
  intros HV c. rewrite (r2c_tbl_target_meta nt nt' c Mn), (r2c_tbl_target_meta ot ot' c Mo). apply Htg. exact HV.
Qed.

(** ** Transport of the invariant and of the argument conditions *)

Lemma r2x_Q_keeps : forall s s', r2x_Q s -> St2 s' -> r2a_keeps s s' -> r2e_fk s s' -> r2x_Q s'.
Proof.
  intros s s' (HS & HK & HN) HS' K FK. destruct (FK HN) as (F1 & _ & F3 & _).
  pose proof HS as HS0. apply St2_St2G in HS0. destruct HS0 as (HW & HR & _ & _).
  destruct (r2a_keeps_obs r2_none s s' HW HR K) as (C & _).
  split; [exact HS'|]. split; [|apply (r2e_noobs_side s s' F1 HN)].
  apply (r2e_KeysLive_E s s' HS' HK F3). intros x Hx. rewrite (proj1 (C x)). exact Hx.
Qed.

Lemma r2x_args_keeps : forall s s' add rels, St2 s -> St2 s' -> r2a_keeps s s' -> r2x_args s add rels -> r2x_args s' add rels.
Proof.
  intros s s' add rels HS HS' K (A1 & A2). pose proof HS as HS0. apply St2_St2G in HS0. destruct HS0 as (HW & HR & _ & _).
  pose proof HS' as (HW' & _). split.
  - intros c Hc. destruct K as (_ & _ & _ & _ & _ & (E & _)). rewrite E. apply A1. exact Hc.
  - intros r Hr. destruct (A2 r Hr) as (B1 & B2). split; [apply (r2e_handle_ok_keeps s s' (snd r) HW HR K B1)|].
    rewrite (r2a_keeps_istarget_len s s' HW HW' K). exact B2.
Qed.

Lemma r2x_rels_ok_keeps : forall s s' add rels, St2 s -> r2a_keeps s s' -> r2a_rels_ok s add rels -> r2a_rels_ok s' add rels.
Proof.
  intros s s' add rels HS K (R1 & R2 & R3). apply St2_St2G in HS. destruct HS as (HW & HR & _ & _).
  destruct (r2a_keeps_obs r2_none s s' HW HR K) as (C & _).
  split; [exact R1|]. split.
  - intros r Hr. destruct (R2 r Hr) as (B1 & B2). split; [exact B1|]. rewrite (r2a_keeps_is_rel s s' K). exact B2.
  - intros r Hr. destruct (R3 r Hr) as [Hz|Hl]; [left; exact Hz|right]. rewrite (proj1 (C (snd r))). exact Hl.
Qed.

Lemma r2x_ready_keeps : forall s s' add rem rels m, r2a_keeps s s' -> (r2x_ready s' add rem rels m <-> r2x_ready s add rem rels m).
Proof.
  intros s s' add rem rels m K. unfold r2x_ready, r2a_rels_complete.
  split; intros (H1 & H2 & H3 & H4 & H5); repeat (split; [assumption|]); intros c Hc Hr; apply H5; try exact Hc.
  - rewrite (r2a_keeps_is_rel s s' K). exact Hr.
  - rewrite <- (r2a_keeps_is_rel s s' K). exact Hr.
Qed.

(** ** One table of phase A: the finder, with an arbitrary relation list *)

Lemma r2x_finder_step : forall (V : Prop) s tid t oa add rem (rels : list rel), r2x_Q s -> r2x_args s add rels ->
  (V -> r2a_rels_ok s add rels) ->
  nth_error (w_tables s) tid = Some t -> t_len t <> 0 -> nth_error (w_archs s) (t_arch t) = Some oa ->
  match find_or_create_table tid add rem rels (a_mask oa) s with
  | Ok (ntid, aid, m, rr) s' =>
      r2x_Q s' /\ r2a_keeps s s' /\ r2x_batch_ok V s' add rem rels (tid, ntid, t_len t) /\
      (V -> r2x_ready s add rem rels (a_mask oa))
  | Err _ s' => r2x_Q s' /\ r2a_keeps s s' /\ (V -> ~ r2x_ready s add rem rels (a_mask oa))
  end.
Proof.
  intros V s tid t oa add rem rels HQ (Hreg & Hrels) HVok Ht Hlen Hoa. pose proof HQ as (HS & HK & HN).
  pose proof HS as HS0. apply St2_St2G in HS0. destruct HS0 as (HW & HR & _ & _).
  assert (Hfo : t_free t = false).
  { destruct (t_free t) eqn:Ef; [|reflexivity]. pose proof (r2c_free_len0 r2_none s tid t HR Ht Ef). lia. }
  pose proof (r2e_find_exchange s tid t oa add rem rels HS Ht Hfo Hoa Hreg (fun r Hr => proj1 (Hrels r Hr))) as HE.
  assert (HA : V -> match find_or_create_table tid add rem rels (a_mask oa) s with
                    | Ok (ntid, aid, m, _) s' => r2a_found s t add rels m ntid aid s'
                    | Err _ _ => ~ r2x_ready s add rem rels (a_mask oa)
                    end).
  { intros HV. pose proof (r2a_find_exchange s tid t oa add rem rels HS Ht Hfo Hoa Hreg (HVok HV)) as H.
    destruct (find_or_create_table tid add rem rels (a_mask oa) s) as [[[[ntid aid] m] rr] s1|er s1].
    - apply H.
    - destruct H as (_ & _ & H). exact H. }
  pose proof (r2e_fkp_find_exchange tid add rem rels (a_mask oa) s) as FK.
  destruct (find_or_create_table tid add rem rels (a_mask oa) s) as [[[[ntid aid] m] rr] s1|er s1]; cbn [state_of] in FK.
  - destruct HE as ((HS1 & K & nt & na & Hnt & Hnaid & Hfn & Hna & Hma) & Hmk & Hnda & Hndr & Hsub & Hdis).
    split; [apply (r2x_Q_keeps s s1 HQ HS1 K FK)|]. split; [exact K|]. split.
    + pose proof K as (_ & _ & K3 & K4 & _). destruct (K4 _ _ Hoa) as (oa1 & Hoa1 & Eo1).
      exists t, nt, oa1, na. cbn [bo_src bo_dst fst snd].
      split; [apply K3; assumption|]. split; [exact Hnt|]. split; [exact Hfo|]. split; [exact Hfn|].
      split; [exact Hoa1|]. split; [rewrite Hnaid; exact Hna|]. rewrite Eo1, Hma.
      split; [exact Hmk|]. split; [exact Hsub|]. split; [exact Hdis|].
      intros HV c. destruct (HA HV) as (_ & _ & _ & nt' & na' & Hnt' & _ & _ & _ & _ & Htg).
      rewrite Hnt in Hnt'. injection Hnt' as <-. apply Htg.
    + intros HV. destruct (HA HV) as (_ & _ & Hc & _). repeat (split; [assumption|]). exact Hc.
  - destruct HE as (HS1 & K). split; [apply (r2x_Q_keeps s s1 HQ HS1 K FK)|]. split; [exact K|exact HA].
Qed.

(** ** Phase A: all selected tables *)

Lemma r2x_collect : forall (V : Prop) add rem (rels : list rel) tabs s acc rr,
  r2x_Q s -> r2x_args s add rels -> (V -> r2a_rels_ok s add rels) ->
  match bo_collect add rem rels tabs acc rr s with
  | Ok (bs', rr') s' =>
      exists bs, bs' = acc ++ bs /\ r2x_Q s' /\ r2a_keeps s s' /\ Forall (r2x_batch_ok V s' add rem rels) bs /\
        (forall b, In b bs -> In (bo_src b) tabs) /\
        (forall tid t, In tid tabs -> nth_error (w_tables s) tid = Some t -> t_len t <> 0 -> In tid (map bo_src bs)) /\
        (V -> forall tid t oa, In tid tabs -> nth_error (w_tables s) tid = Some t -> t_len t <> 0 ->
              nth_error (w_archs s) (t_arch t) = Some oa -> r2x_ready s add rem rels (a_mask oa))
  | Err _ s' =>
      r2x_Q s' /\ r2a_keeps s s' /\
      (V -> (forall tid, In tid tabs -> exists t, nth_error (w_tables s) tid = Some t /\ t_free t = false) ->
         exists tid t oa, In tid tabs /\ nth_error (w_tables s) tid = Some t /\ t_len t <> 0 /\
                          nth_error (w_archs s) (t_arch t) = Some oa /\ ~ r2x_ready s add rem rels (a_mask oa))
  end.
Proof.
  intros V add rem rels tabs. induction tabs as [|tid rest IH]; intros s acc rr HQ Hargs HVok.
  - cbn [bo_collect]. unfold ret. exists []. rewrite app_nil_r. split; [reflexivity|]. split; [exact HQ|].
    split; [apply r2a_keeps_refl|]. split; [constructor|]. split; [intros b []|]. split; [intros ? ? []|intros _ ? ? ? []].
  - cbn [bo_collect]. pose proof HQ as (HS & HK & HN).
    pose proof HS as HS0. apply St2_St2G in HS0. destruct HS0 as (HW & HR & _ & _).
    destruct (nth_error (w_tables s) tid) as [t|] eqn:Ht.
    2:{ assert (Eg : getT tid s = Err EIndex s) by (unfold getT, bind, get; rewrite Ht; reflexivity).
        rewrite (bo_bind_err Eg). split; [exact HQ|]. split; [apply r2a_keeps_refl|].
        intros _ Hval. destruct (Hval tid (or_introl eq_refl)) as (t0 & Ht0 & _). congruence. }
    rewrite (bo_bind_ok (sa_getT_eq _ _ _ Ht)).
    destruct (Nat.eqb_spec (t_len t) 0) as [Hz|Hnz].
    + specialize (IH s acc rr HQ Hargs HVok).
      destruct (bo_collect add rem rels rest acc rr s) as [[bs' rr'] s'|er s'].
      * destruct IH as (bs & E1 & HQ' & K' & FA & I1 & I2 & I3). exists bs. repeat (split; [assumption|]).
        split; [intros b Hb; right; apply I1; exact Hb|]. split.
        -- intros x tx [<-|Hx] Hx2 Hx3; [congruence|eapply I2; eauto].
        -- intros HV x tx ox [<-|Hx] Hx2 Hx3 Hx4; [congruence|eapply (I3 HV); eauto].
      * destruct IH as (HQ' & K' & I3). split; [exact HQ'|]. split; [exact K'|].
        intros HV Hval. destruct (I3 HV) as (x & tx & ox & J1 & J2); [intros y Hy; apply Hval; right; exact Hy|].
        exists x, tx, ox. split; [right; exact J1|exact J2].
    + destruct (wf_layout _ HW tid t Ht) as (oa & Hoa & _).
      rewrite (bo_bind_ok (sb2_arch_mask_ok _ _ _ _ Ht Hoa)).
      pose proof (r2x_finder_step V s tid t oa add rem rels HQ Hargs HVok Ht Hnz Hoa) as HF.
      destruct (find_or_create_table tid add rem rels (a_mask oa) s) as [[[[ntid aid] m] rmv] s1|er s1] eqn:EF.
      * destruct HF as (HQ1 & K1 & Hb1 & Hrd1). rewrite (bo_bind_ok EF).
        pose proof HQ1 as (HS1 & _).
        pose proof (r2x_args_keeps s s1 add rels HS HS1 K1 Hargs) as Hargs1.
        assert (HVok1 : V -> r2a_rels_ok s1 add rels) by (intros HV; apply (r2x_rels_ok_keeps s s1 add rels HS K1 (HVok HV))).
        specialize (IH s1 (acc ++ [(tid, ntid, t_len t)]) (rr || rmv)%bool HQ1 Hargs1 HVok1).
        pose proof K1 as (_ & _ & K3 & K4 & _).
        assert (Hact : forall x tx, nth_error (w_tables s) x = Some tx -> t_len tx <> 0 -> nth_error (w_tables s1) x = Some tx).
        { intros x tx Hx Hl. apply K3; [exact Hx|].
          destruct (t_free tx) eqn:Ef; [|reflexivity]. pose proof (r2c_free_len0 r2_none s x tx HR Hx Ef). lia. }
        destruct (bo_collect add rem rels rest (acc ++ [(tid, ntid, t_len t)]) (rr || rmv)%bool s1) as [[bs' rr'] s'|er s'].
        -- destruct IH as (bs & E1 & HQ' & K' & FA & I1 & I2 & I3).
           exists ((tid, ntid, t_len t) :: bs). split; [rewrite E1, <- app_assoc; reflexivity|]. split; [exact HQ'|].
           split; [eapply r2a_keeps_trans; eassumption|].
           split; [constructor; [apply (r2x_batch_ok_tk V s1 s'); [apply r2x_tk_keeps; exact K'|exact Hb1]|exact FA]|].
           split; [intros b [<-|Hb]; [left; reflexivity|right; apply I1; exact Hb]|].
           split.
           ++ intros x tx [<-|Hx] Hx2 Hx3; [left; reflexivity|]. right. apply (I2 x tx Hx (Hact x tx Hx2 Hx3) Hx3).
           ++ intros HV x tx ox [<-|Hx] Hx2 Hx3 Hx4.
              ** rewrite Ht in Hx2. injection Hx2 as <-. rewrite Hoa in Hx4. injection Hx4 as <-. apply Hrd1. exact HV.
              ** destruct (K4 _ _ Hx4) as (ox1 & Hox1 & Eo).
                 rewrite <- Eo. apply (proj1 (r2x_ready_keeps s s1 add rem rels (a_mask ox1) K1)).
                 exact (I3 HV x tx ox1 Hx (Hact x tx Hx2 Hx3) Hx3 Hox1).
        -- destruct IH as (HQ' & K' & I3). split; [exact HQ'|]. split; [eapply r2a_keeps_trans; eassumption|].
           intros HV Hval.
           destruct (I3 HV) as (x & tx1 & ox1 & J1 & J2 & J3 & J4 & J5).
           { intros y Hy. destruct (Hval y (or_intror Hy)) as (ty & Hty & Hfy). exists ty. split; [apply K3; assumption|exact Hfy]. }
           destruct (Hval x (or_intror J1)) as (tx & Htx & Hfx).
           pose proof (K3 _ _ Htx Hfx) as Htx1. rewrite J2 in Htx1. injection Htx1 as ->.
           destruct (wf_layout _ HW x tx Htx) as (ox & Hox & _).
           destruct (K4 _ _ Hox) as (ox1' & Hox1' & Eo). rewrite J4 in Hox1'. injection Hox1' as <-.
           exists x, tx, ox. split; [right; exact J1|]. split; [exact Htx|]. split; [exact J3|]. split; [exact Hox|].
           intros Hrd. apply J5. rewrite Eo. apply (proj2 (r2x_ready_keeps s s1 add rem rels (a_mask ox) K1)). exact Hrd.
      * rewrite (bo_bind_err EF). destruct HF as (HQ1 & K1 & Hn). split; [exact HQ1|]. split; [exact K1|].
        intros HV _. exists tid, t, oa. split; [left; reflexivity|]. split; [exact Ht|]. split; [exact Hnz|]. split; [exact Hoa|apply Hn; exact HV].
Qed.

(** ** Phase B: one batch = bulk move + callbacks over the new rows *)

Definition r2x_mbody (rels : list rel) (vals : list (nat * Z)) (b : nat * nat * nat) : MW (nat * nat * nat * nat) :=
  let '(otid, ntid, _) := b in
  sl <- exchange_table otid ntid rels ;;
  let '(start, len) := sl in
  forM_ (seq start len) (fun i => batch_callback ntid vals i) ;;;
  ret (otid, ntid, start, len).

Lemma r2x_state_bind_ret : forall A B (m : MW A) (g : A -> B) s, state_of ((x <- m ;; ret (g x)) s) = state_of (m s).
Proof. intros A B m g s. unfold bind. destruct (m s); reflexivity. Qed.

Lemma r2x_St2_of_G : forall s (rels : list rel),
  St2G r2_none (fun k => r2_none k /\ ~ In k (map (fun r : rel => fst (snd r)) rels)) r2_none s -> St2 s.
Proof.
  intros s rels (A & B & C & E). apply St2_St2G. split; [exact A|]. split; [exact B|]. split; [|exact E].
  apply (r2_TargetFlagsG_mono _ _ r2_none) in C; [exact C|]. intros k (Hk & _). exact Hk.
Qed.

Lemma r2x_live_cases : forall s e, live s e = true -> exists tid r, loc s e = Some (tid, r).
Proof. intros s e H. destruct (sb2_live_elim _ _ H) as (tid & r & _ & L & _). exists tid, r. exact L. Qed.

(** What one batch of phase B does to the world as a whole, whatever the value list: in BOTH outcomes
    (a callback panics when [vals] names a component the destination lacks) the invariant holds. *)
Lemma r2x_step_any : forall V s add rem (rels : list rel) vals b, r2x_Q s -> (add <> [] \/ rem <> []) ->
  r2x_batch_ok V s add rem rels b -> (forall r, In r rels -> fst (snd r) < length (w_istarget s)) ->
  r2x_Q (state_of (r2x_mbody rels vals b s)) /\ r2x_tk s (state_of (r2x_mbody rels vals b s)) /\
  bo_side s (state_of (r2x_mbody rels vals b s)) /\ frame_user s (state_of (r2x_mbody rels vals b s)) /\
  w_pool (state_of (r2x_mbody rels vals b s)) = w_pool s /\
  length (w_istarget (state_of (r2x_mbody rels vals b s))) = length (w_istarget s) /\
  (forall e, live (state_of (r2x_mbody rels vals b s)) e = live s e).
Proof.
  intros V s add rem rels vals b HQ Hnn Hb Hrange. pose proof HQ as (HS & HK & HN).
  pose proof (bo_dst_not_src s add rem b b Hnn (r2x_batch_ok_bo V s add rem rels b Hb) (r2x_batch_ok_bo V s add rem rels b Hb)) as Hne0.
  destruct b as [[otid ntid] len0]. cbn [bo_src bo_dst fst snd] in *.
  assert (Hne : otid <> ntid) by congruence. clear Hne0.
  destruct Hb as (ot & nt & oa & na & Hot & Hnt & Hfo & Hfn & Hoa & Hna & Hm & Hr & Ha & Htg).
  cbn [bo_src bo_dst fst snd] in *.
  pose proof HS as HSG. apply St2_St2G in HSG.
  destruct (r2x_exchange_table_spec r2_none s otid ntid ot nt oa na rels HSG Hne Hot Hnt Hoa Hna Hfn Hrange)
    as (s1 & Hrun & HS1G & Mv & Ot & Dd & Tab_o & (nt' & Tab_n & Okn & Mn & Ln & Newn) & Tab_x & TL & EA & EP & EI & SS & FU).
  pose proof (r2x_St2_of_G s1 rels HS1G) as HS1. pose proof HS1 as HS1g. apply St2_St2G in HS1g.
  assert (Hl1 : forall e, live s1 e = live s e).
  { intros e. destruct (live s e) eqn:Hl; [|apply Dd; exact Hl].
    destruct (r2x_live_cases s e Hl) as (tid & r & L0). destruct (Nat.eq_dec tid otid) as [->|Hn].
    - apply (Mv e r Hl L0).
    - apply (Ot e Hl). intros r' Hc. rewrite L0 in Hc. congruence. }
  destruct (r2x_cb_any ntid vals (seq (t_len nt) (t_len ot)) s1 nt' Tab_n Okn) as (T' & L & Hst & Hok' & Hmeta' & Hlen' & Hents').
  { intros r0 Hr0. apply in_seq in Hr0. lia. }
  destruct (r2x_setcells r2_none r2_none r2_none s1 ntid nt' T' HS1g Tab_n Hok' Hmeta' Hlen' Hents') as (HS2 & Hlv & _).
  set (s2' := sb2_setT s1 (upd ntid T' (w_tables s1))) in *.
  assert (Est : state_of (r2x_mbody rels vals (otid, ntid, len0) s) = b_logged s2' L).
  { unfold r2x_mbody. rewrite (bo_bind_ok Hrun). cbv beta iota.
    rewrite (r2x_state_bind_ret _ _ _ (fun _ : unit => (otid, ntid, t_len nt, t_len ot))). exact Hst. }
  rewrite Est.
  assert (SSl : storage_same s2' (b_logged s2' L)) by (unfold storage_same; repeat split).
  split.
  { split; [apply (r2c_storage_same_St2 s2' _ SSl); apply St2_St2G; exact HS2|]. split.
    - apply (r2d_KeysLive_mono s _ HK); [exact EA|]. intros x Hx.
      change (live (b_logged s2' L) x) with (live s2' x). rewrite Hlv, Hl1. exact Hx.
    - intros ev. rewrite (bo_has_obs_side s (b_logged s2' L) ev); [apply HN|]. destruct SS as (_ & _ & _ & _ & E & _). exact E. }
  split.
  { split; [|intros aid a Ha0; exists a; split; [rewrite <- EA in Ha0; exact Ha0|reflexivity]].
    intros tid t Ht _. change (w_tables (b_logged s2' L)) with (upd ntid T' (w_tables s1)). rewrite nth_error_upd.
    destruct (Nat.eqb_spec ntid tid) as [<-|Hn2].
    - rewrite Tab_n. exists T'. split; [reflexivity|]. rewrite Hnt in Ht. injection Ht as <-. eapply sb2_meta_trans; eassumption.
    - destruct (Nat.eq_dec otid tid) as [<-|Hn1].
      + rewrite Tab_o. exists (tbl_reset ot). split; [reflexivity|]. rewrite Hot in Ht. injection Ht as <-. repeat split.
      + rewrite Tab_x by congruence. exists t. split; [exact Ht|apply sb2_meta_refl]. }
  destruct SS as (S1 & S2 & S3 & S4 & S5 & S6 & S7 & S8).
  split; [unfold bo_side; cbn; repeat split; assumption|].
  split; [exact FU|]. split; [exact EP|]. split; [exact EI|].
  intros e. change (live (b_logged s2' L) e) with (live s2' e). rewrite Hlv. apply Hl1.
Qed.

(** ** Phase B: all batches, both outcomes *)

Lemma r2x_state_mapM_cons : forall A B (f : A -> MW B) a l s,
  state_of (mapM (a :: l) f s) = match f a s with Ok _ s2 => state_of (mapM l f s2) | Err _ s2 => s2 end.
Proof.
  intros A B f a l s. cbn [mapM]. unfold bind at 1. destruct (f a s) as [y s2|er s2]; [|reflexivity].
  apply (r2x_state_bind_ret _ _ (mapM l f) (fun ys => y :: ys)).
Qed.

Lemma r2x_move_any : forall V add rem (rels : list rel) vals bs s, r2x_Q s -> (add <> [] \/ rem <> []) ->
  Forall (r2x_batch_ok V s add rem rels) bs -> (forall r, In r rels -> fst (snd r) < length (w_istarget s)) ->
  r2x_Q (state_of (mapM bs (r2x_mbody rels vals) s)) /\ bo_side s (state_of (mapM bs (r2x_mbody rels vals) s)) /\
  frame_user s (state_of (mapM bs (r2x_mbody rels vals) s)) /\
  w_pool (state_of (mapM bs (r2x_mbody rels vals) s)) = w_pool s /\
  (forall e, live (state_of (mapM bs (r2x_mbody rels vals) s)) e = live s e).
Proof.
  intros V add rem rels vals bs. induction bs as [|b rest IH]; intros s HQ Hnn HF Hrange.
  - cbn [mapM]. unfold ret. cbn [state_of]. split; [exact HQ|]. split; [apply bo_side_refl|].
    split; [apply sa_frame_user_refl|]. split; reflexivity.
  - inversion HF as [|? ? Hb HF']; subst.
    destruct (r2x_step_any V s add rem rels vals b HQ Hnn Hb Hrange) as (HQ2 & K2 & Sd2 & Fr2 & Pl2 & Il2 & Lv2).
    rewrite r2x_state_mapM_cons.
    destruct (r2x_mbody rels vals b s) as [y s2|er s2] eqn:Erun; cbn [state_of] in *.
    + assert (HF2 : Forall (r2x_batch_ok V s2 add rem rels) rest).
      { eapply Forall_impl; [|exact HF']. intros b' Hb'. eapply r2x_batch_ok_tk; eauto. }
      destruct (IH s2 HQ2 Hnn HF2) as (HQ' & Sd' & Fr' & Pl' & Lv').
      { intros r Hr. rewrite Il2. apply Hrange. exact Hr. }
      split; [exact HQ'|]. split; [eapply bo_side_trans; eassumption|]. split; [eapply sa_frame_user_trans; eassumption|].
      split; [congruence|]. intros e. rewrite Lv'. apply Lv2.
    + split; [exact HQ2|]. split; [exact Sd2|]. split; [exact Fr2|]. split; [exact Pl2|exact Lv2].
Qed.

(** ** Assembling ExchangeBatch *)

(** The part of ExchangeBatch that runs under [defer w.unlock(lock)] (cf. [bo_xbody], here with relations). *)
Definition r2x_xbody (fi : nat) (brels : list rel) (add rem : list nat) (rels : list rel) (vals : list (nat * Z)) : MW unit :=
  tables <- get_batch_tables fi brels ;;
  bt <- bo_collect add rem rels tables [] false ;;
  let '(batches, rel_removed) := bt in
  bo_pre_events rem batches rel_removed ;;;
  moved <- mapM batches (r2x_mbody rels vals) ;;
  bo_post_events add rels moved.

Lemma r2x_exchange_batch_eq : forall fi brels add rem rels vals,
  w_exchange_batch fi brels add rem rels vals =
  (check_locked ;;;
   guard (negb (is_nil add && is_nil rem)) ENoComps ;;;
   l <- lockM ;;
   with_deferred_unlock l (r2x_xbody fi brels add rem rels vals) ;;;
   unlockM l).
Proof. reflexivity. Qed.

Lemma r2x_pre_events_skip : forall rem bs rr s, r2e_noobs s -> bo_pre_events rem bs rr s = Ok tt s.
Proof.
  intros rem bs rr s HN. unfold bo_pre_events. destruct rem as [|c rem]; [reflexivity|].
  cbn [is_nil negb whenM]. unfold bind at 1. unfold get at 1. cbv beta iota.
  rewrite (HN EvRemoveComponents). cbn [whenM]. unfold bind at 1. unfold ret at 1. cbv beta iota.
  unfold bind at 1. unfold get at 1. cbv beta iota. rewrite (HN EvRemoveRelations), andb_false_r. reflexivity.
Qed.

Lemma r2x_post_events_skip : forall add rels mv s, r2e_noobs s -> bo_post_events add rels mv s = Ok tt s.
Proof.
  intros add rels mv s HN. unfold bo_post_events. destruct add as [|c add]; [reflexivity|].
  cbn [is_nil negb whenM]. unfold bind at 1. unfold get at 1. cbv beta iota.
  rewrite (HN EvAddComponents). cbn [whenM]. unfold bind at 1. unfold ret at 1. cbv beta iota.
  unfold bind at 1. unfold get at 1. cbv beta iota. rewrite (HN EvAddRelations), andb_false_r. reflexivity.
Qed.

Lemma r2x_Q_lock : forall s l, r2x_Q s -> r2x_Q (s <| w_lock := l |>).
Proof.
  intros s l (HS & HK & HN). split; [apply (r2c_storage_same_St2 s); [unfold storage_same; repeat split|exact HS]|]. split.
  - apply (r2d_KeysLive_mono s _ HK); [reflexivity|]. intros x Hx. exact Hx.
  - intros ev. rewrite (bo_has_obs_side s _ ev); [apply HN|reflexivity].
Qed.

Lemma r2x_args_frame : forall s s' add rels, w_reg s' = w_reg s -> length (w_istarget s') = length (w_istarget s) ->
  (forall x, live s' x = live s x) -> w_pool s' = w_pool s -> r2x_args s add rels -> r2x_args s' add rels.
Proof.
  intros s s' add rels Er Ei El Ep (A1 & A2). split.
  - intros c Hc. rewrite Er. apply A1. exact Hc.
  - intros r Hr. destruct (A2 r Hr) as ([Hz|[Hl|(H1 & H2)]] & B2); (split; [|rewrite Ei; exact B2]).
    + left. exact Hz.
    + right. left. rewrite El. exact Hl.
    + right. right. split; [exact H1|]. unfold alive. rewrite Ep. exact H2.
Qed.

(** The body under the deferred unlock, both outcomes. *)
Definition r2x_post (s s' : W) : Prop :=
  r2x_Q s' /\ bo_side s s' /\ frame_user s s' /\ w_pool s' = w_pool s /\ (forall e, live s' e = live s e).

Lemma r2x_xbody_any : forall (V : Prop) s fi brels add rem rels vals, r2x_Q s -> (add <> [] \/ rem <> []) -> r2x_args s add rels ->
  (V -> r2a_rels_ok s add rels) ->
  r2x_post s (state_of (r2x_xbody fi brels add rem rels vals s)).
Proof.
  intros V s fi brels add rem rels vals HQ Hnn Hargs HVok. pose proof HQ as (HS & HK & HN).
  assert (Hrefl : r2x_post s s).
  { split; [exact HQ|]. split; [apply bo_side_refl|]. split; [apply sa_frame_user_refl|]. split; reflexivity. }
  unfold r2x_xbody. unfold bind at 1. rewrite bo_gbt_pure.
  destruct (bo_gbt (w_filters s) (w_cheap s) (w_centries s) (w_tables s) (w_archs s) fi brels) as [eg|tabs]; cbn [CacheProofs.k_inj].
  { exact Hrefl. }
  pose proof (r2x_collect V add rem rels tabs s [] false HQ Hargs HVok) as HC.
  pose proof HS as HS0. apply St2_St2G in HS0. destruct HS0 as (HW & HR & _ & _).
  destruct (bo_collect add rem rels tabs [] false s) as [[bs' rr'] s1|er s1] eqn:EC.
  - destruct HC as (bs & -> & HQ1 & K1 & FA & _). cbn [app] in *. rewrite (bo_bind_ok EC). cbv beta iota.
    pose proof HQ1 as (HS1 & HK1 & HN1).
    rewrite (bo_bind_ok (r2x_pre_events_skip rem bs rr' s1 HN1)).
    pose proof (r2x_args_keeps s s1 add rels HS HS1 K1 Hargs) as (_ & Hrels1).
    destruct (r2x_move_any V add rem rels vals bs s1 HQ1 Hnn FA (fun r Hr => proj2 (Hrels1 r Hr))) as (HQ2 & Sd2 & Fr2 & Pl2 & Lv2).
    destruct (r2a_keeps_obs r2_none s s1 HW HR K1) as (C1 & _).
    pose proof K1 as (_ & KP & _ & _ & (KS1 & KS2 & KS3 & KS4 & KS5 & KS6 & KS7 & KS8) & KF).
    assert (Sd1 : bo_side s s1) by (unfold bo_side; repeat split; assumption).
    destruct (mapM bs (r2x_mbody rels vals) s1) as [mv s2|er s2] eqn:EM; cbn [state_of] in *.
    + rewrite (bo_bind_ok EM). pose proof HQ2 as (_ & _ & HN2). rewrite (r2x_post_events_skip add rels mv s2 HN2). cbn [state_of].
      split; [exact HQ2|]. split; [eapply bo_side_trans; eassumption|]. split; [eapply sa_frame_user_trans; eassumption|].
      split; [congruence|]. intros e. rewrite Lv2. apply C1.
    + rewrite (bo_bind_err EM). cbn [state_of].
      split; [exact HQ2|]. split; [eapply bo_side_trans; eassumption|]. split; [eapply sa_frame_user_trans; eassumption|].
      split; [congruence|]. intros e. rewrite Lv2. apply C1.
  - destruct HC as (HQ1 & K1 & _). rewrite (bo_bind_err EC). cbn [state_of].
    destruct (r2a_keeps_obs r2_none s s1 HW HR K1) as (C1 & _).
    pose proof K1 as (_ & KP & _ & _ & (KS1 & KS2 & KS3 & KS4 & KS5 & KS6 & KS7 & KS8) & KF).
    split; [exact HQ1|]. split; [unfold bo_side; repeat split; assumption|]. split; [exact KF|]. split; [exact KP|]. intros e. apply C1.
Qed.

(** ExchangeBatch keeps the invariant in BOTH outcomes and ends UNLOCKED (deferred unlock): whatever the
    filter index, the batch relations, the component lists, the relation list (targets: proper handles)
    and the value list are; in particular when phase A fails half-way (archetypes / tables created, nothing
    moved) and when a callback panics in phase B (some tables moved). Nobody is created or removed. *)
Definition r2x_inv_post (s s' : W) : Prop :=
  St2 s' /\ r2d_KeysLive s' /\ r2e_noobs s' /\ is_locked s' = false /\ frame_user s s' /\ w_pool s' = w_pool s /\
  (forall e, live s' e = live s e).

Lemma r2x_exchange_batch_inv_V : forall (V : Prop) s fi brels add rem rels vals,
  St2 s -> r2d_KeysLive s -> r2e_noobs s -> is_locked s = false -> r2x_args s add rels -> (V -> r2a_rels_ok s add rels) ->
  r2x_inv_post s (state_of (w_exchange_batch fi brels add rem rels vals s)).
Proof.
  intros V s fi brels add rem rels vals HS HK HN Hunl Hargs HVok.
  assert (HQ : r2x_Q s) by (split; [exact HS|split; assumption]).
  assert (Hrefl : r2x_inv_post s s).
  { unfold r2x_inv_post. repeat (split; [assumption|]). split; [apply sa_frame_user_refl|]. split; reflexivity. }
  rewrite r2x_exchange_batch_eq.
  rewrite (bo_bind_ok (sb1_check_locked_ok s Hunl)).
  destruct (negb (is_nil add && is_nil rem)) eqn:Hg; cbn [guard].
  2:{ rewrite (bo_bind_err (m := fail ENoComps) (s := s) eq_refl). exact Hrefl. }
  rewrite (bo_bind_ok (m := ret tt) (s := s) eq_refl).
  assert (Hnn : add <> [] \/ rem <> []).
  { destruct add; [|left; discriminate]. destruct rem; [discriminate Hg|right; discriminate]. }
  destruct (lock_lock (w_lock s)) as [[lb l']|] eqn:LL.
  2:{ assert (El : lockM s = Err EBits s) by (unfold lockM, bind, get; rewrite LL; reflexivity).
      rewrite (bo_bind_err El). exact Hrefl. }
  pose proof (bo_lock_cycle s lb l' Hunl LL) as LU.
  set (l'' := {| lk_pool := ipool_recycle (lk_pool l') lb; lk_mask := 0%N |}) in *.
  rewrite (bo_bind_ok (v_lockM_ok s lb l' LL)).
  set (s0 := s <| w_lock := l' |>).
  pose proof (r2x_Q_lock s l' HQ) as HQ0. fold s0 in HQ0.
  assert (Hargs0 : r2x_args s0 add rels) by (apply (r2x_args_frame s s0 add rels); try reflexivity; exact Hargs).
  assert (HVok0 : V -> r2a_rels_ok s0 add rels) by (intros HV; exact (HVok HV)).
  destruct (r2x_xbody_any V s0 fi brels add rem rels vals HQ0 Hnn Hargs0 HVok0) as (HQ2 & Sd2 & Fr2 & Pl2 & Lv2).
  assert (Hfin : forall s2, r2x_Q s2 -> frame_user s0 s2 -> w_pool s2 = w_pool s0 -> (forall e, live s2 e = live s0 e) ->
            r2x_inv_post s (s2 <| w_lock := l'' |>)).
  { intros s2 HQs Fr Pl Lv. set (s3 := s2 <| w_lock := l'' |>). destruct (r2x_Q_lock s2 l'' HQs) as (A & B & C). fold s3 in A, B, C.
    split; [exact A|]. split; [exact B|]. split; [exact C|]. split; [reflexivity|].
    split; [apply (sa_frame_user_trans s s0 s3); [unfold frame_user; repeat split|];
            apply (sa_frame_user_trans s0 s2 s3); [exact Fr|unfold frame_user; repeat split]|].
    split; [exact Pl|]. intros e. change (live s3 e) with (live s2 e). rewrite Lv. reflexivity. }
  destruct (r2x_xbody fi brels add rem rels vals s0) as [u s2|er s2] eqn:Ebody; cbn [state_of] in *.
  - rewrite (bo_bind_ok (bo_deferred_ok _ lb _ _ _ _ Ebody)).
    assert (LU2 : lock_unlock (w_lock s2) lb = Some l'') by (destruct Sd2 as (-> & _); exact LU).
    rewrite (v_unlockM_ok s2 lb l'' LU2). cbn [state_of]. apply (Hfin s2 HQ2 Fr2 Pl2 Lv2).
  - rewrite (bo_bind_err (bo_deferred_err _ lb _ _ _ _ Ebody)). cbn [state_of].
    assert (Erel : release_bit lb s2 = s2 <| w_lock := l'' |>).
    { unfold release_bit. destruct Sd2 as (-> & _). change (w_lock s0) with l'. rewrite LU. reflexivity. }
    rewrite Erel. apply (Hfin s2 HQ2 Fr2 Pl2 Lv2).
Qed.

Theorem r2x_exchange_batch_inv : forall s fi brels add rem rels vals,
  St2 s -> r2d_KeysLive s -> r2e_noobs s -> is_locked s = false -> r2x_args s add rels ->
  St2 (state_of (w_exchange_batch fi brels add rem rels vals s)) /\
  r2d_KeysLive (state_of (w_exchange_batch fi brels add rem rels vals s)) /\
  r2e_noobs (state_of (w_exchange_batch fi brels add rem rels vals s)) /\
  is_locked (state_of (w_exchange_batch fi brels add rem rels vals s)) = false /\
  frame_user s (state_of (w_exchange_batch fi brels add rem rels vals s)) /\
  w_pool (state_of (w_exchange_batch fi brels add rem rels vals s)) = w_pool s /\
  (forall e, live (state_of (w_exchange_batch fi brels add rem rels vals s)) e = live s e).
Proof.
  intros s fi brels add rem rels vals HS HK HN Hunl Hargs.
  exact (r2x_exchange_batch_inv_V False s fi brels add rem rels vals HS HK HN Hunl Hargs (fun F => match F with end)).
Qed.

(* ================================================================================================ *)
(** * Part 4: what a successful ExchangeBatch does, entity by entity *)

(** ** One batch with a value list that only names added components: it succeeds *)

Lemma r2x_step_ok : forall (V : Prop) s add rem (rels : list rel) vals b, r2x_Q s -> (add <> [] \/ rem <> []) ->
  r2x_batch_ok V s add rem rels b -> registered s add ->
  (forall r, In r rels -> fst (snd r) < length (w_istarget s)) -> (forall cv, In cv vals -> In (fst cv) add) ->
  exists s2 r, r2x_mbody rels vals b s = Ok r s2 /\
    (forall e r, live s e = true -> loc s e = Some (bo_src b, r) ->
       live s2 e = true /\ (exists r', loc s2 e = Some (bo_dst b, r')) /\
       (forall c, val s2 e c = bo_newval s add rem vals e c) /\
       (V -> forall c, tgt s2 e c = if memb c add then Some (r2a_new_target rels c)
                                    else if memb c rem then None else tgt s e c)) /\
    (forall e, live s e = true -> (forall r, loc s e <> Some (bo_src b, r)) ->
       live s2 e = true /\ loc s2 e = loc s e /\ (forall c, val s2 e c = val s e c) /\ (forall c, tgt s2 e c = tgt s e c)) /\
    (exists es, w_log s2 = w_log s ++ map b_entry es /\ NoDup es /\
       forall e, In e es <-> (live s e = true /\ exists r, loc s e = Some (bo_src b, r))).
Proof.
  intros V s add rem rels vals b HQ Hnn Hb Hreg Hrange Hvals. pose proof HQ as (HS & HK & HN).
  pose proof (bo_dst_not_src s add rem b b Hnn (r2x_batch_ok_bo V s add rem rels b Hb) (r2x_batch_ok_bo V s add rem rels b Hb)) as Hne0.
  destruct b as [[otid ntid] len0]. cbn [bo_src bo_dst fst snd] in *.
  assert (Hne : otid <> ntid) by congruence. clear Hne0.
  destruct Hb as (ot & nt & oa & na & Hot & Hnt & Hfo & Hfn & Hoa & Hna & Hm & Hr & Ha & Htg).
  cbn [bo_src bo_dst fst snd] in *.
  pose proof HS as HSG. apply St2_St2G in HSG. pose proof HSG as (HW & HR & _ & _).
  destruct (r2x_exchange_table_spec r2_none s otid ntid ot nt oa na rels HSG Hne Hot Hnt Hoa Hna Hfn Hrange)
    as (s1 & Hrun & HS1G & Mv & Ot & Dd & Tab_o & (nt' & Tab_n & Okn & Mn & Ln & Newn) & Tab_x & TL & EA & EP & EI & SS & FU).
  pose proof (r2x_St2_of_G s1 rels HS1G) as HS1. pose proof HS1 as HS1g. apply St2_St2G in HS1g. pose proof HS1g as (HW1 & _).
  pose proof Mn as (Mn1 & Mn2 & Mn3 & Mn4 & Mn5 & Mn6).
  destruct (wf_layout _ HW1 ntid nt' Tab_n) as (a' & _ & _ & Kinds & _).
  destruct (sb2_layout _ _ _ _ HW Hnt Hna) as (Hidn & _ & _).
  assert (Ereg : w_reg s1 = w_reg s) by apply FU.
  assert (Hvk : forall cv, In cv vals -> In (fst cv) (t_ids nt')).
  { intros cv Hcv. rewrite Mn2, Hidn. apply mk_to_list_spec. pose proof (Hvals cv Hcv) as Hin.
    split; [apply Hreg; exact Hin|]. rewrite Hm. rewrite (proj2 (sb2_memb_In _ _) Hin). apply orb_true_r. }
  destruct (bo_cb_loop (kind_of s1) ntid vals (seq (t_len nt) (t_len ot)) s1 nt' Tab_n Okn) as
    (T' & Hrun2 & Hok' & Hmeta' & Hlen' & Hents' & Hd1 & Hd2).
  { intros r Hr0. apply in_seq in Hr0. lia. }
  { apply seq_NoDup. }
  { exact Kinds. }
  { exact Hvk. }
  destruct (r2x_setcells r2_none r2_none r2_none s1 ntid nt' T' HS1g Tab_n Hok' Hmeta' Hlen' Hents') as (_ & Hlv & Htg2 & Hvin & Hvout).
  set (s2' := sb2_setT s1 (upd ntid T' (w_tables s1))) in *.
  set (L := map (fun r => b_entry (row_ent nt' r)) (seq (t_len nt) (t_len ot))) in *.
  set (s2 := b_logged s2' L) in *.
  assert (Hl2 : forall x, live s2 x = live s1 x) by (intros x; exact (Hlv x)).
  assert (Hloc2 : forall x, loc s2 x = loc s1 x) by (intros x; reflexivity).
  assert (Hv2 : forall x c, val s2 x c = val s2' x c) by (intros x c; reflexivity).
  assert (Ht2 : forall x c, tgt s2 x c = tgt s1 x c) by (intros x c; exact (Htg2 x c)).
  exists s2, (otid, ntid, t_len nt, t_len ot).
  split.
  { unfold r2x_mbody. rewrite (bo_bind_ok Hrun). cbv beta iota. rewrite (bo_bind_ok Hrun2). reflexivity. }
  split.
  { (* moved *)
    intros e r Hlive Hloc. destruct (Mv e r Hlive Hloc) as (Hl1 & L1 & V1 & T1).
    destruct (sb2_live_elim _ _ Hlive) as (tid0 & r0 & t0 & L0 & T0 & R0 & E0).
    rewrite Hloc in L0. inversion L0; subst tid0 r0. rewrite Hot in T0. inversion T0; subst t0.
    split; [rewrite Hl2; exact L1|]. split; [exists (t_len nt + r); rewrite Hloc2; exact Hl1|]. split.
    - intros c. rewrite Hv2. rewrite (Hvin e (t_len nt + r) Hl1 L1 c).
      destruct (sb2_live_at _ _ _ _ _ Hl1 Tab_n) as (_ & Hva). specialize (V1 c).
      unfold val in V1. rewrite L1, Hva in V1.
      assert (Hrow : In (t_len nt + r) (seq (t_len nt) (t_len ot))) by (apply in_seq; lia).
      unfold bo_newval, bo_cbval. rewrite (bo_wval_ext (kind_of s) (kind_of s1)) by (symmetry; apply sa_kind_of_ext; exact Ereg).
      pose proof (Hm c) as Hmc.
      destruct (memb c add) eqn:Ea.
      + rewrite orb_true_r in Hmc. rewrite Hmc in V1.
        rewrite (Ha c (proj1 (sb2_memb_In _ _) Ea)) in V1.
        destruct (tbl_colidx nt' c) as [ci|] eqn:Eci; [|discriminate].
        rewrite (Hd2 c ci _ Eci Hrow). inversion V1 as [V1']. rewrite V1'. reflexivity.
      + rewrite orb_false_r in Hmc.
        assert (Hnv : ~ In c (map fst vals)).
        { intros Hin. apply in_map_iff in Hin. destruct Hin as (cv & <- & Hcv). apply Hvals in Hcv.
          apply sb2_memb_In in Hcv. congruence. }
        assert (E2 : match tbl_colidx nt' c with Some ci => Some (cell T' ci (t_len nt + r)) | None => None end =
                     match tbl_colidx nt' c with Some ci => Some (cell nt' ci (t_len nt + r)) | None => None end).
        { destruct (tbl_colidx nt' c) as [ci|] eqn:Eci; [|reflexivity].
          rewrite (Hd2 c ci _ Eci Hrow), bo_wval_notin by exact Hnv. reflexivity. }
        rewrite E2, V1, Hmc.
        destruct (memb c rem); [rewrite andb_false_r; reflexivity|]. rewrite andb_true_r.
        destruct (mk_get (a_mask oa) c) eqn:Eo; [reflexivity|].
        destruct (sb2_colidx_mask _ _ _ _ c HW Hot Hoa) as (_ & Of).
        destruct (sb2_live_at _ _ _ _ _ Hloc Hot) as (_ & Hv0). unfold val. rewrite Hlive, Hv0, (Of Eo). reflexivity.
    - intros HV c. rewrite Ht2, T1, (Htg HV c). destruct (memb c add) eqn:Ea; [reflexivity|].
      rewrite (Hm c), Ea, orb_false_r. rewrite (r2c_tgt_at s e otid r ot Hloc Hot c), Hlive.
      destruct (memb c rem); [rewrite andb_false_r; reflexivity|]. rewrite andb_true_r.
      destruct (mk_get (a_mask oa) c) eqn:Eo; [reflexivity|].
      destruct (r2a_tbl_target r2_none s otid ot oa HW HR Hot Hoa) as (_ & _ & T3 & _). symmetry. apply T3. exact Eo. }
  split.
  { (* other *)
    intros e Hlive Hnot. destruct (Ot e Hlive Hnot) as (L1 & Hl1 & V1 & T1).
    destruct (sb2_live_elim _ _ Hlive) as (tid & r & t & L0 & T0 & R0 & E0).
    assert (Hn : tid <> otid) by (intros ->; apply (Hnot r); exact L0).
    split; [rewrite Hl2; exact L1|]. split; [rewrite Hloc2; exact Hl1|]. split; [|intros c; rewrite Ht2; apply T1].
    intros c. rewrite Hv2, <- V1.
    destruct (Nat.eq_dec tid ntid) as [->|Hn2].
    - assert (Hl1' : loc s1 e = Some (ntid, r)) by (rewrite Hl1; exact L0).
      rewrite (Hvin e r Hl1' L1 c).
      destruct (sb2_live_at _ _ _ _ _ Hl1' Tab_n) as (_ & Hva). unfold val. rewrite L1, Hva.
      destruct (tbl_colidx nt' c) as [ci|]; [|reflexivity].
      rewrite Hd1; [reflexivity|]. intros Hin. apply in_seq in Hin.
      rewrite Hnt in T0. injection T0 as <-. lia.
    - apply Hvout. intros r' Hr'. rewrite Hl1, L0 in Hr'. congruence. }
  exists (map (row_ent ot) (seq 0 (t_len ot))). split.
  { change (w_log s2) with (w_log s1 ++ L). destruct SS as (_ & -> & _). f_equal. unfold L.
    rewrite (bo_seq_add (t_len ot) (t_len nt)), !map_map. apply map_ext_in.
    intros i Hi. apply in_seq in Hi. rewrite Newn by lia. reflexivity. }
  split.
  { apply sa_NoDup_map_inj; [|apply seq_NoDup].
    intros i j Hi Hj E. apply in_seq in Hi. apply in_seq in Hj.
    assert (E' : fst (row_ent ot i) = fst (row_ent ot j)) by (rewrite E; reflexivity).
    apply (sb2_row_inj s otid ot i otid ot j HW Hot) in E'; [tauto|lia|exact Hot|lia]. }
  intros e. rewrite in_map_iff. split.
  - intros (i & Ei & Hi). apply in_seq in Hi.
    destruct (wf_rows _ HW _ _ _ Hot (proj2 Hi)) as (A & _). rewrite Ei in A.
    split; [eapply sb2_live_intro; eauto; lia|eauto].
  - intros (Hlive & r & Hloc).
    destruct (sb2_live_elim _ _ Hlive) as (tid0 & r0 & t0 & L0 & T0 & R0 & E0).
    rewrite Hloc in L0. inversion L0; subst tid0 r0. rewrite Hot in T0. inversion T0; subst t0.
    exists r. split; [exact E0|apply in_seq; lia].
Qed.

(** ** All batches (after [bo_move_loop], with the relation targets) *)

Lemma r2x_move_ok : forall (V : Prop) add rem (rels : list rel) vals bs s, r2x_Q s -> (add <> [] \/ rem <> []) ->
  Forall (r2x_batch_ok V s add rem rels) bs -> registered s add ->
  (forall r, In r rels -> fst (snd r) < length (w_istarget s)) -> (forall cv, In cv vals -> In (fst cv) add) ->
  exists s' mv, mapM bs (r2x_mbody rels vals) s = Ok mv s' /\
    (forall e, live s e = true -> bo_in_tabs s (map bo_src bs) e ->
       live s' e = true /\ (forall c, val s' e c = bo_newval s add rem vals e c) /\
       (V -> forall c, tgt s' e c = if memb c add then Some (r2a_new_target rels c)
                                    else if memb c rem then None else tgt s e c)) /\
    (forall e, live s e = true -> ~ bo_in_tabs s (map bo_src bs) e ->
       live s' e = true /\ (forall c, val s' e c = val s e c) /\ (forall c, tgt s' e c = tgt s e c)) /\
    (exists es, w_log s' = w_log s ++ map b_entry es /\ NoDup es /\
       forall e, In e es <-> (live s e = true /\ bo_in_tabs s (map bo_src bs) e)).
Proof.
  intros V add rem rels vals bs. induction bs as [|b rest IH]; intros s HQ Hnn HF Hreg Hrange Hvals.
  - exists s, []. split; [reflexivity|].
    split; [intros e _ (tid & r & [] & _)|]. split; [intros e Hl _; split; [exact Hl|split; reflexivity]|].
    exists []. split; [cbn; rewrite app_nil_r; reflexivity|]. split; [constructor|].
    intros e. split; [intros []|intros (_ & tid & r & [] & _)].
  - inversion HF as [|? ? Hb HF']; subst.
    destruct (r2x_step_ok V s add rem rels vals b HQ Hnn Hb Hreg Hrange Hvals) as
      (s2 & r & Hrun & Mv2 & Ot2 & (es1 & Lg2 & ND1 & In1)).
    pose proof (r2x_step_any V s add rem rels vals b HQ Hnn Hb Hrange) as HA. rewrite Hrun in HA. cbn [state_of] in HA.
    destruct HA as (HQ2 & K2 & Sd2 & Fr2 & Pl2 & Il2 & Lv2).
    assert (Dd2 : forall e, live s e = false -> live s2 e = false) by (intros e Hd; rewrite Lv2; exact Hd).
    assert (HF2 : Forall (r2x_batch_ok V s2 add rem rels) rest).
    { eapply Forall_impl; [|exact HF']. intros b' Hb'. eapply r2x_batch_ok_tk; eauto. }
    assert (Ereg : w_reg s2 = w_reg s) by apply Fr2.
    assert (Hreg2 : registered s2 add) by (intros c Hc; rewrite Ereg; apply Hreg; exact Hc).
    destruct (IH s2 HQ2 Hnn HF2 Hreg2) as (s' & mv & Hrun' & Mv' & Ot' & (es2 & Lg' & ND2 & In2)).
    { intros r0 Hr0. rewrite Il2. apply Hrange. exact Hr0. }
    { exact Hvals. }
    pose proof (r2x_move_any V add rem rels vals rest s2 HQ2 Hnn HF2 (fun r0 Hr0 => eq_ind_r (fun n => fst (snd r0) < n) (Hrange r0 Hr0) Il2)) as HA'.
    rewrite Hrun' in HA'. cbn [state_of] in HA'. destruct HA' as (_ & _ & _ & _ & Lv').
    assert (Dd' : forall e, live s2 e = false -> live s' e = false) by (intros e Hd; rewrite Lv'; exact Hd).
    assert (Hds : forall b', In b' rest -> bo_dst b <> bo_src b').
    { intros b' Hb'. apply (bo_dst_not_src s add rem b b' Hnn (r2x_batch_ok_bo V s add rem rels b Hb)).
      rewrite Forall_forall in HF'. apply (r2x_batch_ok_bo V s add rem rels b'). apply HF'. exact Hb'. }
    assert (Hnot2 : forall e r', loc s2 e = Some (bo_dst b, r') -> ~ bo_in_tabs s2 (map bo_src rest) e).
    { intros e r' Hl (tid & r0 & Hin & Hl0). rewrite Hl in Hl0. inversion Hl0; subst tid r0.
      apply in_map_iff in Hin. destruct Hin as (b' & E & Hb'). apply (Hds b' Hb'). congruence. }
    assert (Hhead : forall e r0, live s e = true -> loc s e = Some (bo_src b, r0) ->
              live s' e = true /\ (forall c, val s' e c = bo_newval s add rem vals e c) /\
              (V -> forall c, tgt s' e c = if memb c add then Some (r2a_new_target rels c)
                                           else if memb c rem then None else tgt s e c)).
    { intros e r0 Hl Hloc. destruct (Mv2 e r0 Hl Hloc) as (L2 & (r' & Hl2) & V2 & T2).
      destruct (Ot' e L2 (Hnot2 e r' Hl2)) as (L' & V' & T'). split; [exact L'|]. split.
      - intros c. rewrite V'. apply V2.
      - intros HV c. rewrite T'. apply (T2 HV). }
    assert (Htail : forall e, live s e = true -> (forall r0, loc s e <> Some (bo_src b, r0)) ->
              live s2 e = true /\ loc s2 e = loc s e /\ (forall c, val s2 e c = val s e c) /\ (forall c, tgt s2 e c = tgt s e c)) by exact Ot2.
    exists s', (r :: mv). split.
    { cbn [mapM]. rewrite (bo_bind_ok Hrun), (bo_bind_ok Hrun'). reflexivity. }
    split.
    { intros e Hl (tid & r0 & Hin & Hloc). cbn [map] in Hin.
      destruct (Nat.eq_dec tid (bo_src b)) as [->|Hnt].
      - eapply Hhead; eauto.
      - destruct Hin as [Hin|Hin]; [congruence|].
        destruct (Htail e Hl) as (L2 & Hl2 & V2 & T2).
        { intros r1 Hr1. rewrite Hloc in Hr1. congruence. }
        destruct (Mv' e L2) as (L' & V' & T').
        { exists tid, r0. split; [exact Hin|]. rewrite Hl2. exact Hloc. }
        split; [exact L'|]. split.
        + intros c. rewrite V'. apply bo_newval_ext; [exact Ereg|apply V2].
        + intros HV c. rewrite (T' HV c), T2. reflexivity. }
    split.
    { intros e Hl Hnot.
      destruct (Htail e Hl) as (L2 & Hl2 & V2 & T2).
      { intros r1 Hr1. apply Hnot. exists (bo_src b), r1. split; [left; reflexivity|exact Hr1]. }
      destruct (Ot' e L2) as (L' & V' & T').
      { intros (tid & r0 & Hin & Hloc). apply Hnot. exists tid, r0. split; [right; exact Hin|]. rewrite <- Hl2. exact Hloc. }
      split; [exact L'|]. split; [intros c; rewrite V'; apply V2|intros c; rewrite T'; apply T2]. }
    exists (es1 ++ es2). split; [rewrite Lg', Lg2, map_app, app_assoc; reflexivity|].
    assert (Hes2 : forall e, In e es2 -> live s e = true /\ (forall r0, loc s e <> Some (bo_src b, r0)) /\
                               bo_in_tabs s (map bo_src rest) e).
    { intros e He. apply In2 in He. destruct He as (L2 & tid & r0 & Hin & Hloc).
      destruct (live s e) eqn:Hl; [|rewrite (Dd2 e Hl) in L2; discriminate].
      assert (Hn : forall r1, loc s e <> Some (bo_src b, r1)).
      { intros r1 Hr1. destruct (Mv2 e r1 Hl Hr1) as (_ & (r' & Hl2) & _).
        apply (Hnot2 e r' Hl2). exists tid, r0. auto. }
      split; [reflexivity|]. split; [exact Hn|].
      destruct (Htail e Hl Hn) as (_ & Hl2 & _). exists tid, r0. split; [exact Hin|]. rewrite <- Hl2. exact Hloc. }
    split.
    { apply bo_NoDup_app; [exact ND1|exact ND2|].
      intros e H1 H2. apply In1 in H1. destruct H1 as (_ & r0 & Hloc).
      destruct (Hes2 e H2) as (_ & Hn & _). apply (Hn r0 Hloc). }
    intros e. rewrite in_app_iff. split.
    + intros [H1|H2].
      * apply In1 in H1. destruct H1 as (Hl & r0 & Hloc). split; [exact Hl|].
        exists (bo_src b), r0. split; [left; reflexivity|exact Hloc].
      * destruct (Hes2 e H2) as (Hl & _ & (tid & r0 & Hin & Hloc)). split; [exact Hl|].
        exists tid, r0. split; [right; exact Hin|exact Hloc].
    + intros (Hl & tid & r0 & Hin & Hloc). cbn [map] in Hin.
      destruct (Nat.eq_dec tid (bo_src b)) as [->|Hnt].
      * left. apply In1. split; [exact Hl|eauto].
      * destruct Hin as [Hin|Hin]; [congruence|]. right. apply In2.
        destruct (Htail e Hl) as (L2 & Hl2 & _).
        { intros r1 Hr1. rewrite Hloc in Hr1. congruence. }
        split; [exact L2|]. exists tid, r0. split; [exact Hin|]. rewrite Hl2. exact Hloc.
Qed.

(** ** ExchangeBatch as a whole *)

Lemma r2x_args_of_ok : forall s add rels, WF s -> registered s add -> r2a_rels_ok s add rels -> r2x_args s add rels.
Proof.
  intros s add rels HW Hreg (R1 & R2 & R3). split; [exact Hreg|]. intros r Hr. split.
  - destruct (R3 r Hr) as [Hz|Hl]; [left; exact Hz|right; left; exact Hl].
  - apply (r2a_targets_in_range s rels _ HW eq_refl R3 r Hr).
Qed.

(** ExchangeBatch (AddBatch: [rem = []], RemoveBatch: [add = []]) over the tables [tabs] the filter selects
    (hypothesis [Hgbt]; what is used about [tabs]: they are valid ids of ACTIVE tables, [Hact]), on an unlocked
    relation world without observers and with a free lock bit; valid relation arguments ([r2a_rels_ok]: each
    named once, only relation components among [add], targets zero or stored); the callback stores [vals]
    (values for added components only).
    - The call succeeds exactly when every NON-EMPTY selected table is ready ([r2x_ready]: it has all of [rem],
      none of [add], [add] / [rem] duplicate-free, every relation component among [add] gets a target). Then
      it is the per-entity operation [w_exchange e add rem rels] (cf. [r2a_exchange_spec]) on exactly the entities
      of the selected tables: components and values ([bo_newval]: callback value for added components, untouched
      ones keep theirs), relation targets (new ones from [rels], surviving old ones kept, removed ones gone);
      everybody else keeps components, values and targets; the log grows by one entry per moved entity (each
      entity once); invariant kept, world unlocked.
    - Otherwise it fails in phase A before anything is moved: no entity's components, values or targets change
      (archetypes / tables may have been created), invariant kept, world unlocked, log untouched. *)
Theorem r2x_exchange_batch_spec : forall s fi brels tabs add rem (rels : list rel) vals,
  St2 s -> r2d_KeysLive s -> r2e_noobs s -> is_locked s = false -> lock_lock (w_lock s) <> None ->
  (add <> [] \/ rem <> []) -> registered s add -> r2a_rels_ok s add rels ->
  (forall cv, In cv vals -> In (fst cv) add) ->
  get_batch_tables fi brels s = Ok tabs s ->
  (forall tid, In tid tabs -> exists t, nth_error (w_tables s) tid = Some t /\ t_free t = false) ->
  match w_exchange_batch fi brels add rem rels vals s with
  | Ok _ s' =>
      (forall tid t oa, In tid tabs -> nth_error (w_tables s) tid = Some t -> t_len t <> 0 ->
         nth_error (w_archs s) (t_arch t) = Some oa -> r2x_ready s add rem rels (a_mask oa)) /\
      St2 s' /\ r2d_KeysLive s' /\ r2e_noobs s' /\ is_locked s' = false /\
      (forall e, live s e = true -> bo_in_tabs s tabs e ->
         live s' e = true /\ (forall c, val s' e c = bo_newval s add rem vals e c) /\
         (forall c, tgt s' e c = if memb c add then Some (r2a_new_target rels c)
                                 else if memb c rem then None else tgt s e c)) /\
      (forall e, live s e = true -> ~ bo_in_tabs s tabs e ->
         live s' e = true /\ (forall c, val s' e c = val s e c) /\ (forall c, tgt s' e c = tgt s e c)) /\
      (forall e, live s e = false -> live s' e = false) /\
      (exists es, w_log s' = w_log s ++ map b_entry es /\ NoDup es /\
         forall e, In e es <-> (live s e = true /\ bo_in_tabs s tabs e)) /\
      w_pool s' = w_pool s /\ frame_user s s'
  | Err _ s' =>
      (exists tid t oa, In tid tabs /\ nth_error (w_tables s) tid = Some t /\ t_len t <> 0 /\
         nth_error (w_archs s) (t_arch t) = Some oa /\ ~ r2x_ready s add rem rels (a_mask oa)) /\
      St2 s' /\ r2d_KeysLive s' /\ r2e_noobs s' /\ is_locked s' = false /\
      content_same s s' /\ r2c_tgt_same s s' /\ w_log s' = w_log s /\ w_pool s' = w_pool s /\ frame_user s s'
  end.
Proof.
  intros s fi brels tabs add rem rels vals HS HK HN Hunl Hlock Hnn Hreg Hok Hvals Hgbt Hact.
  pose proof HS as HS0. apply St2_St2G in HS0. destruct HS0 as (HW & HR & _ & _).
  pose proof (r2x_args_of_ok s add rels HW Hreg Hok) as Hargs.
  pose proof (r2x_exchange_batch_inv_V True s fi brels add rem rels vals HS HK HN Hunl Hargs (fun _ => Hok)) as HI.
  assert (HQ : r2x_Q s) by (split; [exact HS|split; assumption]).
  destruct (lock_lock (w_lock s)) as [[lb l']|] eqn:LL; [|congruence]. clear Hlock.
  pose proof (bo_lock_cycle s lb l' Hunl LL) as LU.
  set (l'' := {| lk_pool := ipool_recycle (lk_pool l') lb; lk_mask := 0%N |}) in *.
  set (s0 := s <| w_lock := l' |>).
  assert (SS0 : storage_same s s0) by (unfold storage_same; repeat split).
  pose proof (r2x_Q_lock s l' HQ) as HQ0. fold s0 in HQ0.
  assert (Hargs0 : r2x_args s0 add rels) by (apply (r2x_args_frame s s0 add rels); try reflexivity; exact Hargs).
  assert (Hgbt0 : get_batch_tables fi brels s0 = Ok tabs s0) by (apply (bo_gbt_frame fi brels s s0 tabs SS0 Hgbt)).
  pose proof (r2x_collect True add rem rels tabs s0 [] false HQ0 Hargs0 (fun _ => Hok)) as HC.
  revert HI. rewrite r2x_exchange_batch_eq.
  rewrite (bo_bind_ok (sb1_check_locked_ok s Hunl)).
  assert (Hg : negb (is_nil add && is_nil rem) = true).
  { destruct add; [|reflexivity]. destruct rem; [|reflexivity]. destruct Hnn; congruence. }
  rewrite Hg. cbn [guard]. rewrite (bo_bind_ok (m := ret tt) (s := s) eq_refl).
  rewrite (bo_bind_ok (v_lockM_ok s lb l' LL)). fold s0.
  pose proof HQ0 as (HS0' & _ & _). pose proof HS0' as HS0g. apply St2_St2G in HS0g. destruct HS0g as (HW0 & HR0 & _ & _).
  destruct (bo_collect add rem rels tabs [] false s0) as [[bs' rr'] s1|er s1] eqn:EC.
  - destruct HC as (bs & -> & HQ1 & K1 & FA & I1 & I2 & I3). cbn [app] in EC.
    pose proof HQ1 as (HS1 & HK1 & HN1).
    pose proof (r2x_args_keeps s0 s1 add rels HS0' HS1 K1 Hargs0) as (Hreg1 & Hrels1).
    destruct (r2x_move_ok True add rem rels vals bs s1 HQ1 Hnn FA Hreg1 (fun r Hr => proj2 (Hrels1 r Hr)) Hvals)
      as (s2 & mv & Hrun & Mv & Ot & (es & Lg & ND & Ines)).
    pose proof (r2x_move_any True add rem rels vals bs s1 HQ1 Hnn FA (fun r Hr => proj2 (Hrels1 r Hr))) as HA.
    rewrite Hrun in HA. cbn [state_of] in HA. destruct HA as (HQ2 & Sd2 & Fr2 & Pl2 & Lv2).
    pose proof HQ2 as (_ & _ & HN2).
    assert (Hbody : r2x_xbody fi brels add rem rels vals s0 = Ok tt s2).
    { unfold r2x_xbody. rewrite (bo_bind_ok Hgbt0), (bo_bind_ok EC). cbv beta iota.
      rewrite (bo_bind_ok (r2x_pre_events_skip rem bs rr' s1 HN1)). rewrite (bo_bind_ok Hrun).
      exact (r2x_post_events_skip add rels mv s2 HN2). }
    rewrite (bo_bind_ok (bo_deferred_ok _ lb _ _ _ _ Hbody)).
    pose proof K1 as (KI & KP & _ & _ & (KS1 & KS2 & _) & KF).
    assert (Elock2 : w_lock s2 = l') by (destruct Sd2 as (-> & _); rewrite KS1; reflexivity).
    assert (LU2 : lock_unlock (w_lock s2) lb = Some l'') by (rewrite Elock2; exact LU).
    rewrite (v_unlockM_ok s2 lb l'' LU2). cbn [state_of].
    set (s3 := s2 <| w_lock := l'' |>).
    intros (HS3 & HK3 & HN3 & Hunl3 & Fr3 & Pl3 & Lv3).
    destruct (r2a_keeps_obs r2_none s0 s1 HW0 HR0 K1) as (C01 & T01).
    assert (Hl1 : forall e, live s1 e = live s e) by (intros e; apply (C01 e)).
    assert (Hv1 : forall e c, val s1 e c = val s e c) by (intros e c; apply (C01 e)).
    assert (Ht1 : forall e c, tgt s1 e c = tgt s e c) by (intros e c; apply (T01 e c)).
    assert (Hloc1 : forall e, loc s1 e = loc s e) by (intros e; apply sa_loc_ext; exact KI).
    assert (Hsrc : forall e, live s e = true -> (bo_in_tabs s1 (map bo_src bs) e <-> bo_in_tabs s tabs e)).
    { intros e Hl. split.
      - intros (tid & r & Hin & Hloc). exists tid, r. rewrite <- Hloc1. split; [|exact Hloc].
        apply in_map_iff in Hin. destruct Hin as (b & <- & Hb). apply I1. exact Hb.
      - intros (tid & r & Hin & Hloc). exists tid, r. rewrite Hloc1. split; [|exact Hloc].
        destruct (sb2_live_elim _ _ Hl) as (tid0 & r0 & t0 & L0 & T0 & R0 & E0).
        rewrite Hloc in L0. inversion L0; subst tid0 r0.
        apply (I2 tid t0 Hin T0). lia. }
    split.
    { intros tid t oa Hin Ht Hlen Hoa. exact (I3 I tid t oa Hin Ht Hlen Hoa). }
    split; [exact HS3|]. split; [exact HK3|]. split; [exact HN3|]. split; [exact Hunl3|].
    split.
    { intros e Hl Hin. pose proof Hl as Hl'. rewrite <- Hl1 in Hl'. destruct (Mv e Hl') as (L' & V' & T').
      { apply Hsrc; assumption. }
      split; [exact L'|]. split.
      - intros c. change (val s3 e c) with (val s2 e c). rewrite V'.
        apply bo_newval_ext; [destruct KF as (-> & _); reflexivity|apply Hv1].
      - intros c. change (tgt s3 e c) with (tgt s2 e c). rewrite (T' I c), Ht1. reflexivity. }
    split.
    { intros e Hl Hnot. pose proof Hl as Hl'. rewrite <- Hl1 in Hl'. destruct (Ot e Hl') as (L' & V' & T').
      { intros Hin. apply Hnot. apply Hsrc; assumption. }
      split; [exact L'|]. split.
      - intros c. change (val s3 e c) with (val s2 e c). rewrite V'. apply Hv1.
      - intros c. change (tgt s3 e c) with (tgt s2 e c). rewrite T'. apply Ht1. }
    split; [intros e Hd; rewrite Lv3; exact Hd|].
    split.
    { exists es. split; [change (w_log s3) with (w_log s2); rewrite Lg, KS2; reflexivity|].
      split; [exact ND|]. intros e. rewrite Ines, Hl1. split; intros (Hl & Hin); (split; [exact Hl|]); apply (Hsrc e Hl); exact Hin. }
    split; [exact Pl3|exact Fr3].
  - destruct HC as (HQ1 & K1 & I3).
    assert (Hbody : r2x_xbody fi brels add rem rels vals s0 = Err er s1).
    { unfold r2x_xbody. rewrite (bo_bind_ok Hgbt0). exact (bo_bind_err EC). }
    rewrite (bo_bind_err (bo_deferred_err _ lb _ _ _ _ Hbody)). cbn [state_of].
    pose proof K1 as (KI & KP & _ & _ & (KS1 & KS2 & _) & KF).
    assert (Erel : release_bit lb s1 = s1 <| w_lock := l'' |>).
    { unfold release_bit. rewrite KS1. change (w_lock s0) with l'. rewrite LU. reflexivity. }
    rewrite Erel. set (s1' := s1 <| w_lock := l'' |>).
    intros (HS3 & HK3 & HN3 & Hunl3 & Fr3 & Pl3 & Lv3).
    destruct (r2a_keeps_obs r2_none s0 s1 HW0 HR0 K1) as (C01 & T01).
    split.
    { destruct (I3 I Hact) as (tid & t & oa & J1 & J2 & J3 & J4 & J5). exists tid, t, oa. repeat (split; [assumption|]). exact J5. }
    split; [exact HS3|]. split; [exact HK3|]. split; [exact HN3|]. split; [exact Hunl3|].
    split; [intros e; exact (C01 e)|]. split; [intros e c; exact (T01 e c)|].
    split; [change (w_log s1') with (w_log s1); rewrite KS2; reflexivity|]. split; [exact Pl3|exact Fr3].
Qed.

(** Valid calls succeed: if every non-empty selected table is ready, the call returns normally. *)
Corollary r2x_exchange_batch_ok : forall s fi brels tabs add rem (rels : list rel) vals,
  St2 s -> r2d_KeysLive s -> r2e_noobs s -> is_locked s = false -> lock_lock (w_lock s) <> None ->
  (add <> [] \/ rem <> []) -> registered s add -> r2a_rels_ok s add rels ->
  (forall cv, In cv vals -> In (fst cv) add) ->
  get_batch_tables fi brels s = Ok tabs s ->
  (forall tid, In tid tabs -> exists t, nth_error (w_tables s) tid = Some t /\ t_free t = false) ->
  (forall tid t oa, In tid tabs -> nth_error (w_tables s) tid = Some t -> t_len t <> 0 ->
     nth_error (w_archs s) (t_arch t) = Some oa -> r2x_ready s add rem rels (a_mask oa)) ->
  exists u s', w_exchange_batch fi brels add rem rels vals s = Ok u s'.
Proof.
  intros s fi brels tabs add rem rels vals HS HK HN Hunl Hlock Hnn Hreg Hok Hvals Hgbt Hact Hready.
  pose proof (r2x_exchange_batch_spec s fi brels tabs add rem rels vals HS HK HN Hunl Hlock Hnn Hreg Hok Hvals Hgbt Hact) as H.
  destruct (w_exchange_batch fi brels add rem rels vals s) as [u s'|er s']; [exists u, s'; reflexivity|].
  exfalso. destruct H as ((tid & t & oa & J1 & J2 & J3 & J4 & J5) & _). apply J5. apply (Hready tid t oa J1 J2 J3 J4).
Qed.

(** ** The aliasing question: may a destination table itself be a selected table?

    Phase A computes ALL destinations before anything moves, and phase B re-reads the length of each source
    when its turn comes; so a destination that were also a later source would have the rows it received moved
    a second time. This cannot happen: the destination's archetype has all of [add] and none of [rem], so a
    NON-EMPTY selected table of that archetype is not ready and makes phase A fail before anything moves
    ([r2x_alias_selected_dst_fails] below); an EMPTY selected table is skipped as a source and may well be
    a destination ([r2x_alias_empty_dst_ok]). Hence no row is moved twice and none is lost. As a lemma about
    the batches of phase A (from [bo_dst_not_src]): *)
Lemma r2x_dst_not_src : forall (V : Prop) s add rem rels bs, (add <> [] \/ rem <> []) ->
  Forall (r2x_batch_ok V s add rem rels) bs ->
  forall b b', In b bs -> In b' bs -> bo_dst b <> bo_src b'.
Proof.
  intros V s add rem rels bs Hnn HF b b' Hb Hb'. rewrite Forall_forall in HF.
  apply (bo_dst_not_src s add rem b b' Hnn); apply (r2x_batch_ok_bo V s add rem rels); apply HF; assumption.
Qed.

(** ** What [get_batch_tables] selects for an unregistered filter: active tables, each once *)
Lemma r2x_selected_uncached : forall s fi f brels tabs, St2 s -> nth_error (w_filters s) fi = Some f -> f_cache f = None ->
  Rel2Cache.r2k_rels_ok s (f_mask f) brels -> get_batch_tables fi brels s = Ok tabs s ->
  NoDup tabs /\ (forall tid, In tid tabs <-> Rel2Cache.r2k_sel s f brels tid) /\
  (forall tid, In tid tabs -> exists t, nth_error (w_tables s) tid = Some t /\ t_free t = false).
Proof.
  intros s fi f brels tabs HS Hf Hc Hok Hg.
  assert (Eg : get_batch_tables fi brels s = uncached_tables f brels s).
  { unfold get_batch_tables, getF. unfold bind at 1. unfold bind at 1. unfold get at 1. cbv beta iota. rewrite Hf.
    cbn [of_opt]. unfold ret at 1. cbv beta iota. rewrite Hc. reflexivity. }
  rewrite Eg in Hg. pose proof (Rel2Cache.r2k_uncached_spec s f brels HS Hok) as H. rewrite Hg in H.
  destruct H as (_ & ND & Hsel). split; [exact ND|]. split; [exact Hsel|].
  intros tid Hin. apply Hsel in Hin. destruct Hin as (t & a & Ht & Hfr & _). exists t. split; assumption.
Qed.

(** The statement through the filter, for an unregistered filter whose relation-free archetypes have their
    table ([r2k_tabled]; otherwise the selection itself panics): the selection succeeds, selects each matching
    active table once, and [r2x_exchange_batch_spec] applies to it. *)
Corollary r2x_exchange_batch_by_filter : forall s fi f brels add rem (rels : list rel) vals,
  St2 s -> r2d_KeysLive s -> r2e_noobs s -> is_locked s = false -> lock_lock (w_lock s) <> None ->
  (add <> [] \/ rem <> []) -> registered s add -> r2a_rels_ok s add rels ->
  (forall cv, In cv vals -> In (fst cv) add) ->
  nth_error (w_filters s) fi = Some f -> f_cache f = None ->
  Rel2Cache.r2k_rels_ok s (f_mask f) brels -> Rel2Cache.r2k_tabled s f ->
  exists tabs, get_batch_tables fi brels s = Ok tabs s /\ NoDup tabs /\
    (forall tid, In tid tabs <-> Rel2Cache.r2k_sel s f brels tid) /\
    match w_exchange_batch fi brels add rem rels vals s with
    | Ok _ s' =>
        St2 s' /\ r2d_KeysLive s' /\ r2e_noobs s' /\ is_locked s' = false /\
        (forall e, live s e = true -> bo_in_tabs s tabs e ->
           live s' e = true /\ (forall c, val s' e c = bo_newval s add rem vals e c) /\
           (forall c, tgt s' e c = if memb c add then Some (r2a_new_target rels c)
                                   else if memb c rem then None else tgt s e c)) /\
        (forall e, live s e = true -> ~ bo_in_tabs s tabs e ->
           live s' e = true /\ (forall c, val s' e c = val s e c) /\ (forall c, tgt s' e c = tgt s e c)) /\
        (forall e, live s e = false -> live s' e = false)
    | Err _ s' =>
        (exists tid t oa, In tid tabs /\ nth_error (w_tables s) tid = Some t /\ t_len t <> 0 /\
           nth_error (w_archs s) (t_arch t) = Some oa /\ ~ r2x_ready s add rem rels (a_mask oa)) /\
        St2 s' /\ r2d_KeysLive s' /\ r2e_noobs s' /\ is_locked s' = false /\ content_same s s' /\ r2c_tgt_same s s'
    end.
Proof.
  intros s fi f brels add rem rels vals HS HK HN Hunl Hlock Hnn Hreg Hok Hvals Hf Hc Hbr Htab.
  destruct (Rel2Cache.r2k_uncached_ok s f brels HS Hbr Htab) as (tabs & Hu).
  assert (Hgbt : get_batch_tables fi brels s = Ok tabs s).
  { unfold get_batch_tables, getF. unfold bind at 1. unfold bind at 1. unfold get at 1. cbv beta iota. rewrite Hf.
    cbn [of_opt]. unfold ret at 1. cbv beta iota. rewrite Hc. exact Hu. }
  destruct (r2x_selected_uncached s fi f brels tabs HS Hf Hc Hbr Hgbt) as (ND & Hsel & Hact).
  exists tabs. split; [exact Hgbt|]. split; [exact ND|]. split; [exact Hsel|].
  pose proof (r2x_exchange_batch_spec s fi brels tabs add rem rels vals HS HK HN Hunl Hlock Hnn Hreg Hok Hvals Hgbt Hact) as H.
  destruct (w_exchange_batch fi brels add rem rels vals s) as [u s'|er s'].
  - destruct H as (_ & A1 & A2 & A3 & A4 & A5 & A6 & A7 & _). repeat (split; [assumption|]). exact A7.
  - destruct H as (B0 & B1 & B2 & B3 & B4 & B5 & B6 & _). repeat (split; [assumption|]). exact B6.
Qed.

(* ================================================================================================ *)
(** * Part 5: the theorems are not vacuous; concrete runs

    Component ids of [Rel2Check.r2_cfg]: 0,1,2 plain; 3,4 relation components. *)

(** ** A world for [r2x_exchange_table_spec]: parent (2,0); child (3,0) with components {0,3} in table 1,
    child (4,0) with components {0,1,3} in table 2, both with target (2,0) *)
Definition r2x_ex_w2 : W := Properties.Common.exec Rel2Check.r2_cfg [[0]; [2; 2;0;3; 1; 3;0]; [2; 3;0;1;3; 1; 3;0]]%Z.

Definition r2x_dummy_table : table :=
  {| t_arch := 0; t_ids := []; t_kinds := []; t_len := 0; t_cap := 0; t_free := true; t_ents := []; t_cols := [];
     t_targets := []; t_rels := [] |}.
Definition r2x_dummy_arch : arch :=
  {| a_mask := 0%N; a_comps := []; a_isrel := []; a_tables := []; a_free := []; a_reltabs := []; a_tgttabs := []; a_numrel := 0 |}.

Lemma r2x_ex_w2_St2 : St2 r2x_ex_w2.
Proof. apply st2_b_sound. vm_compute. reflexivity. Qed.

Example r2x_exchange_table_by_theorem : exists s',
  exchange_table 1 2 [] r2x_ex_w2 = Ok (1, 1) s' /\ St2 s' /\
  live s' (3, 0%N) = true /\ loc s' (3, 0%N) = Some (2, 1) /\
  val s' (3, 0%N) 0 = Some 0%Z /\ val s' (3, 0%N) 1 = Some 0%Z /\ val s' (3, 0%N) 2 = None /\
  tgt s' (3, 0%N) 3 = Some (2, 0%N) /\
  live s' (4, 0%N) = true /\ tgt s' (4, 0%N) 3 = Some (2, 0%N) /\ val s' (4, 0%N) 1 = Some 0%Z.
Proof.
  set (ot := nth 1 (w_tables r2x_ex_w2) r2x_dummy_table). set (nt := nth 2 (w_tables r2x_ex_w2) r2x_dummy_table).
  set (oa := nth 1 (w_archs r2x_ex_w2) r2x_dummy_arch). set (na := nth 2 (w_archs r2x_ex_w2) r2x_dummy_arch).
  assert (Hot : nth_error (w_tables r2x_ex_w2) 1 = Some ot) by (vm_compute; reflexivity).
  assert (Hnt : nth_error (w_tables r2x_ex_w2) 2 = Some nt) by (vm_compute; reflexivity).
  assert (Hoa : nth_error (w_archs r2x_ex_w2) (t_arch ot) = Some oa) by (vm_compute; reflexivity).
  assert (Hna : nth_error (w_archs r2x_ex_w2) (t_arch nt) = Some na) by (vm_compute; reflexivity).
  assert (Hfn : t_free nt = false) by (vm_compute; reflexivity).
  assert (Hne : 1 <> 2) by discriminate.
  destruct (r2x_exchange_table_spec r2_none r2x_ex_w2 1 2 ot nt oa na [] (proj1 (St2_St2G _) r2x_ex_w2_St2) Hne Hot Hnt Hoa Hna Hfn
              (fun r (H : In r []) => match H with end))
    as (s' & Hrun & HS' & Mv & Ot & _).
  assert (L3 : live r2x_ex_w2 (3, 0%N) = true) by (vm_compute; reflexivity).
  assert (Loc3 : loc r2x_ex_w2 (3, 0%N) = Some (1, 0)) by (vm_compute; reflexivity).
  assert (L4 : live r2x_ex_w2 (4, 0%N) = true) by (vm_compute; reflexivity).
  assert (Loc4 : forall r, loc r2x_ex_w2 (4, 0%N) <> Some (1, r)) by (intros r; vm_compute; discriminate).
  destruct (Mv (3, 0%N) 0 L3 Loc3) as (M1 & M2 & M3 & M4).
  destruct (Ot (4, 0%N) L4 Loc4) as (O1 & _ & O3 & O4).
  exists s'. split; [exact Hrun|]. split; [apply (r2x_St2_of_G s' []); exact HS'|].
  split; [exact M2|]. split; [exact M1|].
  split; [rewrite M3; vm_compute; reflexivity|]. split; [rewrite M3; vm_compute; reflexivity|]. split; [rewrite M3; vm_compute; reflexivity|].
  split; [rewrite M4; vm_compute; reflexivity|].
  split; [exact O1|]. split; [rewrite O4; vm_compute; reflexivity|rewrite O3; vm_compute; reflexivity].
Qed.

(** ** A world for the batch theorems: parents (2,0), (3,0); children (4,0), (6,0) of (2,0) in table 1 and
    (5,0) of (3,0) in table 2 (components {0,3}); filter 0 = With(component 0), unregistered *)
Definition r2x_ex_world : W :=
  Properties.Common.exec Rel2Check.r2_cfg
    [[0]; [0]; [2; 2;0;3; 1; 3;0]; [2; 2;0;3; 1; 3;1]; [2; 2;0;3; 1; 3;0]; [15; 0; 1;0; 0; 0; 0]]%Z.

Lemma r2x_ex_St2 : St2 r2x_ex_world.
Proof. apply st2_b_sound. vm_compute. reflexivity. Qed.

Lemma r2x_ex_KeysLive : r2d_KeysLive r2x_ex_world.
Proof. apply r2d_keys_live_b_sound; [exact (proj1 r2x_ex_St2)|vm_compute; reflexivity]. Qed.

Lemma r2x_ex_noobs : r2e_noobs r2x_ex_world.
Proof.
  intros ev. unfold has_obs, get_agg. assert (E : w_oagg r2x_ex_world = []) by (vm_compute; reflexivity). rewrite E. reflexivity.
Qed.

Lemma r2x_ex_hyps :
  is_locked r2x_ex_world = false /\ lock_lock (w_lock r2x_ex_world) <> None /\ length (w_reg r2x_ex_world) = 8 /\
  length (w_istarget r2x_ex_world) = 7 /\ live r2x_ex_world (3, 0%N) = true /\
  is_rel_comp r2x_ex_world 4 = true /\ is_rel_comp r2x_ex_world 1 = false /\
  get_batch_tables 0 [] r2x_ex_world = Ok [1; 2] r2x_ex_world.
Proof. vm_compute. repeat split. discriminate. Qed.

Lemma r2x_ex_args : forall add (rels : list rel), (forall c, In c add -> c < 8) ->
  (forall r, In r rels -> snd r = (3, 0%N)) -> r2x_args r2x_ex_world add rels.
Proof.
  intros add rels Ha Hr. destruct r2x_ex_hyps as (_ & _ & Hreg & Hist & Hl3 & _).
  split; [intros c Hc; rewrite Hreg; apply Ha; exact Hc|].
  intros r Hin. rewrite (Hr r Hin). split; [right; left; exact Hl3|rewrite Hist; cbn; lia].
Qed.

(** [r2x_exchange_batch_inv], outcome 1: a callback panics in phase B ([vals] names component 2, which the
    destination lacks): table 1 has been moved (its first callback is in the log), table 2 has not; the
    theorem gives the invariant and the released lock for the state at the panic. *)
Example r2x_inv_callback_panics :
  (exists s', w_exchange_batch 0 [] [1] [] [] [(2, 5%Z)] r2x_ex_world = Err ENil s' /\
              w_log s' = [[101; 4; 0]]%Z /\ loc s' (4, 0%N) = Some (3, 0) /\ loc s' (5, 0%N) = Some (2, 0)) /\
  St2 (state_of (w_exchange_batch 0 [] [1] [] [] [(2, 5%Z)] r2x_ex_world)) /\
  r2d_KeysLive (state_of (w_exchange_batch 0 [] [1] [] [] [(2, 5%Z)] r2x_ex_world)) /\
  is_locked (state_of (w_exchange_batch 0 [] [1] [] [] [(2, 5%Z)] r2x_ex_world)) = false.
Proof.
  split.
  - destruct (w_exchange_batch 0 [] [1] [] [] [(2, 5%Z)] r2x_ex_world) as [u s'|er s'] eqn:E; vm_compute in E; [discriminate E|].
    injection E as <- <-. eexists. split; [reflexivity|]. vm_compute. repeat split.
  - destruct r2x_ex_hyps as (Hunl & _).
    destruct (r2x_exchange_batch_inv r2x_ex_world 0 [] [1] [] [] [(2, 5%Z)] r2x_ex_St2 r2x_ex_KeysLive r2x_ex_noobs Hunl)
      as (A & B & _ & D & _).
    { apply r2x_ex_args; [intros c [<-|[]]; lia|intros r []]. }
    split; [exact A|]. split; [exact B|exact D].
Qed.

(** [r2x_exchange_batch_inv], outcome 2: phase A fails half-way (relation component 4 is added without a
    target: the archetype {0,3,4} has been created, createTable rejects the list): nothing moved. *)
Example r2x_inv_phaseA_fails :
  (exists er s', w_exchange_batch 0 [] [4] [] [] [] r2x_ex_world = Err er s' /\
                 length (w_archs r2x_ex_world) = 2 /\ length (w_archs s') = 3 /\ w_log s' = [] /\
                 loc s' (4, 0%N) = Some (1, 0)) /\
  St2 (state_of (w_exchange_batch 0 [] [4] [] [] [] r2x_ex_world)) /\
  r2d_KeysLive (state_of (w_exchange_batch 0 [] [4] [] [] [] r2x_ex_world)) /\
  is_locked (state_of (w_exchange_batch 0 [] [4] [] [] [] r2x_ex_world)) = false.
Proof.
  split.
  - destruct (w_exchange_batch 0 [] [4] [] [] [] r2x_ex_world) as [u s'|er s'] eqn:E; vm_compute in E; [discriminate E|].
    injection E as <- <-. eexists. eexists. split; [reflexivity|]. vm_compute. repeat split.
  - destruct r2x_ex_hyps as (Hunl & _).
    destruct (r2x_exchange_batch_inv r2x_ex_world 0 [] [4] [] [] [] r2x_ex_St2 r2x_ex_KeysLive r2x_ex_noobs Hunl)
      as (A & B & _ & D & _).
    { apply r2x_ex_args; [intros c [<-|[]]; lia|intros r []]. }
    split; [exact A|]. split; [exact B|exact D].
Qed.

(** [r2x_exchange_batch_spec] / [r2x_exchange_batch_ok]: the valid call
    ExchangeBatch(filter 0, add [1;4], relation 4 -> (3,0), value 7 for component 1). The conclusions come from
    the theorems: every child gets component 1 = 7, target (3,0) for relation 4, keeps its parent for relation 3. *)
Example r2x_spec_by_theorem : exists u s',
  w_exchange_batch 0 [] [1; 4] [] [(4, (3, 0%N))] [(1, 7%Z)] r2x_ex_world = Ok u s' /\
  St2 s' /\ r2d_KeysLive s' /\ is_locked s' = false /\
  live s' (4, 0%N) = true /\ val s' (4, 0%N) 1 = Some 7%Z /\ val s' (4, 0%N) 0 = Some 0%Z /\
  tgt s' (4, 0%N) 4 = Some (3, 0%N) /\ tgt s' (4, 0%N) 3 = Some (2, 0%N) /\
  tgt s' (5, 0%N) 4 = Some (3, 0%N) /\ tgt s' (5, 0%N) 3 = Some (3, 0%N) /\
  val s' (2, 0%N) 1 = None /\ tgt s' (2, 0%N) 4 = None.
Proof.
  destruct r2x_ex_hyps as (Hunl & Hlock & Hreg & Hist & Hl3 & Hr4 & Hr1 & Hgbt).
  assert (Hnn : [1; 4] <> [] \/ @nil nat <> []) by (left; discriminate).
  assert (Hregd : registered r2x_ex_world [1; 4]) by (intros c [<-|[<-|[]]]; rewrite Hreg; lia).
  assert (Hok : r2a_rels_ok r2x_ex_world [1; 4] [(4, (3, 0%N))]).
  { split; [cbn; constructor; [intros []|constructor]|]. split.
    - intros r [<-|[]]. cbn [fst]. split; [right; left; reflexivity|exact Hr4].
    - intros r [<-|[]]. right. exact Hl3. }
  assert (Hvals : forall cv, In cv [(1, 7%Z)] -> In (fst cv) [1; 4]) by (intros cv [<-|[]]; left; reflexivity).
  assert (Hact : forall tid, In tid [1; 2] -> exists t, nth_error (w_tables r2x_ex_world) tid = Some t /\ t_free t = false).
  { intros tid [<-|[<-|[]]]; eexists; (split; [vm_compute; reflexivity|vm_compute; reflexivity]). }
  assert (Hready : forall tid t oa, In tid [1; 2] -> nth_error (w_tables r2x_ex_world) tid = Some t -> t_len t <> 0 ->
            nth_error (w_archs r2x_ex_world) (t_arch t) = Some oa -> r2x_ready r2x_ex_world [1; 4] [] [(4, (3, 0%N))] (a_mask oa)).
  { assert (Hc : r2a_rels_complete r2x_ex_world [1; 4] [(4, (3, 0%N))]).
    { intros c [<-|[<-|[]]] Hr; [congruence|left; reflexivity]. }
    assert (Hnd : NoDup [1; 4]) by (constructor; [intros [E|[]]; discriminate|constructor; [intros []|constructor]]).
    intros tid t oa [<-|[<-|[]]] Ht _ Hoa; vm_compute in Ht; injection Ht as <-; vm_compute in Hoa; injection Hoa as <-;
      (split; [exact Hnd|]; split; [constructor|]; split; [intros c []|]; split; [|exact Hc]);
      intros c [<-|[<-|[]]]; vm_compute; reflexivity. }
  destruct (r2x_exchange_batch_ok r2x_ex_world 0 [] [1; 2] [1; 4] [] [(4, (3, 0%N))] [(1, 7%Z)]
              r2x_ex_St2 r2x_ex_KeysLive r2x_ex_noobs Hunl Hlock Hnn Hregd Hok Hvals Hgbt Hact Hready) as (u & s' & Hrun).
  pose proof (r2x_exchange_batch_spec r2x_ex_world 0 [] [1; 2] [1; 4] [] [(4, (3, 0%N))] [(1, 7%Z)]
              r2x_ex_St2 r2x_ex_KeysLive r2x_ex_noobs Hunl Hlock Hnn Hregd Hok Hvals Hgbt Hact) as H.
  rewrite Hrun in H. destruct H as (_ & HS' & HK' & _ & Hunl' & Mv & Ot & _).
  assert (L4 : live r2x_ex_world (4, 0%N) = true) by (vm_compute; reflexivity).
  assert (L5 : live r2x_ex_world (5, 0%N) = true) by (vm_compute; reflexivity).
  assert (L2 : live r2x_ex_world (2, 0%N) = true) by (vm_compute; reflexivity).
  assert (I4 : bo_in_tabs r2x_ex_world [1; 2] (4, 0%N)) by (exists 1, 0; split; [left; reflexivity|vm_compute; reflexivity]).
  assert (I5 : bo_in_tabs r2x_ex_world [1; 2] (5, 0%N)) by (exists 2, 0; split; [right; left; reflexivity|vm_compute; reflexivity]).
  assert (N2 : ~ bo_in_tabs r2x_ex_world [1; 2] (2, 0%N)).
  { intros (tid & r & Hin & Hloc). vm_compute in Hloc. injection Hloc as <- _. destruct Hin as [E|[E|[]]]; discriminate E. }
  destruct (Mv _ L4 I4) as (A1 & A2 & A3). destruct (Mv _ L5 I5) as (_ & _ & B3). destruct (Ot _ L2 N2) as (_ & C2 & C3).
  exists u, s'. split; [exact Hrun|]. split; [exact HS'|]. split; [exact HK'|]. split; [exact Hunl'|]. split; [exact A1|].
  split; [rewrite A2; vm_compute; reflexivity|]. split; [rewrite A2; vm_compute; reflexivity|].
  split; [rewrite A3; vm_compute; reflexivity|]. split; [rewrite A3; vm_compute; reflexivity|].
  split; [rewrite B3; vm_compute; reflexivity|]. split; [rewrite B3; vm_compute; reflexivity|].
  split; [rewrite C2; vm_compute; reflexivity|rewrite C3; vm_compute; reflexivity].
Qed.

(** ** The aliasing question on concrete worlds *)

(** parent (2,0); child (3,0) with {0,3} in table 1, child (4,0) with {0,1,3} in table 2; filter With(0)
    selects both tables; adding component 1 would make table 2 the destination of table 1, but table 2 is a
    non-empty selected table and is not ready (it has component 1): the call fails in phase A, nobody moves. *)
Definition r2x_alias_world : W :=
  Properties.Common.exec Rel2Check.r2_cfg [[0]; [2; 2;0;3; 1; 3;0]; [2; 3;0;1;3; 1; 3;0]; [15; 0; 1;0; 0; 0; 0]]%Z.

Example r2x_alias_selected_dst_fails :
  get_batch_tables 0 [] r2x_alias_world = Ok [1; 2] r2x_alias_world /\
  exists s', w_exchange_batch 0 [] [1] [] [] [] r2x_alias_world = Err EHasComp s' /\
             loc s' (3, 0%N) = Some (1, 0) /\ loc s' (4, 0%N) = Some (2, 0) /\ w_log s' = [] /\
             is_locked s' = false /\ st2_b s' = true.
Proof.
  split; [vm_compute; reflexivity|].
  destruct (w_exchange_batch 0 [] [1] [] [] [] r2x_alias_world) as [u s'|er s'] eqn:E; vm_compute in E; [discriminate E|].
  injection E as <- <-. eexists. split; [reflexivity|]. vm_compute. repeat split.
Qed.

(** the same world after (4,0) was removed: table 2 is empty but still selected; it is skipped as a source
    and is the destination of table 1: (3,0) is moved exactly once (one log entry) and ends in table 2. *)
Definition r2x_alias_world2 : W :=
  Properties.Common.exec Rel2Check.r2_cfg [[0]; [2; 2;0;3; 1; 3;0]; [2; 3;0;1;3; 1; 3;0]; [11; 2]; [15; 0; 1;0; 0; 0; 0]]%Z.

Example r2x_alias_empty_dst_ok :
  get_batch_tables 0 [] r2x_alias_world2 = Ok [1; 2] r2x_alias_world2 /\
  exists s', w_exchange_batch 0 [] [1] [] [] [] r2x_alias_world2 = Ok tt s' /\
             loc s' (3, 0%N) = Some (2, 0) /\ w_log s' = [[101; 3; 0]]%Z /\ val s' (3, 0%N) 1 = Some 0%Z /\
             tgt s' (3, 0%N) 3 = Some (2, 0%N) /\ is_locked s' = false /\ st2_b s' = true.
Proof.
  split; [vm_compute; reflexivity|].
  destruct (w_exchange_batch 0 [] [1] [] [] [] r2x_alias_world2) as [u s'|er s'] eqn:E; vm_compute in E; [|discriminate E].
  injection E as <- <-. eexists. split; [reflexivity|]. vm_compute. repeat split.
Qed.

(** ** Assumption audit *)
Definition r2x_all :=
  (r2x_exchange_table_spec, r2x_setcells, r2x_cb_any, r2x_collect, r2x_step_any, r2x_move_any, r2x_exchange_batch_inv_V,
   r2x_exchange_batch_inv, r2x_step_ok, r2x_move_ok, r2x_exchange_batch_spec, r2x_exchange_batch_ok, r2x_dst_not_src,
   r2x_selected_uncached, r2x_exchange_batch_by_filter, r2x_exchange_table_by_theorem, r2x_inv_callback_panics, r2x_inv_phaseA_fails, r2x_spec_by_theorem,
   r2x_alias_selected_dst_fails, r2x_alias_empty_dst_ok).
Print Assumptions r2x_exchange_table_spec.
Print Assumptions r2x_exchange_batch_inv.
Print Assumptions r2x_exchange_batch_spec.
Print Assumptions r2x_all.
