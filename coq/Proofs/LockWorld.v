(** * LockWorld: every structure-changing operation is rejected on a locked world and leaves the
    whole model state untouched (property C07, world level). *)
From Ark Require Import Model.Base Model.Mask Model.Pool Model.Util Model.World Model.Run.
From RecordUpdate Require Import RecordSet.
Import RecordSetNotations.

(** Operations that change the structure of the world (the documented list: creating and removing
    entities, adding/removing/exchanging components, changing relation targets, their batch
    forms, Reset, and Shrink, which frees and reallocates tables). *)
Definition structural (o : op) : bool :=
  match o with
  | ONewEntity | OUNew _ | OUNewRel _ _ | ONewEntities _ _ | OCopy _ | OUAdd _ _ | OUAddRel _ _ _
  | OURemove _ _ | OUExchange _ _ _ _ | OUSetRel _ _ | ORemoveEntity _ | ORemoveEntities _ _ _
  | OReset | OShrink _ | ONewBatch _ _ _ _ _ | OExchangeBatch _ _ _ _ _ _ | OSetRelBatch _ _ _ _ => true
  | _ => false
  end.

(** A computation that never changes the state (it may fail). *)
Definition readonly {A} (m : MW A) : Prop := forall s, state_of (m s) = s.

Lemma readonly_ret A (a : A) : readonly (ret a).
Proof. intros s; reflexivity. Qed.
Lemma readonly_fail A e : readonly (@fail W A e).
Proof. intros s; reflexivity. Qed.
Lemma readonly_get : readonly (@get W).
Proof. intros s; reflexivity. Qed.
Lemma readonly_guard b e : readonly (@guard W b e).
Proof. intros s; destruct b; reflexivity. Qed.
Lemma readonly_of_opt A (o : option A) e : readonly (@of_opt W A o e).
Proof. intros s; destruct o; reflexivity. Qed.
Lemma readonly_bind A B (m : MW A) (k : A -> MW B) :
  readonly m -> (forall a, readonly (k a)) -> readonly (bind m k).
Proof.
  intros Hm Hk s. unfold bind. specialize (Hm s).
  destruct (m s) as [a s'|e s'] eqn:E; cbn in Hm; subst; [apply Hk | reflexivity].
Qed.
Lemma readonly_forM A (l : list A) (f : A -> MW unit) : (forall a, readonly (f a)) -> readonly (forM_ l f).
Proof.
  intros Hf; induction l as [|x l IH]; cbn [forM_]; [apply readonly_ret|].
  apply readonly_bind; [apply Hf | intros _; exact IH].
Qed.
Lemma readonly_mapM A B (l : list A) (f : A -> MW B) : (forall a, readonly (f a)) -> readonly (mapM l f).
Proof.
  intros Hf; induction l as [|x l IH]; cbn [mapM]; [apply readonly_ret|].
  apply readonly_bind; [apply Hf | intros y].
  apply readonly_bind; [exact IH | intros ys; apply readonly_ret].
Qed.

Ltac ro :=
  repeat first
    [ apply readonly_ret | apply readonly_fail | apply readonly_get | apply readonly_guard
    | apply readonly_of_opt
    | apply readonly_bind; [| intros ?]
    | apply readonly_forM; intros ?
    | apply readonly_mapM; intros ? ].

Lemma readonly_resolveH h : readonly (resolveH h).
Proof. unfold resolveH; ro. Qed.
Lemma readonly_resolveR rels : readonly (resolveR rels).
Proof. unfold resolveR; ro; try apply readonly_resolveH. Qed.
Lemma readonly_resolve_relidx fi rels : readonly (resolve_relidx fi rels).
Proof.
  unfold resolve_relidx. destruct (no_relidx rels); [apply readonly_ret|].
  apply readonly_bind; [unfold getF; ro|]. intros f. destruct (f_unsafe f); [apply readonly_fail|].
  apply readonly_mapM. intros r. destruct (Nat.ltb (fst r) 1000); [apply readonly_ret|].
  apply readonly_bind; [apply readonly_of_opt|]. intros c. apply readonly_ret.
Qed.
Lemma readonly_check_unsafe_rels fi rels : readonly (check_unsafe_rels fi rels).
Proof.
  unfold check_unsafe_rels. destruct (is_nil rels); [apply readonly_ret|].
  apply readonly_bind; [unfold getF; ro|]. intros f. destruct (f_unsafe f); cbn [whenM]; [|apply readonly_ret].
  apply readonly_forM. intros r. apply readonly_bind; [apply readonly_get|]. intros s.
  apply readonly_bind; [apply readonly_guard|]. intros _. apply readonly_guard.
Qed.
Lemma readonly_to_relations m rels : readonly (to_relations m rels).
Proof. unfold to_relations; ro. Qed.
Lemma readonly_getF fi : readonly (getF fi).
Proof. unfold getF; ro. Qed.
Lemma readonly_batch_rels f brels : readonly (batch_rels f brels).
Proof. unfold batch_rels; ro; try apply readonly_getF; try apply readonly_to_relations. Qed.

(** [check_locked] fails on a locked world without changing it. *)
Lemma check_locked_locked s : is_locked s = true -> check_locked s = Err ELocked s.
Proof. intros H. unfold check_locked, bind, get. rewrite H. reflexivity. Qed.

(** A read-only prefix followed by a computation that starts with [check_locked]. *)
Definition blocked {A} (m : MW A) : Prop :=
  forall s, is_locked s = true -> exists e, m s = Err e s.

Lemma blocked_check A (k : unit -> MW A) : blocked (bind check_locked k).
Proof. intros s H. exists ELocked. unfold bind. rewrite (check_locked_locked s H). reflexivity. Qed.

Lemma blocked_after_readonly A B (m : MW A) (k : A -> MW B) :
  readonly m -> (forall a, blocked (k a)) -> blocked (bind m k).
Proof.
  intros Hm Hk s H. unfold bind. specialize (Hm s).
  destruct (m s) as [a s'|e s'] eqn:E; cbn in Hm; subst.
  - apply Hk; exact H.
  - exists e; reflexivity.
Qed.

Lemma blocked_bind_first A B (m : MW A) (k : A -> MW B) : blocked m -> blocked (bind m k).
Proof. intros Hm s H. destruct (Hm s H) as [e E]. exists e. unfold bind. rewrite E. reflexivity. Qed.

Lemma blocked_new_entity ids rels : blocked (new_entity ids rels).
Proof. unfold new_entity. apply blocked_check. Qed.
Lemma blocked_w_add e add rels : blocked (w_add e add rels).
Proof. unfold w_add. apply blocked_check. Qed.
Lemma blocked_w_remove e rem : blocked (w_remove e rem).
Proof. unfold w_remove. apply blocked_check. Qed.
Lemma blocked_w_exchange e add rem rels : blocked (w_exchange e add rem rels).
Proof. unfold w_exchange. apply blocked_check. Qed.
Lemma blocked_w_set_relations e rels : blocked (w_set_relations e rels).
Proof. unfold w_set_relations. apply blocked_check. Qed.
Lemma blocked_w_copy e : blocked (w_copy_entity e).
Proof. unfold w_copy_entity. apply blocked_check. Qed.
Lemma blocked_w_new_entities n fn : blocked (w_new_entities n fn).
Proof. unfold w_new_entities. apply blocked_check. Qed.
Lemma blocked_w_new_batch n ids rels vals fn : blocked (w_new_batch n ids rels vals fn).
Proof. unfold w_new_batch. apply blocked_check. Qed.
Lemma blocked_w_remove_entities f rels fn : blocked (w_remove_entities f rels fn).
Proof. unfold w_remove_entities. apply blocked_check. Qed.
Lemma blocked_w_exchange_batch f br add rem rels vals : blocked (w_exchange_batch f br add rem rels vals).
Proof. unfold w_exchange_batch. apply blocked_check. Qed.
Lemma blocked_w_set_relations_batch f br rels : blocked (w_set_relations_batch f br rels).
Proof. unfold w_set_relations_batch. apply blocked_check. Qed.
Lemma blocked_w_reset : blocked w_reset.
Proof. unfold w_reset. apply blocked_check. Qed.
Lemma blocked_w_shrink b : blocked (w_shrink b).
Proof. unfold w_shrink. apply blocked_check. Qed.

(** The world-level statement: on a locked world every structural operation, through every API
    path of the model, fails and leaves the complete state (entities, components, values,
    relations, lock state, every internal index) exactly as it was. *)
Theorem structural_blocked :
  forall debug o s, structural o = true -> is_locked s = true ->
  exists e, step_op debug o s = Err e s.
Proof.
  intros debug o s Hs Hl.
  destruct o; try discriminate Hs; cbn [step_op]; revert s Hl;
    match goal with |- forall s, is_locked s = true -> exists e, ?m s = Err e s => change (blocked m) end.
  - (* NewEntity *) apply blocked_check.
  - (* Unsafe.NewEntity *) apply blocked_bind_first, blocked_new_entity.
  - (* Unsafe.NewEntityRel *)
    apply blocked_after_readonly; [apply readonly_resolveR | intros rels'].
    apply blocked_bind_first, blocked_new_entity.
  - (* NewEntities *) apply blocked_bind_first, blocked_w_new_entities.
  - (* CopyEntity *)
    apply blocked_after_readonly; [apply readonly_resolveH | intros e'].
    apply blocked_bind_first, blocked_w_copy.
  - (* Unsafe.Add *)
    apply blocked_after_readonly; [apply readonly_resolveH | intros e'].
    apply blocked_after_readonly; [apply readonly_get | intros s0'].
    apply blocked_after_readonly; [apply readonly_guard | intros _].
    apply blocked_bind_first, blocked_w_add.
  - (* Unsafe.AddRel *)
    apply blocked_after_readonly; [apply readonly_resolveH | intros e'].
    apply blocked_after_readonly; [apply readonly_get | intros s0'].
    apply blocked_after_readonly; [apply readonly_guard | intros _].
    apply blocked_after_readonly; [apply readonly_resolveR | intros rels'].
    apply blocked_bind_first, blocked_w_add.
  - (* Unsafe.Remove *)
    apply blocked_after_readonly; [apply readonly_resolveH | intros e'].
    apply blocked_after_readonly; [apply readonly_get | intros s0'].
    apply blocked_after_readonly; [apply readonly_guard | intros _].
    apply blocked_bind_first, blocked_w_remove.
  - (* Unsafe.Exchange *)
    apply blocked_after_readonly; [apply readonly_resolveH | intros e'].
    apply blocked_after_readonly; [apply readonly_get | intros s0'].
    apply blocked_after_readonly; [apply readonly_guard | intros _].
    apply blocked_after_readonly; [apply readonly_resolveR | intros rels'].
    apply blocked_bind_first, blocked_w_exchange.
  - (* Unsafe.SetRelations *)
    apply blocked_after_readonly; [apply readonly_resolveH | intros e'].
    apply blocked_after_readonly; [apply readonly_resolveR | intros rels'].
    apply blocked_bind_first, blocked_w_set_relations.
  - (* RemoveEntity *)
    apply blocked_after_readonly; [apply readonly_resolveH | intros e'].
    apply blocked_check.
  - (* RemoveEntities *)
    apply blocked_after_readonly; [apply readonly_resolveR | intros brels'].
    apply blocked_after_readonly; [apply readonly_batch_rels | intros br'].
    apply blocked_bind_first, blocked_w_remove_entities.
  - (* Reset *) apply blocked_bind_first, blocked_w_reset.
  - (* Shrink *) apply blocked_bind_first, blocked_w_shrink.
  - (* NewBatch *)
    apply blocked_after_readonly; [apply readonly_resolveR | intros rels'].
    apply blocked_bind_first, blocked_w_new_batch.
  - (* ExchangeBatch *)
    apply blocked_after_readonly; [apply readonly_resolveR | intros brels'].
    apply blocked_after_readonly; [apply readonly_resolveR | intros rels'].
    apply blocked_after_readonly; [apply readonly_batch_rels | intros br'].
    apply blocked_after_readonly; [apply readonly_to_relations | intros _].
    apply blocked_bind_first, blocked_w_exchange_batch.
  - (* SetRelationsBatch *)
    apply blocked_after_readonly; [apply readonly_resolveR | intros brels'].
    apply blocked_after_readonly; [apply readonly_resolveR | intros rels'].
    apply blocked_after_readonly; [apply readonly_batch_rels | intros br'].
    apply blocked_after_readonly; [apply readonly_to_relations | intros _].
    apply blocked_bind_first, blocked_w_set_relations_batch.
Qed.

(** Reads do not consult the lock: Alive, Has, Get, GetRelation, IDs, Stats and query
    Count/EntityAt/Entity never change the state, locked or not. *)
Definition reading (o : op) : bool :=
  match o with
  | OAlive _ | OHas _ _ | OIDs _ | OStats => true
  | _ => false
  end.

Lemma readonly_getT i : readonly (getT i).
Proof. unfold getT; ro. Qed.
Lemma readonly_get_index e : readonly (get_index e).
Proof. unfold get_index; ro. destruct (nth_error _ _) as [[[t|] r]|]; ro. Qed.

Theorem reads_do_not_change_state :
  forall debug o s, reading o = true -> state_of (step_op debug o s) = s.
Proof.
  intros debug o s Hr.
  destruct o; try discriminate Hr; cbn [step_op]; revert s;
    match goal with |- forall s, state_of (?m s) = s => change (readonly m) end; ro;
    try apply readonly_resolveH; try apply readonly_get_index; try apply readonly_getT.
  all: match goal with |- readonly (match ?x with _ => _ end) => destruct x as [[[?|] ?]|]; ro end.
Qed.

