(** * WiringProofs: a consistent wiring makes the typed accessors equal to the ID-based ones. *)
From Coq Require Import List Arith Bool Lia.
Import ListNotations.
From Ark Require Import Model.Wiring.


Lemma nth_error_map_seq : forall V (f : nat -> V) n i, i < n -> nth_error (map f (seq 0 n)) i = Some (f i).
Proof.
  intros V f n i H. rewrite nth_error_map, nth_error_nth' with (d := 0) by (rewrite seq_length; exact H).
  rewrite seq_nth by exact H. reflexivity.
Qed.

Lemma map_nth_seq_id : forall (l : list nat), map (fun k => nth k l 0) (seq 0 (length l)) = l.
Proof.
  intros l. apply nth_ext with (d := 0) (d' := 0); [rewrite map_length, seq_length; reflexivity|].
  intros i Hi. rewrite map_length, seq_length in Hi.
  rewrite nth_indep with (d' := nth 0 l 0) by (rewrite map_length, seq_length; exact Hi).
  rewrite (map_nth (fun k => nth k l 0) (seq 0 (length l)) 0 i). rewrite seq_nth by exact Hi. reflexivity.
Qed.

Theorem typed_get_identity : forall V (get : nat -> V) ids,
  typed_get get ids (seq 0 (length ids)) = id_get get ids.
Proof.
  intros V get ids. unfold typed_get, id_get.
  rewrite <- (map_nth_seq_id ids) at 2. rewrite map_map. reflexivity.
Qed.

(** A strictly ascending list of [n] tags below [n] IS the identity wiring. *)
Fixpoint sascending (prev : option nat) (l : list nat) : bool :=
  match l with
  | [] => true
  | t :: rest => (match prev with None => true | Some p => Nat.ltb p t end) && sascending (Some t) rest
  end.

Lemma sascending_lower : forall l p, sascending (Some p) l = true -> forall i t, nth_error l i = Some t -> p + 1 + i <= t.
Proof.
  induction l as [|x l IH]; intros p H i t Hi; [destruct i; discriminate|].
  cbn in H. apply andb_true_iff in H. destruct H as [H1 H2]. apply Nat.ltb_lt in H1.
  destruct i as [|i]; cbn in Hi.
  - inversion Hi; subst. lia.
  - specialize (IH x H2 i t Hi). lia.
Qed.

Lemma last_index : forall (l : list nat), l <> [] -> exists t, nth_error l (length l - 1) = Some t /\ In t l.
Proof.
  intros l Hl. destruct (nth_error l (length l - 1)) as [t|] eqn:E.
  - exists t. split; [reflexivity | eapply nth_error_In; exact E].
  - apply nth_error_None in E. destruct l; [congruence | cbn in E; lia].
Qed.

Lemma asc_seq : forall l p, sascending (Some p) l = true -> (forall t, In t l -> t < p + 1 + length l) ->
  l = seq (p + 1) (length l).
Proof.
  induction l as [|x l IH]; intros p Ha Hb; [reflexivity|].
  cbn in Ha. apply andb_true_iff in Ha. destruct Ha as [H1 H2]. apply Nat.ltb_lt in H1.
  assert (Hx : x = p + 1).
  { destruct l as [|y l'].
    - specialize (Hb x (or_introl eq_refl)). cbn in Hb. lia.
    - destruct (last_index (y :: l') ltac:(discriminate)) as (t & Ht & Hin).
      pose proof (sascending_lower (y :: l') x H2 _ t Ht) as Hlow.
      specialize (Hb t (or_intror Hin)). cbn [length] in *. lia. }
  subst x. cbn [length seq]. f_equal.
  rewrite (IH (p + 1) H2) at 1; [replace (p + 1 + 1) with (S (p + 1)) by lia; reflexivity|].
  intros t Ht. specialize (Hb t (or_intror Ht)). cbn [length] in Hb. lia.
Qed.

Theorem ascending_full_is_identity : forall l n,
  sascending None l = true -> length l = n -> (forall t, In t l -> t < n) -> l = seq 0 n.
Proof.
  intros l n Ha Hl Hb. destruct l as [|x l]; [subst n; reflexivity|].
  cbn in Ha. cbn [length] in Hl.
  assert (Hx : x = 0).
  { destruct l as [|y l'].
    - specialize (Hb x (or_introl eq_refl)). cbn in Hl. lia.
    - destruct (last_index (y :: l') ltac:(discriminate)) as (t & Ht & Hin).
      pose proof (sascending_lower (y :: l') x Ha _ t Ht) as Hlow.
      specialize (Hb t (or_intror Hin)). cbn [length] in *. lia. }
  subst x. subst n. cbn [seq]. f_equal.
  rewrite (asc_seq l 0 Ha) at 1; [reflexivity|].
  intros t Ht. specialize (Hb t (or_intror Ht)). lia.
Qed.

(** Hence: a typed accessor whose return list is strictly ascending, has one element per type
    parameter and only refers to existing parameters equals the ID-based accessor, position by
    position. *)
Theorem consistent_wiring_is_id_based : forall V (get : nat -> V) ids w,
  sascending None w = true -> length w = length ids -> (forall t, In t w -> t < length ids) ->
  typed_get get ids w = id_get get ids.
Proof.
  intros V get ids w Ha Hl Hb. rewrite (ascending_full_is_identity w (length ids) Ha Hl Hb).
  apply typed_get_identity.
Qed.

(** [ascending] of Model/Wiring.v on fully tagged single-tag elements is [sascending]. *)
Lemma ascending_singletons : forall w p, ascending p (map (fun t => [t]) w) = sascending p w.
Proof. induction w as [|t w IH]; intros p; cbn; [reflexivity|]. rewrite IH. reflexivity. Qed.

(** An assignment unit that passes the check never mixes two parameters. *)
Theorem assign_ok_same_parameter : forall line k elems,
  unit_ok (mk_wunit WAssign line [k] elems) = true -> forall e t, In e elems -> In t e -> t = k.
Proof.
  intros line k elems H e t He Ht. cbn in H. rewrite forallb_forall in H. specialize (H e He).
  unfold all_eq in H. rewrite forallb_forall in H. specialize (H t Ht). apply Nat.eqb_eq in H. congruence.
Qed.
